#!/bin/bash
# tools/merge4.sh <work id, e.g. rc13> [--apply]  — list (and with --apply copy) the files a wave worker created or changed
# in its private copy /tmp/w_<id>/verif since its PROMPT.txt was written.  Files changed on BOTH sides are listed as
# CONFLICT and never copied.
id=$1; W=/tmp/w_$id/verif; ref=/tmp/w_$id/PROMPT.txt
cd $W || exit 1
for f in $(find lean/PyElf lean/Drv harness tools registry -newer $ref -type f \( -name "*.lean" -o -name "*.py" -o -name "*.tsv" -o -name "*.sh" \) 2>/dev/null | grep -v "/Gen/\|\.lake\|__pycache__\|Audit_"); do
  if [ -f /verif/$f ]; then
    if cmp -s $f /verif/$f; then continue; fi
    # changed in /verif since the copy was taken?
    if [ /verif/$f -nt $ref ] && ! git -C /verif diff --quiet HEAD -- $f 2>/dev/null; then st=CONFLICT-uncommitted
    elif [ -n "$(git -C /verif log --since="$(date -r $ref '+%Y-%m-%d %H:%M:%S')" --format=%h -- $f)" ]; then st=CONFLICT
    else st=CHANGED; fi
  else st=NEW; fi
  echo "$st $f"
  if [ "$2" = "--apply" ] && [ "$st" != "CONFLICT" ] && [ "$st" != "CONFLICT-uncommitted" ]; then mkdir -p /verif/$(dirname $f); cp $f /verif/$f; fi
done
ls $W/fixes/*.patch 2>/dev/null | while read p; do [ -f /verif/fixes/$(basename $p) ] || echo "FIX $p"; done
