#!/usr/bin/env python3
"""Write /verif/MANIFEST.json from the table below (kept in one place so it stays current)."""
import json, os

VERIF = os.path.dirname(os.path.dirname(os.path.abspath(__file__)))

LEVEL_NOTE = ('Trusted base: Lean 4.33 kernel; axioms propext/Classical.choice/Quot.sound only (audited by #print axioms on every run; '
              'no native_decide, bv_decide, sorry or own axioms); translators tools/gen T1/T2/T3 (unverified, syntax-directed, regenerate '
              'lean/PyElf/Gen from /repo on every run); the correspondence harness (sampling) as the tie for hand-written control-flow models; '
              'CPython, io.BytesIO, struct, zlib, bisect and the vendored construct engine are modelled, not verified; the Spec side is my reading '
              'of the standards. ')

# property id -> (claimed?, technique, level text, extra note, design ref)
CHECKS = {
    'C16': ('Lean 4 theorems (round-trip for every value, encoding length, byte order, surrounding bytes; truncation and reserved '
            'escapes) about the construct model + regenerated struct bundles + exhaustive/random correspondence with the real decoders',
            'Proof: every primitive decoder of the model inverts the standard encoding for all inputs (induction on the digit string / byte list); '
            'the model is tied to the code by regenerating the construct terms from /repo (T2) and by differential runs of the real decoders '
            'against the model on exhaustive short inputs and random long ones.',
            'Hand-modelled: the ULEB128/SLEB128/CString/24-bit/initial-length parse loops (Con.parse) and parse_cstring_from_stream; '
            'tie = correspondence. Initial lengths 0xffffff00..0xffffffef (legal 32-bit lengths in DWARF 3+, rejected by the code) are outside the claim.',
            'DESIGN.md §6 C16'),
}

# properties whose checks are registered (theorems proved, check green on the unchanged tree)
READY = {'C16', 'C12', 'C06', 'C13', 'C14', 'C20', 'C08', 'C03', 'C01', 'C19', 'C05', 'C07', 'C15', 'C17', 'C09', 'C04', 'C02', 'C10', 'C11'}

CHECKS['C12'] = (
    'Lean 4 theorems: round trip parse(encodeOps ops) = annotate ops for every well-formed operation sequence (any length, nesting depth, '
    'padded LEB128) over the REGENERATED per-configuration dispatch tables, kernel-decided equality of the regenerated opcode/name/operand-signature '
    'tables with the DWARF 2-5 + GNU/WASM table (decide +kernel), fuel sufficiency; correspondence of parse_expr with the model on spec-encoded and raw inputs',
    'Proof: the parse loop model returns exactly the encoded operations with offsets = prefix sums, recursively for nested blocks, for all 32 '
    '(byte order, format, address size, version) configurations; names and opcodes are in bijection on operations. The operand signature of every opcode is '
    'regenerated from the live dispatch closures on each run and kernel-checked against the standard table.',
    'Hand-modelled: the parse_expr loop, read_blob and the closure shapes (recognised by introspection; unrecognised shapes are refused and break the tie theorem). '
    'Composed with C04 end to end: debug_info_exprs_exact / debug_types_exprs_exact (every expression-class attribute of every entry of a well-formed forest parses, in THAT unit\'s configuration, to the encoded '
    'operations; parser_cache_independent, dispatch_key_exact: byte order, address size and reference size — hence the version — are exactly what a dispatch table depends on). Operand extremes are explicit corollaries '
    '(blocks of length 0/255/256+, 10/11-byte LEB128, both address sizes, reference operands: address-sized in DWARF 2 since fix ref-operand-dwarf2). Truncation at every byte is a theorem (cut at an operation boundary -> the '
    'prefix; inside an operation -> ELFParseError). DW_OP_lo_user/hi_user are range markers, excluded from the bijection as the standard defines them. Correspondence-only: arbitrary bytes (unknown opcodes, byte flips). '
    'CPython recursion limit (~300 nested blocks) is outside the model.',
    'DESIGN.md §6 C12')

CHECKS['C06'] = (
    'Lean 4 theorems: one-step simulation of the dict-based CFI interpreter by the DWARF §6.4 reference machine for all 28 opcodes and its lift to whole '
    'CIE/FDE tables (induction over the instruction list), instruction-stream round trip for every opcode; regenerated DW_CFA/DW_EH tables and header '
    'structs kernel-checked against the Spec; correspondence of _parse_entries/_decode_CFI_table with the model on spec-encoded and damaged sections',
    'Proof: the decoded unwind table equals the table DWARF §6.4 defines (code/data alignment, restore to CIE rules, remember/restore, final row) for every '
    'instruction sequence on which the standard machine is defined; instruction streams are split into exactly the encoded opcodes/operands.',
    'entries_exact (section-level entry list: kinds, headers, augmentation data, pcrel pointers, LSDA, FDE->CIE links, zero terminators, cache hits) is proved for .debug_frame and .eh_frame; reg_order is proved. '
    'Whole files: cfi_entries_of_file / eh_cfi_entries_of_file / has_cfi_of_file / file_cfi_table compose the section theorems with C11\'s view and C01 (plain, gABI-compressed, .zdebug, relocated contents; sh_addr is the '
    'base of the pcrel encodings). Malformed classes are theorems at instruction, entry and scan level (unknown opcode -> DWARFError; declared length past the data / truncated instruction -> ELFParseError; length ending '
    'inside an instruction -> read in full; augmentation not z/armcc -> AssertionError; CIE pointer past the data -> ELFParseError, before the start (.eh_frame) -> ValueError; a found entry is taken for a CIE unchecked; '
    'entries_exact_prefix). The known finding eh-set-loc-encoding has boundary theorems (set_loc_reads_target_addr, set_loc_eh_absptr, set_loc_eh_missplit: a proved mis-split under pcrel|sdata4; set_loc_class_iff_excluded). '
    'Correspondence-only: malformed FDE bodies at entry level, malformed entries before well-formed ones, self-referential FDEs (RecursionError / outOfFuel), arbitrary byte damage. CIE v4 address_size != container size is outside WF.',
    'DESIGN.md §6 C06')
CHECKS['C13'] = (
    'Lean 4 theorems: aranges entries exact and sorted; bisect-based lookup = "the range containing the address" under the no-shadow hypothesis (with a '
    'proved counterexample showing the hypothesis is needed); name tables: exact ordered-dict content (keys by first occurrence, value of the last occurrence) for any '
    'number of sets with duplicates; unit chain / get_CU_containing / get_CU_at / get_DIE_from_lut_entry over sections of DWARF 2-5 units (all six v5 unit types, both '
    'formats, mixed) in every cache state satisfying an invariant every lookup preserves; address -> unit composition incl. absent / empty tables; correspondence incl. '
    'exhaustive offsets of multi-unit sections',
    'Proof: lookup tables resolve to the unit whose encoded range/extent contains the query, for all queries and all cache states; bisect_right is modelled '
    'as CPython\'s loop and proved equal to the count of keys <= x on sorted lists; the v5 unit headers reuse C04\'s header theorems.',
    'Correspondence-only: malformed / truncated tables and error classes, shadowed range tables (the claim\'s boundary), ill-formed UTF-8 names, 64-bit-format aranges/name tables '
    '(outside the quantifier), histories calling get_CU_at at an offset where no unit starts (poisons the cache by design, see C10). Composed with C04\'s end-to-end theorem: ref_addr_scan_agrees '
    '(the bisect/cache lookup equals C04\'s linear scan for every integer offset and every reachable cache), ref_addr_resolution_exact, lut_entry_die_exact, name_to_die_exact (name -> DIE from the bytes of '
    'both sections), addr_to_top_die — all from section bytes of a well-formed forest. The per-unit DIE cache behind _get_cached_DIE is C10\'s subject.',
    'DESIGN.md §6 C13')
CHECKS['C14'] = (
    'Lean 4 theorems: note-walk round trip for any number of notes, any name/descriptor size residue, all seven descriptor grammars, both classes/orders, '
    'core vs not, closed over the regenerated bundles via tie theorems; section view = segment view; stabs exact; correspondence on spec-encoded, raw and '
    'shipped-binary extents',
    'Proof: iterating a note extent yields exactly the encoded notes with offsets and padded sizes, consuming the extent; known descriptors decode to their fields.',
    'Whole-file forms compose the extent theorems with C01 (any byte string carrying a wfZ description: section view, segment view inside / over several sections, their equality; '
    '…_generated forms over the regenerated factory), and the edge of the domain is proved (truncated header, last note past the extent, unpadded final note, unterminated name, '
    'descriptor cut by EOF, zero-length names, unknown types/owners). Correspondence-only: descriptors of a known type without that type\'s grammar, bytes after the name terminator, '
    'structured descriptors cut by EOF, files outside wfZ.',
    'DESIGN.md §6 C14')
CHECKS['C20'] = (
    'Lean 4 theorems: attribute-section round trip (any number of subsections / sub-subsections / attributes, padded ULEB128, both byte orders and '
    'architectures); prel31 expansion (T3-translated from the Python) = sign extension from bit 30 for all words; exidx entry classification = EHABI '
    'reference decoder on every image; byte-code disassembly = EHABI table 4 for every array; regenerated decoder ring / tag dispatch tables checked '
    'against the Spec; correspondence incl. exhaustive short byte-code arrays',
    'Proof: build attributes and ARM unwind entries decode to exactly what is encoded, for all inputs; truncated byte-code operands are exactly IndexError.',
    'Whole-file forms through C01 (file_attributes_exact incl. by name, file_ehabi_exact with table references resolved by file offset into .ARM.extab placed anywhere, get_ehabi_infos; _generated forms). '
    'Order-independence is a refinement theorem over a history model (generators keep their own offset; interleaving_irrelevant, answers_independent_of_history, levelwise_eq_nested) — on the code after fix a33f3a2 '
    '(_make_attributes relied on the shared stream position across yields). Malformed input: unknown tag, sh_size past the file, truncation after any byte -> ELFParseError; well-formed prefix walked exactly. '
    'Correspondence-only: length fields pointing into the middle of a structure, zero length fields (the Python loops; model outOfFuel), compressed attribute sections, iter_* with a filter. '
    'Table references wrapping to >= 2^63 are excluded by hypothesis.',
    'DESIGN.md §6 C20')

CHECKS['C08'] = (
    'Lean 4 theorems: REL/RELA/MIPS64 entry round trip for every configuration; RELR expansion = the standard expansion for all word streams (bit-level '
    'and stream induction); regenerated recipe tables walked by the kernel against the psABI table with, per T3-translated calc function, equality with the '
    'psABI formula for all S, A, P, V; application frame theorem (only the field changes; value mod 2^(8w) in the file byte order); rejection theorems; '
    'correspondence on Lean-assembled relocatable objects for every machine',
    'Proof: relocation tables decode exactly; RELR expands to the addresses its anchors and bitmaps denote; each supported (machine, type) computes the psABI formula '
    'truncated to the field width and leaves every other byte unchanged; unsupported types, wrong flavour and out-of-range symbols are the relocation error.',
    'apply_section_eq_std is proved under a symbol-table layout predicate; whole-file forms through C01 (file_rel_roundtrip, file_relr_eq_std, file_find_relocations_exact with by-name = by-sh_info under '
    'namesFollowInfo, file_apply_section_eq_std, file_read_dwarf_section_relocated on C11\'s reader). Two boundaries became theorems after repairs: R_*_NONE touches no bytes at any offset (fix efcb092: it used to read '
    'and rewrite 4/8 bytes and failed near the section end), every MIPS64 composite entry is rejected (fix 202f23a: only R_MIPS_64/RELA was checked). Dynamic.get_relocation_tables without WFDynRelocs: '
    'missing DT_*SZ / DT_*ENT / DT_PLTREL, bad entry sizes, unmapped tables each have an exact-outcome theorem (a bare StopIteration for a missing size tag: malformed array, documented boundary). '
    'The RELR cache _cached_relocations is a refinement theorem over a history model (Model/RelrCache on the generic lazily-built-cache machine Model/SigCache): relr_cache_history_independent (any table, any history of num_relocations / get_relocation(n) incl. negative and out-of-range n, after failed expansions), relr_cache_published_iff, relr_cache_exact (with relr_eq_std); the driver runs the cache model and the harness compares it with one live table object and with _cached_relocations is not None. '
    'Correspondence-only: R_ARM_CALL/BPF recipes (no psABI claim), ill-formed UTF-8 section names, sh_link not a symbol table, COMDAT duplicate names (first section by name wins), truncated short reads.',
    'DESIGN.md §6 C08')
CHECKS['C03'] = (
    'Lean 4 theorems: Elf_Sym round trip (both classes), table enumeration / by-name lookup exact under a layout predicate; T3-translated gnu_hash and elf_hash '
    '= the 32-bit gABI functions for all names; SysV and GNU hash lookup sound and complete on every well-formed table (bloom false positives, bucket and hash|1 '
    'collisions), symbol counts exact; correspondence on Lean-built tables with forced collisions',
    'Proof: symbol tables enumerate exactly; hash lookups return a symbol with the requested name iff one is in the hashed part; counts equal the table length.',
    'The builders are proved to satisfy WF for every symbol list (buildSysV_wf, buildGnu_wf, buildGnu_perturbed_wf), so the lookup theorems are closed end to end over built tables. '
    'Whole-file forms through C01 (symtab_file_exact, sysv/gnu_file_exact, syminfo/shndx_file_exact, by-name incl. .dynsym, SHN_XINDEX companion found by the sh_link scan; _generated forms over the '
    'regenerated factory) for any byte string carrying a wfZ description. Link guards are theorems over a relaxed domain wfZCore (wrong type -> ELFError; header entry beyond the file -> TypeError as the code '
    'has it; truncated entry -> ELFParseError; nested links). Names that are not valid UTF-8: Python\'s errors=replace decoding is modelled (Unicode 15 §3.9 maximal subparts) and the reported names / name map / '
    'SysV lookups are proved for arbitrary name bytes. Correspondence-only: malformed table contents, GNU-hash lookups under ill-formed name bytes (judged by a must/may rule), stray in-file headers with an accepted type, offsets >= 2^63. The cache _symbol_name_map is an instance of the generic cache machine (Model/SymCache): symtab_by_name_history_independent, symtab_failed_walk_publishes_nothing (any bytes, any history of get_symbol_by_name on one section object); tie: the harness asks all names of a case on ONE live section object and compares with the stateless model.',
    'DESIGN.md §6 C03')

CHECKS['C01'] = (
    'Lean 4 theorems over abstract ELF descriptions (class x byte order x machine class x OS ABI x core; tables and bodies placed anywhere; padded entry sizes; '
    'extended-numbering escapes): opening, counts, every section by index (kind, name, every header field) incl. the constructor guards of every section kind, '
    'enumeration, segments (incl. PT_DYNAMIC lazy section search), name lookups, named/unnamed codes, the assembler produces a layout; struct bundles and the '
    'e_machine partition regenerated and kernel-checked against the gABI Spec; correspondence on Lean-assembled and mutated images',
    'Proof: for every well-formed description and every byte string carrying it (Layout predicate), the model of elffile.py reports exactly the description\'s '
    'observation; the model is tied by regeneration (structs, tables, machine classes) and by differential runs against the real ELFFile.',
    'Two domains: wf (no SHF_COMPRESSED flag) and wfZ (flagged sections begin with a Chdr); every exactness theorem has a _z form, the harness generates both (compressed name table included) and sets '
    'bodies shorter than a Chdr aside. get_section_index / has_section / get_section_by_name are theorems over the reader\'s own functions (last bearer wins; absent names). Names are bytes in the theorems; '
    'the library\'s UTF-8 decoding with U+FFFD replacement is modelled (Model/Utf8.lean) and compared on every run, files with ill-formed names are set aside for the direct comparison only. '
    'Images with >= 0xff00 sections / >= 0xffff segments run in the quick tier (run-length encoded; model compared at spot indices because List reads are quadratic). '
    'Files with sections but e_shstrndx = SHN_UNDEF: known finding no-name-table (names read out of the ELF header); extnum_only_partial proves everything but the names for the kernel core-dump shape. '
    'Outside the quantifier by gABI: overlap among header/tables, out-of-range or ill-typed sh_link where the constructor follows it, e_shoff = 0 with e_shstrndx != 0.',
    'DESIGN.md §6 C01')
CHECKS['C19'] = (
    'Lean 4 theorems quantified over ALL byte strings: openElf succeeds or fails with ELFError/ELFParseError only (the model raises typeError/keyError/overflowError '
    'where Python would); successful section/segment indices are bounded by the file length (40i+40 / 32i+32 <= len) so enumeration stops after at most len/40+1 steps '
    'whatever count a corrupt header claims; link recursion never exhausts its fuel; correspondence of the constructor on fault-injected inputs; a termination battery '
    'run under RLIMIT_AS and a wall-clock limit with directed count-amplification faults',
    'Proof for the constructor closure and the section/segment enumeration bounds; the runtime half (CPython time and memory) is partial by nature and covered by the '
    'fault-injection battery (supporting evidence and failing-input search, not the proof).',
    'Partial by nature: the theorems bound model iterations, not CPython time/allocation. Loop bounds by file size are also proved for the note walk, the dynamic-tag scan, the hash-table '
    'symbol counts and header enumeration (Props/C19Loops); the version-record walk is not in the property\'s battery (DESIGN §10.1).',
    'DESIGN.md §6 C19')
CHECKS['C05'] = (
    'Lean 4 theorems: decoded rows = the DWARF §6.2 state machine run over the instruction list (induction generalising registers, file list, fuel) for versions 2-5, all '
    'header parameters, every standard/extended/special/unknown opcode, padded LEB128; decoding consumes exactly the extent; header round trip for versions <= 4 (v5 closed '
    'instances); cache coherence; regenerated header struct and DW_LNS/DW_LNE constants tied to the Spec; correspondence on spec-encoded and mutated programs',
    'Proof: rows equal the standard machine\'s for every well-formed program; the program attached to a unit is the one DW_AT_stmt_list designates.',
    'line_header_roundtrip_ext / _v5 cover versions 2-5 with any extension bytes under header_length (honoured since fix 087c37c), the composed v5 header incl. resolved names and the synthesised legacy views; '
    'parameters need only fit their fields: zero line_range / maximum_operations_per_instruction give exactly ZeroDivisionError at the first dividing instruction. End to end from section bytes, composed with C04: '
    'line_programs_from_sections (for every well-formed forest and every .debug_line description — programs shared by units, in any order, with gaps — line_program_for_CU of every unit of iter_CUs() is the program '
    'its DW_AT_stmt_list designates: header, extent, rows = the standard machine), stmt_list_absent_from_sections, stmt_list_beyond_section, stmt_list_without_debug_line, linetable_cache_shared; whole files through '
    'C11\'s view (line_programs_of_file: plain / gABI / .zdebug storage alike). Correspondence-only: truncation, header_length below the known fields, disallowed (content type, form) pairs, DW_AT_stmt_list in a '
    'non-lineptr form, get_entries memoisation (C10). DW_FORM_strx* in line tables raises NotImplementedError (split DWARF, outside WF).',
    'DESIGN.md §6 C05')
CHECKS['C07'] = (
    'Lean 4 theorems: v4 and v5 list round trips for every DW_LLE/DW_RLE kind (padded ULEB128, any expression length), translation through the address table, offset-table '
    'index lookup, unit-block and range-list enumeration exact, attribute classification decided for all (name, version, form); regenerated entry/header structs and '
    'LLE/RLE tables tied to the Spec; correspondence incl. gaps, view pairs, every list-capable form',
    'Proof: lists fetched by offset, attribute or index are exactly the encoded entries, translated as the standard prescribes; enumeration of range lists and unit blocks is exact.',
    'Location-list enumeration is proved for v4 and v5 (visited offsets exactly the referred ones, sorted, gaps skipped); the LocationListsPair/RangeListsPair wrappers are modelled with dispatch theorems. '
    'The DIE-decoding interface is discharged with C04\'s end-to-end theorem: debug_info_cus_exact, die_decoding_exact, enumeration_exact_locations_v4_info / _v5_info, parse_from_attribute_info — from the '
    'bytes of .debug_info + .debug_abbrev + the list sections + .debug_addr, hypotheses on the description only (wfForestB, forestResolves: each index designates a slot inside its section). Expressions inside '
    'entries are C12\'s round trip (location_expr_ops_exact). enumeration_exact_ranges_info is partial (no section layout description for ranges: each fetch is the round-trip theorem). '
    'The unit-block and per-block list enumerations are additionally run INTERLEAVED on a fresh object (iter_cus_il / iter_cus_ex_il: between two advances of the suspended generators the next entry of .debug_info is parsed for the first time and the yielded list is translated) and must equal the plain enumeration, the model and the description. '
    'Correspondence-only: malformed lists, offsets beyond the section, offset-table index out of range, view-pair corner cases outside refsAgree.',
    'DESIGN.md §6 C07')
CHECKS['C15'] = (
    'Lean 4 theorems under a decidable layout predicate on the whole file (arbitrary, padded, interleaved, zero displacements): iter_versions with every aux chain = the '
    'encoded entries and names; prefix when sh_info declares fewer; get_version = first carrier or none; has_indexes; versym rows paired with symbol names for any entry size; '
    'five record structs + Elf_Sym tied to the Spec; correspondence on assembled and damaged images',
    'Proof: version sections yield exactly their encoded entries and auxiliary chains; index resolution returns the entry carrying the index or nothing.',
    'The assemblers are proved to satisfy the layout predicates for every description accepted by a structural well-formedness predicate (assemble_*_layout), giving closed …_carried_exact / '
    '…_assembled_exact forms; whole-file forms through C01 (get_section and get_section_by_name on any byte string carrying the description); chains that end early (next = 0, cnt beyond the chain) '
    'and chains that leave the file (ELFParseError) are theorems. The whole-file well-formedness examples are #guard-evaluated (Con.encodeRaw does not reduce in the kernel). '
    'Correspondence-only: byte-level damage outside those two classes, has_indexes / definition get_version on auxiliary-truncated entries, name decoding. The cache _has_indexes is a refinement theorem over the generic cache machine (Model/VerCache; has_indexes_history_independent, has_indexes_failed_walk_publishes_nothing: any bytes, any number of calls on one object); the driver answers a three-call history through the cache model and the harness compares it with three calls on one live section object — this exposed a genuine defect (the answer False was assigned before the walk: ELFParseError, then False), repaired by fix 41cb572 and recorded under C10 (has-indexes-cached-before-walk).',
    'DESIGN.md §6 C15')
CHECKS['C17'] = (
    'Lean 4 kernel evaluation (decide +kernel over Nat-keyed tables, one theorem per regenerated table + a catch-all over the table index): every (name, value) the library '
    'exports whose name a vendored registry (glibc elf.h, LLVM ELF.h/ELFRelocs/DynamicTags/Dwarf.def, aaelf64 for two names) defines has a registry value; the decode direction '
    'reports standard names (explicit 8-name legacy-alias exception list); reverse maps consistent; direct comparison of the live Python tables with the registry TSVs',
    'Proof by exhaustive kernel check of the tables regenerated from /repo on every run against the vendored registries; the range-marker rule (LO/HI markers bracket, and never shadow, a defined name) is a kernel-checked theorem per table family.',
    'Trusted: the one-time registry extraction (registry/extract_registry.py, values printed by this image\'s gcc/clang), the name-key function, registry decisions (count pseudo-constants excluded; '
    'either value accepted where glibc and LLVM disagree). Names no registry knows are not judged (counted as unmatched).',
    'DESIGN.md §6 C17')

CHECKS['C09'] = (
    'Lean 4 theorems: iter_tags/num_tags = the entries through the first DT_NULL with string attributes resolved (entries after the terminator ignored); string table selection by '
    'link or by DT_STRTAB through the PT_LOAD map; get_table_offset for the followed tags; num_symbols exact under WFGnu or WFSysV (max-bucket chain walk, GNU precedence); '
    'kernel-checked facts about the four regenerated d_tag tables; 11 struct ties; correspondence on Lean-assembled images with and without section headers',
    'Proof: the dynamic table, its strings and the symbol count recovered through the hash tables are exactly the encoded ones, from the section view and from the segment view.',
    'segment_view_eq_section_view and symbols_exact are proved at full strength over assembled images (…_partial forms kept). by_name_exact for both layouts and all three string-table routes (section link, '
    'DT_STRTAB pointer, .dynstr by name); the no-hash count fallback has its exact value (num_symbols_fallback), the precise condition under which it equals the true count (…_exact_iff) and a counterexample '
    'theorem (DT_STRSZ lying between the tables: the reader counts 0 of 2 symbols — an estimate by design, not judged as a defect); error side: no string table, unmapped symbol table, DT_SYMENT mismatch '
    '(fallback path only), table without DT_NULL. The two lazily built caches of DynamicSegment (_num_symbols, _symbol_name_map) are instances of the generic cache machine (Model/DynCache on Model/SigCache): num_symbols_history_independent, by_name_history_independent, by_name_failed_walk_publishes_nothing — any image, any history; their tie is the segment view of the harness (count, abandoned walk, full walk and every second by-name query on ONE live object, compared with the stateless model). Correspondence-only: relocation entries (C08), DynamicSection view of an unterminated table, ill-formed UTF-8 names, GNU-hash count on malformed tables.',
    'DESIGN.md §6 C09')
CHECKS['C04'] = (
    'Lean 4 theorems: END-TO-END debug_info_exact / debug_types_exact — for every well-formed forest description (units of DWARF 2-5, both formats, every unit type, abbreviation tables '
    'placed anywhere in .debug_abbrev behind arbitrary gaps and shared between units) the model of iter_CUs()/iter_TUs() + iter_DIEs() on the Spec encoding yields exactly the described units '
    'and, per unit, the preorder flattening with resolved attribute values, parents, children and sizes tiling to the declared length; the model in the statement is the one the driver runs '
    '(regenerated registry, bundles and raw2name); layers below it: form round trip (46 forms incl. legacy DW_FORM_ref x 32 configurations), abbreviation tables, entries with DW_FORM_indirect chains '
    'and implicit_const, top DIE with deferred translation, value translation, unit/type-unit headers, references (unit-relative, section-relative, sig8 over the type units of .debug_types AND the DWARF 5 type units of .debug_info with both whole-section scans: ref_sig8_debug_types, ref_sig8_debug_info_v5, ref_sig8_absent); '
    'correspondence of the full DIE model on Lean-encoded forests',
    'Proof of every layer and of their composition: the only hypotheses of the section theorems are the description\'s decidable well-formedness (wfForestB, evaluated by the driver on every case) and '
    'address size in {4, 8}.',
    'DW_FORM_ref_sig8 to a DWARF 5 type unit in .debug_info: former known finding sig8-v5-type-unit, repaired (fix 6a8fa76) and now a theorem; the signature-map cache _type_units_by_sig is a refinement theorem (sig8_history_independent, sig8_published_iff, ref_sig8_scan_error, sig_scan_types_error_first, sig_scan_info_error: any file, any history of lookups) whose model the driver runs beside the stateless lookups. '
    'Not connected by a theorem: the driver\'s linear section-relative lookup vs C13\'s bisect model of get_CU_containing (each proved against the Spec separately); the cache refinement of _get_cached_DIE is C10\'s subject.',
    'DESIGN.md §6 C04')

CHECKS['C02'] = (
    'Lean 4 theorems: section data = extent / zero block / inflated payload with logical size and alignment from the Chdr (zlib as a parameter with one stated assumption), '
    'rejection of size mismatches and unknown ch_type; Chdr round trip; segment data; interpreter string; chunked string reader = first-NUL slice for every chunk size; '
    'address_offsets exact; section_in_segment = the strict containment rule for all field values, and = the binutils macro in mod-2^64 arithmetic under no-overflow '
    '(with a proved wrap counterexample); kernel-checked naming of the p_type/sh_type/ch_type codes the rule uses in every regenerated table; correspondence on systematic geometry recipes',
    'Proof: contents, strings, address mapping and the section-in-segment decision equal the Spec for all inputs of their domain.',
    'Whole-file forms compose every contents theorem with C01 (file_data_raw / _nobits / _compressed, file_get_string_*, file_segment_data_*, file_interp_name, file_addr_offsets, '
    'file_in_segment_strict over any byte string carrying a wfZ description); the error side is proved (offsets / sizes >= 2^63 -> OverflowError resp. ELFParseError, zlib errors propagated, '
    'declared != inflated size, unknown ch_type). in_segment_eq_C_macro_iff: under fits64 + no-wrap the code equals the WHOLE binutils macro iff two clauses are inert (the .tbss size rule and the '
    'PT_DYNAMIC/PT_NOTE empty-edge clause, which the code does not implement: counterexample theorems; the property lists the four condition groups the code has). zlib enters through one hypothesis '
    '(decompress(c, n) returns the first n bytes of the inflated payload). Correspondence-only: UTF-8 decoding, MemoryError for NOBITS sizes below 2^63, compressed sections shorter than a Chdr, the raw stream.',
    'DESIGN.md §6 C02')
CHECKS['C10'] = (
    'Lean 4 refinement: a state machine over the caches (unit list with CPython bisect, per-unit DIE list/map, parent/terminator links, suspended generators, line-program cache, section and '
    'symbol name maps, stream positions) with an invariant preserved by every operation incl. adversarial seeks and partial iterator consumption; for the lookup class of operations the '
    'answer in ANY reachable state equals the stateless answer (history independence, stream-position independence, repeatability); exhaustive history exploration to a depth bound and random '
    'soaks comparing a live object with freshly opened ones and with the Lean step function',
    'Proof for the invariant (all operations) and for answer refinement on lookups, navigation (children/parent/siblings) and generators (take/all, and the k-th item of a suspended generator '
    'after any interleaved history: suspended_generator_kth) under a tree hypothesis TreeWF; random_access_eq_sequential; exhaustive history exploration + correspondence beside them.',
    'Navigation ops are proved for entry offsets only (on a garbage offset the code hangs _parent links on a garbage object: genuinely history-dependent, excluded by OpValidT). '
    'ref/pubname refinement and siblings generators are proved; a cache layer (abbreviation tables shared between units, line-program objects, CallFrameInfo entries/_entry_cache) has its own '
    'invariant XInvT and refinement theorems (xanswer_refines, abbrev_table_shared, line_program_exact, cfi_cache_hit_eq_miss for arbitrary section contents). Exploration-only: section/segment/symbol '
    'access beyond the two name maps, stream positions of streams other than .debug_info, sibling-generator handles on the top DIE, CFI entries whose instructions overshoot their length followed by a '
    'retry (excluded by CfiWF). Caches built by one complete scan on first use (_type_units_by_sig, RELR _cached_relocations, GNUVerNeedSection._has_indexes, DynamicSegment._num_symbols / _symbol_name_map, SymbolTableSection._symbol_name_map) are covered by the generic machine Model/SigCache: lazy_cache_inv, lazy_cache_answers_independent_of_history, lazy_cache_failed_scan_publishes_nothing here, the instances with the library\'s scans and their correspondence in C04 (sig8_history_independent), C08 (relr_cache_history_independent), C15 (has_indexes_history_independent; this one exposed the defect has-indexes-cached-before-walk, fix 41cb572), C09 and C03. Known finding lineprogram-define-file-header (get_entries mutates the header; excluded by LPWF). Invalid get_CU_at offsets poison the cache by design (out of scope).',
    'DESIGN.md §6 C10')

CHECKS['C11'] = (
    'Lean 4 theorems at the section-table level: get_dwarf_info\'s view equals the logical content for any per-section mix of plain / gABI-compressed / .zdebug storage (view_of_content) '
    'and its corollaries (plain = gABI = zdebug); debug link followed iff the CRC matches (target\'s view), bad CRC rejected; declared != inflated size rejected on both compression paths; '
    'has_dwarf_info iff a debug-info section in either naming exists (or, non-strictly, .eh_frame); supplementary link parsing; regenerated name tuple / structs / constants tied to the Spec; '
    'correspondence: shipped and synthesized payloads re-wrapped under every transform x class x byte order x zlib level, full DIE/line/CFI dumps compared across wrappings',
    'Proof of the container-invariance of the view with zlib as a parameter (one assumption: decompress(deflate x, k) = x resp. its k-byte prefix) and CRC-32 as the Spec function (GDB manual) computed by the model; partial by nature for the real zlib.',
    'Whole-file forms (view_of_file, view_of_file_z, view_plain_eq_zdebug_file, view_plain_eq_gabi_file, view_with_sup_file) compose the section-table theorems with C01 over any byte string '
    'carrying the description. Relocations are inside the claim: view_of_content_relocated / view_relocated_invariant (the view is the RELOCATED logical content for any mix of plain / gABI / .zdebug '
    'storage; reuses C08\'s applyStd under WFApply; fix 11e84e2: .zdebug sections were relocated before decompression), view_unrelocated, reloc_rejected_rejects_file; view_composed_links '
    '(debug link -> debug file -> its supplementary link, each file in any encoding); the chunked CRC fold equals the one-shot CRC for every chunk size under the streaming law, which the Spec CRC-32 '
    'satisfies (file_crc32_spec). Correspondence-only: whole-file symbol tables carrying more than st_value, sh_link not designating a symbol table, phantom bytes with relocations, entries outside WFApply; '
    'zlib chunk independence and the invariance of DIE/line/CFI dumps through the DWARF layers are checked empirically.',
    'DESIGN.md §6 C11')

NOT_YET = {
}

NOT_APPLICABLE = {
    'C18': 'oracle is the output of the external GNU readelf binary; a Lean model of that program would be a second guess tied to it only by sampling — differential testing, not proof, is the honest technique (DESIGN.md §8)',
}


def main():
    props = [json.loads(l)['id'] for l in open(os.path.join(VERIF, 'properties.jsonl'))]
    checks = []
    for pid in props:
        if pid in CHECKS and pid in READY:
            tech, text, note, ref = CHECKS[pid]
            checks.append({
                'property_id': pid,
                'quick_cmd': './check %s --tier quick' % pid,
                'thorough_cmd': './check %s --tier thorough' % pid,
                'evidence_file': 'evidence/%s.json' % pid,
                'replay_cmd_template': './check %s --replay {path}' % pid,
                'engine': 'lean4-pyelf',
                'level_claimed': {'category': 'proof', 'text': text, 'design_ref': ref},
                'level_note': LEVEL_NOTE + note,
                'technique': tech,
            })
    na = []
    for pid in props:
        if pid in CHECKS and pid in READY:
            continue
        if pid in NOT_APPLICABLE:
            na.append({'property_id': pid, 'reason': NOT_APPLICABLE[pid]})
        else:
            na.append({'property_id': pid, 'reason': NOT_YET.get(pid, 'not claimed yet: model and theorems for this property are still being built (see DESIGN.md §6); no check is registered until its theorems are proved')})
    m = {
        'version': 1,
        'setup_cmd': './check --setup',
        'hooks': {
            'guard': 'PYELFTOOLS_VERIF',
            'enable': 'no source hooks are needed: checks import /repo in-process (sys.path[0]=/repo) and read only public attributes; PYELFTOOLS_VERIF=1 is exported by ./check for completeness',
            'baseline_off_cmd': 'cd /repo && /venv/bin/python -m pytest -ra -q -p no:cacheprovider --timeout=900 --continue-on-collection-errors',
            'source_commits': [],
            'add_only': True,
        },
        'engines': [{
            'name': 'lean4-pyelf',
            'path': 'lean/',
            'serves_properties': sorted(READY),
            'kind_free_text': 'Lean 4 models + theorems (lake project PyElf), regenerated from /repo by tools/gen, driven by harness/ over a JSON line protocol',
        }],
        'checks': checks,
        'not_applicable': na,
        'notes': 'See DESIGN.md. ./check exits 2 (never 1) when the toolchain itself fails or times out.',
    }
    with open(os.path.join(VERIF, 'MANIFEST.json'), 'w') as f:
        json.dump(m, f, indent=1)
    print('MANIFEST.json: %d checks, %d not_applicable' % (len(checks), len(na)))


if __name__ == '__main__':
    main()
