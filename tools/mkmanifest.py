#!/usr/bin/env python3
"""Write /verif/MANIFEST.json from the table below (kept in one place so it stays current)."""
import json, os

VERIF = os.path.dirname(os.path.dirname(os.path.abspath(__file__)))

LEVEL_NOTE = ('Trusted base: Lean 4.33 kernel; axioms propext/Classical.choice/Quot.sound only (audited by #print axioms on every run; '
              'no native_decide, bv_decide, sorry or own axioms); translators tools/gen T1/T2/T3 (unverified, syntax-directed, regenerate '
              'lean/PyElf/Gen from /repo on every run); the correspondence harness (sampling) as the tie for hand-written control-flow models; '
              'CPython, io.BytesIO, struct, zlib, bisect and the vendored construct engine are modelled, not verified; the Spec side is my reading '
              'of the standards. ')

# property id -> (claimed?, technique, level text, extra note, design ref)
CHECKS = {
    'C16': ('Lean 4 theorems (round-trip for every value, encoding length, byte order, surrounding bytes; truncation and reserved '
            'escapes) about the construct model + regenerated struct bundles + exhaustive/random correspondence with the real decoders',
            'Proof: every primitive decoder of the model inverts the standard encoding for all inputs (induction on the digit string / byte list); '
            'the model is tied to the code by regenerating the construct terms from /repo (T2) and by differential runs of the real decoders '
            'against the model on exhaustive short inputs and random long ones.',
            'Hand-modelled: the ULEB128/SLEB128/CString/24-bit/initial-length parse loops (Con.parse) and parse_cstring_from_stream; '
            'tie = correspondence. Initial lengths 0xffffff00..0xffffffef (legal 32-bit lengths in DWARF 3+, rejected by the code) are outside the claim.',
            'DESIGN.md §6 C16'),
}

# properties whose checks are registered (theorems proved, check green on the unchanged tree)
READY = {'C16', 'C12'}

CHECKS['C12'] = (
    'Lean 4 theorems: round trip parse(encodeOps ops) = annotate ops for every well-formed operation sequence (any length, nesting depth, '
    'padded LEB128) over the REGENERATED per-configuration dispatch tables, kernel-decided equality of the regenerated opcode/name/operand-signature '
    'tables with the DWARF 2-5 + GNU/WASM table (decide +kernel), fuel sufficiency; correspondence of parse_expr with the model on spec-encoded and raw inputs',
    'Proof: the parse loop model returns exactly the encoded operations with offsets = prefix sums, recursively for nested blocks, for all 32 '
    '(byte order, format, address size, version) configurations; names and opcodes are in bijection on operations. The operand signature of every opcode is '
    'regenerated from the live dispatch closures on each run and kernel-checked against the standard table.',
    'Hand-modelled: the parse_expr loop, read_blob and the closure shapes (recognised by introspection; unrecognised shapes are refused and break the tie theorem). '
    'DW_OP_lo_user/hi_user are range markers, excluded from the bijection as the standard defines them. CPython recursion limit (~300 nested blocks) is outside the model.',
    'DESIGN.md §6 C12')

NOT_YET = {
}

NOT_APPLICABLE = {
    'C18': 'oracle is the output of the external GNU readelf binary; a Lean model of that program would be a second guess tied to it only by sampling — differential testing, not proof, is the honest technique (DESIGN.md §8)',
}


def main():
    props = [json.loads(l)['id'] for l in open(os.path.join(VERIF, 'properties.jsonl'))]
    checks = []
    for pid in props:
        if pid in CHECKS and pid in READY:
            tech, text, note, ref = CHECKS[pid]
            checks.append({
                'property_id': pid,
                'quick_cmd': './check %s --tier quick' % pid,
                'thorough_cmd': './check %s --tier thorough' % pid,
                'evidence_file': 'evidence/%s.json' % pid,
                'replay_cmd_template': './check %s --replay {path}' % pid,
                'engine': 'lean4-pyelf',
                'level_claimed': {'category': 'proof', 'text': text, 'design_ref': ref},
                'level_note': LEVEL_NOTE + note,
                'technique': tech,
            })
    na = []
    for pid in props:
        if pid in CHECKS and pid in READY:
            continue
        if pid in NOT_APPLICABLE:
            na.append({'property_id': pid, 'reason': NOT_APPLICABLE[pid]})
        else:
            na.append({'property_id': pid, 'reason': NOT_YET.get(pid, 'not claimed yet: model and theorems for this property are still being built (see DESIGN.md §6); no check is registered until its theorems are proved')})
    m = {
        'version': 1,
        'setup_cmd': './check --setup',
        'hooks': {
            'guard': 'PYELFTOOLS_VERIF',
            'enable': 'no source hooks are needed: checks import /repo in-process (sys.path[0]=/repo) and read only public attributes; PYELFTOOLS_VERIF=1 is exported by ./check for completeness',
            'baseline_off_cmd': 'cd /repo && /venv/bin/python -m pytest -ra -q -p no:cacheprovider --timeout=900 --continue-on-collection-errors',
            'source_commits': [],
            'add_only': True,
        },
        'engines': [{
            'name': 'lean4-pyelf',
            'path': 'lean/',
            'serves_properties': sorted(READY),
            'kind_free_text': 'Lean 4 models + theorems (lake project PyElf), regenerated from /repo by tools/gen, driven by harness/ over a JSON line protocol',
        }],
        'checks': checks,
        'not_applicable': na,
        'notes': 'See DESIGN.md. ./check exits 2 (never 1) when the toolchain itself fails or times out.',
    }
    with open(os.path.join(VERIF, 'MANIFEST.json'), 'w') as f:
        json.dump(m, f, indent=1)
    print('MANIFEST.json: %d checks, %d not_applicable' % (len(checks), len(na)))


if __name__ == '__main__':
    main()
