#!/bin/bash
# tools/fixclash.sh <prefix> <module-substring-of-owner> <files...> : rename clashing short names in the given files until the driver builds
prefix=$1; owner=$2; shift 2
cd /verif/lean
for i in $(seq 1 25); do
  out=$(lake build driver 2>&1 | grep "environment already contains" | head -1)
  [ -z "$out" ] && break
  name=$(echo "$out" | sed "s/.*already contains '\([^']*\)'.*/\1/"); short=${name##*.}
  echo "clash: $name  ($(echo "$out" | sed 's/.*import \(\S*\) failed.* from \(\S*\)$/\1 vs \2/'))"
  for f in "$@"; do sed -i "s/\b$short\b/${prefix}$short/g" $f; done
done
lake build driver 2>&1 | grep -v "^trace\|^info\|^✔" | head -8
