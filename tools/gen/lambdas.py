"""Translate the small Python functions that live inside construct structs
(lambdas and a few local `def`s) into terms of the Lean `Expr` datatype.

Syntax directed; anything outside the recognised subset raises Refuse, and the
caller emits `Con.unsupported` for the construct that owns the function.
"""
import ast
import inspect
import types


class Refuse(Exception):
    pass


_file_ast_cache = {}


def _file_ast(filename):
    if filename not in _file_ast_cache:
        with open(filename, 'r') as f:
            src = f.read()
        _file_ast_cache[filename] = ast.parse(src, filename)
    return _file_ast_cache[filename]


def _code_sig(code):
    return (code.co_code, tuple(c for c in code.co_consts if not isinstance(c, types.CodeType)),
            code.co_names, code.co_varnames, code.co_freevars)


_line_index = {}
_node_cache = {}


def find_function_node(func):
    """Locate the ast node (Lambda or FunctionDef) that `func` was compiled from."""
    code = func.__code__
    if code in _node_cache:
        return _node_cache[code]
    node = _find_function_node(code)
    _node_cache[code] = node
    return node


def _find_function_node(code):
    if code.co_filename not in _line_index:
        idx = {}
        for node in ast.walk(_file_ast(code.co_filename)):
            if isinstance(node, (ast.Lambda, ast.FunctionDef)):
                idx.setdefault(node.lineno, []).append(node)
        _line_index[code.co_filename] = idx
    cands = _line_index[code.co_filename].get(code.co_firstlineno, [])
    if not cands:
        raise Refuse('no ast node at %s:%d' % (code.co_filename, code.co_firstlineno))
    if len(cands) == 1:
        return cands[0]
    # several lambdas on one line: pick by column using co_positions
    cols = set()
    for pos in code.co_positions():
        if pos[0] is not None and pos[2] is not None:
            cols.add((pos[0], pos[2]))
    best = None
    for node in cands:
        body = node.body if isinstance(node, ast.Lambda) else node
        lo = (body.lineno, body.col_offset)
        hi = (body.end_lineno, body.end_col_offset)
        if cols and all(lo <= c <= hi for c in cols):
            if best is None or (hi[0] - lo[0], hi[1] - lo[1]) < best[0]:
                best = ((hi[0] - lo[0], hi[1] - lo[1]), node)
    if best is None:
        raise Refuse('ambiguous lambdas at %s:%d' % (code.co_filename, code.co_firstlineno))
    return best[1]


def lean_str(s):
    out = ['"']
    for ch in s:
        o = ord(ch)
        if ch == '"':
            out.append('\\"')
        elif ch == '\\':
            out.append('\\\\')
        elif 32 <= o < 127:
            out.append(ch)
        else:
            out.append('\\u{%x}' % o)
    out.append('"')
    return ''.join(out)


def lean_int(n):
    return '(%d)' % n if n < 0 else '%d' % n


def lean_bytes(b):
    return '[' + ', '.join(str(x) for x in b) + ']'


def const_expr(v):
    if v is None:
        return 'Expr.none'
    if isinstance(v, bool):
        return '(Expr.bool %s)' % ('true' if v else 'false')
    if isinstance(v, int):
        return '(Expr.lit %s)' % lean_int(v)
    if isinstance(v, str):
        return '(Expr.str %s)' % lean_str(v)
    if isinstance(v, bytes):
        return '(Expr.bytesLit %s)' % lean_bytes(v)
    raise Refuse('constant of type %s' % type(v).__name__)


_BINOPS = {ast.Add: 'add', ast.Sub: 'sub', ast.Mult: 'mul', ast.FloorDiv: 'fdiv', ast.Mod: 'fmod',
           ast.LShift: 'shl', ast.RShift: 'shr', ast.BitAnd: 'band', ast.BitOr: 'bor', ast.BitXor: 'bxor'}
_CMPOPS = {ast.Eq: 'eq', ast.NotEq: 'ne', ast.Lt: 'lt', ast.LtE: 'le', ast.Gt: 'gt', ast.GtE: 'ge'}


class Translator:
    def __init__(self, func, depth=0):
        self.func = func
        self.depth = depth
        code = func.__code__
        self.free = {}
        if func.__closure__:
            for name, cell in zip(code.co_freevars, func.__closure__):
                try:
                    self.free[name] = cell.cell_contents
                except ValueError:
                    pass
        self.globals = func.__globals__
        node = find_function_node(func)
        self.node = node
        args = [a.arg for a in node.args.args]
        # (ctx) for context lambdas, (obj, ctx) for repeat-until predicates
        if len(args) == 1:
            self.ctx_name, self.obj_name = args[0], None
        elif len(args) == 2:
            self.obj_name, self.ctx_name = args[0], args[1]
        else:
            raise Refuse('unexpected parameters %r' % args)
        self.subst = {}

    # ---- static evaluation of closure/global expressions -------------------
    def static_value(self, node):
        """Value of an expression that does not depend on ctx/obj, or Refuse."""
        if isinstance(node, ast.Constant):
            return node.value
        if isinstance(node, ast.Name):
            if node.id in (self.ctx_name, self.obj_name) or node.id in self.subst:
                raise Refuse('dynamic')
            if node.id in self.free:
                return self.free[node.id]
            if node.id in self.globals:
                return self.globals[node.id]
            raise Refuse('unknown name %s' % node.id)
        if isinstance(node, ast.Attribute):
            base = self.static_value(node.value)
            return getattr(base, node.attr)
        raise Refuse('not static')

    def translate(self):
        node = self.node
        if isinstance(node, ast.Lambda):
            return self.expr(node.body)
        return self.stmts(node.body)

    def stmts(self, body):
        """`if c: return a` chains ending in `return b` → nested ite."""
        if not body:
            raise Refuse('function falls off the end')
        st = body[0]
        if isinstance(st, ast.Expr) and isinstance(st.value, ast.Constant) and isinstance(st.value.value, str):
            return self.stmts(body[1:])        # docstring
        if isinstance(st, ast.Return):
            return self.expr(st.value) if st.value is not None else 'Expr.none'
        if isinstance(st, ast.If):
            # static condition → pick a branch at translation time
            try:
                c = self.static_value_expr(st.test)
                chosen = st.body if c else st.orelse
                return self.stmts(list(chosen) + list(body[1:]))
            except Refuse:
                pass
            cond = self.expr(st.test)
            then = self.stmts(list(st.body) + list(body[1:]))
            els = self.stmts(list(st.orelse) + list(body[1:]))
            return '(Expr.ite %s %s %s)' % (cond, then, els)
        raise Refuse('statement %s' % type(st).__name__)

    def static_value_expr(self, node):
        """Evaluate a fully static boolean/arith expression (e.g. `self.elfclass == 32`)."""
        if isinstance(node, ast.Compare) and len(node.ops) == 1:
            a = self.static_value_expr(node.left)
            b = self.static_value_expr(node.comparators[0])
            op = node.ops[0]
            if isinstance(op, ast.Eq): return a == b
            if isinstance(op, ast.NotEq): return a != b
            raise Refuse('static compare')
        v = self.static_value(node)
        if isinstance(v, (int, str, bool, bytes)) or v is None:
            return v
        raise Refuse('static value of type %s' % type(v).__name__)

    def expr(self, node):
        # anything that is static and scalar becomes a literal
        try:
            v = self.static_value_expr(node)
            return const_expr(v)
        except Refuse:
            pass
        except Exception:
            pass
        if isinstance(node, ast.Name):
            if node.id in self.subst:
                return self.subst[node.id]
            if node.id == self.obj_name:
                return 'Expr.obj'
            raise Refuse('bare name %s' % node.id)
        if isinstance(node, ast.Subscript):
            if isinstance(node.value, ast.Name) and node.value.id == self.ctx_name:
                key = self.static_value_expr(node.slice)
                if not isinstance(key, str):
                    raise Refuse('non-string ctx key')
                return '(Expr.ctx %s)' % lean_str(key)
            raise Refuse('subscript')
        if isinstance(node, ast.Attribute):
            if isinstance(node.value, ast.Name) and node.value.id == self.ctx_name:
                return '(Expr.ctx %s)' % lean_str(node.attr)
            if isinstance(node.value, ast.Name) and node.value.id == self.obj_name:
                return '(Expr.objFld %s)' % lean_str(node.attr)
            raise Refuse('attribute')
        if isinstance(node, ast.BinOp) and type(node.op) in _BINOPS:
            return '(Expr.%s %s %s)' % (_BINOPS[type(node.op)], self.expr(node.left), self.expr(node.right))
        if isinstance(node, ast.Compare):
            if len(node.ops) != 1:
                raise Refuse('chained comparison')
            op = node.ops[0]
            l, r = node.left, node.comparators[0]
            if type(op) in _CMPOPS:
                return '(Expr.%s %s %s)' % (_CMPOPS[type(op)], self.expr(l), self.expr(r))
            # `type(x) is not str`
            if isinstance(op, (ast.Is, ast.IsNot)) and isinstance(l, ast.Call) and \
                    isinstance(l.func, ast.Name) and l.func.id == 'type' and \
                    isinstance(r, ast.Name) and r.id == 'str':
                e = '(Expr.isStr %s)' % self.expr(l.args[0])
                return e if isinstance(op, ast.Is) else '(Expr.not %s)' % e
            raise Refuse('comparison operator')
        if isinstance(node, ast.BoolOp):
            op = 'and' if isinstance(node.op, ast.And) else 'or'
            parts = [self.expr(v) for v in node.values]
            out = parts[-1]
            for p in reversed(parts[:-1]):
                out = '(Expr.%s %s %s)' % (op, p, out)
            return out
        if isinstance(node, ast.UnaryOp) and isinstance(node.op, ast.Not):
            return '(Expr.not %s)' % self.expr(node.operand)
        if isinstance(node, ast.UnaryOp) and isinstance(node.op, ast.USub):
            return '(Expr.sub (Expr.lit 0) %s)' % self.expr(node.operand)
        if isinstance(node, ast.IfExp):
            return '(Expr.ite %s %s %s)' % (self.expr(node.test), self.expr(node.body), self.expr(node.orelse))
        if isinstance(node, ast.Tuple):
            out = 'Expr.tnil'
            for e in reversed(node.elts):
                out = '(Expr.tcons %s %s)' % (self.expr(e), out)
            return out
        if isinstance(node, ast.Call):
            return self.call(node)
        raise Refuse('expression %s' % type(node).__name__)

    def call(self, node):
        f = node.func
        if isinstance(f, ast.Name) and f.id == 'len' and len(node.args) == 1:
            return '(Expr.len %s)' % self.expr(node.args[0])
        if isinstance(f, ast.Name) and f.id == 'bool' and len(node.args) == 1:
            return '(Expr.truthy %s)' % self.expr(node.args[0])
        if isinstance(f, ast.Attribute) and f.attr == 'startswith' and len(node.args) == 1:
            prefix = self.static_value_expr(node.args[0])
            if not isinstance(prefix, str):
                raise Refuse('startswith non-literal')
            return '(Expr.startsWith %s %s)' % (self.expr(f.value), lean_str(prefix))
        # a call to a known pure helper (closure or module global): inline its body
        try:
            target = self.static_value(f)
        except Refuse:
            target = None
        if isinstance(target, types.FunctionType) and not node.keywords:
            if self.depth > 4:
                raise Refuse('inline depth')
            sub = Translator.__new__(Translator)
            sub.func = target
            sub.depth = self.depth + 1
            sub.free = {}
            if target.__closure__:
                for name, cell in zip(target.__code__.co_freevars, target.__closure__):
                    try:
                        sub.free[name] = cell.cell_contents
                    except ValueError:
                        pass
            sub.globals = target.__globals__
            sub.node = find_function_node(target)
            params = [a.arg for a in sub.node.args.args]
            if len(params) != len(node.args):
                raise Refuse('arity of inlined call')
            sub.ctx_name = None
            sub.obj_name = None
            sub.subst = {}
            for p, a in zip(params, node.args):
                if isinstance(a, ast.Name) and a.id == self.ctx_name and a.id not in self.subst:
                    sub.ctx_name = p
                elif isinstance(a, ast.Name) and a.id == self.obj_name and a.id not in self.subst:
                    sub.obj_name = p
                else:
                    sub.subst[p] = self.expr(a)
            return sub.translate()
        raise Refuse('call')


_tr_cache = {}


def _closure_key(func, depth=0):
    out = []
    if func.__closure__:
        for name, cell in zip(func.__code__.co_freevars, func.__closure__):
            try:
                v = cell.cell_contents
            except ValueError:
                v = '<empty>'
            if isinstance(v, types.FunctionType) and depth < 4:
                out.append((name, v.__code__, _closure_key(v, depth + 1)))
            elif isinstance(v, (int, str, bytes, bool, type(None))):
                out.append((name, type(v).__name__, v))
            else:
                # objects (e.g. `self`): key on the scalar attributes a lambda could read
                d = getattr(v, '__dict__', None)
                if isinstance(d, dict):
                    sc = tuple(sorted((k, x) for k, x in d.items() if isinstance(x, (int, str, bool, type(None)))))
                    out.append((name, type(v).__name__, sc))
                else:
                    out.append((name, type(v).__name__, id(v)))
    return tuple(out)


def translate_function(func):
    """Lean `Expr` source text for a Python function, or raise Refuse."""
    key = (func.__code__, _closure_key(func))
    if key in _tr_cache:
        r = _tr_cache[key]
    else:
        try:
            r = Translator(func).translate()
        except Refuse as e:
            r = e
        _tr_cache[key] = r
    if isinstance(r, Refuse):
        raise r
    return r
