"""T2: walk a live construct object tree and emit a term of the Lean `Con` type.

The walker is driven by the *classes of the objects the library actually built*
(`FormatField.packer.format`, `Struct.subcons`, `MappingAdapter.decoding`, ...),
never by the library's source text, except for the lambdas (lambdas.py).
Anything it does not recognise becomes `Con.unsupported "<why>"`, so only the
bundles that use that construct are affected.
"""
from elftools import construct as C
from elftools.construct import core as CC, adapters as CA, macros as CM
from elftools.common import construct_utils as CU

from lambdas import translate_function, Refuse, lean_str, lean_int, const_expr

FLAG_EMBED = CC.Construct.FLAG_EMBED


class TableRegistry:
    """Identify the enum table an `Enum` adapter was built from, by content."""

    def __init__(self):
        self.by_content = {}     # frozenset(items) -> id
        self.tables = {}         # id -> (ordered items list, pass_default)
        self.synth = 0

    def register(self, tid, mapping):
        items = [(k, v) for k, v in mapping.items() if k != '_default_']
        key = (tuple(items))
        self.tables[tid] = items
        self.by_content.setdefault(key, tid)

    def identify(self, encoding, pd=False):
        items = [(k, v) for k, v in encoding.items() if k != '_default_']
        key = tuple(items)
        if key in self.by_content:
            return self.by_content[key]
        # a dict assembled at struct-creation time (e.g. d_tag_dict): synthesise an id
        self.synth += 1
        tid = 'SYNTH_%d' % self.synth
        self.tables[tid] = items
        self.by_content[key] = tid
        return tid


class Walker:
    def __init__(self, registry):
        self.reg = registry
        self.refusals = []

    def unsupported(self, why):
        self.refusals.append(why)
        return '(Con.unsupported %s)' % lean_str(why)

    def fn(self, func):
        return translate_function(func)

    def con(self, c):
        try:
            return self._con(c)
        except Refuse as e:
            return self.unsupported('%s: %s' % (type(c).__name__, e))

    def _con(self, c):
        if c is None:
            return '(Con.unsupported "None")'
        t = type(c)
        # --- primitives -------------------------------------------------------
        if t is CC.FormatField:
            fmt = c.packer.format
            if isinstance(fmt, bytes):
                fmt = fmt.decode()
            if len(fmt) != 2 or fmt[0] not in '<>':
                raise Refuse('format %r' % fmt)
            le = 'true' if fmt[0] == '<' else 'false'
            ch = fmt[1]
            sizes = {'B': 1, 'H': 2, 'I': 4, 'L': 4, 'Q': 8}
            if ch in sizes:
                return '(Con.uint %d %s)' % (sizes[ch], le)
            if ch.upper() in sizes and ch.islower():
                return '(Con.sint %d %s)' % (sizes[ch.upper()], le)
            raise Refuse('format char %r' % ch)
        if t is CU.ULInt24:
            return '(Con.u24 true)'
        if t is CU.UBInt24:
            return '(Con.u24 false)'
        if t is CU.ULEB128:
            return 'Con.uleb'
        if t is CU.SLEB128:
            return 'Con.sleb'
        if t is CU.StreamOffset:
            return 'Con.streamOffset'
        if t is CC.StaticField:
            return '(Con.bytesN (Expr.lit %d))' % c.length
        if t is CC.MetaField:
            return '(Con.bytesN %s)' % self.fn(c.lengthfunc)
        if t is CC.Value:
            return '(Con.value %s)' % self.fn(c.func)
        if t is CC.Switch._NoDefault:
            return 'Con.noDefault'
        # --- adapters ---------------------------------------------------------
        if t is CA.MappingAdapter:
            tid = self.reg.identify(c.encoding, c.decdefault is C.Pass)
            # decoding must be the reverse of encoding (SymmetricMapping)
            rev = dict((v, k) for k, v in c.encoding.items())
            if rev != c.decoding:
                raise Refuse('asymmetric mapping')
            if c.decdefault is C.Pass:
                pd = 'true'
            elif c.decdefault is NotImplemented:
                pd = 'false'
            else:
                raise Refuse('mapping default %r' % (c.decdefault,))
            return '(Con.enum %s %s %s)' % (self.con(c.subcon), lean_str(tid), pd)
        if t is CA.PaddingAdapter:
            if c.pattern != b'\x00':
                raise Refuse('padding pattern')
            sub = c.subcon
            strict = 'true' if c.strict else 'false'
            if type(sub) is CC.StaticField:
                return '(Con.padding (Expr.lit %d) %s)' % (sub.length, strict)
            if type(sub) is CC.MetaField:
                return '(Con.padding %s %s)' % (self.fn(sub.lengthfunc), strict)
            raise Refuse('padding over %s' % type(sub).__name__)
        if t is CA.CStringAdapter:
            sub = c.subcon
            if type(sub) is not CC.RepeatUntil or c.terminators != b'\x00':
                raise Refuse('cstring shape')
            ch = sub.subcon
            if not (type(ch) is CC.StaticField and ch.length == 1):
                raise Refuse('cstring char field')
            return 'Con.cstring'
        if t is CA.StringAdapter:
            if c.encoding is not None:
                raise Refuse('string encoding')
            return self.con(c.subcon)
        if t is CA.LengthValueAdapter:
            seq = c.subcon
            if type(seq) is not CC.Sequence or len(seq.subcons) != 2 or seq.nested:
                raise Refuse('prefixed shape')
            lenf, arr = seq.subcons
            if type(arr) is not CC.MetaArray:
                raise Refuse('prefixed array shape')
            # countfunc must be `lambda ctx: ctx[name]` with name = length field's name
            cf = arr.countfunc
            want = '(Expr.ctx %s)' % lean_str(lenf.name)
            if self.fn(cf) != want:
                raise Refuse('prefixed count function')
            return '(Con.prefixed %s %s)' % (self.con(lenf), self.con(arr.subcon))
        if t is CA.BitIntegerAdapter:
            raise Refuse('bit field outside BitStruct')
        # --- containers -------------------------------------------------------
        if t is CC.Struct:
            return '(Con.struct %s)' % self.fields(c.subcons)
        if t is CC.MetaArray:
            return '(Con.array %s %s)' % (self.fn(c.countfunc), self.con(c.subcon))
        if t is CU.RepeatUntilExcluding:
            return '(Con.repeatUntilExcl %s %s)' % (self.fn(c.predicate), self.con(c.subcon))
        if t is CC.Reconfig:
            return self.con(c.subcon)          # rename / embed flags are read by the parent
        if t is CC.Switch:
            return self.switch(c)
        if t is CC.Buffered:
            return self.bitstruct(c)
        # --- local classes of dwarf/structs.py -------------------------------
        if t.__name__ == '_InitialLengthAdapter':
            st = c.subcon
            if type(st) is not CC.Struct or len(st.subcons) != 2:
                raise Refuse('initial length shape')
            first, second = st.subcons
            f = self.con(first)
            s = self.con(second)
            for le in ('true', 'false'):
                wantf = '(Con.uint 4 %s)' % le
                wants = ('(Con.ifThenElse (Expr.eq (Expr.ctx "first") (Expr.lit 4294967295)) '
                         '(Con.uint 8 %s) (Con.value Expr.none))' % le)
                if f == wantf and s == wants and first.name == 'first' and second.name == 'second':
                    # the adapter's _decode is modelled by Con.initialLength; its source is
                    # checked by hash in gen.py (initial_length_adapter_ok)
                    return '(Con.initialLength %s)' % le
            raise Refuse('initial length fields')
        if t.__name__ == 'FormattedEntry':
            return '(Con.formatted %s)' % lean_str(c.format_field)
        raise Refuse('class %s' % t.__name__)

    def fields(self, subcons):
        out = 'ConFields.nil'
        for sc in reversed(subcons):
            embed = bool(sc.conflags & FLAG_EMBED)
            # the name of an embedded sub-construct is never used by Struct._parse
            name = 'none' if (sc.name is None or embed) else '(some %s)' % lean_str(sc.name)
            out = '(ConFields.cons %s %s %s %s)' % (name, 'true' if embed else 'false', self.con(sc), out)
        return out

    def switch(self, c):
        if c.include_key:
            raise Refuse('switch include_key')
        kf = c.keyfunc
        # IfThenElse: keyfunc is macros.IfThenElse's `lambda ctx: bool(predicate(ctx))`
        if kf.__code__.co_filename == CM.__file__.replace('.pyc', '.py') and \
                set(c.cases.keys()) == {True, False} and kf.__closure__:
            pred = dict(zip(kf.__code__.co_freevars, (x.cell_contents for x in kf.__closure__))).get('predicate')
            if pred is not None and c.default is CC.Switch.NoDefault:
                return '(Con.ifThenElse %s %s %s)' % (self.fn(pred), self.con(c.cases[True]), self.con(c.cases[False]))
        key = self.fn(kf)
        cases = 'ConCases.nil'
        for k, v in reversed(list(c.cases.items())):
            cases = '(ConCases.cons %s %s %s)' % (self.val(k), self.con(v), cases)
        return '(Con.switch %s %s %s)' % (key, cases, self.con(c.default))

    def val(self, v):
        if v is None:
            return 'Val.none'
        if isinstance(v, bool):
            return '(Val.bool %s)' % ('true' if v else 'false')
        if isinstance(v, int):
            return '(Val.int %s)' % lean_int(v)
        if isinstance(v, str):
            return '(Val.str %s)' % lean_str(v)
        if isinstance(v, tuple):
            return '(Val.list [%s])' % ', '.join(self.val(x) for x in v)
        raise Refuse('case key %r' % (v,))

    def bitstruct(self, c):
        # BitStruct(name, *subcons) = Buffered(Struct(...), encoder=decode_bin, decoder=encode_bin, resizer)
        st = c.subcon
        if type(st) is not CC.Struct:
            raise Refuse('bitstruct shape')
        if c.resizer(16) != 2:
            raise Refuse('bitstruct resizer')
        fs = []
        for sc in st.subcons:
            table = 'none'
            inner = sc
            if type(inner) is CA.MappingAdapter:
                tid = self.reg.identify(inner.encoding, inner.decdefault is C.Pass)
                if inner.decdefault is C.Pass:
                    pd = 'true'
                elif inner.decdefault is NotImplemented:
                    pd = 'false'
                else:
                    raise Refuse('bit enum default')
                table = '(some (%s, %s))' % (lean_str(tid), pd)
                inner = inner.subcon
            if type(inner) is CA.BitIntegerAdapter:
                if inner.swapped or inner.signed or inner.bytesize != 8:
                    raise Refuse('bitfield options')
                width = inner.width
                if not isinstance(width, int):
                    raise Refuse('dynamic bit width')
                fs.append('⟨some %s, %d, %s⟩' % (lean_str(sc.name), width, table))
            elif type(inner) is CA.PaddingAdapter and type(inner.subcon) is CC.StaticField and not inner.strict:
                fs.append('⟨none, %d, none⟩' % inner.subcon.length)
            else:
                raise Refuse('bitstruct member %s' % type(inner).__name__)
        return '(Con.bits [%s])' % ', '.join(fs)
