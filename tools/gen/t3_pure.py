"""T3: Python `ast` → Lean for a deliberately tiny subset of pure integer
functions.  Anything outside the subset: the function is refused (recorded in
the report) and a stub `def <name>_refused : String := "<why>"` is emitted so
that theorems about it stop compiling.
"""
import ast, inspect, importlib, textwrap
import calcfns

TARGETS = [
    # (lean name, module, qualified attribute path, parameter kinds)
    ('roundup', 'elftools.common.utils', 'roundup', ['int', 'int']),
    ('elf_hash', 'elftools.elf.hash', 'ELFHashTable.elf_hash', ['bytes']),
    ('gnu_hash', 'elftools.elf.hash', 'GNUHashTable.gnu_hash', ['bytes']),
    ('arm_expand_prel31', 'elftools.ehabi.ehabiinfo', 'arm_expand_prel31', ['int', 'int']),
    ('reloc_calc_identity', 'elftools.elf.relocation', '_reloc_calc_identity', ['int'] * 4),
    ('reloc_calc_sym_plus_value', 'elftools.elf.relocation', '_reloc_calc_sym_plus_value', ['int'] * 4),
    ('reloc_calc_sym_plus_value_pcrel', 'elftools.elf.relocation', '_reloc_calc_sym_plus_value_pcrel', ['int'] * 4),
    ('reloc_calc_sym_plus_addend', 'elftools.elf.relocation', '_reloc_calc_sym_plus_addend', ['int'] * 4),
    ('reloc_calc_sym_plus_addend_pcrel', 'elftools.elf.relocation', '_reloc_calc_sym_plus_addend_pcrel', ['int'] * 4),
    ('reloc_calc_value_minus_sym_addend', 'elftools.elf.relocation', '_reloc_calc_value_minus_sym_addend', ['int'] * 4),
    ('arm_reloc_calc_sym_plus_value_pcrel', 'elftools.elf.relocation', '_arm_reloc_calc_sym_plus_value_pcrel', ['int'] * 4),
    ('bpf_64_32_reloc_calc_sym_plus_addend', 'elftools.elf.relocation', '_bpf_64_32_reloc_calc_sym_plus_addend', ['int'] * 4),
]


class Refuse(Exception):
    pass


BIN = {ast.Add: '(%s + %s)', ast.Sub: '(%s - %s)', ast.Mult: '(%s * %s)',
       ast.FloorDiv: '(PyInt.fdiv %s %s)', ast.Mod: '(PyInt.fmod %s %s)',
       ast.BitAnd: '(PyInt.land %s %s)', ast.BitOr: '(PyInt.lor %s %s)', ast.BitXor: '(PyInt.xor %s %s)',
       ast.LShift: '(PyInt.shl %s (Int.toNat %s))', ast.RShift: '(PyInt.shr %s (Int.toNat %s))'}
CMP = {ast.Eq: '(%s == %s)', ast.NotEq: '(%s != %s)', ast.Lt: '(decide (%s < %s))', ast.LtE: '(decide (%s ≤ %s))',
       ast.Gt: '(decide (%s > %s))', ast.GtE: '(decide (%s ≥ %s))'}


def expr(n):
    if isinstance(n, ast.Constant) and isinstance(n.value, int) and not isinstance(n.value, bool):
        return '(%d : Int)' % n.value
    if isinstance(n, ast.Name):
        return n.id
    if isinstance(n, ast.BinOp) and type(n.op) in BIN:
        return BIN[type(n.op)] % (expr(n.left), expr(n.right))
    if isinstance(n, ast.UnaryOp) and isinstance(n.op, ast.Invert):
        return '(PyInt.inv %s)' % expr(n.operand)
    if isinstance(n, ast.UnaryOp) and isinstance(n.op, ast.USub):
        return '(- %s)' % expr(n.operand)
    raise Refuse('expression %s' % ast.dump(n)[:60])


def cond(n):
    """Boolean condition; a bare integer expression means `!= 0`."""
    if isinstance(n, ast.Compare) and len(n.ops) == 1 and type(n.ops[0]) in CMP:
        return CMP[type(n.ops[0])] % (expr(n.left), expr(n.comparators[0]))
    if isinstance(n, ast.UnaryOp) and isinstance(n.op, ast.Not):
        return '(!%s)' % cond(n.operand)
    return '(%s != (0 : Int))' % expr(n)


def assigned(stmts):
    out = []
    for s in stmts:
        if isinstance(s, ast.Assign):
            for t in s.targets:
                if isinstance(t, ast.Name) and t.id not in out:
                    out.append(t.id)
        elif isinstance(s, ast.AugAssign) and isinstance(s.target, ast.Name):
            if s.target.id not in out:
                out.append(s.target.id)
        elif isinstance(s, ast.If):
            for v in assigned(s.body) + assigned(s.orelse):
                if v not in out:
                    out.append(v)
        elif isinstance(s, ast.For):
            for v in assigned(s.body):
                if v not in out:
                    out.append(v)
    return out


def tup(vs):
    return vs[0] if len(vs) == 1 else '(' + ', '.join(vs) + ')'


def tupty(vs):
    return ' × '.join(['Int'] * len(vs))


def is_encode_prelude(s, bytes_params):
    # if not isinstance(name, bytes): name = name.encode('utf-8')
    if not isinstance(s, ast.If) or s.orelse or len(s.body) != 1:
        return False
    t = s.test
    if not (isinstance(t, ast.UnaryOp) and isinstance(t.op, ast.Not) and isinstance(t.operand, ast.Call)
            and isinstance(t.operand.func, ast.Name) and t.operand.func.id == 'isinstance'):
        return False
    a = t.operand.args
    return isinstance(a[0], ast.Name) and a[0].id in bytes_params


def block(stmts, defined, indent, bytes_params):
    """Translate statements into `let` lines; returns (lines, defined-after)."""
    L = []
    pad = '  ' * indent
    for s in stmts:
        if isinstance(s, ast.Expr) and isinstance(s.value, ast.Constant) and isinstance(s.value.value, str):
            continue
        if is_encode_prelude(s, bytes_params):
            continue
        if isinstance(s, ast.Assign) and len(s.targets) == 1 and isinstance(s.targets[0], ast.Name):
            v = s.targets[0].id
            L.append('%slet %s : Int := %s' % (pad, v, expr(s.value)))
            if v not in defined:
                defined = defined + [v]
        elif isinstance(s, ast.AugAssign) and isinstance(s.target, ast.Name) and type(s.op) in BIN:
            v = s.target.id
            if v not in defined:
                raise Refuse('augmented assignment to undefined %s' % v)
            L.append('%slet %s : Int := %s' % (pad, v, BIN[type(s.op)] % (v, expr(s.value))))
        elif isinstance(s, ast.If):
            vs = [v for v in assigned([s])]
            for v in vs:
                if v not in defined:
                    raise Refuse('variable %s first assigned under a condition' % v)
            bl, _ = block(s.body, defined, indent + 2, bytes_params)
            el, _ = block(s.orelse, defined, indent + 2, bytes_params)
            L.append('%slet %s : %s :=' % (pad, tup(vs), tupty(vs)))
            L.append('%s  if %s then' % (pad, cond(s.test)))
            L += bl
            L.append('%s    %s' % (pad, tup(vs)))
            L.append('%s  else' % pad)
            L += el
            L.append('%s    %s' % (pad, tup(vs)))
        elif isinstance(s, ast.For) and isinstance(s.target, ast.Name) and not s.orelse:
            it = s.iter
            if isinstance(it, ast.Call) and isinstance(it.func, ast.Name) and it.func.id == 'bytearray' and len(it.args) == 1:
                it = it.args[0]
            if not (isinstance(it, ast.Name) and it.id in bytes_params):
                raise Refuse('for over non-bytes')
            lv = s.target.id
            vs = [v for v in assigned(s.body) if v != lv]
            # a name first bound inside the body by an unconditional top-level assignment that precedes
            # every read of it is local to one iteration: not loop state.  It is not `defined` after the
            # loop, so a later read fails to elaborate instead of seeing a stale value.
            local = []
            for v in vs:
                if v in defined:
                    continue
                ok = False
                for st in s.body:
                    reads = [n.id for n in ast.walk(st) if isinstance(n, ast.Name) and isinstance(n.ctx, ast.Load)]
                    if (isinstance(st, ast.Assign) and len(st.targets) == 1 and isinstance(st.targets[0], ast.Name)
                            and st.targets[0].id == v and v not in reads):
                        ok = True
                        break
                    if v in reads or v in assigned([st]):
                        break
                if not ok:
                    raise Refuse('loop variable %s not initialised before the loop' % v)
                local.append(v)
            vs = [v for v in vs if v not in local]
            if not vs:
                raise Refuse('loop without state')
            bl, _ = block(s.body, defined + [lv], indent + 2, bytes_params)
            L.append('%slet %s : %s := %s.foldl (fun (st : %s) (b8 : UInt8) =>' % (pad, tup(vs), tupty(vs), it.id, tupty(vs)))
            L.append('%s    let %s := st' % (pad, tup(vs)))
            L.append('%s    let %s : Int := (b8.toNat : Int)' % (pad, lv))
            L += bl
            L.append('%s    %s) %s' % (pad, tup(vs), tup(vs)))
        elif isinstance(s, ast.Return):
            if s is not stmts[-1]:
                raise Refuse('early return')
            L.append('%s%s' % (pad, expr(s.value)))
        else:
            raise Refuse('statement %s' % type(s).__name__)
    return L, defined


def translate(lean_name, func, kinds):
    src = textwrap.dedent(inspect.getsource(func))
    tree = ast.parse(src)
    fd = tree.body[0]
    if not isinstance(fd, ast.FunctionDef):
        raise Refuse('not a function')
    params = [a.arg for a in fd.args.args]
    if len(params) != len(kinds):
        raise Refuse('parameter count %d, expected %d' % (len(params), len(kinds)))
    bytes_params = [p for p, k in zip(params, kinds) if k == 'bytes']
    sig = ' '.join('(%s : %s)' % (p, 'Bytes' if k == 'bytes' else 'Int') for p, k in zip(params, kinds))
    if not fd.body or not isinstance(fd.body[-1], ast.Return):
        raise Refuse('no final return')
    body, _ = block(fd.body, [p for p, k in zip(params, kinds) if k == 'int'], 1, bytes_params)
    return 'def %s %s : Int :=\n%s\n' % (lean_name, sig, '\n'.join(body))


def generate(repo):
    out = ['import PyElf.Core.Construct', 'set_option linter.unusedVariables false', 'namespace PyElf.Gen.Pure', 'open PyElf', '']
    rep = {'translated': [], 'refused': {}}
    calc = None
    for lean_name, modname, path, kinds in TARGETS:
        try:
            obj = importlib.import_module(modname)
            if lean_name in calcfns.REFS:
                # a relocation formula: the function object is whatever the live recipe tables call, found by its
                # behaviour on sample points (private helper names are free to change)
                if calc is None:
                    calc = calcfns.by_canonical_name(obj)
                fns = calc.get(lean_name, [])
                if not fns:
                    raise Refuse('no recipe table uses a function computing this formula')
                texts = {translate(lean_name, f, kinds) for f in fns}
                if len(texts) != 1:
                    raise Refuse('%d different functions fingerprint as this formula' % len(texts))
                out.append('/-- %s: %s -/' % (modname, ', '.join(sorted(f.__name__ for f in fns))))
                out.append(texts.pop())
                rep['translated'].append(lean_name)
                continue
            for part in path.split('.'):
                obj = getattr(obj, part)
            out.append('/-- %s.%s -/' % (modname, path))
            out.append(translate(lean_name, obj, kinds))
            rep['translated'].append(lean_name)
        except (Refuse, AttributeError, SyntaxError, OSError) as e:
            rep['refused'][lean_name] = '%s: %s' % (type(e).__name__, e)
            out.append('def %s_refused : String := %s\n' % (lean_name, '"' + str(e).replace('\\', '/').replace('"', "'") + '"'))
    out.append('end PyElf.Gen.Pure')
    return '\n'.join(out) + '\n', rep
