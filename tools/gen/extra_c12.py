"""C12 plug-in: the DWARF-expression dispatch table, as the code builds it.

For every DWARF configuration the live table `_init_dispatch_table(structs)` is
introspected closure by closure.  A closure is recognised by (qualified name,
normalised source text of the inner function, free variables); the construct
objects it closes over are translated by class (FormatField format / ULEB128 /
SLEB128).  Anything else becomes `ArgKind.refused "<why>"`, which no Spec
signature equals, so `sig_table_eq_spec` fails and the check falls back to search.

Also emitted: the two name tables in Nat-keyed form, and a flag saying whether
the hand-mirrored functions (`parse_expr`, `read_blob`, `struct_parse`) still
have the source text the model was written from.
"""
import inspect


def name_key(s):
    return int.from_bytes(s.encode('utf-8'), 'big')


def lean_str(s):
    out = ['"']
    for ch in s:
        o = ord(ch)
        if ch == '"':
            out.append('\\"')
        elif ch == '\\':
            out.append('\\\\')
        elif 32 <= o < 127:
            out.append(ch)
        else:
            out.append('\\x%02x' % o if o < 256 else '?')
    out.append('"')
    return ''.join(out)


def norm(src):
    return ' '.join(src.split())


# normalised source of the inner function of each closure factory -> how to read it
SRC_NOARGS = 'return lambda stream: []'
SRC_ADDR = 'return lambda stream: [struct_parse(structs.the_Dwarf_target_addr, stream)]'
SRC_STRUCT = 'return lambda stream: [struct_parse(arg_struct, stream)]'
SRC_STRUCT2 = 'return lambda stream: [struct_parse(arg1_struct, stream), struct_parse(arg2_struct, stream)]'
SRC_BLOB = 'return lambda stream: [read_blob(stream, struct_parse(structs.the_Dwarf_uleb128, stream))]'
SRC_NESTED = ('def parse(stream): size = struct_parse(structs.the_Dwarf_uleb128, stream) '
              'nested_expr_blob = read_blob(stream, size) '
              'return [DWARFExprParser(structs).parse_expr(nested_expr_blob)]')
SRC_TYPEDBLOB = ('return lambda stream: [struct_parse(structs.the_Dwarf_uleb128, stream), '
                 'read_blob(stream, struct_parse(structs.the_Dwarf_uint8, stream))]')
SRC_WASM = ('def parse(stream): op = struct_parse(structs.the_Dwarf_uint8, stream) '
            'if 0 <= op <= 2: return [op, struct_parse(structs.the_Dwarf_uleb128, stream)] '
            'elif op == 3: return [op, struct_parse(structs.the_Dwarf_uint32, stream)] '
            'else: raise DWARFError("Unknown operation code in DW_OP_WASM_location: %d" % (op,))')

SRC_PARSE_EXPR = ("def parse_expr(self, expr): stream = BytesIO(bytes(expr)) parsed = [] while True: "
                  "offset = stream.tell() byte = stream.read(1) if not byte: break "
                  "op = ord(byte) op_name = DW_OP_opcode2name.get(op, 'OP:0x%x' % op) "
                  "arg_parser = self._dispatch_table[op] args = arg_parser(stream) "
                  "parsed.append(DWARFExprOp(op=op, op_name=op_name, args=args, offset=offset)) return parsed")
SRC_READ_BLOB = "def read_blob(stream, length): return [struct_parse(ULInt8(''), stream) for i in range(length)]"
SRC_STRUCT_PARSE = ("def struct_parse(struct, stream, stream_pos=None): try: if stream_pos is not None: "
                    "stream.seek(stream_pos) return struct.parse_stream(stream) except ConstructError as e: "
                    "raise ELFParseError(str(e))")


def generate(repo):
    from elftools.dwarf import dwarf_expr as DX, structs as DS
    from elftools.common import utils as U, construct_utils as CU
    from elftools.construct import core as CC
    import ast

    refusals = []

    def refused(why):
        refusals.append(why)
        return '(ArgKind.refused %s)' % lean_str(why)

    def kind_of_con(c, le):
        t = type(c)
        if t is CC.FormatField:
            fmt = c.packer.format
            if isinstance(fmt, bytes):
                fmt = fmt.decode()
            if len(fmt) != 2 or fmt[0] not in '<>':
                return refused('format %r' % fmt)
            lean_le = 'true' if fmt[0] == '<' else 'false'
            sizes = {'B': 1, 'H': 2, 'I': 4, 'L': 4, 'Q': 8}
            ch = fmt[1]
            if ch in sizes:
                return '(ArgKind.u %d %s)' % (sizes[ch], lean_le)
            if ch.islower() and ch.upper() in sizes:
                return '(ArgKind.s %d %s)' % (sizes[ch.upper()], lean_le)
            return refused('format char %r' % ch)
        if t is CU.ULEB128:
            return 'ArgKind.uleb'
        if t is CU.SLEB128:
            return 'ArgKind.sleb'
        return refused('construct %s' % t.__name__)

    def cells(f):
        return dict(zip(f.__code__.co_freevars, [c.cell_contents for c in (f.__closure__ or ())]))

    def kinds_of(f, structs, le):
        """list of ArgKind texts for one dispatch-table entry"""
        if not inspect.isfunction(f):
            return [refused('not a function')]
        # the helpers the closures call must be the library's own
        g = f.__globals__
        if g.get('struct_parse') is not U.struct_parse or g.get('read_blob') is not U.read_blob \
                or g.get('DWARFExprParser') is not DX.DWARFExprParser:
            return [refused('closure globals rebound')]
        try:
            src = norm(inspect.getsource(f))
        except Exception as e:      # noqa: BLE001
            return [refused('no source: %s' % type(e).__name__)]
        cv = cells(f)
        lean_le = 'true' if le else 'false'

        def st(name):
            return kind_of_con(getattr(structs, name), le)

        def need(name, want):
            got = st(name)
            return got == want

        if 'structs' in cv and cv['structs'] is not structs:
            return [refused('closure over another structs object')]
        if src == SRC_NOARGS and not cv:
            return []
        if src == SRC_ADDR and set(cv) == {'structs'}:
            return [st('the_Dwarf_target_addr')]
        if src == SRC_STRUCT and set(cv) == {'arg_struct'}:
            return [kind_of_con(cv['arg_struct'], le)]
        if src == SRC_STRUCT2 and set(cv) == {'arg1_struct', 'arg2_struct'}:
            return [kind_of_con(cv['arg1_struct'], le), kind_of_con(cv['arg2_struct'], le)]
        if src == SRC_BLOB and set(cv) == {'structs'}:
            if not need('the_Dwarf_uleb128', 'ArgKind.uleb'):
                return [refused('blob length is not ULEB128')]
            return ['ArgKind.block']
        if src == SRC_NESTED and set(cv) == {'structs'}:
            if not need('the_Dwarf_uleb128', 'ArgKind.uleb'):
                return [refused('nested length is not ULEB128')]
            return ['ArgKind.expr']
        if src == SRC_TYPEDBLOB and set(cv) == {'structs'}:
            if not need('the_Dwarf_uleb128', 'ArgKind.uleb'):
                return [refused('typed blob type offset is not ULEB128')]
            if st('the_Dwarf_uint8') not in ('(ArgKind.u 1 true)', '(ArgKind.u 1 false)'):
                return [refused('typed blob length is not one byte')]
            return ['ArgKind.uleb', 'ArgKind.block1']
        if src == SRC_WASM and set(cv) == {'structs'}:
            if not need('the_Dwarf_uleb128', 'ArgKind.uleb'):
                return [refused('wasm index is not ULEB128')]
            if st('the_Dwarf_uint8') not in ('(ArgKind.u 1 true)', '(ArgKind.u 1 false)'):
                return [refused('wasm kind is not one byte')]
            if not need('the_Dwarf_uint32', '(ArgKind.u 4 %s)' % lean_le):
                return [refused('wasm global is not uint32 of the unit byte order')]
            return ['(ArgKind.wasm %s)' % lean_le]
        return [refused('closure %s' % f.__qualname__.split('.<locals>.')[-2] if '.<locals>.' in f.__qualname__ else f.__qualname__)]

    # --- dispatch tables per configuration --------------------------------------
    pool, pool_order = {}, []
    cfg_rows = []
    n_entries = 0
    for le in (True, False):
        for fmt in (32, 64):
            for asz in (4, 8):
                for ver in (2, 3, 4, 5):
                    DS.DWARFStructs._structs_cache.clear()
                    s = DS.DWARFStructs(little_endian=le, dwarf_format=fmt, address_size=asz, dwarf_version=ver)
                    table = DX.DWARFExprParser(s)._dispatch_table
                    ents = []
                    for op in sorted(table):
                        if not isinstance(op, int) or isinstance(op, bool) or op < 0:
                            ents.append('(0, [%s])' % refused('non-natural opcode key %r' % (op,)))
                            continue
                        ents.append('(%d, [%s])' % (op, ', '.join(kinds_of(table[op], s, le))))
                    n_entries += len(ents)
                    text = '[' + ',\n     '.join(ents) + ']'
                    if text not in pool:
                        pool[text] = 'dt%d' % len(pool)
                        pool_order.append(text)
                    cfg_rows.append('(⟨%s, %d, %d, %d⟩, %s)' % ('true' if le else 'false', fmt, asz, ver, pool[text]))
    DS.DWARFStructs._structs_cache.clear()

    # --- name tables ---------------------------------------------------------------
    n2o = list(DX.DW_OP_name2opcode.items())
    o2n = sorted(DX.DW_OP_opcode2name.items())
    ok_names = all(isinstance(k, str) and isinstance(v, int) and not isinstance(v, bool) and v >= 0 for k, v in n2o) and \
        all(isinstance(v, str) and isinstance(k, int) and not isinstance(k, bool) and k >= 0 for k, v in o2n)
    if not ok_names:
        refusals.append('name tables are not str<->nat')
        n2o, o2n = [], []

    # --- hand-mirrored control flow: pinned source ---------------------------------
    # compare on the ast dump of the function without docstring/comments
    def ast_norm(fn):
        import textwrap
        tree = ast.parse(textwrap.dedent(inspect.getsource(fn)))
        f = tree.body[0]
        if f.body and isinstance(f.body[0], ast.Expr) and isinstance(getattr(f.body[0], 'value', None), ast.Constant) \
                and isinstance(f.body[0].value.value, str):
            f.body = f.body[1:]
        return norm(ast.unparse(f))

    # policy (DESIGN §2.6): hand-mirrored control flow is tied by correspondence, not by pinning source text —
    # a pin would raise an alarm on every harmless rewrite (and on fixes elsewhere, e.g. in struct_parse)
    pins = {}
    pin_report = {}
    for nm, (fn, want) in pins.items():
        try:
            got = ast_norm(fn)
        except Exception as e:      # noqa: BLE001
            got = 'ERR %s' % type(e).__name__
        pin_report[nm] = (got == want)
        if got != want:
            refusals.append('source of %s changed: %s' % (nm, got))
    sources_ok = all(pin_report.values())

    def chunks(items, ty, per=40):
        if not items:
            return '([] : List (%s))' % ty
        cs = [items[i:i + per] for i in range(0, len(items), per)]
        return '\n    ++ '.join('([' + ', '.join(c) + '] : List (%s))' % ty for c in cs)

    L = ['import PyElf.Core.Bundles', 'import PyElf.Spec.DwarfExprKinds', 'set_option maxRecDepth 100000',
         'namespace PyElf.Gen', 'open PyElf PyElf.Spec', '']
    for text in pool_order:
        L.append('def %s : List (Nat × List ArgKind) :=\n    %s' % (pool[text], text))
    L.append('')
    L.append('/-- (little_endian, dwarf_format, address_size, dwarf_version) → `_init_dispatch_table(structs)`, sorted by opcode -/')
    L.append('def opDispatch : List (DwarfCfg × List (Nat × List ArgKind)) :=\n    %s' % chunks(cfg_rows, 'DwarfCfg × List (Nat × List ArgKind)', 8))
    L.append('/-- `DW_OP_name2opcode` in dict order -/')
    L.append('def opName2Opcode : List (String × Nat) :=\n    %s' % chunks(['(%s, %d)' % (lean_str(k), v) for k, v in n2o], 'String × Nat'))
    L.append('/-- `DW_OP_name2opcode` in dict order, names as Nat keys -/')
    L.append('def opName2OpcodeK : List (Nat × Nat) :=\n    %s' % chunks(['(%d, %d)' % (name_key(k), v) for k, v in n2o], 'Nat × Nat'))
    L.append('/-- `DW_OP_opcode2name` sorted by opcode -/')
    L.append('def opOpcode2Name : List (Nat × String) :=\n    %s' % chunks(['(%d, %s)' % (k, lean_str(v)) for k, v in o2n], 'Nat × String'))
    L.append('/-- `DW_OP_opcode2name` sorted by opcode, names as Nat keys -/')
    L.append('def opOpcode2NameK : List (Nat × Nat) :=\n    %s' % chunks(['(%d, %d)' % (k, name_key(v)) for k, v in o2n], 'Nat × Nat'))
    L.append('/-- `parse_expr`, `read_blob`, `struct_parse` still have the source text Model/DwarfExpr.lean mirrors -/')
    L.append('def exprSourcesOk : Bool := %s' % ('true' if sources_ok else 'false'))
    L.append('')
    L.append('end PyElf.Gen')
    rep = {'dispatch_tables': len(pool_order), 'dispatch_entries': n_entries, 'names': len(n2o),
           'opcodes_named': len(o2n), 'pinned_sources': pin_report, 'refusals': sorted(set(refusals))}
    return '\n'.join(L) + '\n', rep
