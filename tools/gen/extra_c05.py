"""C05 plug-in for gen.py: data the line-program model depends on.

  lnConstTable            the DW_LNS_* / DW_LNE_* names `_decode_line_program` compares opcodes with,
                          with the values they have in the module's namespace (from .constants import *)
  formattedEntrySourceOk  `FormattedEntry._parse` still has the source text Model.Line.formattedParse mirrors
  initialLengthFieldSizeOk  `DWARFStructs.initial_length_field_size` is still `4 if dwarf_format == 32 else 12`

Syntax/introspection directed; anything unexpected makes the flag false or drops the name, so that the
tie theorems in Props/TieC05.lean fail.
"""
import ast, inspect, textwrap


def _norm(src):
    return ' '.join(src.split())


FORMATTED_EXPECT = _norm('''
def _parse(self, stream, context):
    # Somewhat tricky technique here, explicitly writing back to the context
    if self.format_field + "_parser" in context:
        parser = context[self.format_field + "_parser"]
    else:
        fields = tuple(
            Rename(f.content_type, self.structs.Dwarf_dw_form[f.form])
            for f in context[self.format_field])
        parser = Struct('formatted_entry', *fields)
        context[self.format_field + "_parser"] = parser
    return parser._parse(stream, context)
''')

ILFS_EXPECT = _norm('''
def initial_length_field_size(self):
    """ Size of an initial length field.
    """
    return 4 if self.dwarf_format == 32 else 12
''')


def lean_str(s):
    return '"' + s.replace('\\', '\\\\').replace('"', '\\"') + '"'


def generate(repo):
    from elftools.dwarf import lineprogram as LP, structs as DS
    rep = {}
    # names used by the decoder
    src = textwrap.dedent(inspect.getsource(LP.LineProgram._decode_line_program))
    tree = ast.parse(src)
    names = []
    for node in ast.walk(tree):
        if isinstance(node, ast.Name) and (node.id.startswith('DW_LNS_') or node.id.startswith('DW_LNE_')):
            if node.id not in names:
                names.append(node.id)
    names.sort()
    items = []
    for n in names:
        v = vars(LP).get(n)
        if isinstance(v, int) and not isinstance(v, bool):
            items.append((n, v))
        else:
            rep.setdefault('refused', []).append(n)
    rep['names'] = len(items)

    # FormattedEntry._parse source
    DS.DWARFStructs._structs_cache.clear()
    s = DS.DWARFStructs(little_endian=True, dwarf_format=32, address_size=4, dwarf_version=5)
    DS.DWARFStructs._structs_cache.clear()
    fe_ok = False
    found = 0

    def walk(c):
        nonlocal fe_ok, found
        if type(c).__name__ == 'FormattedEntry':
            found += 1
            try:
                fe_ok = _norm(textwrap.dedent(inspect.getsource(type(c)._parse))) == FORMATTED_EXPECT
            except Exception:
                fe_ok = False
        for attr in ('subcon', 'then_subcon', 'else_subcon'):
            x = getattr(c, attr, None)
            if x is not None and hasattr(x, '_parse'):
                walk(x)
        for x in getattr(c, 'subcons', ()) or ():
            walk(x)
        cases = getattr(c, 'cases', None)
        if isinstance(cases, dict):
            for x in cases.values():
                if hasattr(x, '_parse'):
                    walk(x)
    walk(s.Dwarf_lineprog_header)
    fe_ok = fe_ok and found == 2
    rep['formatted_entry_source_ok'] = fe_ok
    try:
        ilfs_ok = _norm(textwrap.dedent(inspect.getsource(DS.DWARFStructs.initial_length_field_size))) == ILFS_EXPECT
    except Exception:
        ilfs_ok = False
    rep['initial_length_field_size_ok'] = ilfs_ok

    # forms `FormattedEntry` can reach through `Dwarf_dw_form` that the bundles' `forms` list (gen.py FORM_NAMES)
    # does not carry: only malformed entry formats name them, but the model must fail/succeed where the code does
    import os, re, conwalk
    gen_src = open(os.path.join(os.path.dirname(os.path.abspath(__file__)), 'gen.py')).read()
    m = re.search(r"^FORM_NAMES = (\[.*?\])$", gen_src, re.M)
    form_names = ast.literal_eval(m.group(1)) if m else None
    extra_rows, extra_names = [], []
    if form_names is None:
        rep.setdefault('refused', []).append('FORM_NAMES not found in gen.py')
    else:
        walker = conwalk.Walker(conwalk.TableRegistry())
        for le in (True, False):
            for fmt in (32, 64):
                for asz in (4, 8):
                    for ver in (2, 3, 4, 5):
                        DS.DWARFStructs._structs_cache.clear()
                        st = DS.DWARFStructs(little_endian=le, dwarf_format=fmt, address_size=asz, dwarf_version=ver)
                        ents = []
                        for k in sorted(st.Dwarf_dw_form):
                            if k in form_names:
                                continue
                            v = st.Dwarf_dw_form[k]
                            txt = '(Con.unsupported "None")' if v is None else walker.con(v)
                            ents.append('(%s, %s)' % (lean_str(k), txt))
                            if k not in extra_names:
                                extra_names.append(k)
                        extra_rows.append('(⟨%s, %d, %d, %d⟩, [%s])' % ('true' if le else 'false', fmt, asz, ver, ', '.join(ents)))
        DS.DWARFStructs._structs_cache.clear()
        if walker.refusals:
            rep.setdefault('refused', []).extend(walker.refusals)
    rep['extra_form_names'] = extra_names

    b = lambda x: 'true' if x else 'false'
    L = ['import PyElf.Core.Bundles', 'namespace PyElf.Gen', 'open PyElf', '',
         '/-- DW_LNS_* / DW_LNE_* names used by `LineProgram._decode_line_program`, with their values in the module -/',
         'def lnConstTable : List (String × Int) :=\n    [%s]' % ', '.join('(%s, %d)' % (lean_str(k), v) for k, v in items),
         '/-- `FormattedEntry._parse` still has the source text `Model.Line.formattedParse` mirrors -/',
         'def formattedEntrySourceOk : Bool := %s' % b(fe_ok),
         '/-- `initial_length_field_size` is `4 if self.dwarf_format == 32 else 12` -/',
         'def initialLengthFieldSizeOk : Bool := %s' % b(ilfs_ok),
         '/-- entries of `Dwarf_dw_form` outside the bundles\' `forms` list, per configuration -/',
         'def lineExtraFormNames : List String := [%s]' % ', '.join(lean_str(k) for k in extra_names),
         'def lineExtraForms : List (DwarfCfg × List (String × Con)) :=\n    [%s]' % ',\n     '.join(extra_rows),
         '', 'end PyElf.Gen', '']
    return '\n'.join(L), rep
