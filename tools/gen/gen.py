#!/venv/bin/python
"""Regenerate lean/PyElf/Gen/*.lean from the live /repo tree.

  T1  tables   -> Gen/Tables.lean   (every ENUM_* dict, flag classes, DWARF constants, opcode maps)
  T2  structs  -> Gen/Structs.lean  (every construct struct, for every configuration, as `Con` terms)
  T3  pure fns -> Gen/Pure.lean     (pure integer functions, see t3_pure.py)

Run as:  PYTHONPATH=/repo /venv/bin/python tools/gen/gen.py [--repo /repo] [--out lean/PyElf/Gen]
Files are rewritten only when their content changes.  A JSON report (counts,
refusals) is written to <out>/report.json.
"""
import sys, os, json, hashlib, inspect, importlib, argparse

HERE = os.path.dirname(os.path.abspath(__file__))
sys.path.insert(0, HERE)

ap = argparse.ArgumentParser()
ap.add_argument('--repo', default=os.environ.get('VERIF_REPO', '/repo'))
ap.add_argument('--out', default=os.path.join(HERE, '..', '..', 'lean', 'PyElf', 'Gen'))
args = ap.parse_args()
sys.path.insert(0, args.repo)

from lambdas import lean_str, lean_int, Refuse      # noqa: E402
import conwalk                                       # noqa: E402
import t3_pure                                       # noqa: E402

import elftools                                      # noqa: E402
assert os.path.realpath(os.path.dirname(os.path.dirname(elftools.__file__))) == os.path.realpath(args.repo), \
    'elftools imported from %s, expected %s' % (elftools.__file__, args.repo)

from elftools.elf import enums as EE, constants as EC, structs as ES     # noqa: E402
from elftools.dwarf import enums as DE, constants as DC, structs as DS   # noqa: E402
from elftools.ehabi import structs as HS                                 # noqa: E402
from elftools import construct as C                                      # noqa: E402

report = {'refusals': [], 'tables': 0, 'table_entries': 0, 'cons': 0, 'elf_bundles': 0, 'dwarf_bundles': 0}


def name_key(s):
    return int.from_bytes(s.encode('utf-8'), 'big')


def chunked_list(items, ty, per=60):
    """Lean list literal split into chunks joined by ++ (keeps elaboration shallow)."""
    if not items:
        return '([] : List (%s))' % ty
    chunks = [items[i:i + per] for i in range(0, len(items), per)]
    parts = ['([' + ', '.join(ch) + '] : List (%s))' % ty for ch in chunks]
    return '\n    ++ '.join(parts)


def write_if_changed(path, text):
    old = None
    if os.path.exists(path):
        with open(path) as f:
            old = f.read()
    if old != text:
        with open(path, 'w') as f:
            f.write(text)
        return True
    return False


# ----------------------------------------------------------------------------- T1
registry = conwalk.TableRegistry()
tables = []          # (id, items, has_pass_default)


def add_table(tid, mapping):
    items = [(k, v) for k, v in mapping.items() if k != '_default_']
    if not all(isinstance(k, str) and isinstance(v, int) and not isinstance(v, bool) for k, v in items):
        return False
    pd = mapping.get('_default_', None) is C.Pass
    tables.append((tid, items, pd))
    registry.register(tid, mapping)
    return True


for mod, prefix in ((EE, 'elf'), (DE, 'dwarf')):
    for k, v in vars(mod).items():
        if k.startswith('ENUM') and isinstance(v, dict):
            if v and all(isinstance(x, dict) for x in v.values()):
                for kk, vv in v.items():
                    add_table('%s.%s' % (k, kk), vv)
            else:
                add_table(k, v)

# flag / constant classes of elf/constants.py
const_tables = []
for k, v in vars(EC).items():
    if inspect.isclass(v):
        items = [(a, b) for a, b in vars(v).items() if not a.startswith('_') and isinstance(b, int) and not isinstance(b, bool)]
        if items:
            const_tables.append(('EC.' + k, items))
# module-level DW_* constants of dwarf/constants.py
dwc = [(a, b) for a, b in vars(DC).items() if a.startswith('DW_') and isinstance(b, int) and not isinstance(b, bool)]
const_tables.append(('DC', dwc))
# reverse form map, operation tables, CFA opcode name map
const_tables.append(('DW_FORM_raw2name', [(v, k) for k, v in DE.DW_FORM_raw2name.items() if v != '_default_']))
from elftools.dwarf import dwarf_expr as DX, callframe as CF          # noqa: E402
const_tables.append(('DW_OP_name2opcode', list(DX.DW_OP_name2opcode.items())))
const_tables.append(('DW_OP_opcode2name', [(v, k) for k, v in DX.DW_OP_opcode2name.items()]))
const_tables.append(('CFA_OPCODE_NAME_MAP', [(v, k) for k, v in CF._OPCODE_NAME_MAP.items()]))


def try_compose(items):
    """Explain a dict assembled at struct-creation time as dict(A); update(B)."""
    tabs = [(tid, its) for tid, its, _ in tables]
    for ta, ia in tabs:
        if tuple(ia) == tuple(items):
            return ta
    for ta, ia in tabs:
        da = dict(ia)
        if not set(da).issubset(dict(items)):
            continue
        for tb, ib in tabs:
            d = dict(da)
            d.update(dict(ib))
            if list(d.items()) == list(items):
                return '%s+%s' % (ta, tb)
    return None


_orig_identify = registry.identify


def identify(encoding, pd=False):
    items = [(k, v) for k, v in encoding.items() if k != '_default_']
    key = tuple(items)
    if key in registry.by_content:
        return registry.by_content[key]
    comp = try_compose(items)
    if comp is None:
        comp = 'SYNTH_' + hashlib.sha1(repr(items).encode()).hexdigest()[:10]
    registry.by_content[key] = comp
    registry.tables[comp] = items
    tables.append((comp, items, pd))
    return comp


registry.identify = identify

# ----------------------------------------------------------------------------- T2
ELF_NAMES = ['Elf_Arm_Attribute_Tag', 'Elf_Attr_Subsection_Header', 'Elf_Chdr', 'Elf_Dyn', 'Elf_Ehdr', 'Elf_Hash', 'Elf_Nhdr', 'Elf_Nt_File', 'Elf_Phdr', 'Elf_Prop', 'Elf_Prpsinfo', 'Elf_Rel', 'Elf_Rela', 'Elf_Relr', 'Elf_RiscV_Attribute_Tag', 'Elf_Shdr', 'Elf_Stabs', 'Elf_Sunw_Syminfo', 'Elf_Sym', 'Elf_Verdaux', 'Elf_Verdef', 'Elf_Vernaux', 'Elf_Verneed', 'Elf_Versym', 'Elf_abi', 'Elf_addr', 'Elf_byte', 'Elf_half', 'Elf_ntbs', 'Elf_offset', 'Elf_sword', 'Elf_sxword', 'Elf_ugid', 'Elf_uleb128', 'Elf_word', 'Elf_word64', 'Elf_xword', 'Gnu_Hash', 'Gnu_debuglink']
DWARF_NAMES = ['Dwarf_CIE_header', 'Dwarf_CU_header', 'Dwarf_FDE_header', 'Dwarf_TU_header', 'Dwarf_abbrev_declaration', 'Dwarf_address_table_header', 'Dwarf_aranges_header', 'Dwarf_debugaltlink', 'Dwarf_debugsup', 'Dwarf_initial_length', 'Dwarf_int16', 'Dwarf_int32', 'Dwarf_int64', 'Dwarf_int8', 'Dwarf_length', 'Dwarf_lineprog_file_entry', 'Dwarf_lineprog_header', 'Dwarf_loclists_CU_header', 'Dwarf_loclists_counted_location_description', 'Dwarf_loclists_entries', 'Dwarf_locview_pair', 'Dwarf_nameLUT_header', 'Dwarf_offset', 'Dwarf_rnglists_CU_header', 'Dwarf_rnglists_entries', 'Dwarf_sleb128', 'Dwarf_string_offsets_table_header', 'Dwarf_target_addr', 'Dwarf_uint16', 'Dwarf_uint24', 'Dwarf_uint32', 'Dwarf_uint64', 'Dwarf_uint8', 'Dwarf_uleb128', 'EH_CIE_header', 'the_Dwarf_offset', 'the_Dwarf_sleb128', 'the_Dwarf_target_addr', 'the_Dwarf_uint16', 'the_Dwarf_uint32', 'the_Dwarf_uint8', 'the_Dwarf_uleb128']
FORM_NAMES = ['DW_FORM_GNU_ref_alt', 'DW_FORM_GNU_strp_alt', 'DW_FORM_addr', 'DW_FORM_addrx', 'DW_FORM_addrx1', 'DW_FORM_addrx2', 'DW_FORM_addrx3', 'DW_FORM_addrx4', 'DW_FORM_block', 'DW_FORM_block1', 'DW_FORM_block2', 'DW_FORM_block4', 'DW_FORM_data1', 'DW_FORM_data16', 'DW_FORM_data2', 'DW_FORM_data4', 'DW_FORM_data8', 'DW_FORM_exprloc', 'DW_FORM_flag', 'DW_FORM_flag_present', 'DW_FORM_implicit_const', 'DW_FORM_indirect', 'DW_FORM_line_strp', 'DW_FORM_loclistx', 'DW_FORM_ref1', 'DW_FORM_ref2', 'DW_FORM_ref4', 'DW_FORM_ref8', 'DW_FORM_ref_addr', 'DW_FORM_ref_sig8', 'DW_FORM_ref_sup4', 'DW_FORM_ref_sup8', 'DW_FORM_ref_udata', 'DW_FORM_rnglistx', 'DW_FORM_sdata', 'DW_FORM_sec_offset', 'DW_FORM_string', 'DW_FORM_strp', 'DW_FORM_strp_sup', 'DW_FORM_strx', 'DW_FORM_strx1', 'DW_FORM_strx2', 'DW_FORM_strx3', 'DW_FORM_strx4', 'DW_FORM_udata']
EHABI_NAMES = ['EH_index_struct', 'EH_table_struct', 'EHABI_uint32']

walker = conwalk.Walker(registry)
pool = {}        # con text -> def name
pool_order = []


def pooled(text):
    if text not in pool:
        pool[text] = 'c%d' % len(pool)
        pool_order.append(text)
    return pool[text]


def is_construct(x):
    return isinstance(x, C.Construct)


def bundle_of(obj, extra_callables=()):
    """All construct-valued attributes of a structs object, by attribute name."""
    out = []
    for name in sorted(vars(obj)):
        v = getattr(obj, name)
        if name.startswith('_'):
            continue
        if is_construct(v):
            out.append((name, pooled(walker.con(v))))
        elif callable(v) and not inspect.isclass(v) or (inspect.isclass(v) and issubclass(v, C.Construct)):
            # field factories (ULInt32, ULEB128, CString, ...): instantiate with an empty name
            try:
                inst = v('')
            except Exception:
                continue
            if is_construct(inst):
                out.append((name, pooled(walker.con(inst))))
        elif isinstance(v, dict) and v and all(isinstance(k, str) for k in v):
            if all((x is None or is_construct(x)) for x in v.values()):
                for k, x in v.items():
                    if x is None:
                        out.append(('%s:%s' % (name, k), pooled('(Con.unsupported "None")')))
                    else:
                        out.append(('%s:%s' % (name, k), pooled(walker.con(x))))
    return out


# --- ELF configurations -------------------------------------------------------
machines = [k for k in EE.ENUM_E_MACHINE if k != '_default_']
UNKNOWN_MACHINE = 0xfe01       # stands for every integer e_machine without a name
elf_axes = [(le, cls, sol, core) for le in (True, False) for cls in (32, 64)
            for sol in (False, True) for core in (False, True)]


def elf_bundle(le, cls, machine, sol, core):
    s = ES.ELFStructs(little_endian=le, elfclass=cls)
    s.create_basic_structs()
    s.create_advanced_structs('ET_CORE' if core else 'ET_EXEC', machine,
                              'ELFOSABI_SOLARIS' if sol else 'ELFOSABI_SYSV')
    return tuple(bundle_of(s))


# group machines by behaviour across every axis
sig_of = {}
for m in machines + [UNKNOWN_MACHINE]:
    sig_of[m] = tuple(elf_bundle(le, cls, m, sol, core) for (le, cls, sol, core) in elf_axes)
default_sig = sig_of[UNKNOWN_MACHINE]
classes = {}      # sig -> representative name
machine_class = []
for m in machines:
    sg = sig_of[m]
    if sg == default_sig:
        continue
    if sg not in classes:
        classes[sg] = m
    machine_class.append((m, classes[sg]))
class_reps = [('default', UNKNOWN_MACHINE)] + [(rep, rep) for rep in classes.values()]

elf_bundles = []     # ((le, cls, mclass, sol, core), bundle)
for rep, m in class_reps:
    for (le, cls, sol, core) in elf_axes:
        elf_bundles.append(((le, cls, rep, sol, core), elf_bundle(le, cls, m, sol, core)))
report['elf_bundles'] = len(elf_bundles)

# --- DWARF configurations -----------------------------------------------------
dwarf_bundles = []
for le in (True, False):
    for fmt in (32, 64):
        for asz in (4, 8):
            for ver in (2, 3, 4, 5):
                DS.DWARFStructs._structs_cache.clear()
                s = DS.DWARFStructs(little_endian=le, dwarf_format=fmt, address_size=asz, dwarf_version=ver)
                dwarf_bundles.append(((le, fmt, asz, ver), tuple(bundle_of(s))))
DS.DWARFStructs._structs_cache.clear()
report['dwarf_bundles'] = len(dwarf_bundles)

# the initial-length adapter's decode logic is modelled by Con.initialLength; pin its source
ila_src = inspect.getsource(DS._InitialLengthAdapter._decode)
ila_norm = ' '.join(ila_src.split())
ILA_EXPECT = ("def _decode(self, obj, context): if obj.first < 0xFFFFFF00: context['is64'] = False "
              "return obj.first else: if obj.first == 0xFFFFFFFF: context['is64'] = True return obj.second "
              "else: raise ConstructError(\"Failed decoding initial length for %X\" % ( obj.first))")
initial_length_ok = (ila_norm == ILA_EXPECT)
report['initial_length_adapter_source_ok'] = initial_length_ok

# --- EHABI ---------------------------------------------------------------------
ehabi_bundles = []
for le in (True, False):
    s = HS.EHABIStructs(le)
    ehabi_bundles.append((le, tuple(bundle_of(s))))

report['refusals'] = sorted(set(walker.refusals))
report['cons'] = len(pool)

# ----------------------------------------------------------------------------- emit
os.makedirs(args.out, exist_ok=True)
HDR = "-- GENERATED by tools/gen/gen.py from /repo — do not edit.\n"


def emit_tables():
    L = [HDR, 'import PyElf.Core.Construct', 'set_option maxRecDepth 100000', 'namespace PyElf.Gen', '']
    idx = []
    n_entries = 0
    for i, (tid, items, pd) in enumerate(tables):
        n_entries += len(items)
        ents = ['(%s, %s)' % (lean_str(k), lean_int(v)) for k, v in items]
        L.append('/-- %s -/' % tid)
        L.append('def T%d : List (String × Int) :=\n    %s' % (i, chunked_list(ents, 'String × Int')))
        kents = ['(%d, %s)' % (name_key(k), lean_int(v)) for k, v in items]
        L.append('def K%d : List (Nat × Int) :=\n    %s' % (i, chunked_list(kents, 'Nat × Int')))
        idx.append((tid, i, pd))
    L.append('')
    L.append('/-- every enumeration table of the library: id, entries in dict order, `_default_` is Pass -/')
    L.append('def tables : List (String × List (String × Int) × Bool) :=\n    %s' % chunked_list(
        ['(%s, T%d, %s)' % (lean_str(t), i, 'true' if pd else 'false') for t, i, pd in idx],
        'String × List (String × Int) × Bool'))
    L.append('def keyTables : List (String × List (Nat × Int)) :=\n    %s' % chunked_list(
        ['(%s, K%d)' % (lean_str(t), i) for t, i, pd in idx], 'String × List (Nat × Int)'))
    L.append('')
    for j, (cid, items) in enumerate(const_tables):
        n_entries += len(items)
        ents = ['(%s, %s)' % (lean_str(k), lean_int(v)) for k, v in items]
        L.append('/-- %s -/' % cid)
        L.append('def C%d : List (String × Int) :=\n    %s' % (j, chunked_list(ents, 'String × Int')))
        kents = ['(%d, %s)' % (name_key(k), lean_int(v)) for k, v in items]
        L.append('def CK%d : List (Nat × Int) :=\n    %s' % (j, chunked_list(kents, 'Nat × Int')))
    L.append('def constTables : List (String × List (String × Int)) :=\n    %s' % chunked_list(
        ['(%s, C%d)' % (lean_str(c), j) for j, (c, _) in enumerate(const_tables)], 'String × List (String × Int)'))
    L.append('def constKeyTables : List (String × List (Nat × Int)) :=\n    %s' % chunked_list(
        ['(%s, CK%d)' % (lean_str(c), j) for j, (c, _) in enumerate(const_tables)], 'String × List (Nat × Int)'))
    L.append('')
    L.append('end PyElf.Gen')
    report['tables'] = len(tables) + len(const_tables)
    report['table_entries'] = n_entries
    return '\n'.join(L) + '\n'


def emit_structs():
    L = [HDR, 'import PyElf.Core.Bundles', 'set_option maxRecDepth 100000', 'namespace PyElf.Gen', 'open PyElf', '']
    for text in pool_order:
        L.append('def %s : Con := %s' % (pool[text], text))
    L.append('')
    # distinct bundles, as records
    bpool = {}

    def rec_elf(b):
        d = dict(b)
        return '{ ' + ', '.join('%s := %s' % (n, d.get(n, 'Con.missing')) for n in ELF_NAMES) + ' }'

    def rec_dwarf(b):
        d = dict(b)
        fs = ['(%s, %s)' % (lean_str(f), d.get('Dwarf_dw_form:' + f, 'Con.missing')) for f in FORM_NAMES]
        return '{ ' + ', '.join('%s := %s' % (n, d.get(n, 'Con.missing')) for n in DWARF_NAMES) + \
            ',\n      forms := [' + ', '.join(fs) + '] }'

    def rec_ehabi(b):
        d = dict(b)
        return '{ ' + ', '.join('%s := %s' % (n, d.get(n, 'Con.missing')) for n in EHABI_NAMES) + ' }'

    for kind, ty, rec, lst in (('e', 'ElfStructs', rec_elf, [b for _, b in elf_bundles]),
                               ('d', 'DwarfStructs', rec_dwarf, [b for _, b in dwarf_bundles]),
                               ('h', 'EhabiStructs', rec_ehabi, [b for _, b in ehabi_bundles])):
        for b in lst:
            text = rec(b)
            if (kind, text) not in bpool:
                bpool[(kind, text)] = '%sb%d' % (kind, len(bpool))
                L.append('def %s : %s :=\n    %s' % (bpool[(kind, text)], ty, text))
    L.append('')
    b2 = lambda x: 'true' if x else 'false'
    L.append('/-- machine name → behaviour class (representative machine); unlisted ⇒ "default" -/')
    L.append('def machineClass : List (String × String) :=\n    %s' % chunked_list(
        ['(%s, %s)' % (lean_str(m), lean_str(r)) for m, r in machine_class], 'String × String'))
    L.append('/-- (little_endian, elfclass, machine class, OS ABI is Solaris, e_type is ET_CORE) → bundle -/')
    L.append('def elfBundles : List (ElfCfg × ElfStructs) :=\n    %s' % chunked_list(
        ['(⟨%s, %d, %s, %s, %s⟩, %s)' % (b2(le), cls, lean_str(rep), b2(sol), b2(core), bpool[('e', rec_elf(b))])
         for (le, cls, rep, sol, core), b in elf_bundles], 'ElfCfg × ElfStructs'))
    L.append('/-- (little_endian, dwarf_format, address_size, dwarf_version) → bundle -/')
    L.append('def dwarfBundles : List (DwarfCfg × DwarfStructs) :=\n    %s' % chunked_list(
        ['(⟨%s, %d, %d, %d⟩, %s)' % (b2(le), fmt, asz, ver, bpool[('d', rec_dwarf(b))])
         for (le, fmt, asz, ver), b in dwarf_bundles], 'DwarfCfg × DwarfStructs'))
    L.append('def ehabiBundles : List (Bool × EhabiStructs) :=\n    %s' % chunked_list(
        ['(%s, %s)' % (b2(le), bpool[('h', rec_ehabi(b))]) for le, b in ehabi_bundles], 'Bool × EhabiStructs'))
    L.append('/-- `_InitialLengthAdapter._decode` still has the source text Con.initialLength models -/')
    L.append('def initialLengthAdapterSourceOk : Bool := %s' % b2(initial_length_ok))
    L.append('')
    L.append('end PyElf.Gen')
    return '\n'.join(L) + '\n'


changed = []
if write_if_changed(os.path.join(args.out, 'Structs.lean'), emit_structs()):
    changed.append('Structs')
# tables are emitted after structs: walking structs may synthesise composed tables
if write_if_changed(os.path.join(args.out, 'Tables.lean'), emit_tables()):
    changed.append('Tables')
pure_text, pure_report = t3_pure.generate(args.repo)
if write_if_changed(os.path.join(args.out, 'Pure.lean'), HDR + pure_text):
    changed.append('Pure')
report['pure'] = pure_report
# plug-in generators: tools/gen/extra_<name>.py exposing generate(repo) -> (lean_text, report)
import glob as _glob
report['extra'] = {}
for _path in sorted(_glob.glob(os.path.join(HERE, 'extra_*.py'))):
    _name = os.path.basename(_path)[:-3]
    _mod = importlib.import_module(_name)
    _text, _rep = _mod.generate(args.repo)
    _lean_name = 'Extra_' + _name[len('extra_'):].capitalize()
    if write_if_changed(os.path.join(args.out, _lean_name + '.lean'), HDR + _text):
        changed.append(_lean_name)
    report['extra'][_name] = _rep
report['changed'] = changed
with open(os.path.join(args.out, 'report.json'), 'w') as f:
    json.dump(report, f, indent=1, sort_keys=True)
print(json.dumps({k: report[k] for k in ('tables', 'table_entries', 'cons', 'elf_bundles', 'dwarf_bundles', 'changed')}))
if report['refusals']:
    print('refusals:', report['refusals'])
