"""C04 plug-in for gen.py: the entries of `DWARFStructs.Dwarf_dw_form` the bundles' `forms` list does not carry.

The bundles (gen.py T2) restrict `Dwarf_dw_form` to FORM_NAMES, the forms the Spec's table lists (`DwarfStructs.formNames`
in Core/Bundles.lean).  The dict of the library has more keys; `DIE._parse_DIE` / `_resolve_indirect` index it with
whatever name `ENUM_DW_FORM` / `DW_FORM_raw2name` produce, so every key that is the NAME OF A FORM matters to the DIE
model.  Today that is the legacy `DW_FORM_ref` (code 0x02), which `Model.C04.formParser` special-cases as
`the_Dwarf_uint32`.  This module regenerates, for all 32 configurations,

  dieExtraForms      the (key, parser) pairs of `Dwarf_dw_form` outside FORM_NAMES, translated like every other construct
  dieExtraFormKeys   their keys

and Props/TieC04 proves (`form_ref_entry`, `form_extra_keys`) that the only such key naming a form is `DW_FORM_ref` and that
its parser is the bundle's `the_Dwarf_uint32` — the special case of the model, tied to the code.

Introspection directed; a construct conwalk does not recognise becomes `Con.unsupported …`, which makes the tie theorem fail.
"""
import ast, os, re


def lean_str(s):
    return '"' + s.replace('\\', '\\\\').replace('"', '\\"') + '"'


def generate(repo):
    from elftools.dwarf import structs as DS
    import conwalk
    rep = {}
    gen_src = open(os.path.join(os.path.dirname(os.path.abspath(__file__)), 'gen.py')).read()
    m = re.search(r"^FORM_NAMES = (\[.*?\])$", gen_src, re.M)
    form_names = ast.literal_eval(m.group(1)) if m else None
    rows, keys = [], []
    if form_names is None:
        rep.setdefault('refused', []).append('FORM_NAMES not found in gen.py')
    else:
        walker = conwalk.Walker(conwalk.TableRegistry())
        for le in (True, False):
            for fmt in (32, 64):
                for asz in (4, 8):
                    for ver in (2, 3, 4, 5):
                        DS.DWARFStructs._structs_cache.clear()
                        st = DS.DWARFStructs(little_endian=le, dwarf_format=fmt, address_size=asz, dwarf_version=ver)
                        ents = []
                        for k in sorted(st.Dwarf_dw_form):
                            if k in form_names:
                                continue
                            v = st.Dwarf_dw_form[k]
                            txt = '(Con.unsupported "None")' if v is None else walker.con(v)
                            ents.append('(%s, %s)' % (lean_str(k), txt))
                            if k not in keys:
                                keys.append(k)
                        rows.append('(⟨%s, %d, %d, %d⟩, [%s])' % ('true' if le else 'false', fmt, asz, ver, ', '.join(ents)))
        DS.DWARFStructs._structs_cache.clear()
        if walker.refusals:
            rep.setdefault('refused', []).extend(walker.refusals)
    rep['extra_form_keys'] = keys
    L = ['import PyElf.Core.Bundles', 'namespace PyElf.Gen', 'open PyElf', '',
         '/-- keys of `Dwarf_dw_form` outside the bundles\' `forms` list (any configuration) -/',
         'def dieExtraFormKeys : List String := [%s]' % ', '.join(lean_str(k) for k in keys),
         '/-- the entries of `Dwarf_dw_form` outside the bundles\' `forms` list, per configuration -/',
         'def dieExtraForms : List (DwarfCfg × List (String × Con)) :=\n    [%s]' % ',\n     '.join(rows),
         '', 'end PyElf.Gen', '']
    return '\n'.join(L), rep
