"""C08 plug-in generator: the relocation recipe tables and the machine-architecture map.

  relocRecipes : table attribute name -> [(r_type, bytesize, has_addend, calc function name)]
                 by introspection of `RelocationHandler._RELOCATION_RECIPES_*` (live dicts of namedtuples)
  relocCalc    : calc function name -> the T3 translation in Gen.Pure (only for functions T3 translated and whose
                 parameter names are exactly (value, sym_value, offset, addend): the call site passes keywords)
  machineArch  : the dict literal inside `ELFFile.get_machine_arch` (by `ast`), plus its `.get` default

Anything of an unexpected shape is emitted as a calc name starting with "REFUSED:", which `relocCalc` does not
know, so `recipes_match_psabi` (a kernel-evaluated table walk) stops being provable.
"""
import ast, inspect, textwrap
import calcfns


def lean_str(s):
    return '"' + s.replace('\\', '\\\\').replace('"', '\\"') + '"'


T3_NAMES = ['reloc_calc_identity', 'reloc_calc_sym_plus_value', 'reloc_calc_sym_plus_value_pcrel',
            'reloc_calc_sym_plus_addend', 'reloc_calc_sym_plus_addend_pcrel', 'reloc_calc_value_minus_sym_addend',
            'arm_reloc_calc_sym_plus_value_pcrel', 'bpf_64_32_reloc_calc_sym_plus_addend']


def generate(repo):
    from elftools.elf import relocation as R
    from elftools.elf.elffile import ELFFile
    rep = {'recipe_tables': 0, 'recipes': 0, 'refused': [], 'arch_entries': 0}
    H = R.RelocationHandler
    tabs = []
    calc_ok = {}
    for attr in sorted(vars(H)):
        if not attr.startswith('_RELOCATION_RECIPES_'):
            continue
        d = getattr(H, attr)
        ents = []
        if not isinstance(d, dict):
            rep['refused'].append('%s: not a dict' % attr)
            ents.append((0, 0, False, 'REFUSED:not a dict'))
            tabs.append((attr, ents))
            continue
        for k, v in d.items():
            nm = None
            try:
                ok = (isinstance(k, int) and not isinstance(k, bool) and tuple(v._fields) == ('bytesize', 'has_addend', 'calc_func')
                      and isinstance(v.bytesize, int) and isinstance(v.has_addend, bool) and inspect.isfunction(v.calc_func))
                if ok:
                    fn = v.calc_func
                    # named by the formula it computes on sample points (tools/gen/calcfns.py), not by its Python name
                    nm = calcfns.canonical_name(fn) or ('unrecognised ' + fn.__name__)
                    params = list(inspect.signature(fn).parameters)
                    dflt = inspect.signature(fn).parameters['addend'].default if 'addend' in params else None
                    ok = (nm in T3_NAMES and params == ['value', 'sym_value', 'offset', 'addend'] and dflt == 0)
            except Exception:
                ok = False
            if ok:
                ents.append((k, v.bytesize, v.has_addend, nm))
                calc_ok[nm] = True
            else:
                rep['refused'].append('%s[%r]' % (attr, k))
                ents.append((k if isinstance(k, int) else 0, 0, False, 'REFUSED:%s' % (nm or 'shape')))
        tabs.append((attr, ents))
        rep['recipes'] += len(ents)
    rep['recipe_tables'] = len(tabs)

    # ---- get_machine_arch: one dict literal of string constants, returned through .get(self['e_machine'], <default>)
    arch, default = [], None
    try:
        src = textwrap.dedent(inspect.getsource(ELFFile.get_machine_arch))
        fd = ast.parse(src).body[0]
        body = [s for s in fd.body if not (isinstance(s, ast.Expr) and isinstance(s.value, ast.Constant))]
        asg, ret = body
        assert isinstance(asg, ast.Assign) and len(asg.targets) == 1 and isinstance(asg.targets[0], ast.Name)
        var = asg.targets[0].id
        assert isinstance(asg.value, ast.Dict)
        for k, v in zip(asg.value.keys, asg.value.values):
            assert isinstance(k, ast.Constant) and isinstance(k.value, str)
            assert isinstance(v, ast.Constant) and isinstance(v.value, str)
            arch.append((k.value, v.value))
        c = ret.value
        assert isinstance(ret, ast.Return) and isinstance(c, ast.Call) and isinstance(c.func, ast.Attribute)
        assert c.func.attr == 'get' and isinstance(c.func.value, ast.Name) and c.func.value.id == var
        assert ast.dump(c.args[0]) == ast.dump(ast.parse("self['e_machine']").body[0].value)
        assert isinstance(c.args[1], ast.Constant) and isinstance(c.args[1].value, str)
        default = c.args[1].value
        # Python dict literal: a repeated key keeps the last value
        seen = {}
        for k, v in arch:
            seen[k] = v
        arch = list(seen.items())
    except Exception as e:      # noqa: BLE001
        rep['refused'].append('get_machine_arch: %s' % type(e).__name__)
        arch, default = [], 'REFUSED'
    rep['arch_entries'] = len(arch)

    L = ['import PyElf.Gen.Pure', 'set_option maxRecDepth 100000', 'namespace PyElf.Gen', 'open PyElf', '']
    L.append('/-- `RelocationHandler._RELOCATION_RECIPES_*`: (r_type, bytesize, has_addend, calc function) in dict order -/')
    L.append('def relocRecipes : List (String × List (Int × Nat × Bool × String)) := [')
    rows = []
    for attr, ents in tabs:
        es = ', '.join('(%d, %d, %s, %s)' % (k, b, 'true' if a else 'false', lean_str(nm)) for k, b, a, nm in ents)
        rows.append('  (%s, [%s])' % (lean_str(attr), es))
    L.append(',\n'.join(rows))
    L.append(']')
    L.append('')
    L.append('/-- calc function name → its T3 translation; arguments in keyword order (value, sym_value, offset, addend) -/')
    L.append('def relocCalc : String → Option (Int → Int → Int → Int → Int)')
    for nm in T3_NAMES:
        if calc_ok.get(nm):
            L.append('  | %s => some Pure.%s' % (lean_str(nm), nm))
    L.append('  | _ => none')
    L.append('')
    L.append('/-- the dict literal of `ELFFile.get_machine_arch` -/')
    L.append('def machineArch : List (String × String) := [')
    L.append(',\n'.join('  (%s, %s)' % (lean_str(k), lean_str(v)) for k, v in arch))
    L.append(']')
    L.append('def machineArchDefault : String := %s' % lean_str(default))
    L.append('')
    L.append('end PyElf.Gen')
    return '\n'.join(L) + '\n', rep
