"""C17 plug-in for gen.py: an index of the generated key tables by Nat id key.

Kernel String equality costs ~30 ms per compare, so the per-table C17 theorems select their table through
`int.from_bytes(id, 'big')`.  The entries refer to the `K<i>` / `CK<j>` constants of Gen/Tables.lean (no data is
duplicated), in the exact order gen.py emitted them; `isEnum` marks the dictionaries usable as `Enum` mappings
(Gen.keyTables) as opposed to the constant classes / reverse maps (Gen.constKeyTables).

Also emitted (supporting lemma of DESIGN §8, C18): for every `_DESCR_*` dictionary of elf/descriptions.py that is
keyed by the names of an ENUM_* table, the pair (ENUM table id, names without a description).

Also emitted (C17, "range-marker" rule): for every table of the index, the list of marker flags parallel to its
entries: flag i says whether the NAME of entry i denotes a range of codes, a mask or a count (`*_LOOS`, `*_HIPROC`,
`*_LO_*`, `*_lo_user`, `*NUM` ...) rather than one code.  The flags are computed by `RANGE_MARKER` below (the same
regex the harness uses; the harness and the driver's `selfcheck` (Spec.isRangeMarker on the String names) both
re-derive every flag, so the regex is tied from two sides).
"""
import re
import sys

# names that denote a RANGE of codes, a mask or a count — never the name of one code (gABI / DWARF "lo/hi" conventions)
RANGE_MARKER = re.compile(r'(_LO(OS|PROC|USER|RESERVE|SUNW)?$|_HI(OS|PROC|USER|RESERVE|SUNW)?$|_LO_|_HI_|_lo_user$|_hi_user$|NUM$)')


def is_marker(name):
    return bool(RANGE_MARKER.search(name))


def name_key(s):
    return int.from_bytes(s.encode('utf-8'), 'big')


def lean_str(s):
    return '"' + s.replace('\\', '\\\\').replace('"', '\\"') + '"'


def generate(repo):
    main = sys.modules.get('__main__')
    tables = getattr(main, 'tables', None)
    const_tables = getattr(main, 'const_tables', None)
    L = ['import PyElf.Gen.Tables', 'set_option maxRecDepth 100000', 'namespace PyElf.Gen', '']
    rep = {}
    if tables is None or const_tables is None:
        # refuse: an empty index makes every per-table theorem and the coverage theorem fail
        L.append('def tableIndex : List (Nat × String × Bool × List (Nat × Int)) := []')
        L.append('def tableIndexComplete : Bool := false')
        L.append('def markerIndex : List (Nat × List Bool) := []')
        rep['refused'] = 'gen.py table lists not visible'
    else:
        ents = []
        for i, (tid, items, pd) in enumerate(tables):
            ents.append('(%d, %s, true, K%d)' % (name_key(tid), lean_str(tid), i))
        for j, (cid, items) in enumerate(const_tables):
            ents.append('(%d, %s, false, CK%d)' % (name_key(cid), lean_str(cid), j))
        keys = [name_key(t[0]) for t in tables] + [name_key(c[0]) for c in const_tables]
        L.append('/-- (id key, id, is an ENUM_* dictionary, key table) for every generated table, in emission order -/')
        L.append('def tableIndex : List (Nat × String × Bool × List (Nat × Int)) :=\n    [%s]' % ',\n     '.join(ents))
        L.append('def tableIndexComplete : Bool := %s' % ('true' if len(set(keys)) == len(keys) else 'false'))
        rep['tables'] = len(ents)
        # ---- marker flags, parallel to the entries of each table (same order as tableIndex) ----------------
        ments, nmark = [], 0
        for tid, items in [(t[0], t[1]) for t in tables] + [(c[0], c[1]) for c in const_tables]:
            if not all(isinstance(n, str) for n, _ in items):
                # refuse: a flag list of the wrong length makes the table's theorem fail
                ments.append('(%d, [])' % name_key(tid))
                rep.setdefault('marker_refused', []).append(tid)
                continue
            flags = [is_marker(n) for n, _ in items]
            nmark += sum(flags)
            ments.append('(%d, [%s])' % (name_key(tid), ', '.join('true' if f else 'false' for f in flags)))
        L.append('/-- (id key, range-marker flag of every entry of the table, in entry order) for every table of the index -/')
        L.append('def markerIndex : List (Nat × List Bool) :=\n    [%s]' % ',\n     '.join(ments))
        rep['marker_names'] = nmark
    # ---- C18 supporting data: ENUM names without a _DESCR_ entry -------------------------------------
    try:
        sys.path.insert(0, repo)
        from elftools.elf import descriptions as D, enums as E
        pairs = []
        for dn, dv in sorted(vars(D).items()):
            if not dn.startswith('_DESCR_') or not isinstance(dv, dict):
                continue
            en = 'ENUM_' + dn[len('_DESCR_'):]
            ev = getattr(E, en, None)
            if not isinstance(ev, dict) or not dv or not all(isinstance(k, str) for k in dv):
                continue
            missing = [k for k in ev if k != '_default_' and k not in dv]
            pairs.append((en, len(ev) - (1 if '_default_' in ev else 0), missing))
        L.append('/-- (ENUM table, number of names, names WITHOUT an entry in the matching name-keyed _DESCR_ table) -/')
        L.append('def descrMissing : List (String × Nat × List String) :=\n    [%s]' % ',\n     '.join(
            '(%s, %d, [%s])' % (lean_str(en), n, ', '.join(lean_str(m) for m in miss)) for en, n, miss in pairs))
        rep['descr_tables'] = len(pairs)
        rep['descr_missing'] = {en: miss for en, n, miss in pairs if miss}
    except Exception as e:      # noqa: BLE001
        L.append('def descrMissing : List (String × Nat × List String) := [("refused", 0, ["refused"])]')
        rep['descr_refused'] = repr(e)
    L.append('')
    L.append('end PyElf.Gen')
    return '\n'.join(L) + '\n', rep
