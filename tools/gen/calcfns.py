"""Which Python function computes which relocation formula — decided by behaviour on sample points, not by the
function's (private) name, so that renaming a helper alarms nobody.

The fingerprint only CHOOSES the Lean name under which T3 translates the function object found in the live recipe
tables; that the translated body equals the psABI formula for all arguments is a theorem about the translation
(`Proofs/RelocCalc`), so a wrong choice cannot make anything pass."""
import inspect
import itertools

REFS = {
    'reloc_calc_identity': lambda v, s, o, a: v,
    'reloc_calc_sym_plus_value': lambda v, s, o, a: s + v + a,
    'reloc_calc_sym_plus_value_pcrel': lambda v, s, o, a: s + v - o,
    'reloc_calc_sym_plus_addend': lambda v, s, o, a: s + a,
    'reloc_calc_sym_plus_addend_pcrel': lambda v, s, o, a: s + a - o,
    'reloc_calc_value_minus_sym_addend': lambda v, s, o, a: v - s - a,
    'arm_reloc_calc_sym_plus_value_pcrel': lambda v, s, o, a: s // 4 + v - o // 4,
    'bpf_64_32_reloc_calc_sym_plus_addend': lambda v, s, o, a: (s + a) // 8 - 1,
}
_PTS = [0, 1, 3, 8, 21, 0x1003, 0xfffffff5, 2 ** 40 + 7]
SAMPLES = [t for t in itertools.product(_PTS, repeat=4)][::7] + [(5, 11, 2, 0), (1, 2, 3, 4), (1000, 37, 12, 9)]


def fingerprint(fn):
    out = []
    for v, s, o, a in SAMPLES:
        try:
            out.append(fn(v, s, o, a))
        except Exception as e:      # noqa: BLE001
            out.append(type(e).__name__)
    return tuple(out)


_REF_FP = {fingerprint(f): nm for nm, f in REFS.items()}
assert len(_REF_FP) == len(REFS)


def recipe_functions(R):
    """distinct calc function objects of RelocationHandler._RELOCATION_RECIPES_* in first-appearance order"""
    H = R.RelocationHandler
    seen, out = set(), []
    for attr in sorted(vars(H)):
        if not attr.startswith('_RELOCATION_RECIPES_'):
            continue
        d = getattr(H, attr)
        if not isinstance(d, dict):
            continue
        for v in d.values():
            fn = getattr(v, 'calc_func', None)
            if inspect.isfunction(fn) and id(fn) not in seen:
                seen.add(id(fn))
                out.append(fn)
    return out


def canonical_name(fn):
    """the Lean name of the formula `fn` computes on the sample points, or None"""
    try:
        params = list(inspect.signature(fn).parameters)
    except (TypeError, ValueError):
        return None
    if len(params) != 4:
        return None
    return _REF_FP.get(fingerprint(fn))


def by_canonical_name(R):
    """canonical Lean name -> [function objects] (usually one)"""
    out = {}
    for fn in recipe_functions(R):
        nm = canonical_name(fn)
        if nm is not None:
            out.setdefault(nm, []).append(fn)
    return out
