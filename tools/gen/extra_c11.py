"""C11 plug-in: the section-name table of `ELFFile.get_dwarf_info` and the constants the container code uses.

  c11SectionNames   (DWARFInfo keyword, section name, is-renamed-under-.zdebug) in the order the `for secname in section_names` loop visits them:
                    the tuple literal assigned to `section_names`, then the `+=` tuple; each name is tied to the
                    DWARFInfo keyword it is passed as by following  names-tuple -> destructuring target -> `kw=debug_sections[target]`
  c11ShfCompressed  constants.SH_FLAGS.SHF_COMPRESSED
  c11Zlib           enums.ENUM_ELFCOMPRESS_TYPE['ELFCOMPRESS_ZLIB']
  c11DspicMachine   enums.ENUM_E_MACHINE['EM_DSPIC30F']

Syntax directed (ast of the function's source).  Anything unexpected (a non-literal name, a different number of
targets, a keyword that is not `debug_sections[<target>]`, a second assignment) REFUSES: `c11Refused := true` and an
empty table, which makes the tie theorem of Props/TieC11.lean fail.
"""
import ast, inspect, sys, textwrap


def lean_str(s):
    return '"' + s.replace('\\', '\\\\').replace('"', '\\"') + '"'


def lean_bytes(b):
    return '[' + ', '.join('0x%02x' % x for x in b) + ']'


def generate(repo):
    from elftools.elf import elffile as EF, constants as EC, enums as EE
    refusals = []
    table = []
    try:
        src = textwrap.dedent(inspect.getsource(EF.ELFFile.get_dwarf_info))
        fn = ast.parse(src).body[0]
        names, targets, extra, kws = None, None, [], None
        for node in ast.walk(fn):
            if isinstance(node, ast.Assign) and len(node.targets) == 1:
                t = node.targets[0]
                if isinstance(t, ast.Name) and t.id == 'section_names':
                    if isinstance(node.value, ast.Tuple) and all(isinstance(e, ast.Constant) and isinstance(e.value, str) for e in node.value.elts):
                        if names is not None:
                            refusals.append('section_names assigned a literal twice')
                        names = [e.value for e in node.value.elts]
                    elif isinstance(node.value, ast.Call):
                        # the `.z` renaming: tuple(map(lambda x: '.z' + x[1:], section_names)) — modelled by hand, shape checked
                        txt = ast.unparse(node.value)
                        if txt != "tuple(map(lambda x: '.z' + x[1:], section_names))":
                            refusals.append('unexpected renaming expression: ' + txt)
                    else:
                        refusals.append('section_names assigned something unexpected')
                elif isinstance(t, ast.Tuple) and isinstance(node.value, ast.Name) and node.value.id == 'section_names':
                    if not all(isinstance(e, ast.Name) for e in t.elts):
                        refusals.append('destructuring target is not a tuple of names')
                    else:
                        targets = [e.id for e in t.elts]
            elif isinstance(node, ast.AugAssign) and isinstance(node.target, ast.Name) and node.target.id == 'section_names':
                if isinstance(node.op, ast.Add) and isinstance(node.value, ast.Tuple) and \
                        all(isinstance(e, ast.Constant) and isinstance(e.value, str) for e in node.value.elts):
                    extra += [e.value for e in node.value.elts]
                else:
                    refusals.append('unexpected augmented assignment to section_names')
            elif isinstance(node, ast.Call) and isinstance(node.func, ast.Name) and node.func.id == 'DWARFInfo':
                kws = {}
                for kw in node.keywords:
                    if kw.arg == 'config':
                        continue
                    v = kw.value
                    if isinstance(v, ast.Subscript) and isinstance(v.value, ast.Name) and v.value.id == 'debug_sections' \
                            and isinstance(v.slice, ast.Name):
                        kws[v.slice.id] = kw.arg
                    else:
                        refusals.append('DWARFInfo keyword %s is not debug_sections[<name>]' % kw.arg)
        if names is None or targets is None or kws is None:
            refusals.append('get_dwarf_info: pattern not found')
        else:
            allnames = names + extra
            if len(allnames) != len(targets):
                refusals.append('names/targets length mismatch')
            else:
                for i, (nm, tg) in enumerate(zip(allnames, targets)):
                    if tg not in kws:
                        refusals.append('section %s is not passed to DWARFInfo' % nm)
                    else:
                        # names of the literal tuple are renamed `.z…` in a `.zdebug` file, the `+=` ones are not
                        table.append((kws[tg], nm, i < len(names)))
                if len(set(k for k, _, _ in table)) != len(table) or len(kws) != len(table):
                    refusals.append('keyword table is not a bijection')
    except Exception as e:          # noqa: BLE001
        refusals.append('exception: %r' % (e,))

    def nat(x, what):
        if isinstance(x, int) and not isinstance(x, bool) and x >= 0:
            return x
        refusals.append('%s is not a natural number' % what)
        return 999999
    shf = nat(getattr(EC.SH_FLAGS, 'SHF_COMPRESSED', None), 'SHF_COMPRESSED')
    zl = nat(EE.ENUM_ELFCOMPRESS_TYPE.get('ELFCOMPRESS_ZLIB'), 'ELFCOMPRESS_ZLIB')
    dspic = nat(EE.ENUM_E_MACHINE.get('EM_DSPIC30F'), 'EM_DSPIC30F')
    if refusals:
        table = []
    L = ['import PyElf.Core.Basic', 'namespace PyElf.Gen', 'open PyElf', '']
    L.append('/-- (DWARFInfo keyword, section name, renamed `.z…` in a `.zdebug` file) in the order `get_dwarf_info` looks the sections up -/')
    L.append('def c11SectionNames : List (String × Bytes × Bool) := [')
    L.append(',\n'.join('  (%s, %s, %s)' % (lean_str(k), lean_bytes(n.encode('utf-8')), 'true' if z else 'false') for k, n, z in table))
    L.append(']')
    L.append('')
    L.append('def c11ShfCompressed : Nat := %d' % shf)
    L.append('def c11Zlib : Nat := %d' % zl)
    L.append('def c11DspicMachine : Nat := %d' % dspic)
    L.append('def c11Refused : Bool := %s' % ('true' if refusals else 'false'))
    L.append('')
    L.append('end PyElf.Gen')
    return '\n'.join(L) + '\n', {'refusals': refusals, 'sections': len(table)}


if __name__ == '__main__':
    sys.path.insert(0, sys.argv[1] if len(sys.argv) > 1 else '/repo')
    t, r = generate(None)
    print(t)
    print(r)
