"""C06 plug-in: the constant tables of elftools/dwarf/callframe.py as one `CfiTables` record.

  ops            every DW_CFA_* the record type names, read from elftools.dwarf.constants
  nameMap        callframe._OPCODE_NAME_MAP, in dict order
  pe             enums.DW_EH_encoding_flags
  peField        CallFrameInfo._eh_encoding_to_field(structs): each value identified BY IDENTITY with a field
                 factory attribute of the structs object
  primaryMask / primaryArgMask

Refusal: a name that is missing, a DW_CFA_* constant the record does not know (a new opcode the model cannot
handle), a non-int, or an encoding whose factory is not an attribute of the structs object makes the emitted
record unusable (`refused := true` and poisoned values), so the tie theorem fails.
"""
import sys

CFA_FIELDS = ['advance_loc', 'offset', 'restore', 'nop', 'set_loc', 'advance_loc1', 'advance_loc2', 'advance_loc4',
              'offset_extended', 'restore_extended', 'undefined', 'same_value', 'register', 'remember_state',
              'restore_state', 'def_cfa', 'def_cfa_register', 'def_cfa_offset', 'def_cfa_expression', 'expression',
              'offset_extended_sf', 'def_cfa_sf', 'def_cfa_offset_sf', 'val_offset', 'val_offset_sf', 'val_expression',
              'AARCH64_negate_ra_state', 'GNU_args_size']
PE_FIELDS = ['absptr', 'uleb128', 'udata2', 'udata4', 'udata8', 'signed', 'sleb128', 'sdata2', 'sdata4', 'sdata8',
             'pcrel', 'textrel', 'datarel', 'funcrel', 'aligned', 'indirect', 'omit']
# aliases of an opcode value the record already carries (same number, other vendor)
KNOWN_ALIASES = {'DW_CFA_GNU_window_save': 'DW_CFA_AARCH64_negate_ra_state'}
POISON = 999999


def lean_str(s):
    return '"' + s.replace('\\', '\\\\').replace('"', '\\"') + '"'


def generate(repo):
    from elftools.dwarf import constants as DC, enums as DE, callframe as CF, structs as DS
    refusals = []

    def nat(x, what):
        if isinstance(x, int) and not isinstance(x, bool) and x >= 0:
            return x
        refusals.append('%s is not a natural number' % what)
        return POISON

    ops = {}
    for f in CFA_FIELDS:
        nm = 'DW_CFA_' + f
        if not hasattr(DC, nm):
            refusals.append('missing ' + nm)
            ops[f] = POISON
        else:
            ops[f] = nat(getattr(DC, nm), nm)
    for k, v in vars(DC).items():
        if k.startswith('DW_CFA') and k[len('DW_CFA_'):] not in CFA_FIELDS:
            al = KNOWN_ALIASES.get(k)
            if al is None or getattr(DC, al, None) != v:
                refusals.append('unknown opcode constant ' + k)
    name_map = []
    for v, k in CF._OPCODE_NAME_MAP.items():
        if not isinstance(k, str):
            refusals.append('_OPCODE_NAME_MAP value not a str')
            continue
        name_map.append((nat(v, '_OPCODE_NAME_MAP key'), k))
    pe = {}
    flags = DE.DW_EH_encoding_flags
    for f in PE_FIELDS:
        nm = 'DW_EH_PE_' + f
        if nm not in flags:
            refusals.append('missing ' + nm)
            pe[f] = POISON
        else:
            pe[f] = nat(flags[nm], nm)
    for k in flags:
        if not (k.startswith('DW_EH_PE_') and k[len('DW_EH_PE_'):] in PE_FIELDS):
            refusals.append('unknown pointer-encoding flag ' + str(k))
    # _eh_encoding_to_field: identify the factories by identity, on two differently-shaped structs objects
    pe_field = None
    for (le, fmt, asz) in ((True, 32, 4), (False, 64, 8), (True, 32, 8), (False, 64, 4)):
        s = DS.DWARFStructs(little_endian=le, dwarf_format=fmt, address_size=asz)
        m = CF.CallFrameInfo._eh_encoding_to_field(s)
        cur = []
        for enc, fac in m.items():
            names = [a for a in sorted(vars(s)) if a.startswith('Dwarf_') and getattr(s, a) is fac]
            # Dwarf_offset/Dwarf_length/Dwarf_target_addr/Dwarf_uintNN may be the same object: prefer the one that is
            # the same on both shapes — resolved below by intersecting
            cur.append((nat(enc, 'encoding key'), names))
        if pe_field is None:
            pe_field = cur
        else:
            merged = []
            if [e for e, _ in cur] != [e for e, _ in pe_field]:
                refusals.append('_eh_encoding_to_field differs between configurations')
            for (e, n1), (_, n2) in zip(pe_field, cur):
                both = [n for n in n1 if n in n2]
                merged.append((e, both))
            pe_field = merged
    pe_field_out = []
    for e, names in pe_field or []:
        if len(names) != 1:
            refusals.append('_eh_encoding_to_field[%r] is not exactly one field factory: %r' % (e, names))
            pe_field_out.append((e, 'REFUSED'))
        else:
            pe_field_out.append((e, names[0]))
    pm = nat(getattr(CF, '_PRIMARY_MASK', None), '_PRIMARY_MASK')
    pam = nat(getattr(CF, '_PRIMARY_ARG_MASK', None), '_PRIMARY_ARG_MASK')
    if refusals:
        ops = {k: POISON for k in ops}
    L = ['import PyElf.Model.CfiTables', 'namespace PyElf.Gen', 'open PyElf', '']
    L.append('def cfiTables : CfiTables :=')
    L.append('  { ops := { ' + ', '.join('%s := %d' % (f, ops[f]) for f in CFA_FIELDS) + ' },')
    L.append('    nameMap := [' + ', '.join('(%d, %s)' % (v, lean_str(k)) for v, k in name_map) + '],')
    L.append('    pe := { ' + ', '.join('%s := %d' % ('omit_' if f == 'omit' else f, pe[f]) for f in PE_FIELDS) + ' },')
    L.append('    peField := [' + ', '.join('(%d, %s)' % (e, lean_str(n)) for e, n in pe_field_out) + '],')
    L.append('    primaryMask := %d, primaryArgMask := %d }' % (pm, pam))
    L.append('')
    L.append('def cfiTablesRefused : Bool := %s' % ('true' if refusals else 'false'))
    L.append('')
    L.append('end PyElf.Gen')
    return '\n'.join(L) + '\n', {'refusals': refusals, 'opcodes': len(name_map), 'encodings': len(pe_field_out)}


if __name__ == '__main__':
    sys.path.insert(0, sys.argv[1] if len(sys.argv) > 1 else '/repo')
    t, r = generate(None)
    print(t)
    print(r)
