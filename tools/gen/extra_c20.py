"""C20 plug-in for tools/gen/gen.py: data the C20 model and theorems take from the live tree.

  ehabiRing         the byte-code dispatch table `EHABIBytecodeDecoder.ring` (mask, value, handler name), in order
  ehabiGprNames     `gpr_register_names`
  ehabiEntrySize    EHABI_INDEX_ENTRY_SIZE
  armAttrDispatch / riscvAttrDispatch
                    the tag-name tests of the top-level if/elif chain of ARMAttribute.__init__ /
                    RISCVAttribute.__init__ (syntax directed: `self.tag in (..)` / `self.tag == '..'`), in order;
                    the final `else` is the entry ([], n)
  attrNtbsUtf8      every NTBS the attribute code parses is decoded with encoding='utf-8' (live struct + source)

Anything with an unexpected shape is emitted as a value that makes the dependent tie theorems fail.
"""
import ast, inspect, textwrap


def lean_str(s):
    return '"' + s.replace('\\', '\\\\').replace('"', '\\"') + '"'


# canonical handler name (the key of `Model.Ehabi.handler`) -> the opcodes EHABI32 table 4 gives that instruction form
HANDLER_DOMAINS = {
    '_decode_00xxxxxx': [(0, 63)],
    '_decode_01xxxxxx': [(64, 127)],
    '_decode_1000iiii_iiiiiiii': [(128, 143)],
    '_decode_1001nnnn': [(144, 156), (158, 158)],
    '_decode_10011101': [(157, 157)],
    '_decode_10011111': [(159, 159)],
    '_decode_10100nnn': [(160, 167)],
    '_decode_10101nnn': [(168, 175)],
    '_decode_10110000': [(176, 176)],
    '_decode_10110001_0000iiii': [(177, 177)],
    '_decode_10110010_uleb128': [(178, 178)],
    '_decode_10110011_sssscccc': [(179, 179)],
    '_decode_101101nn': [(180, 183)],
    '_decode_10111nnn': [(184, 191)],
    '_decode_11000nnn': [(192, 197)],
    '_decode_11000110_sssscccc': [(198, 198)],
    '_decode_11000111_0000iiii': [(199, 199)],
    '_decode_11001000_sssscccc': [(200, 200)],
    '_decode_11001001_sssscccc': [(201, 201)],
    '_decode_11001yyy': [(202, 207), (216, 223), (232, 239), (248, 255)],
    '_decode_11010nnn': [(208, 215)],
    '_decode_11xxxyyy': [(224, 231), (240, 247)],
}


def _dispatch(cls):
    """[(names, branch index)] of the top-level if/elif/else chain on self.tag in cls.__init__."""
    src = textwrap.dedent(inspect.getsource(cls.__init__))
    fn = ast.parse(src).body[0]
    chain = [n for n in fn.body if isinstance(n, ast.If)]
    if len(chain) != 1:
        return None
    out, node, i = [], chain[0], 0
    while True:
        t = node.test
        ok = (isinstance(t, ast.Compare) and len(t.ops) == 1 and isinstance(t.left, ast.Attribute)
              and isinstance(t.left.value, ast.Name) and t.left.value.id == 'self' and t.left.attr == 'tag')
        if not ok:
            return None
        comp = t.comparators[0]
        if isinstance(t.ops[0], ast.In) and isinstance(comp, ast.Tuple) and all(
                isinstance(e, ast.Constant) and isinstance(e.value, str) for e in comp.elts):
            names = [e.value for e in comp.elts]
        elif isinstance(t.ops[0], ast.Eq) and isinstance(comp, ast.Constant) and isinstance(comp.value, str):
            names = [comp.value]
        else:
            return None
        out.append((names, i))
        i += 1
        if len(node.orelse) == 1 and isinstance(node.orelse[0], ast.If):
            node = node.orelse[0]
        else:
            if not node.orelse:
                return None
            out.append(([], i))
            return out


def _ntbs_calls_utf8(cls):
    src = textwrap.dedent(inspect.getsource(cls.__init__))
    ok, n = True, 0
    for node in ast.walk(ast.parse(src)):
        if isinstance(node, ast.Call) and isinstance(node.func, ast.Attribute) and node.func.attr == 'Elf_ntbs':
            n += 1
            kw = {k.arg: k.value for k in node.keywords}
            e = kw.get('encoding')
            if not (isinstance(e, ast.Constant) and e.value == 'utf-8'):
                ok = False
    return ok, n


def generate(repo):
    from elftools.ehabi.decoder import EHABIBytecodeDecoder as D
    from elftools.ehabi.constants import EHABI_INDEX_ENTRY_SIZE
    from elftools.elf import sections as SEC, structs as ES
    from elftools.construct import adapters as CA
    rep = {}
    L = ['import PyElf.Core.Basic', 'namespace PyElf.Gen', '']

    ring = []
    ring_ok = True
    objs = []
    for r in D.ring:
        try:
            mask, value, handler = r
            if not (isinstance(mask, int) and isinstance(value, int) and callable(handler)):
                ring_ok = False
            objs.append((mask, value, handler))
        except Exception:
            ring_ok = False
    # A handler is named by the set of opcodes it is the first match for (its DOMAIN), not by its private Python
    # name: renaming a handler or regrouping disjoint ring entries alarms nobody, while a changed partition of the
    # 256 opcodes yields a name the model does not know (so `findHandler_cls` fails and the search runs).
    if ring_ok:
        dom = {}
        for o in range(256):
            for mask, value, handler in objs:
                if o & mask == value:
                    dom.setdefault(id(handler), []).append(o)
                    break
        canon = {tuple(o for a, b in rs for o in range(a, b + 1)): nm for nm, rs in HANDLER_DOMAINS.items()}
        for mask, value, handler in objs:
            d = tuple(dom.get(id(handler), []))
            nm = canon.get(d)
            if nm is None:
                nm = ('UNREACHABLE:' if not d else 'UNKNOWN-DOMAIN:') + getattr(handler, '__name__', '?')
            ring.append((mask, value, nm))
    if not ring_ok:
        ring = []
    L.append('/-- EHABIBytecodeDecoder.ring: (mask, value, handler) in order -/')
    L.append('def ehabiRing : List (Nat × Nat × String) :=\n  [' + ',\n   '.join(
        '(%d, %d, %s)' % (m, v, lean_str(h)) for m, v, h in ring) + ']')
    rep['ring'] = len(ring)

    names = list(D.gpr_register_names)
    L.append('def ehabiGprNames : List String := [' + ', '.join(lean_str(n) for n in names) + ']')
    L.append('def ehabiEntrySize : Nat := %d' % (EHABI_INDEX_ENTRY_SIZE if isinstance(EHABI_INDEX_ENTRY_SIZE, int) and EHABI_INDEX_ENTRY_SIZE >= 0 else 0))

    for nm, cls in (('armAttrDispatch', SEC.ARMAttribute), ('riscvAttrDispatch', SEC.RISCVAttribute)):
        d = _dispatch(cls)
        rep[nm] = 'refused' if d is None else len(d)
        if d is None:
            d = []
        L.append('def %s : List (List String × Nat) :=\n  [' % nm + ',\n   '.join(
            '([%s], %d)' % (', '.join(lean_str(x) for x in ns), i) for ns, i in d) + ']')

    # NTBS decoding: vendor_name of the live subsection header and every Elf_ntbs(...) call in the attribute classes
    utf8 = True
    for le in (True, False):
        for cls in (32, 64):
            s = ES.ELFStructs(little_endian=le, elfclass=cls)
            s.create_basic_structs()
            s.create_advanced_structs('ET_EXEC', 'EM_ARM', 'ELFOSABI_SYSV')
            vn = [c for c in s.Elf_Attr_Subsection_Header.subcons if c.name == 'vendor_name']
            if len(vn) != 1:
                utf8 = False
                continue
            c = vn[0]
            while not isinstance(c, CA.CStringAdapter) and hasattr(c, 'subcon'):
                c = c.subcon
            if not (isinstance(c, CA.CStringAdapter) and c.encoding == 'utf-8'):
                utf8 = False
    ncalls = 0
    for cls in (SEC.ARMAttribute, SEC.RISCVAttribute):
        ok, n = _ntbs_calls_utf8(cls)
        utf8 = utf8 and ok
        ncalls += n
    utf8 = utf8 and ncalls == 3
    L.append('/-- every NTBS read by the attribute code is decoded as UTF-8 (the T2 `Con.cstring` yields raw bytes) -/')
    L.append('def attrNtbsUtf8 : Bool := %s' % ('true' if utf8 else 'false'))
    rep['ntbs_utf8'] = utf8
    L.append('')
    L.append('end PyElf.Gen')
    return '\n'.join(L) + '\n', rep
