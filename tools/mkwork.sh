#!/bin/bash
# tools/mkwork.sh cXX  — private work root for one property: copy of /verif + git worktree of /repo
set -e
id="$1"
W=/tmp/w_$id
rm -rf "$W/verif"
mkdir -p "$W"
cp -a /verif "$W/verif"
rm -rf "$W/verif/.git" "$W/verif/replays" "$W/verif/evidence"
if [ ! -d "$W/repo" ]; then
  git -C /repo worktree add --detach "$W/repo" HEAD >/dev/null 2>&1
fi
echo "$W"
