#!/usr/bin/env python3
"""tools/seedkeep.py Cxx A|B "<outcome line>" — store a confirmed seeded change under /verif/seeded/<Cxx>-<X>/"""
import sys, os, json, shutil
pid, x, outcome = sys.argv[1], sys.argv[2], sys.argv[3]
src = sys.argv[4] if len(sys.argv) > 4 else '/tmp/seed_%s/out' % pid.lower()
name = sys.argv[5] if len(sys.argv) > 5 else x          # stored as seeded/<Cxx>-<name>
dst = '/verif/seeded/%s-%s' % (pid, name)
os.makedirs(dst, exist_ok=True)
shutil.copy(os.path.join(src, '%s.diff' % x), os.path.join(dst, 'patch.diff'))
shutil.copy(os.path.join(src, 'demo_%s.py' % x), os.path.join(dst, 'demo.py'))
notes = json.load(open(os.path.join(src, 'notes.json')))
n = notes.get(x, {})
meta = {'property': pid, 'summary': n.get('summary'), 'needs': n.get('needs'), 'files': n.get('files'),
        'origin': 'independent sub-agent given only the property text and a scratch worktree of /repo',
        'confirmed': 'scratch worktree: pinned suite 111 passed with the change; demo.py exits 1 with the change, 0 without',
        'ran': 'tools/seedtest.sh %s patch.diff demo.py  (git -C /repo apply; ./check %s; git -C /repo checkout -- .)' % (pid, pid),
        'outcome': outcome}
json.dump(meta, open(os.path.join(dst, 'meta.json'), 'w'), indent=1)
print('kept', dst)
