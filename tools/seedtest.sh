#!/bin/bash
# tools/seedtest.sh <Cxx> <diff> <demo.py> — confirm a seeded change, then run our check against it
# 1. scratch worktree: tests still pass; demo exits 1 with the change, 0 without
# 2. apply to /repo, run ./check Cxx, undo
set -u
id=$1; diff=$(readlink -f $2); demo=$(readlink -f $3)
S=/tmp/seedcheck_$$
git -C /repo worktree add --detach $S HEAD >/dev/null 2>&1
cd $S
/venv/bin/python $demo $S >/dev/null 2>&1; clean=$?
git apply $diff || { echo "PATCH-DOES-NOT-APPLY"; cd /; git -C /repo worktree remove --force $S; exit 3; }
/venv/bin/python $demo $S > $S.demo.out 2>&1; seeded=$?
tests=$(/venv/bin/python -m pytest -q -p no:cacheprovider --timeout=900 --continue-on-collection-errors 2>&1 | tail -1)
cd /; git -C /repo worktree remove --force $S
echo "demo clean=$clean seeded=$seeded ; tests: $tests"
echo "demo output: $(head -c 300 $S.demo.out)"; rm -f $S.demo.out
if [ "$clean" != "0" ] || [ "$seeded" = "0" ]; then echo "NOT-CONFIRMED"; exit 4; fi
case "$tests" in *"111 passed"*) ;; *) echo "TESTS-CHANGED"; exit 5;; esac
cd /verif
# the evidence file of the unchanged tree must survive a run against a seeded change
cp evidence/$id.json /tmp/evidence_$id.$$.json 2>/dev/null
git -C /repo apply $diff
out=$(timeout 3000 ./check $id 2>&1); rc=$?
git -C /repo checkout -- .
[ -f /tmp/evidence_$id.$$.json ] && mv /tmp/evidence_$id.$$.json evidence/$id.json
echo "CHECK rc=$rc :: $(echo "$out" | grep -E "VIOLATION|KNOWN" | head -2)"
echo "$out" | tail -1
