#!/bin/bash
# tools/runall.sh [tier] — run every registered check on the current /repo, print one line each
cd "$(dirname "$0")/.."
tier=${1:-quick}
ids=$(python3 -c "import json; print(' '.join(c['property_id'] for c in json.load(open('MANIFEST.json'))['checks']))")
for id in $ids; do
  start=$(date +%s)
  out=$(timeout 3600 ./check $id --tier $tier 2>&1); rc=$?
  echo "$id rc=$rc $(( $(date +%s) - start ))s :: $(echo "$out" | grep -E "VIOLATION|KNOWN-FINDING" | head -2 | tr '\n' ' ') $(echo "$out" | tail -1)"
done
