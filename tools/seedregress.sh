#!/bin/bash
# tools/seedregress.sh [Cxx ...] — regression over the stored seeded changes: apply each seeded/<id>/patch.diff to the
# repo under test (VERIF_REPO, default /repo), run the check(s) named in its meta.json "caught_by", expect exit 1 with a
# VIOLATION line, undo the patch.  Prints one line per (seed, check); exits 1 if any seed is no longer caught.
# MUTATES the repo under test: run it on a scratch copy (vp run --with-repo, VERIF_REPO=$VP_RUN_REPO) or alone.
cd "$(dirname "$0")/.."
repo=${VERIF_REPO:-/repo}
bad=0
for d in seeded/*/; do
  id=$(basename $d); prop=${id%%-*}
  if [ $# -gt 0 ] && ! echo " $* " | grep -q " $prop "; then continue; fi
  checks=$(python3 -c "import json;print(' '.join(json.load(open('$d/meta.json')).get('caught_by') or ['$prop']))")
  git -C $repo apply $PWD/$d/patch.diff 2>/dev/null || { echo "$id: PATCH-DOES-NOT-APPLY"; bad=1; continue; }
  for c in $checks; do
    cp evidence/$c.json /tmp/evidence_$c.$$.json 2>/dev/null
    out=$(timeout 3000 ./check $c 2>&1); rc=$?
    [ -f /tmp/evidence_$c.$$.json ] && mv /tmp/evidence_$c.$$.json evidence/$c.json
    v=$(echo "$out" | grep -E "^VIOLATION" | head -1)
    if [ $rc -eq 1 ] && [ -n "$v" ]; then echo "$id vs $c: caught :: $v"; else echo "$id vs $c: NOT-CAUGHT rc=$rc :: $(echo "$out" | tail -1)"; bad=1; fi
  done
  git -C $repo checkout -- . 
done
# leave the generated files and evidence of the unchanged tree behind
./check --setup >/dev/null 2>&1
exit $bad
