#!/bin/bash
# tools/merge_work.sh cXX — bring a worker's files from /tmp/w_cXX/verif into /verif (new files only; lists conflicts)
set -e
id="$1"; ID=$(echo "$id" | tr a-z A-Z)
W=/tmp/w_$id/verif
cd /verif
for d in lean/PyElf/Spec lean/PyElf/Model lean/PyElf/Proofs lean/PyElf/Props lean/PyElf/Driver harness/props tools/gen fixes registry corpus; do
  [ -d "$W/$d" ] || continue
  mkdir -p "$d"
  (cd "$W/$d" && find . -type f ! -name '*.pyc' ! -path '*/__pycache__/*') | while read f; do
    f=${f#./}
    if [ ! -e "$d/$f" ]; then
      mkdir -p "$(dirname "$d/$f")"; cp "$W/$d/$f" "$d/$f"; echo "NEW  $d/$f"
    elif ! cmp -s "$W/$d/$f" "$d/$f"; then
      echo "DIFF $d/$f"
    fi
  done
done
# dispatch line
H=lean/PyElf/Driver/Handlers.lean
if [ -e lean/PyElf/Driver/$ID.lean ] && ! grep -q "Driver.$ID.handle" $H; then
  python3 - "$ID" <<'PY'
import sys
ID=sys.argv[1]
p='/verif/lean/PyElf/Driver/Handlers.lean'
s=open(p).read()
s=s.replace("import PyElf.Driver.Tie\n","import PyElf.Driver.Tie\nimport PyElf.Driver.%s\n"%ID,1)
s=s.replace('  | "tie" => Driver.Tie.handle req\n','  | "tie" => Driver.Tie.handle req\n  | "%s" => Driver.%s.handle req\n'%(ID,ID),1)
open(p,'w').write(s)
print("dispatch added for",ID)
PY
fi
ls /tmp/w_$id/verif/fixes/*.patch 2>/dev/null || true
