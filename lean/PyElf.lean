import PyElf.Core.Basic
import PyElf.Core.PyInt
import PyElf.Core.Val
import PyElf.Core.Construct
import PyElf.Gen.Tables
import PyElf.Gen.Structs
import PyElf.Gen.Pure
