/-
  Dynamic values: what a construct Container / Python object canonicalises to.
-/
import PyElf.Core.Basic
import PyElf.Core.PyInt
namespace PyElf

inductive Val
  | int (n : Int)
  | str (s : String)          -- enum names and other symbolic strings
  | bytes (b : Bytes)
  | bool (b : Bool)
  | none
  | list (xs : List Val)
  | record (fs : List (String × Val))
  deriving Repr, Inhabited

abbrev Fields := List (String × Val)

/-- association-list lookup, first match -/
def Fields.get? (fs : Fields) (k : String) : Option Val :=
  match fs with
  | [] => Option.none
  | (k', v) :: rest => if k' = k then some v else Fields.get? rest k

/-- Python dict assignment: overwrite keeps the original position, new keys append -/
def Fields.set (fs : Fields) (k : String) (v : Val) : Fields :=
  match fs with
  | [] => [(k, v)]
  | (k', v') :: rest => if k' = k then (k', v) :: rest else (k', v') :: Fields.set rest k v

def Fields.getR (fs : Fields) (k : String) : R Val :=
  match Fields.get? fs k with
  | some v => .ok v
  | Option.none => .error .keyError

def Val.asInt : Val → R Int
  | .int n => .ok n
  | .bool b => .ok (if b then 1 else 0)
  | _ => .error .typeError

def Val.asNat (v : Val) : R Nat := do
  let n ← v.asInt
  if n < 0 then .error .valueError else .ok n.toNat

def Val.getField (v : Val) (k : String) : R Val :=
  match v with
  | .record fs => Fields.getR fs k
  | _ => .error .typeError

def Val.getInt (v : Val) (k : String) : R Int := do (← v.getField k).asInt
def Val.getNat (v : Val) (k : String) : R Nat := do (← v.getField k).asNat

/-- Python truthiness -/
def Val.truthy : Val → Bool
  | .int n => n ≠ 0
  | .str s => s ≠ ""
  | .bytes b => !b.isEmpty
  | .bool b => b
  | .none => false
  | .list xs => !xs.isEmpty
  | .record fs => !fs.isEmpty

mutual
/-- structural equality (Python `==` on the canonical forms; `True == 1` is not needed) -/
def Val.beq : Val → Val → Bool
  | .int a, .int b => a == b
  | .str a, .str b => a == b
  | .bytes a, .bytes b => a == b
  | .bool a, .bool b => a == b
  | .none, .none => true
  | .list a, .list b => Val.beqList a b
  | .record a, .record b => Val.beqFields a b
  | _, _ => false
def Val.beqList : List Val → List Val → Bool
  | [], [] => true
  | a :: as, b :: bs => Val.beq a b && Val.beqList as bs
  | _, _ => false
def Val.beqFields : List (String × Val) → List (String × Val) → Bool
  | [], [] => true
  | (k, a) :: as, (k', b) :: bs => k == k' && Val.beq a b && Val.beqFields as bs
  | _, _ => false
end

instance : BEq Val := ⟨Val.beq⟩

end PyElf
