/-
  Python's arbitrary-precision integer operators on `Int`.
  Core Lean has no `Int.land/lor/xor`; they are defined here by sign case
  analysis over `Nat` bit operations (two's complement, infinite sign extension),
  exactly as CPython defines them.
-/
namespace PyElf.PyInt

/-- Python `~x` -/
def inv (x : Int) : Int := -x - 1

/-- `a & ~b` on naturals -/
def natAndNot (a b : Nat) : Nat := a ^^^ (a &&& b)

/-- Python `x & y` -/
def land : Int → Int → Int
  | .ofNat a, .ofNat b => Int.ofNat (a &&& b)
  | .ofNat a, .negSucc b => Int.ofNat (natAndNot a b)
  | .negSucc a, .ofNat b => Int.ofNat (natAndNot b a)
  | .negSucc a, .negSucc b => .negSucc (a ||| b)

/-- Python `x | y` -/
def lor : Int → Int → Int
  | .ofNat a, .ofNat b => Int.ofNat (a ||| b)
  | .ofNat a, .negSucc b => .negSucc (natAndNot b a)
  | .negSucc a, .ofNat b => .negSucc (natAndNot a b)
  | .negSucc a, .negSucc b => .negSucc (a &&& b)

/-- Python `x ^ y` -/
def xor : Int → Int → Int
  | .ofNat a, .ofNat b => Int.ofNat (a ^^^ b)
  | .ofNat a, .negSucc b => .negSucc (a ^^^ b)
  | .negSucc a, .ofNat b => .negSucc (a ^^^ b)
  | .negSucc a, .negSucc b => Int.ofNat (a ^^^ b)

/-- Python `x << n` for `n ≥ 0` -/
def shl (x : Int) (n : Nat) : Int := x * (2 ^ n : Nat)

/-- Python `x >> n` for `n ≥ 0` (floor) -/
def shr (x : Int) (n : Nat) : Int := x / (2 ^ n : Nat)

/-- Python `x // y` (floor division); `y = 0` is the caller's ZeroDivisionError -/
def fdiv (x y : Int) : Int := Int.fdiv x y

/-- Python `x % y` (sign of the divisor) -/
def fmod (x y : Int) : Int := Int.fmod x y

end PyElf.PyInt
