/-
  Core layer L0: bytes, streams, errors, fixed-width integer codecs.
  No Mathlib. Everything here is executable and total.
-/
namespace PyElf

abbrev Bytes := List UInt8

/-- One constructor per Python exception class the library can surface.
    `outOfFuel` is not a Python exception: it marks a model loop that ran out of
    its iteration budget (the real code would still be looping). -/
inductive Err
  | elfError | elfParseError | elfRelocError | elfCompressionError | dwarfError
  | assertion | keyError | indexError | typeError | valueError | notImplemented
  | unboundLocal | zeroDivision | structError | stopIteration | attributeError
  | unicodeError | overflowError | outOfFuel
  deriving DecidableEq, Repr, Inhabited

def Err.name : Err → String
  | .elfError => "elfError" | .elfParseError => "elfParseError"
  | .elfRelocError => "elfRelocError" | .elfCompressionError => "elfCompressionError"
  | .dwarfError => "dwarfError" | .assertion => "assertion" | .keyError => "keyError"
  | .indexError => "indexError" | .typeError => "typeError" | .valueError => "valueError"
  | .notImplemented => "notImplemented" | .unboundLocal => "unboundLocal"
  | .zeroDivision => "zeroDivision" | .structError => "structError"
  | .stopIteration => "stopIteration" | .attributeError => "attributeError"
  | .unicodeError => "unicodeError" | .overflowError => "overflowError"
  | .outOfFuel => "outOfFuel"

abbrev R (α : Type) := Except Err α

/-- Is this one of the library's own ELF error classes (ELFError and subclasses)? -/
def Err.isElfError : Err → Bool
  | .elfError | .elfParseError | .elfRelocError | .elfCompressionError => true
  | _ => false

/-- `BytesIO.read(n)` at position `pos`: the (possibly short) slice. -/
def readN (data : Bytes) (pos n : Nat) : Bytes := (data.drop pos).take n

/-- `construct._read_stream`: exactly `n` bytes or a construct FieldError, which
    `struct_parse` surfaces as `ELFParseError`. -/
def readExact (data : Bytes) (pos n : Nat) : R Bytes :=
  let s := readN data pos n
  if s.length = n then .ok s else .error .elfParseError

/-- little-endian bytes → natural number -/
def leNat : Bytes → Nat
  | [] => 0
  | b :: bs => b.toNat + 256 * leNat bs

/-- big-endian bytes → natural number -/
def beNat (bs : Bytes) : Nat := leNat bs.reverse

/-- `n`-byte little-endian encoding of `v mod 256^n` -/
def natLE : Nat → Nat → Bytes
  | 0, _ => []
  | n+1, v => UInt8.ofNat (v % 256) :: natLE n (v / 256)

def natBE (n v : Nat) : Bytes := (natLE n v).reverse

def decNat (le : Bool) (bs : Bytes) : Nat := if le then leNat bs else beNat bs
def encNat (le : Bool) (n v : Nat) : Bytes := if le then natLE n v else natBE n v

/-- two's complement reinterpretation of an unsigned `bits`-bit value -/
def toSigned (bits : Nat) (v : Nat) : Int :=
  if v < 2 ^ (bits - 1) then (v : Int) else (v : Int) - (2 ^ bits : Nat)

/-- unsigned representative of a signed value in `bits` bits -/
def ofSigned (bits : Nat) (v : Int) : Nat := (v % ((2 ^ bits : Nat) : Int)).toNat

def hexDigit (n : Nat) : Char :=
  if n < 10 then Char.ofNat (48 + n) else Char.ofNat (87 + n)

def Bytes.toHex (bs : Bytes) : String :=
  String.ofList (bs.flatMap fun b => [hexDigit (b.toNat / 16), hexDigit (b.toNat % 16)])

def hexVal (c : Char) : Option Nat :=
  if '0' ≤ c ∧ c ≤ '9' then some (c.toNat - 48)
  else if 'a' ≤ c ∧ c ≤ 'f' then some (c.toNat - 87)
  else if 'A' ≤ c ∧ c ≤ 'F' then some (c.toNat - 55)
  else none

def Bytes.ofHex (s : String) : Option Bytes :=
  let rec go : List Char → Option Bytes
    | [] => some []
    | [_] => none
    | a :: b :: rest => do
        let x ← hexVal a
        let y ← hexVal b
        let r ← go rest
        pure (UInt8.ofNat (x * 16 + y) :: r)
  go s.toList

end PyElf
