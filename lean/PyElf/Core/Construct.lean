/-
  L1: deep embedding of the subset of `construct` that pyelftools uses, with a
  total executable parser.  The translator T2 (tools/gen/t2_structs.py) emits
  terms of `Con` from the live construct objects of /repo; hand-written Spec
  bundles are terms of the same type, so "the code builds the struct the
  standard prescribes" is an equality of closed terms.
-/
import PyElf.Core.Val
namespace PyElf

/-- context expressions: the translated bodies of the lambdas inside structs -/
inductive Expr
  | lit (n : Int) | str (s : String) | bytesLit (b : Bytes) | none | bool (b : Bool)
  | ctx (k : String)                    -- ctx['k'] or ctx.k
  | obj                                 -- the candidate element of a repeat-until predicate
  | objFld (k : String)                 -- obj.k
  | add (a b : Expr) | sub (a b : Expr) | mul (a b : Expr)
  | fdiv (a b : Expr) | fmod (a b : Expr)
  | shl (a b : Expr) | shr (a b : Expr)
  | band (a b : Expr) | bor (a b : Expr) | bxor (a b : Expr)
  | eq (a b : Expr) | ne (a b : Expr) | lt (a b : Expr) | le (a b : Expr)
  | gt (a b : Expr) | ge (a b : Expr)
  | and (a b : Expr) | or (a b : Expr) | not (a : Expr)
  | len (a : Expr) | truthy (a : Expr)
  | ite (c t e : Expr)
  | isStr (a : Expr)                    -- type(a) is str
  | startsWith (a : Expr) (p : String)
  | tnil | tcons (a b : Expr)           -- tuples (as lists)
  deriving Repr, Inhabited

def Expr.arith (f : Int → Int → R Int) (x y : Val) : R Val := do
  let a ← x.asInt
  let b ← y.asInt
  return .int (← f a b)

def Expr.cmp (f : Int → Int → Bool) (x y : Val) : R Val := do
  let a ← x.asInt
  let b ← y.asInt
  return .bool (f a b)

def Expr.eval (ctx : Fields) (o : Val) : Expr → R Val
  | .lit n => .ok (.int n)
  | .str s => .ok (.str s)
  | .bytesLit b => .ok (.bytes b)
  | .none => .ok .none
  | .bool b => .ok (.bool b)
  | .ctx k => Fields.getR ctx k
  | .obj => .ok o
  | .objFld k => o.getField k
  | .add a b => do Expr.arith (fun x y => .ok (x + y)) (← a.eval ctx o) (← b.eval ctx o)
  | .sub a b => do Expr.arith (fun x y => .ok (x - y)) (← a.eval ctx o) (← b.eval ctx o)
  | .mul a b => do Expr.arith (fun x y => .ok (x * y)) (← a.eval ctx o) (← b.eval ctx o)
  | .fdiv a b => do
      Expr.arith (fun x y => if y = 0 then .error .zeroDivision else .ok (PyInt.fdiv x y))
        (← a.eval ctx o) (← b.eval ctx o)
  | .fmod a b => do
      Expr.arith (fun x y => if y = 0 then .error .zeroDivision else .ok (PyInt.fmod x y))
        (← a.eval ctx o) (← b.eval ctx o)
  | .shl a b => do
      Expr.arith (fun x y => if y < 0 then .error .valueError else .ok (PyInt.shl x y.toNat))
        (← a.eval ctx o) (← b.eval ctx o)
  | .shr a b => do
      Expr.arith (fun x y => if y < 0 then .error .valueError else .ok (PyInt.shr x y.toNat))
        (← a.eval ctx o) (← b.eval ctx o)
  | .band a b => do Expr.arith (fun x y => .ok (PyInt.land x y)) (← a.eval ctx o) (← b.eval ctx o)
  | .bor a b => do Expr.arith (fun x y => .ok (PyInt.lor x y)) (← a.eval ctx o) (← b.eval ctx o)
  | .bxor a b => do Expr.arith (fun x y => .ok (PyInt.xor x y)) (← a.eval ctx o) (← b.eval ctx o)
  | .eq a b => do return .bool ((← a.eval ctx o) == (← b.eval ctx o))
  | .ne a b => do return .bool (!((← a.eval ctx o) == (← b.eval ctx o)))
  | .lt a b => do Expr.cmp (· < ·) (← a.eval ctx o) (← b.eval ctx o)
  | .le a b => do Expr.cmp (· ≤ ·) (← a.eval ctx o) (← b.eval ctx o)
  | .gt a b => do Expr.cmp (· > ·) (← a.eval ctx o) (← b.eval ctx o)
  | .ge a b => do Expr.cmp (· ≥ ·) (← a.eval ctx o) (← b.eval ctx o)
  | .and a b => do
      let x ← a.eval ctx o
      if x.truthy then b.eval ctx o else return x
  | .or a b => do
      let x ← a.eval ctx o
      if x.truthy then return x else b.eval ctx o
  | .not a => do return .bool (!(← a.eval ctx o).truthy)
  | .len a => do
      match ← a.eval ctx o with
      | .bytes b => return .int b.length
      | .list xs => return .int xs.length
      | .str s => return .int s.length
      | _ => .error .typeError
  | .truthy a => do return .bool (← a.eval ctx o).truthy
  | .ite c t e => do
      if (← c.eval ctx o).truthy then t.eval ctx o else e.eval ctx o
  | .isStr a => do
      match ← a.eval ctx o with
      | .str _ => return .bool true
      | _ => return .bool false
  | .startsWith a p => do
      match ← a.eval ctx o with
      | .str s => return .bool (p.toList.isPrefixOf s.toList)
      | _ => .error .attributeError
  | .tnil => .ok (.list [])
  | .tcons a b => do
      let x ← a.eval ctx o
      match ← b.eval ctx o with
      | .list xs => return .list (x :: xs)
      | _ => .error .typeError

/-- one field of a BitStruct: `name = none` is bit padding; an optional Enum table -/
structure BitFld where
  name : Option String
  width : Nat
  table : Option (String × Bool)      -- (table id, default is Pass)
  deriving Repr, Inhabited

mutual
inductive Con
  | uint (n : Nat) (le : Bool)                  -- unsigned, `n` bytes
  | sint (n : Nat) (le : Bool)                  -- signed two's complement, `n` bytes
  | u24 (le : Bool)                             -- UBInt24 / ULInt24 of construct_utils
  | uleb | sleb
  | cstring                                     -- CString: bytes up to NUL, NUL consumed
  | bytesN (len : Expr)                         -- Field / String / StaticField
  | padding (len : Expr) (strict : Bool)
  | enum (sub : Con) (table : String) (passDefault : Bool)
  | struct (fs : ConFields)
  | array (count : Expr) (sub : Con)
  | prefixed (len : Con) (sub : Con)            -- PrefixedArray
  | repeatUntilExcl (pred : Expr) (sub : Con)
  | value (e : Expr)
  | ifThenElse (c : Expr) (t e : Con)
  | switch (key : Expr) (cases : ConCases) (dflt : Con)
  | noDefault                                   -- Switch.NoDefault: raises SwitchError
  | bits (fs : List BitFld)                     -- BitStruct of BitFields, MSB first
  | streamOffset
  | initialLength (le : Bool)                    -- _InitialLengthAdapter(Struct(first, If(.., second)))
  | formatted (formatField : String)            -- lineprogram FormattedEntry
  | unsupported (why : String)
inductive ConFields
  | nil
  | cons (name : Option String) (embed : Bool) (c : Con) (rest : ConFields)
inductive ConCases
  | nil
  | cons (k : Val) (c : Con) (rest : ConCases)
end

instance : Inhabited Con := ⟨.noDefault⟩

/-- environment: enum tables by id (value → name, already in Python's
    decoding-dict form: last name wins) and the DWARF form table for `formatted` -/
structure Env where
  enumDecode : String → Int → Option String
  forms : String → Option Con

def Env.empty : Env := ⟨fun _ _ => Option.none, fun _ => Option.none⟩

/-- ULEB128 loop of construct_utils.ULEB128._parse; fuel = bytes available -/
def ulebLoop (data : Bytes) : Nat → Nat → Nat → Nat → R (Nat × Nat)
  | 0, _, _, _ => .error .elfParseError
  | fuel+1, pos, value, shift =>
    match data[pos]? with
    | Option.none => .error .elfParseError
    | some b =>
      let value := value ||| ((b.toNat &&& 0x7F) <<< shift)
      if b.toNat &&& 0x80 = 0 then .ok (value, pos + 1)
      else ulebLoop data fuel (pos + 1) value (shift + 7)

def parseUleb (data : Bytes) (pos : Nat) : R (Nat × Nat) :=
  ulebLoop data (data.length - pos + 1) pos 0 0

/-- SLEB128 loop of construct_utils.SLEB128._parse -/
def slebLoop (data : Bytes) : Nat → Nat → Nat → Nat → R (Int × Nat)
  | 0, _, _, _ => .error .elfParseError
  | fuel+1, pos, value, shift =>
    match data[pos]? with
    | Option.none => .error .elfParseError
    | some b =>
      let value := value ||| ((b.toNat &&& 0x7F) <<< shift)
      let shift := shift + 7
      if b.toNat &&& 0x80 = 0 then
        if b.toNat &&& 0x40 ≠ 0 then
          .ok (PyInt.lor (Int.ofNat value) (PyInt.shl (PyInt.inv 0) shift), pos + 1)
        else .ok (Int.ofNat value, pos + 1)
      else slebLoop data fuel (pos + 1) value shift

def parseSleb (data : Bytes) (pos : Nat) : R (Int × Nat) :=
  slebLoop data (data.length - pos + 1) pos 0 0

/-- construct CString: RepeatUntil(char is NUL) over 1-byte fields; EOF → FieldError -/
def cstringLoop (data : Bytes) : Nat → Nat → Bytes → R (Bytes × Nat)
  | 0, _, _ => .error .elfParseError
  | fuel+1, pos, acc =>
    match data[pos]? with
    | Option.none => .error .elfParseError
    | some b => if b = 0 then .ok (acc.reverse, pos + 1) else cstringLoop data fuel (pos + 1) (b :: acc)

def parseCString (data : Bytes) (pos : Nat) : R (Bytes × Nat) :=
  cstringLoop data (data.length - pos + 1) pos []

/-- split an unsigned integer of `total` bits into MSB-first fields -/
def splitBits (env : Env) (v : Nat) : (total : Nat) → List BitFld → Fields → R Fields
  | _, [], acc => .ok acc
  | total, f :: rest, acc =>
    let rem := total - f.width
    let x : Nat := (v >>> rem) % (2 ^ f.width)
    match f.name with
    | Option.none => splitBits env v rem rest acc
    | some nm =>
      match f.table with
      | Option.none => splitBits env v rem rest (acc ++ [(nm, Val.int x)])
      | some (tbl, pass) =>
        match env.enumDecode tbl x with
        | some s => splitBits env v rem rest (acc ++ [(nm, Val.str s)])
        | Option.none =>
          if pass then splitBits env v rem rest (acc ++ [(nm, Val.int x)])
          else .error .elfParseError

/-- result of parsing: value, new position, updated enclosing context -/
abbrev PRes := R (Val × Nat × Fields)

/-- `MetaArray._parse`: `count` elements, each parsed by `step pos ctx` -/
def arrayLoop (step : Nat → Fields → PRes) : Nat → Nat → Fields → List Val → PRes
  | 0, pos, ctx, acc => .ok (.list acc.reverse, pos, ctx)
  | n+1, pos, ctx, acc =>
    match step pos ctx with
    | .error e => .error e
    | .ok (v, pos', ctx') => arrayLoop step n pos' ctx' (v :: acc)

/-- `RepeatUntilExcluding._parse`; `fuel` bounds the iterations (the Python loop
    is unbounded; every sub-construct used with it consumes ≥ 1 byte) -/
def repeatLoop (step : Nat → Fields → PRes) (stop : Val → Fields → R Bool) :
    Nat → Nat → Fields → List Val → PRes
  | 0, _, _, _ => .error .outOfFuel
  | fuel+1, pos, ctx, acc =>
    match step pos ctx with
    | .error e => .error e
    | .ok (v, pos', ctx') =>
      match stop v ctx' with
      | .error e => .error e
      | .ok true => .ok (.list acc.reverse, pos', ctx')
      | .ok false => repeatLoop step stop fuel pos' ctx' (v :: acc)

def ConCases.find (k : Val) : ConCases → Option Con
  | .nil => Option.none
  | .cons k' c rest => if k' == k then some c else ConCases.find k rest

def lookupCase (k : Val) (cases : ConCases) (dflt : Con) : Con :=
  match cases.find k with
  | some c => c
  | Option.none => dflt

mutual
/-- `Construct._parse(stream, context)`.  `ctx` is the enclosing struct's context. -/
def Con.parse (env : Env) (data : Bytes) : Con → (ctx : Fields) → (pos : Nat) → PRes
  | .uint n le, ctx, pos => do
      let bs ← readExact data pos n
      return (.int (decNat le bs), pos + n, ctx)
  | .sint n le, ctx, pos => do
      let bs ← readExact data pos n
      return (.int (toSigned (8 * n) (decNat le bs)), pos + n, ctx)
  | .u24 le, ctx, pos => do
      let bs ← readExact data pos 3
      -- construct_utils: struct "<HB" / ">BH", then `l | (h << 16)`
      let (l, h) := if le then (leNat (bs.take 2), leNat (bs.drop 2)) else (beNat (bs.drop 1), beNat (bs.take 1))
      return (.int (l ||| (h <<< 16)), pos + 3, ctx)
  | .uleb, ctx, pos => do
      let (v, p) ← parseUleb data pos
      return (.int v, p, ctx)
  | .sleb, ctx, pos => do
      let (v, p) ← parseSleb data pos
      return (.int v, p, ctx)
  | .cstring, ctx, pos => do
      let (s, p) ← parseCString data pos
      return (.bytes s, p, ctx)
  | .bytesN len, ctx, pos => do
      let n ← (← len.eval ctx .none).asNat
      let bs ← readExact data pos n
      return (.bytes bs, pos + n, ctx)
  | .padding len strict, ctx, pos => do
      let n ← (← len.eval ctx .none).asNat
      let bs ← readExact data pos n
      if strict && !(bs.all (· == 0)) then .error .elfParseError
      else return (.bytes bs, pos + n, ctx)
  | .enum sub table pass, ctx, pos => do
      let (v, p, ctx') ← Con.parse env data sub ctx pos
      match v with
      | .int n =>
        match env.enumDecode table n with
        | some s => return (.str s, p, ctx')
        | Option.none => if pass then return (.int n, p, ctx') else .error .elfParseError
      | _ => if pass then return (v, p, ctx') else .error .elfParseError
  | .struct fs, ctx, pos => do
      -- nested context: a fresh one (no lambda in the library reaches `ctx._`)
      let (obj, p, _) ← Con.parseFields env data fs [] [] pos
      return (.record obj, p, ctx)
  | .array count sub, ctx, pos => do
      let n ← (← count.eval ctx .none).asInt
      arrayLoop (fun p c => Con.parse env data sub c p) n.toNat pos ctx []
  | .prefixed len sub, ctx, pos => do
      let (n, p, ctx') ← Con.parse env data len ctx pos
      let n ← n.asInt
      arrayLoop (fun p c => Con.parse env data sub c p) n.toNat p ctx' []
  | .repeatUntilExcl pred sub, ctx, pos =>
      repeatLoop (fun p c => Con.parse env data sub c p)
        (fun v c => do return (← pred.eval c v).truthy) (data.length - pos + 2) pos ctx []
  | .value e, ctx, pos => do
      return (← e.eval ctx .none, pos, ctx)
  | .ifThenElse c t e, ctx, pos => do
      if (← c.eval ctx .none).truthy then Con.parse env data t ctx pos
      else Con.parse env data e ctx pos
  | .switch key cases dflt, ctx, pos => do
      let k ← key.eval ctx .none
      match Con.parseCase env data k cases ctx pos with
      | some r => r
      | Option.none => Con.parse env data dflt ctx pos
  | .noDefault, _, _ => .error .elfParseError
  | .bits fs, ctx, pos => do
      let total := fs.foldl (fun a f => a + f.width) 0
      let nbytes := (total + 7) / 8
      let bs ← readExact data pos nbytes
      let obj ← splitBits env (beNat bs) (8 * nbytes) fs []
      return (.record obj, pos + nbytes, ctx)
  | .streamOffset, ctx, pos => .ok (.int pos, pos, ctx)
  | .initialLength le, ctx, pos => do
      let bs ← readExact data pos 4
      let first := decNat le bs
      if first < 0xFFFFFF00 then
        return (.int first, pos + 4, Fields.set ctx "is64" (.bool false))
      else if first = 0xFFFFFFFF then
        let bs2 ← readExact data (pos + 4) 8
        return (.int (decNat le bs2), pos + 12, Fields.set ctx "is64" (.bool true))
      else .error .elfParseError
  | .formatted _, _, _ => .error .notImplemented
  | .unsupported _, _, _ => .error .notImplemented

/-- the body of `Struct._parse`: fields in order, threading object and context -/
def Con.parseFields (env : Env) (data : Bytes) :
    ConFields → (obj ctx : Fields) → (pos : Nat) → R (Fields × Nat × Fields)
  | .nil, obj, ctx, pos => .ok (obj, pos, ctx)
  | .cons name embed c rest, obj, ctx, pos =>
    if embed then do
      let (obj', p, ctx') ← Con.parseEmb env data c obj ctx pos
      Con.parseFields env data rest obj' ctx' p
    else do
      let (v, p, ctx') ← Con.parse env data c ctx pos
      match name with
      | some nm => Con.parseFields env data rest (Fields.set obj nm v) (Fields.set ctx' nm v) p
      | Option.none => Con.parseFields env data rest obj ctx' p

/-- a sub-construct carrying FLAG_EMBED: its fields land in the parent's object/context -/
def Con.parseEmb (env : Env) (data : Bytes) :
    Con → (obj ctx : Fields) → (pos : Nat) → R (Fields × Nat × Fields)
  | .struct fs, obj, ctx, pos => Con.parseFields env data fs obj ctx pos
  | .ifThenElse c t e, obj, ctx, pos => do
      if (← c.eval ctx .none).truthy then Con.parseEmb env data t obj ctx pos
      else Con.parseEmb env data e obj ctx pos
  | .switch key cases dflt, obj, ctx, pos => do
      let k ← key.eval ctx .none
      match Con.parseCaseEmb env data k cases obj ctx pos with
      | some r => r
      | Option.none => Con.parseEmb env data dflt obj ctx pos
  | .value _, obj, ctx, pos => .ok (obj, pos, ctx)
  | .noDefault, _, _, _ => .error .elfParseError
  | _, _, _, _ => .error .notImplemented

def Con.parseCase (env : Env) (data : Bytes) (k : Val) :
    ConCases → (ctx : Fields) → (pos : Nat) → Option PRes
  | .nil, _, _ => Option.none
  | .cons k' c rest, ctx, pos =>
    if k' == k then some (Con.parse env data c ctx pos)
    else Con.parseCase env data k rest ctx pos

def Con.parseCaseEmb (env : Env) (data : Bytes) (k : Val) :
    ConCases → (obj ctx : Fields) → (pos : Nat) → Option (R (Fields × Nat × Fields))
  | .nil, _, _, _ => Option.none
  | .cons k' c rest, obj, ctx, pos =>
    if k' == k then some (Con.parseEmb env data c obj ctx pos)
    else Con.parseCaseEmb env data k rest obj ctx pos
end

/-- `struct_parse(struct, stream, stream_pos)`: value and the stream position afterwards -/
def structParse (env : Env) (c : Con) (data : Bytes) (pos : Nat) (ctx : Fields := []) : R (Val × Nat) := do
  let (v, p, _) ← Con.parse env data c ctx pos
  return (v, p)

end PyElf
