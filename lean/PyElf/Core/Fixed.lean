/-
  The fixed-shape fragment of `Con`: structures whose layout does not depend on
  the data (every ELF header/table entry, most DWARF headers).  For it we define
  `sizeof` (construct's `.sizeof()`), a generic raw encoder and the data-free
  half of parsing (`decodeRaw`: enum adapters, computed `Value` fields), so that
  one generic theorem (`Proofs/Fixed.lean`) gives the round trip of every such
  structure at any position of any byte string.
-/
import PyElf.Core.Construct
namespace PyElf

def Expr.litNat? : Expr → Option Nat
  | .lit n => if 0 ≤ n then some n.toNat else Option.none
  | _ => Option.none

mutual
/-- `Construct.sizeof()` for context-free constructs; `SizeofError` otherwise -/
def Con.sizeof : Con → Option Nat
  | .uint n _ => some n
  | .sint n _ => some n
  | .u24 _ => some 3
  | .bytesN e => e.litNat?
  | .padding e _ => e.litNat?
  | .enum sub _ _ => Con.sizeof sub
  | .struct fs => ConFields.sizeof fs
  | .array e sub => do
      let n ← e.litNat?
      let s ← Con.sizeof sub
      pure (n * s)
  | .value _ => some 0
  | .bits fs => some ((fs.foldl (fun a f => a + f.width) 0 + 7) / 8)
  | .streamOffset => some 0
  | _ => none
def ConFields.sizeof : ConFields → Option Nat
  | .nil => some 0
  | .cons _ _ c rest => do
      let a ← Con.sizeof c
      let b ← ConFields.sizeof rest
      pure (a + b)
end

/-- pack MSB-first bit fields into an integer of `total` bits -/
def packBits : (total : Nat) → List BitFld → Fields → Option Nat
  | _, [], _ => some 0
  | total, f :: rest, raw =>
    let rem := total - f.width
    match f.name with
    | none => packBits rem rest raw
    | some nm =>
      match Fields.get? raw nm with
      | some (.int x) =>
        if 0 ≤ x ∧ x < 2 ^ f.width then
          (packBits rem rest raw).map fun r => x.toNat * 2 ^ rem + r
        else none
      | _ => none

mutual
/-- is this construct in the fixed-shape fragment (and free of embedding)? -/
def Con.fixed : Con → Bool
  | .uint _ _ => true
  | .sint n _ => decide (1 ≤ n)
  | .u24 _ => true
  | .bytesN e => e.litNat?.isSome
  | .padding e strict => e.litNat?.isSome && !strict
  | .enum sub _ _ => match sub with
      | .uint _ _ => true
      | .sint n _ => decide (1 ≤ n)
      | _ => false
  | .struct fs => ConFields.fixed fs
  | .array e sub => e.litNat?.isSome && Con.fixed sub
  | .value _ => true
  | .bits _ => true
  | _ => false
def ConFields.fixed : ConFields → Bool
  | .nil => true
  | .cons _ embed c rest => !embed && Con.fixed c && ConFields.fixed rest
end

mutual
/-- raw encoder: `raw` carries the on-disk integers (enum fields as their numeric code,
    padding and computed fields absent) -/
def Con.encodeRaw : Con → Val → Option Bytes
  | .uint n le, .int v => if 0 ≤ v ∧ v < 256 ^ n then some (encNat le n v.toNat) else none
  | .sint n le, .int v =>
      if -((2 ^ (8 * n - 1) : Nat) : Int) ≤ v ∧ v < ((2 ^ (8 * n - 1) : Nat) : Int) then
        some (encNat le n (ofSigned (8 * n) v)) else none
  | .u24 le, .int v => if 0 ≤ v ∧ v < 2 ^ 24 then some (encNat le 3 v.toNat) else none
  | .bytesN e, .bytes b => match e.litNat? with
      | some n => if b.length = n then some b else none
      | none => none
  | .padding e _, _ => e.litNat?.map fun n => List.replicate n 0
  | .enum sub _ _, v => Con.encodeRaw sub v
  | .struct fs, .record raw => ConFields.encodeRaw fs raw
  | .array e sub, .list xs => match e.litNat? with
      | some n => if xs.length = n then Con.encodeRawList sub xs else none
      | none => none
  | .value _, _ => some []
  | .bits fs, .record raw =>
      let nbytes := (fs.foldl (fun a f => a + f.width) 0 + 7) / 8
      (packBits (8 * nbytes) fs raw).map (natBE nbytes)
  | _, _ => none
def ConFields.encodeRaw : ConFields → Fields → Option Bytes
  | .nil, _ => some []
  | .cons name _ c rest, raw => do
      let v := match name with
        | some nm => (Fields.get? raw nm).getD .none
        | none => .none
      let a ← Con.encodeRaw c v
      let b ← ConFields.encodeRaw rest raw
      pure (a ++ b)
def Con.encodeRawList : Con → List Val → Option Bytes
  | _, [] => some []
  | c, x :: xs => do
      let a ← Con.encodeRaw c x
      let b ← Con.encodeRawList c xs
      pure (a ++ b)
end

/-- the data-free half of a BitStruct: enum-decode each raw field -/
def decodeBits (env : Env) : List BitFld → Fields → Fields → R Fields
  | [], _, acc => .ok acc
  | f :: rest, raw, acc =>
    match f.name with
    | none => decodeBits env rest raw acc
    | some nm =>
      match Fields.get? raw nm with
      | some (.int x) =>
        match f.table with
        | none => decodeBits env rest raw (acc ++ [(nm, Val.int x)])
        | some (tbl, pass) =>
          match env.enumDecode tbl x with
          | some s => decodeBits env rest raw (acc ++ [(nm, Val.str s)])
          | none => if pass then decodeBits env rest raw (acc ++ [(nm, Val.int x)]) else .error .elfParseError
      | _ => .error .keyError

mutual
/-- the data-free half of parsing: what `parse` returns for given raw on-disk values -/
def Con.decodeRaw (env : Env) : Con → (ctx : Fields) → Val → R Val
  | .enum _ table pass, _, .int n =>
      match env.enumDecode table n with
      | some s => .ok (.str s)
      | none => if pass then .ok (.int n) else .error .elfParseError
  | .struct fs, _, .record raw => do
      let (obj, _) ← ConFields.decodeRaw env fs raw [] []
      return .record obj
  | .array _ sub, ctx, .list xs => do
      let ys ← Con.decodeRawList env sub ctx xs
      return .list ys
  | .value e, ctx, _ => e.eval ctx .none
  | .bits fs, _, .record raw => do
      return .record (← decodeBits env fs raw [])
  | .padding e _, _, _ => .ok (.bytes (List.replicate (e.litNat?.getD 0) 0))
  | _, _, v => .ok v
def ConFields.decodeRaw (env : Env) : ConFields → (raw obj ctx : Fields) → R (Fields × Fields)
  | .nil, _, obj, ctx => .ok (obj, ctx)
  | .cons name _ c rest, raw, obj, ctx => do
      let rv := match name with
        | some nm => (Fields.get? raw nm).getD .none
        | none => .none
      let v ← Con.decodeRaw env c ctx rv
      match name with
      | some nm => ConFields.decodeRaw env rest raw (Fields.set obj nm v) (Fields.set ctx nm v)
      | none => ConFields.decodeRaw env rest raw obj ctx
def Con.decodeRawList (env : Env) : Con → Fields → List Val → R (List Val)
  | _, _, [] => .ok []
  | c, ctx, x :: xs => do
      let y ← Con.decodeRaw env c ctx x
      let ys ← Con.decodeRawList env c ctx xs
      return y :: ys
end

end PyElf
