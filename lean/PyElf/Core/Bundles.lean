/-
  The struct bundles the library builds per configuration (`ELFStructs`,
  `DWARFStructs`, `EHABIStructs`), as records of `Con` terms.  T2 emits values of
  these types from the live objects; PyElf/Spec writes them from the standards.
-/
import PyElf.Core.Construct
namespace PyElf

/-- marker for a dict entry whose value is `None` (DW_FORM_implicit_const) -/
def Con.absent : Con := .unsupported "None"
/-- marker T2 uses for an attribute the library no longer defines -/
def Con.missing : Con := .unsupported "missing"

structure ElfStructs where
  Elf_Arm_Attribute_Tag : Con
  Elf_Attr_Subsection_Header : Con
  Elf_Chdr : Con
  Elf_Dyn : Con
  Elf_Ehdr : Con
  Elf_Hash : Con
  Elf_Nhdr : Con
  Elf_Nt_File : Con
  Elf_Phdr : Con
  Elf_Prop : Con
  Elf_Prpsinfo : Con
  Elf_Rel : Con
  Elf_Rela : Con
  Elf_Relr : Con
  Elf_RiscV_Attribute_Tag : Con
  Elf_Shdr : Con
  Elf_Stabs : Con
  Elf_Sunw_Syminfo : Con
  Elf_Sym : Con
  Elf_Verdaux : Con
  Elf_Verdef : Con
  Elf_Vernaux : Con
  Elf_Verneed : Con
  Elf_Versym : Con
  Elf_abi : Con
  Elf_addr : Con
  Elf_byte : Con
  Elf_half : Con
  Elf_ntbs : Con
  Elf_offset : Con
  Elf_sword : Con
  Elf_sxword : Con
  Elf_ugid : Con
  Elf_uleb128 : Con
  Elf_word : Con
  Elf_word64 : Con
  Elf_xword : Con
  Gnu_Hash : Con
  Gnu_debuglink : Con

def ElfStructs.names : List String :=
  ["Elf_Arm_Attribute_Tag", "Elf_Attr_Subsection_Header", "Elf_Chdr", "Elf_Dyn", "Elf_Ehdr", "Elf_Hash",
   "Elf_Nhdr", "Elf_Nt_File", "Elf_Phdr", "Elf_Prop", "Elf_Prpsinfo", "Elf_Rel", "Elf_Rela", "Elf_Relr",
   "Elf_RiscV_Attribute_Tag", "Elf_Shdr", "Elf_Stabs", "Elf_Sunw_Syminfo", "Elf_Sym", "Elf_Verdaux",
   "Elf_Verdef", "Elf_Vernaux", "Elf_Verneed", "Elf_Versym", "Elf_abi", "Elf_addr", "Elf_byte", "Elf_half",
   "Elf_ntbs", "Elf_offset", "Elf_sword", "Elf_sxword", "Elf_ugid", "Elf_uleb128", "Elf_word", "Elf_word64",
   "Elf_xword", "Gnu_Hash", "Gnu_debuglink"]

def ElfStructs.get (s : ElfStructs) : String → Option Con
  | "Elf_Arm_Attribute_Tag" => some s.Elf_Arm_Attribute_Tag
  | "Elf_Attr_Subsection_Header" => some s.Elf_Attr_Subsection_Header
  | "Elf_Chdr" => some s.Elf_Chdr | "Elf_Dyn" => some s.Elf_Dyn | "Elf_Ehdr" => some s.Elf_Ehdr
  | "Elf_Hash" => some s.Elf_Hash | "Elf_Nhdr" => some s.Elf_Nhdr | "Elf_Nt_File" => some s.Elf_Nt_File
  | "Elf_Phdr" => some s.Elf_Phdr | "Elf_Prop" => some s.Elf_Prop | "Elf_Prpsinfo" => some s.Elf_Prpsinfo
  | "Elf_Rel" => some s.Elf_Rel | "Elf_Rela" => some s.Elf_Rela | "Elf_Relr" => some s.Elf_Relr
  | "Elf_RiscV_Attribute_Tag" => some s.Elf_RiscV_Attribute_Tag | "Elf_Shdr" => some s.Elf_Shdr
  | "Elf_Stabs" => some s.Elf_Stabs | "Elf_Sunw_Syminfo" => some s.Elf_Sunw_Syminfo | "Elf_Sym" => some s.Elf_Sym
  | "Elf_Verdaux" => some s.Elf_Verdaux | "Elf_Verdef" => some s.Elf_Verdef | "Elf_Vernaux" => some s.Elf_Vernaux
  | "Elf_Verneed" => some s.Elf_Verneed | "Elf_Versym" => some s.Elf_Versym | "Elf_abi" => some s.Elf_abi
  | "Elf_addr" => some s.Elf_addr | "Elf_byte" => some s.Elf_byte | "Elf_half" => some s.Elf_half
  | "Elf_ntbs" => some s.Elf_ntbs | "Elf_offset" => some s.Elf_offset | "Elf_sword" => some s.Elf_sword
  | "Elf_sxword" => some s.Elf_sxword | "Elf_ugid" => some s.Elf_ugid | "Elf_uleb128" => some s.Elf_uleb128
  | "Elf_word" => some s.Elf_word | "Elf_word64" => some s.Elf_word64 | "Elf_xword" => some s.Elf_xword
  | "Gnu_Hash" => some s.Gnu_Hash | "Gnu_debuglink" => some s.Gnu_debuglink
  | _ => none

structure DwarfStructs where
  Dwarf_CIE_header : Con
  Dwarf_CU_header : Con
  Dwarf_FDE_header : Con
  Dwarf_TU_header : Con
  Dwarf_abbrev_declaration : Con
  Dwarf_address_table_header : Con
  Dwarf_aranges_header : Con
  Dwarf_debugaltlink : Con
  Dwarf_debugsup : Con
  Dwarf_initial_length : Con
  Dwarf_int16 : Con
  Dwarf_int32 : Con
  Dwarf_int64 : Con
  Dwarf_int8 : Con
  Dwarf_length : Con
  Dwarf_lineprog_file_entry : Con
  Dwarf_lineprog_header : Con
  Dwarf_loclists_CU_header : Con
  Dwarf_loclists_counted_location_description : Con
  Dwarf_loclists_entries : Con
  Dwarf_locview_pair : Con
  Dwarf_nameLUT_header : Con
  Dwarf_offset : Con
  Dwarf_rnglists_CU_header : Con
  Dwarf_rnglists_entries : Con
  Dwarf_sleb128 : Con
  Dwarf_string_offsets_table_header : Con
  Dwarf_target_addr : Con
  Dwarf_uint16 : Con
  Dwarf_uint24 : Con
  Dwarf_uint32 : Con
  Dwarf_uint64 : Con
  Dwarf_uint8 : Con
  Dwarf_uleb128 : Con
  EH_CIE_header : Con
  the_Dwarf_offset : Con
  the_Dwarf_sleb128 : Con
  the_Dwarf_target_addr : Con
  the_Dwarf_uint16 : Con
  the_Dwarf_uint32 : Con
  the_Dwarf_uint8 : Con
  the_Dwarf_uleb128 : Con
  /-- `Dwarf_dw_form`, sorted by form name, restricted to the forms the Spec lists -/
  forms : List (String × Con)

def DwarfStructs.names : List String :=
  ["Dwarf_CIE_header", "Dwarf_CU_header", "Dwarf_FDE_header", "Dwarf_TU_header", "Dwarf_abbrev_declaration",
   "Dwarf_address_table_header", "Dwarf_aranges_header", "Dwarf_debugaltlink", "Dwarf_debugsup",
   "Dwarf_initial_length", "Dwarf_int16", "Dwarf_int32", "Dwarf_int64", "Dwarf_int8", "Dwarf_length",
   "Dwarf_lineprog_file_entry", "Dwarf_lineprog_header", "Dwarf_loclists_CU_header",
   "Dwarf_loclists_counted_location_description", "Dwarf_loclists_entries", "Dwarf_locview_pair",
   "Dwarf_nameLUT_header", "Dwarf_offset", "Dwarf_rnglists_CU_header", "Dwarf_rnglists_entries", "Dwarf_sleb128",
   "Dwarf_string_offsets_table_header", "Dwarf_target_addr", "Dwarf_uint16", "Dwarf_uint24", "Dwarf_uint32",
   "Dwarf_uint64", "Dwarf_uint8", "Dwarf_uleb128", "EH_CIE_header", "the_Dwarf_offset", "the_Dwarf_sleb128",
   "the_Dwarf_target_addr", "the_Dwarf_uint16", "the_Dwarf_uint32", "the_Dwarf_uint8", "the_Dwarf_uleb128"]

/-- the forms the Spec gives a parser for (DWARF 2–5 §7.5.6 and the GNU extensions the library names) -/
def DwarfStructs.formNames : List String :=
  ["DW_FORM_GNU_ref_alt", "DW_FORM_GNU_strp_alt", "DW_FORM_addr", "DW_FORM_addrx", "DW_FORM_addrx1",
   "DW_FORM_addrx2", "DW_FORM_addrx3", "DW_FORM_addrx4", "DW_FORM_block", "DW_FORM_block1", "DW_FORM_block2",
   "DW_FORM_block4", "DW_FORM_data1", "DW_FORM_data16", "DW_FORM_data2", "DW_FORM_data4", "DW_FORM_data8",
   "DW_FORM_exprloc", "DW_FORM_flag", "DW_FORM_flag_present", "DW_FORM_implicit_const", "DW_FORM_indirect",
   "DW_FORM_line_strp", "DW_FORM_loclistx", "DW_FORM_ref1", "DW_FORM_ref2", "DW_FORM_ref4", "DW_FORM_ref8",
   "DW_FORM_ref_addr", "DW_FORM_ref_sig8", "DW_FORM_ref_sup4", "DW_FORM_ref_sup8", "DW_FORM_ref_udata",
   "DW_FORM_rnglistx", "DW_FORM_sdata", "DW_FORM_sec_offset", "DW_FORM_string", "DW_FORM_strp",
   "DW_FORM_strp_sup", "DW_FORM_strx", "DW_FORM_strx1", "DW_FORM_strx2", "DW_FORM_strx3", "DW_FORM_strx4",
   "DW_FORM_udata"]

def DwarfStructs.get (s : DwarfStructs) : String → Option Con
  | "Dwarf_CIE_header" => some s.Dwarf_CIE_header | "Dwarf_CU_header" => some s.Dwarf_CU_header
  | "Dwarf_FDE_header" => some s.Dwarf_FDE_header | "Dwarf_TU_header" => some s.Dwarf_TU_header
  | "Dwarf_abbrev_declaration" => some s.Dwarf_abbrev_declaration
  | "Dwarf_address_table_header" => some s.Dwarf_address_table_header
  | "Dwarf_aranges_header" => some s.Dwarf_aranges_header | "Dwarf_debugaltlink" => some s.Dwarf_debugaltlink
  | "Dwarf_debugsup" => some s.Dwarf_debugsup | "Dwarf_initial_length" => some s.Dwarf_initial_length
  | "Dwarf_int16" => some s.Dwarf_int16 | "Dwarf_int32" => some s.Dwarf_int32 | "Dwarf_int64" => some s.Dwarf_int64
  | "Dwarf_int8" => some s.Dwarf_int8 | "Dwarf_length" => some s.Dwarf_length
  | "Dwarf_lineprog_file_entry" => some s.Dwarf_lineprog_file_entry
  | "Dwarf_lineprog_header" => some s.Dwarf_lineprog_header
  | "Dwarf_loclists_CU_header" => some s.Dwarf_loclists_CU_header
  | "Dwarf_loclists_counted_location_description" => some s.Dwarf_loclists_counted_location_description
  | "Dwarf_loclists_entries" => some s.Dwarf_loclists_entries | "Dwarf_locview_pair" => some s.Dwarf_locview_pair
  | "Dwarf_nameLUT_header" => some s.Dwarf_nameLUT_header | "Dwarf_offset" => some s.Dwarf_offset
  | "Dwarf_rnglists_CU_header" => some s.Dwarf_rnglists_CU_header
  | "Dwarf_rnglists_entries" => some s.Dwarf_rnglists_entries | "Dwarf_sleb128" => some s.Dwarf_sleb128
  | "Dwarf_string_offsets_table_header" => some s.Dwarf_string_offsets_table_header
  | "Dwarf_target_addr" => some s.Dwarf_target_addr | "Dwarf_uint16" => some s.Dwarf_uint16
  | "Dwarf_uint24" => some s.Dwarf_uint24 | "Dwarf_uint32" => some s.Dwarf_uint32
  | "Dwarf_uint64" => some s.Dwarf_uint64 | "Dwarf_uint8" => some s.Dwarf_uint8
  | "Dwarf_uleb128" => some s.Dwarf_uleb128 | "EH_CIE_header" => some s.EH_CIE_header
  | "the_Dwarf_offset" => some s.the_Dwarf_offset | "the_Dwarf_sleb128" => some s.the_Dwarf_sleb128
  | "the_Dwarf_target_addr" => some s.the_Dwarf_target_addr | "the_Dwarf_uint16" => some s.the_Dwarf_uint16
  | "the_Dwarf_uint32" => some s.the_Dwarf_uint32 | "the_Dwarf_uint8" => some s.the_Dwarf_uint8
  | "the_Dwarf_uleb128" => some s.the_Dwarf_uleb128
  | nm =>
    if nm.startsWith "Dwarf_dw_form:" then
      (s.forms.find? (·.1 == (nm.drop 14).toString)).map (·.2)
    else none

def DwarfStructs.form (s : DwarfStructs) (f : String) : Option Con :=
  (s.forms.find? (·.1 == f)).map (·.2)

structure EhabiStructs where
  EH_index_struct : Con
  EH_table_struct : Con
  EHABI_uint32 : Con

def EhabiStructs.get (s : EhabiStructs) : String → Option Con
  | "EH_index_struct" => some s.EH_index_struct
  | "EH_table_struct" => some s.EH_table_struct
  | "EHABI_uint32" => some s.EHABI_uint32
  | _ => none

/-- machine behaviour classes: the partition of `e_machine` the struct factories distinguish -/
structure ElfCfg where
  le : Bool
  cls : Nat           -- 32 | 64
  mclass : String     -- representative machine name, or "default"
  solaris : Bool      -- EI_OSABI = ELFOSABI_SOLARIS
  core : Bool         -- e_type = ET_CORE
  deriving DecidableEq, Repr, BEq

structure DwarfCfg where
  le : Bool
  fmt : Nat           -- 32 | 64
  asz : Nat           -- 4 | 8
  ver : Nat           -- 2..5
  deriving DecidableEq, Repr, BEq

end PyElf
