/-
  C13, sixth wave: the lookups of dwarfinfo.py that END IN AN ENTRY, composed from the unit lookup of
  `Model/DwarfLookup.lean` (bisect over `_cu_offsets_map` / `_cu_cache`) and C04's model of a unit's
  entries (`Model/Die.lean`, `Model/DieSection.lean`: the glue `unitCtx` from a parsed unit header to
  the context its entries are decoded in, `CompileUnit.get_DIE_from_refaddr`, `get_top_DIE`).

      DWARFInfo.get_DIE_from_refaddr(refaddr)      cu = self.get_CU_containing(refaddr)
                                                   return cu.get_DIE_from_refaddr(refaddr)
      DWARFInfo.get_DIE_from_lut_entry(e)          cu = self.get_CU_at(e.cu_ofs)
                                                   return self.get_DIE_from_refaddr(e.die_ofs, cu)
      dwarfinfo.get_pubnames()[name]               NameLUT.__getitem__ (KeyError), then the line above
      address -> range table -> unit -> top entry  `unitForAddr` (Model/DwarfLookupInfo.lean), then
                                                   cu.get_top_DIE()

  The unit cache holds unit OBJECTS; an entry is read through the object the cache returned.  C04's
  entry model is the pure parse-on-miss function of (unit context, offset) — the refinement of the
  per-unit DIE cache to it is C10's subject — so the entry a unit object answers with is
  `unitDIEFromRefaddr (unitCtx … cu) x`.
-/
import PyElf.Model.DwarfLookupInfo
import PyElf.Model.DieSection
namespace PyElf.Model.Lookup
open PyElf
open PyElf.Model.C04 (DInfo UnitCtx unitCtx unitDIEFromRefaddr getTopDIE)
open PyElf.Spec.C04 (DieObs)

/-- `DWARFInfo._parse_CU_at_offset` of the `DWARFInfo` `w` on its `.debug_info` stream `data`
    (`S0` is `DWARFInfo.structs`) -/
def infoParser (w : DInfo) (S0 : DwarfStructs) (data : Bytes) : Nat → R CU :=
  parseCUAtOffset w.enumDecode w.structsOf S0 w.le data

/-- `cu.get_DIE_from_refaddr(refaddr)` on a unit object the unit cache returned -/
def cuDIEFromRefaddr (w : DInfo) (S0 : DwarfStructs) (data : Bytes) (cu : CU) (refaddr : Nat) : R DieObs := do
  let U ← unitCtx w S0 data cu
  unitDIEFromRefaddr U refaddr

/-- `cu.get_top_DIE()` on a unit object the unit cache returned -/
def cuTopDIE (w : DInfo) (S0 : DwarfStructs) (data : Bytes) (cu : CU) : R DieObs := do
  let U ← unitCtx w S0 data cu
  getTopDIE U

/-- `DWARFInfo.get_DIE_from_refaddr(refaddr)` with `cu=None` (what `DIE.get_DIE_from_attribute` calls for
    DW_FORM_ref_addr): the unit through `get_CU_containing` — its two `dwarf_assert`s first: no `.debug_info`,
    `0 <= refaddr < size` —, then that unit's `get_DIE_from_refaddr`.  Returns the unit object and the entry. -/
def getDIEFromRefaddr (w : DInfo) (S0 : DwarfStructs) (st : CUCache) (refaddr : Int) : R (CU × DieObs) × CUCache :=
  match w.info with
  | none => (.error .dwarfError, st)
  | some data =>
    if refaddr < 0 then (.error .dwarfError, st)
    else
      match getCUContaining (infoParser w S0 data) data.length st refaddr.toNat with
      | (.error e, st') => (.error e, st')
      | (.ok cu, st') =>
        match cuDIEFromRefaddr w S0 data cu refaddr.toNat with
        | .error e => (.error e, st')
        | .ok d => (.ok (cu, d), st')

/-- `DWARFInfo.get_DIE_from_lut_entry(NameLUTEntry(cu_ofs, die_ofs))` down to the entry -/
def getDIEFromLutEntryDie (w : DInfo) (S0 : DwarfStructs) (st : CUCache) (cuOfs dieOfs : Nat) :
    R (CU × DieObs) × CUCache :=
  match w.info with
  | none => (.error .dwarfError, st)
  | some data =>
    match getCUAt (infoParser w S0 data) data.length st cuOfs with
    | (.error e, st') => (.error e, st')
    | (.ok cu, st') =>
      match cuDIEFromRefaddr w S0 data cu dieOfs with
      | .error e => (.error e, st')
      | .ok d => (.ok (cu, d), st')

/-- `lut = dwarfinfo.get_pubnames()` (or `get_pubtypes()`; `sec` is that section), then
    `dwarfinfo.get_DIE_from_lut_entry(lut[name])`.  `.ok none`: the section is absent (`lut is None`);
    `keyError`: `NameLUT.__getitem__` on a name the table lacks.  `env`/`S` as for `getNameLUT`. -/
def dieByName (env : Env) (S : DwarfStructs) (sec : Option Bytes) (w : DInfo) (S0 : DwarfStructs) (st : CUCache)
    (name : Bytes) : R (Option (CU × DieObs)) × CUCache :=
  match getNameLUT env S sec with
  | .error e => (.error e, st)
  | .ok none => (.ok none, st)
  | .ok (some (d, _)) =>
    match dictGet? d name with
    | none => (.error .keyError, st)
    | some (cuOfs, dieOfs) =>
      match getDIEFromLutEntryDie w S0 st cuOfs dieOfs with
      | (.error e, st') => (.error e, st')
      | (.ok r, st') => (.ok (some r), st')

/-- address → range table → unit (`unitForAddr`: `cu_offset_at_addr`, then `get_CU_containing` or `get_CU_at`)
    → `cu.get_top_DIE()`.  `t` is the result of `get_aranges()`.  `.ok none`: no table, or no range contains
    the address. -/
def topDIEForAddr (byContaining : Bool) (t : Option ARanges) (w : DInfo) (S0 : DwarfStructs) (st : CUCache)
    (addr : Nat) : R (Option (CU × DieObs)) × CUCache :=
  match unitForAddr byContaining t (infoParser w S0) w.info st addr with
  | (.error e, st') => (.error e, st')
  | (.ok none, st') => (.ok none, st')
  | (.ok (some cu), st') =>
    match w.info with
    | none => (.error .dwarfError, st')
    | some data =>
      match cuTopDIE w S0 data cu with
      | .error e => (.error e, st')
      | .ok d => (.ok (some (cu, d)), st')

end PyElf.Model.Lookup
