/-
  C07: the glue between `.debug_info` and the list code.

  Model/Lists.lean takes what the list code reads of the compile units (`Cu`: version, address size, format,
  `cu.structs`, and per debugging entry the (name, form, raw value) triples of `die.attributes`) as an argument.
  Here that argument is PRODUCED from section bytes by the model of `dwarfinfo.iter_CUs()` × `cu.iter_DIEs()`
  (Model/DieSection.lean, C04): `infoCus` is

      [(cu, [die.attributes for die in cu.iter_DIEs()]) for cu in dwarfinfo.iter_CUs()]

  and the `info…` functions below are the public entry points of locationlists.py / ranges.py run on it.

  Attribute names and forms are Python strings for every number the registry names; a number without a name stays
  an `int` in Python.  The list code only compares names with string literals and uses them as dict keys, so an
  unnamed number is carried as its decimal digits (`keyOf`: injective on numbers, never equal to a "DW_…"
  literal); a form without a name never reaches the list code (the entry decoder has no parser for it).
-/
import PyElf.Model.Lists
import PyElf.Model.DieSection
import PyElf.Model.Env
namespace PyElf.Model.Lists
open PyElf PyElf.Model
open PyElf.Spec.C04 (AttrObs DieObs Sections)

/-- an attribute name / form as the list code sees it -/
def keyOf : Val → String
  | .str s => s
  | .int n => toString n
  | _ => ""

/-- one item of `die.attributes` as the list code reads it: name, form, raw_value -/
def rawAttrOfObs (a : AttrObs) : RawAttr := { name := keyOf a.name, form := keyOf a.form, raw := a.raw }

/-- the sections of the `DWARFInfo` the list code reaches -/
def secsOfSections (s : Sections) : Secs := { addr := s.addr, loclists := s.loclists, rnglists := s.rnglists }

/-- what the list code reads of one unit: header fields, `cu.structs` (the `DWARFStructs(...)` of the header's
    format, address size and version — the same call as in `Model.C04.unitCtx`), and its entries -/
def cuOfUnit (w : C04.DInfo) (cu : Lookup.CU) (dies : List (DieObs × Option Nat)) : R Cu := do
  let asz ← cu.header.getNat "address_size"
  let ver ← cu.header.getNat "version"
  let some S := w.structsOf ⟨w.le, cu.fmt, asz, ver⟩ | .error .assertion
  return { version := ver, asz := asz, fmt := cu.fmt, S := S, dies := dies.map fun d => d.1.attrs.map rawAttrOfObs }

/-- `for cu in dwarfinfo.iter_CUs(): for die in cu.iter_DIEs(): die.attributes`, driven to exhaustion: an entry
    that fails to decode ends the walk with its exception; an exception of the unit iteration comes after the
    units before it have been walked.  `G` is `_get_cached_DIE` (as in `Model.C04.iterSection`). -/
def infoCus (G : C04.UnitCtx → Nat → R DieObs) (w : C04.DInfo) (S0 : DwarfStructs) : R (List Cu) :=
  let (us, e) := C04.iterSection G w S0 w.info false
  do
    let cus ← us.mapM fun (cu, r) => do
      let dies ← r
      cuOfUnit w cu dies
    match e with
    | some err => .error err
    | none => pure cus

/-- the list object `DWARFInfo.location_lists()` / `range_lists()` hands out over ONE section (`ver` = 4 for
    .debug_loc / .debug_ranges, 5 for .debug_loclists / .debug_rnglists): `DWARFInfo.structs`, the default
    address size -/
def infoLists (w : C04.DInfo) (S0 : DwarfStructs) (data : Bytes) (ver : Nat) : Lists :=
  { data := data, S := S0, asz := w.dasz, version := ver }

/-- `dwarfinfo.location_lists().iter_location_lists()` from section bytes -/
def infoIterLocationLists (G : C04.UnitCtx → Nat → R DieObs) (w : C04.DInfo) (S0 : DwarfStructs) (data : Bytes)
    (ver : Nat) : R (List (List Val)) := do
  let cus ← infoCus G w S0
  iterLocationLists (dwarfEnv S0) (secsOfSections w.secs) (infoLists w S0 data ver) cus

/-- `dwarfinfo.range_lists().iter_range_lists()` from section bytes -/
def infoIterRangeLists (G : C04.UnitCtx → Nat → R DieObs) (w : C04.DInfo) (S0 : DwarfStructs) (data : Bytes)
    (ver : Nat) : R (List (List Val)) := do
  let cus ← infoCus G w S0
  iterRangeLists (dwarfEnv S0) (secsOfSections w.secs) (infoLists w S0 data ver) cus

/-- the attribute `name` of entry `di` of unit `ci`, as the list code decodes it -/
def infoAttr (G : C04.UnitCtx → Nat → R DieObs) (w : C04.DInfo) (S0 : DwarfStructs) (ci di : Nat) (name : String) :
    R (Cu × Attr) := do
  let cus ← infoCus G w S0
  let some cu := cus[ci]? | .error .indexError
  let some die := cu.dies[di]? | .error .indexError
  let d ← dieAttrs (dwarfEnv S0) (secsOfSections w.secs) cu die
  match findAttr d name with
  | none => .error .keyError
  | some a => pure (cu, a)

/-- `LocationParser(location_lists).parse_from_attribute(die.attributes[name], cu['version'], die)` from
    section bytes -/
def infoParseFromAttribute (G : C04.UnitCtx → Nat → R DieObs) (w : C04.DInfo) (S0 : DwarfStructs) (data : Bytes)
    (ver : Nat) (ci di : Nat) (name : String) : R Val := do
  let (cu, a) ← infoAttr G w S0 ci di name
  parseFromAttribute (dwarfEnv S0) (secsOfSections w.secs) (infoLists w S0 data ver) a cu.version (some cu)

/-- `range_lists.get_range_list_at_offset(die.attributes[name].value, cu)` from section bytes -/
def infoRangeListOfAttribute (G : C04.UnitCtx → Nat → R DieObs) (w : C04.DInfo) (S0 : DwarfStructs) (data : Bytes)
    (ver : Nat) (ci di : Nat) (name : String) : R (List Val) := do
  let (cu, a) ← infoAttr G w S0 ci di name
  let off ← a.value.asInt
  getRangeListAtOffset (dwarfEnv S0) (secsOfSections w.secs) (infoLists w S0 data ver) off (some cu)

end PyElf.Model.Lists
