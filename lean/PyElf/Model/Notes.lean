/-
  Mirrors of elftools/elf/notes.py (`iter_notes`), the NoteSection / NoteSegment front
  ends and sections.py `StabSection.iter_stabs`, statement by statement.
  Parameterised by the struct bundle `S`, the enum environment `env` and `elfclass`,
  exactly as the Python is parameterised by `elffile.structs` / `elffile.elfclass`.
-/
import PyElf.Core.Bundles
import PyElf.Gen.Pure
namespace PyElf.Model
open PyElf

/-- `bytes2str`: Latin-1 decoding -/
def bytes2str (b : Bytes) : String := String.ofList (b.map fun x => Char.ofNat x.toNat)

/-- `stream.read(n)` with the stream at `sp`: the (possibly short) slice and the new position -/
def streamRead (data : Bytes) (sp n : Nat) : Bytes × Nat :=
  let s := readN data sp n
  (s, sp + s.length)

mutual
/-- `Construct.sizeof()` for the static constructs; anything else is construct's SizeofError -/
def sizeofCon : Con → R Nat
  | .uint n _ => .ok n
  | .sint n _ => .ok n
  | .u24 _ => .ok 3
  | .enum sub _ _ => sizeofCon sub
  | .struct fs => sizeofFields fs
  | .bytesN (.lit n) => if n < 0 then .error .structError else .ok n.toNat
  | .padding (.lit n) _ => if n < 0 then .error .structError else .ok n.toNat
  | _ => .error .structError
def sizeofFields : ConFields → R Nat
  | .nil => .ok 0
  | .cons _ _ c rest => do
      let a ← sizeofCon c
      let b ← sizeofFields rest
      return a + b
end

/-- `roundup(num, bits)` of utils.py as regenerated from the source, for a natural `num`
    (the result is never negative) -/
def roundup (num bits : Nat) : Nat := (Gen.Pure.roundup (num : Int) (bits : Int)).toNat

/-- `obj[k] = v` on a Container -/
def setItem (o : Val) (k : String) (v : Val) : R Val :=
  match o with
  | .record fs => .ok (.record (Fields.set fs k v))
  | _ => .error .typeError

/-- `CString('').parse(chunk)`: a construct error (not wrapped by `struct_parse`) when the
    chunk has no NUL -/
def cstringParseBytes (chunk : Bytes) : R Bytes :=
  match parseCString chunk 0 with
  | .ok (s, _) => .ok s
  | .error _ => .error .structError

/-- the NT_GNU_PROPERTY_TYPE_0 loop: `while off < current_note_end` -/
def gnuPropLoop (S : ElfStructs) (env : Env) (cls : Nat) (data : Bytes) (noteEnd : Nat) :
    Nat → Nat → List Val → R (List Val)
  | 0, _, _ => .error .outOfFuel
  | fuel+1, off, props =>
    if off < noteEnd then do
      let (p, _) ← structParse env S.Elf_Prop data off
      let dsz ← p.getNat "pr_datasz"
      let off := off + roundup (dsz + 8) (if cls = 32 then 2 else 3)
      gnuPropLoop S env cls data noteEnd fuel off (props ++ [p])
    else .ok props

/-- the descriptor dispatch of `iter_notes` (the `if/elif` chain on type and owner);
    `offset` is the file offset of the descriptor -/
def decodeDesc (S : ElfStructs) (env : Env) (cls : Nat) (data : Bytes)
    (ty nm : Val) (descData : Bytes) (descsz offset : Nat) : R Val :=
  if ty == .str "NT_GNU_ABI_TAG" && nm == .str "GNU" then do
    let (v, _) ← structParse env S.Elf_abi data offset
    return v
  else if ty == .str "NT_GNU_BUILD_ID" && nm == .str "GNU" then
    .ok (.str descData.toHex)
  else if ty == .str "NT_GNU_GOLD_VERSION" && nm == .str "GNU" then
    .ok (.str (bytes2str descData))
  else if ty == .str "NT_PRPSINFO" then do
    let (v, _) ← structParse env S.Elf_Prpsinfo data offset
    return v
  else if ty == .str "NT_FILE" then do
    let (v, _) ← structParse env S.Elf_Nt_File data offset
    return v
  else if ty == .str "NT_GNU_PROPERTY_TYPE_0" && nm == .str "GNU" then do
    let props ← gnuPropLoop S env cls data (offset + descsz) (descsz + 1) offset []
    return .list props
  else .ok (.bytes descData)

/-- second half of the loop body of `iter_notes`: from `desc_data = elffile.stream.read(...)` to the
    `yield`.  `offset` is the descriptor's file offset, `sp` the stream position after the name was read. -/
def noteRest (S : ElfStructs) (env : Env) (cls : Nat) (data : Bytes) (nOffset : Nat) (note : Val) (offset sp : Nat) :
    R (Val × Nat) := do
  let descsz ← note.getNat "n_descsz"
  let (descData, _) := streamRead data sp descsz
  let note ← setItem note "n_descdata" (.bytes descData)
  let desc ← decodeDesc S env cls data (← note.getField "n_type") (← note.getField "n_name") descData descsz offset
  let note ← setItem note "n_desc" desc
  let offset := offset + roundup descsz 2
  let note ← setItem note "n_size" (.int ((offset : Int) - (nOffset : Int)))
  return (note, offset)

/-- the body of the `while` loop of `iter_notes` for the note at `offset`:
    the yielded note and the offset of the next one -/
def noteAt (S : ElfStructs) (env : Env) (cls : Nat) (data : Bytes) (nhdrSize offset : Nat) : R (Val × Nat) := do
  let (note, _) ← structParse env S.Elf_Nhdr data offset
  let note ← setItem note "n_offset" (.int offset)
  let nOffset := offset
  let offset := offset + nhdrSize
  let sp := offset                                         -- elffile.stream.seek(offset)
  let namesz ← note.getField "n_namesz"
  if namesz.truthy then do
    let disk := roundup (← namesz.asNat) 2                 -- n_namesz is 4-byte aligned
    let (chunk, sp) := streamRead data sp disk
    let nm ← cstringParseBytes chunk
    let note ← setItem note "n_name" (.str (bytes2str nm))
    noteRest S env cls data nOffset note (offset + disk) sp
  else do
    let note ← setItem note "n_name" .none
    noteRest S env cls data nOffset note offset sp

/-- `while offset + nhdr_size <= end:` (the comparison as repaired by the C14 fix) -/
def iterNotesLoop (S : ElfStructs) (env : Env) (cls : Nat) (data : Bytes) (nhdrSize end_ : Nat) :
    Nat → Nat → List Val → R (List Val)
  | 0, _, _ => .error .outOfFuel
  | fuel+1, offset, acc =>
    if offset + nhdrSize ≤ end_ then
      match noteAt S env cls data nhdrSize offset with
      | .error e => .error e
      | .ok (note, offset') => iterNotesLoop S env cls data nhdrSize end_ fuel offset' (acc ++ [note])
    else .ok acc

/-- `iter_notes(elffile, offset, size)`, the generator drained into a list.
    Every iteration advances by at least the header size, so `size + 1` iterations suffice. -/
def iterNotes (S : ElfStructs) (env : Env) (cls : Nat) (data : Bytes) (offset size : Nat) : R (List Val) := do
  let end_ := offset + size
  let nhdrSize ← sizeofCon S.Elf_Nhdr
  iterNotesLoop S env cls data nhdrSize end_ (size + 1) offset []

/-- `NoteSection.iter_notes`: `iter_notes(self.elffile, self['sh_offset'], self['sh_size'])` -/
def noteSectionIterNotes (S : ElfStructs) (env : Env) (cls : Nat) (data : Bytes) (shdr : Val) : R (List Val) := do
  iterNotes S env cls data (← shdr.getNat "sh_offset") (← shdr.getNat "sh_size")

/-- `NoteSegment.iter_notes`: `iter_notes(self.elffile, self['p_offset'], self['p_filesz'])` -/
def noteSegmentIterNotes (S : ElfStructs) (env : Env) (cls : Nat) (data : Bytes) (phdr : Val) : R (List Val) := do
  iterNotes S env cls data (← phdr.getNat "p_offset") (← phdr.getNat "p_filesz")

/-- `StabSection.iter_stabs`: `while offset < end` -/
def iterStabsLoop (S : ElfStructs) (env : Env) (data : Bytes) (end_ : Nat) : Nat → Nat → List Val → R (List Val)
  | 0, _, _ => .error .outOfFuel
  | fuel+1, offset, acc =>
    if offset < end_ then do
      let (stabs, _) ← structParse env S.Elf_Stabs data offset
      let stabs ← setItem stabs "n_offset" (.int offset)
      let offset := offset + (← sizeofCon S.Elf_Stabs)
      iterStabsLoop S env data end_ fuel offset (acc ++ [stabs])
    else .ok acc

def iterStabs (S : ElfStructs) (env : Env) (data : Bytes) (shdr : Val) : R (List Val) := do
  let offset ← shdr.getNat "sh_offset"
  let size ← shdr.getNat "sh_size"
  iterStabsLoop S env data (offset + size) (size + 1) offset []

end PyElf.Model
