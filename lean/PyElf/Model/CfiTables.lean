/-
  C06: the constant tables `elftools/dwarf/callframe.py` depends on, as records.
  `tools/gen/extra_c06.py` emits a value of `CfiTables` from the live modules
  (`Gen.cfiTables`); `Spec.cfiTables` is the same record written from DWARF 5
  §7.24 (table 7.29), the LSB `.eh_frame` pointer encodings and the GNU/AArch64
  vendor opcodes.  `Props/TieC06.lean` proves them equal.
-/
namespace PyElf

/-- `DW_CFA_*` of elftools/dwarf/constants.py -/
structure CfaOps where
  advance_loc : Nat
  offset : Nat
  restore : Nat
  nop : Nat
  set_loc : Nat
  advance_loc1 : Nat
  advance_loc2 : Nat
  advance_loc4 : Nat
  offset_extended : Nat
  restore_extended : Nat
  undefined : Nat
  same_value : Nat
  register : Nat
  remember_state : Nat
  restore_state : Nat
  def_cfa : Nat
  def_cfa_register : Nat
  def_cfa_offset : Nat
  def_cfa_expression : Nat
  expression : Nat
  offset_extended_sf : Nat
  def_cfa_sf : Nat
  def_cfa_offset_sf : Nat
  val_offset : Nat
  val_offset_sf : Nat
  val_expression : Nat
  AARCH64_negate_ra_state : Nat
  GNU_args_size : Nat
  deriving DecidableEq, Repr

/-- `DW_EH_encoding_flags` of elftools/dwarf/enums.py -/
structure EhPE where
  absptr : Nat
  uleb128 : Nat
  udata2 : Nat
  udata4 : Nat
  udata8 : Nat
  signed : Nat
  sleb128 : Nat
  sdata2 : Nat
  sdata4 : Nat
  sdata8 : Nat
  pcrel : Nat
  textrel : Nat
  datarel : Nat
  funcrel : Nat
  aligned : Nat
  indirect : Nat
  omit_ : Nat
  deriving DecidableEq, Repr

structure CfiTables where
  ops : CfaOps
  /-- `_OPCODE_NAME_MAP` (value → name), in dict order -/
  nameMap : List (Nat × String)
  pe : EhPE
  /-- `_eh_encoding_to_field`: basic encoding → name of the `DWARFStructs` field factory, in dict order -/
  peField : List (Nat × String)
  primaryMask : Nat
  primaryArgMask : Nat
  deriving DecidableEq, Repr

end PyElf
