/-
  `SymbolTableSection._symbol_name_map` (sections.py): built from one complete `iter_symbols()` walk on the first
  `get_symbol_by_name` call and published only when the walk returns (fix: it used to publish a half-built
  `defaultdict`); every call then reads the named symbols with `get_symbol(i)`.  Instance of `Model/SigCache`.
-/
import PyElf.Model.Symbols
import PyElf.Model.SigCache
namespace PyElf.Model
open PyElf

/-- the walk behind `_symbol_name_map`: the finished map, or what the walk raised -/
def symNameScan (S : ElfStructs) (env : Env) (data : Bytes) (h : SecHdr) (strOff : Nat) :
    List (Bytes × List Nat) × Option Err :=
  match iterSymbols S env data h strOff with
  | .ok syms => (buildNameMap syms, none)
  | .error e => ([], some e)

/-- a history of `get_symbol_by_name` calls on ONE section object -/
def symByNameHist (S : ElfStructs) (env : Env) (data : Bytes) (h : SecHdr) (strOff : Nat) (qs : List Bytes) :
    List (R (Option (List Symbol))) × SigCache.St (List (Bytes × List Nat)) :=
  SigCache.run (symNameScan S env data h strOff) (getSymbolByNameFrom (getSymbol S env data h strOff)) SigCache.St.init qs

end PyElf.Model
