/-
  The symbol-table code of sections.py with the name decoding of `StringTableSection.get_string`
  made explicit:

      s = parse_cstring_from_stream(self.stream, table_offset + offset)
      return s.decode('utf-8', errors='replace') if s else ''

  `Model/Symbols.lean` carries a name as the raw bytes found in the string table, which represents the
  Python `str` faithfully exactly when those bytes are valid UTF-8.  Here the reported name is the `str`
  itself, represented by its UTF-8 encoding: `bytes.decode('utf-8', errors='replace')` is
  `Spec.C03.utf8Replace` (the Unicode Standard's substitution of maximal subparts, which CPython's codec
  implements; the codec is in the trusted base and is compared with `utf8Replace` on every run).  Every
  comparison of names the code makes (`_symbol_name_map`, `sym.name == name` in the hash lookups) is a
  comparison of these strings.  On valid UTF-8 both models coincide (`Proofs/SymDecoded.lean`).
-/
import PyElf.Model.Symbols
import PyElf.Spec.SymbolsUtf8
namespace PyElf.Model.C03
open PyElf PyElf.Model

/-- `bytes.decode('utf-8', errors='replace')`, the resulting `str` represented by its UTF-8 encoding -/
def pyDecodeReplace (s : Bytes) : Bytes := Spec.C03.utf8Replace s

/-- `StringTableSection.get_string(offset)` (`None` and `b''` both give `''`) -/
def symGetStringD (data : Bytes) (strOff : Nat) (offset : Nat) : R Bytes := do
  match ← parseCStringFromStream data (strOff + offset) with
  | some s => return pyDecodeReplace s
  | none => return []

/-- `SymbolTableSection.get_symbol(n)` -/
def getSymbolD (S : ElfStructs) (env : Env) (data : Bytes) (h : SecHdr) (strOff : Nat) (n : Nat) : R Symbol := do
  let entryOffset := h.off + n * h.entsize
  let (entry, _) ← structParse env S.Elf_Sym data entryOffset
  let name ← symGetStringD data strOff (← entry.getNat "st_name")
  return (entry, name)

/-- `list(SymbolTableSection.iter_symbols())` -/
def iterSymbolsD (S : ElfStructs) (env : Env) (data : Bytes) (h : SecHdr) (strOff : Nat) : R (List Symbol) := do
  collectRange (getSymbolD S env data h strOff) 0 (← numSymbols h)

/-- `SymbolTableSection.get_symbol_by_name(name)`: the map is keyed by the reported (decoded) names -/
def getSymbolByNameD (S : ElfStructs) (env : Env) (data : Bytes) (h : SecHdr) (strOff : Nat) (name : Bytes) :
    R (Option (List Symbol)) := do
  let m := buildNameMap (← iterSymbolsD S env data h strOff)
  getSymbolByNameFrom (getSymbolD S env data h strOff) m name

/-- `SUNWSyminfoTableSection.get_symbol(n)` -/
def syminfoGetD (S : ElfStructs) (env : Env) (data : Bytes) (h : SecHdr) (symH : SecHdr) (strOff : Nat) (n : Nat) :
    R Symbol := do
  let (entry, _) ← structParse env S.Elf_Sunw_Syminfo data (h.off + n * h.entsize)
  let sym ← getSymbolD S env data symH strOff n
  return (entry, sym.2)

/-- `list(SUNWSyminfoTableSection.iter_symbols())` -/
def syminfoIterD (S : ElfStructs) (env : Env) (data : Bytes) (h : SecHdr) (symH : SecHdr) (strOff : Nat) :
    R (List Symbol) := do
  let num ← syminfoNum h
  collectRange (syminfoGetD S env data h symH strOff) 1 num.toNat

end PyElf.Model.C03
