/-
  Mirror of the by-name lookups of elftools/elf/elffile.py: `_make_section_name_map`,
  `get_section_index`, `has_section`, `get_section_by_name` (the cache `_section_name_map` is not
  modelled here: every call builds the map from one full enumeration, which is what the first call
  does and what the cached map holds afterwards).
-/
import PyElf.Model.ElfFile
namespace PyElf.Model.C01
open PyElf PyElf.Model

/-- `dict.get(name, None)` on the insertion-ordered association list `sectionNameMap` builds -/
def dictGet (m : List (Bytes × Nat)) (name : Bytes) : Option Nat := (m.find? (·.1 == name)).map (·.2)

/-- `name in dict` -/
def dictHas (m : List (Bytes × Nat)) (name : Bytes) : Bool := m.any (·.1 == name)

section withFile
variable (env : Env) (S : ElfStructs) (data : Bytes) (hdr : Val) (shstr : Option Val)

/-- `_make_section_name_map()`: `for i, sec in enumerate(self.iter_sections()): map[sec.name] = i` -/
def makeSectionNameMap : R (List (Bytes × Nat)) := do
  let secs ← iterSections env S data hdr shstr
  return sectionNameMap secs

/-- `get_section_index(name)` -/
def getSectionIndex (name : Bytes) : R (Option Nat) := do
  let m ← makeSectionNameMap env S data hdr shstr
  return dictGet m name

/-- `has_section(name)` -/
def hasSection (name : Bytes) : R Bool := do
  let m ← makeSectionNameMap env S data hdr shstr
  return dictHas m name

/-- `get_section_by_name(name)`: `None`, or `get_section(secnum)` -/
def getSectionByName (name : Bytes) : R (Option (String × Bytes × Val)) := do
  let m ← makeSectionNameMap env S data hdr shstr
  match dictGet m name with
  | none => return none
  | some secnum => return some (← getSection env S data hdr shstr secnum)

end withFile

end PyElf.Model.C01
