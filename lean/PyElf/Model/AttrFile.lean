/-
  C20 over whole files: how the build-attributes objects and the EHABI objects come into being.

      ELFFile(stream).get_section(i)                      → ARMAttributesSection / RISCVAttributesSection
      ELFFile(stream).get_section_by_name('.ARM.attributes')
          .iter_subsections() → .iter_subsubsections() → .iter_attributes()
      EHABIInfo(ELFFile(stream).get_section(i), elffile.little_endian).num_entry() / .get_entry(n)
      ELFFile(stream).get_ehabi_infos()[k].num_entry() / .get_entry(n)

  composed from the mirror of elffile.py (Model/ElfFile.lean: `openElf`, `getSection`, `iterSections`,
  `sectionNameMap` — `_make_section` runs the constructor chain, for an attributes section the
  format-version byte check) and the mirrors of the attribute walk (Model/Attributes.lean) and of
  ehabiinfo.py (Model/Ehabi.lean).  The extent the attribute walk gets is (`sh_offset`,
  `Section.data_size`) of the header the file object decoded; `EHABIInfo` reads (`sh_offset`,
  `sh_size`) of the section it was given and every word — index table and handler table alike —
  through the section's stream, which is the file's: a handler-table reference is resolved by FILE
  OFFSET (`sh_link` of the index section is never consulted).
-/
import PyElf.Model.ElfFile
import PyElf.Model.Attributes
import PyElf.Model.Ehabi
namespace PyElf.Model.C20
open PyElf PyElf.Model

/-- `Section.data_size` (`_decompressed_size`): `ch_size` of the compression header read by
    `Section.__init__` for a section flagged SHF_COMPRESSED, `sh_size` otherwise -/
def dataSize (env : Env) (S : ElfStructs) (data : Bytes) (sh : Val) : R Nat := do
  let flags ← sh.getNat "sh_flags"
  if flags &&& 0x800 != 0 then
    let (c, _) ← structParseAt env S.Elf_Chdr data (← sh.getNat "sh_offset")
    c.getNat "ch_size"
  else sh.getNat "sh_size"

/-- the attribute class the section class iterates with -/
def archOfKind (kind : String) : Option Spec.Attr.Arch :=
  if kind == "ARMAttributesSection" then some .arm
  else if kind == "RISCVAttributesSection" then some .riscv
  else none

/-- `sec.iter_subsections()` → `.iter_subsubsections()` → `.iter_attributes()`, nested, drained, on the
    object `get_section` made (`kind`: its class, `sh`: its header).  Other classes have no
    `iter_subsections`: AttributeError. -/
def attrTreeOf (env : Env) (f : ElfFile) (kind : String) (sh : Val) : R Val := do
  match archOfKind kind with
  | none => throw .attributeError
  | some arch =>
    let off ← sh.getNat "sh_offset"
    let size ← dataSize env f.S f.data sh
    Attr.attributesSection arch env f.S f.data off size

/-- `ELFFile(BytesIO(data)).get_section(i)`: the class of the object, and its attribute tree -/
def fileAttrSection (env : Env) (structsFor : ElfCfg → Option ElfStructs) (machineClassOf : Val → String)
    (data : Bytes) (i : Nat) : R (String × Val) := do
  let f ← openElf env structsFor machineClassOf data
  let (kind, _, sh) ← getSection env f.S f.data f.header f.shstr i
  return (kind, ← attrTreeOf env f kind sh)

/-- `ELFFile(BytesIO(data)).get_section_by_name(name)` on a fresh object (`_make_section_name_map`
    enumerates and builds every section, later names overwrite earlier ones, then
    `get_section(secnum)`): `None`, or the class and the attribute tree -/
def fileAttrSectionByName (env : Env) (structsFor : ElfCfg → Option ElfStructs) (machineClassOf : Val → String)
    (data : Bytes) (name : Bytes) : R (Option (String × Val)) := do
  let f ← openElf env structsFor machineClassOf data
  let secs ← iterSections env f.S f.data f.header f.shstr
  match (sectionNameMap secs).find? (·.1 == name) with
  | none => return none
  | some (_, i) =>
    let (kind, _, sh) ← getSection env f.S f.data f.header f.shstr i
    return some (kind, ← attrTreeOf env f kind sh)

/-! ### EHABI -/

/-- what an `EHABIInfo` object keeps: the section it was given (name, header) -/
structure EhabiInfo where
  name : Bytes
  sh : Val

/-- `EHABIInfo.num_entry()` -/
def EhabiInfo.numEntry (info : EhabiInfo) : R Nat := do
  return (← info.sh.getNat "sh_size") / Gen.ehabiEntrySize

/-- `EHABIInfo.get_entry(n)`; `H` = `EHABIStructs(little_endian)`, the stream is the file's -/
def EhabiInfo.getEntry (env : Env) (H : EhabiStructs) (data : Bytes) (info : EhabiInfo) (n : Nat) : R Val := do
  let size ← info.sh.getNat "sh_size"
  let off ← info.sh.getNat "sh_offset"
  Ehabi.getEntry env H data off size n

/-- `num_entry()` and `get_entry(n)` for every `n` of `ns`, each call's outcome kept -/
def EhabiInfo.observe (env : Env) (H : EhabiStructs) (data : Bytes) (info : EhabiInfo) (ns : List Nat) :
    R Nat × List (R Val) :=
  (info.numEntry, ns.map (info.getEntry env H data))

/-- `EHABIInfo(ELFFile(BytesIO(data)).get_section(i), elffile.little_endian)`.  The constructor
    accepts any section object; `ehabiFor` is `EHABIStructs` -/
def fileEhabiInfo (env : Env) (structsFor : ElfCfg → Option ElfStructs) (machineClassOf : Val → String)
    (ehabiFor : Bool → Option EhabiStructs) (data : Bytes) (i : Nat) : R (String × EhabiStructs × EhabiInfo) := do
  let f ← openElf env structsFor machineClassOf data
  let (kind, name, sh) ← getSection env f.S f.data f.header f.shstr i
  let some H := ehabiFor f.le | throw .keyError
  return (kind, H, { name, sh })

/-- `…get_entry(n)` on that object -/
def fileEhabiEntry (env : Env) (structsFor : ElfCfg → Option ElfStructs) (machineClassOf : Val → String)
    (ehabiFor : Bool → Option EhabiStructs) (data : Bytes) (i n : Nat) : R Val := do
  let (_, H, info) ← fileEhabiInfo env structsFor machineClassOf ehabiFor data i
  info.getEntry env H data n

/-- `…num_entry()` on that object -/
def fileEhabiNumEntry (env : Env) (structsFor : ElfCfg → Option ElfStructs) (machineClassOf : Val → String)
    (ehabiFor : Bool → Option EhabiStructs) (data : Bytes) (i : Nat) : R Nat := do
  let (_, _, info) ← fileEhabiInfo env structsFor machineClassOf ehabiFor data i
  info.numEntry

/-- `section['sh_type'] == type` of `iter_sections(type=…)` -/
def hasType (sh : Val) (ty : String) : R Bool := do
  return isStr (← sh.getField "sh_type") ty

/-- the sections `iter_sections(type=ty)` yields, in file order (every section is built) -/
def sectionsOfType (ty : String) : List (String × Bytes × Val) → R (List (String × Bytes × Val))
  | [] => pure []
  | s :: rest => do
    let keep ← hasType s.2.2 ty
    let tl ← sectionsOfType ty rest
    return if keep then s :: tl else tl

/-- `ELFFile(BytesIO(data)).get_ehabi_infos()`: `assert False` for ET_REL; one `EHABIInfo` per
    SHT_ARM_EXIDX section in file order; `None` when there is none -/
def fileEhabiInfos (env : Env) (structsFor : ElfCfg → Option ElfStructs) (machineClassOf : Val → String)
    (ehabiFor : Bool → Option EhabiStructs) (data : Bytes) : R (Option (EhabiStructs × List EhabiInfo)) := do
  let f ← openElf env structsFor machineClassOf data
  if isStr (← f.header.getField "e_type") "ET_REL" then throw .assertion
  let secs ← iterSections env f.S f.data f.header f.shstr
  let xs ← sectionsOfType "SHT_ARM_EXIDX" secs
  if xs.isEmpty then return none
  let some H := ehabiFor f.le | throw .keyError
  return some (H, xs.map fun (_, name, sh) => { name, sh })

/-- `get_ehabi_infos()[k].get_entry(n)` (`None[k]`: TypeError; `k` out of range: IndexError) -/
def fileEhabiInfosEntry (env : Env) (structsFor : ElfCfg → Option ElfStructs) (machineClassOf : Val → String)
    (ehabiFor : Bool → Option EhabiStructs) (data : Bytes) (k n : Nat) : R Val := do
  match ← fileEhabiInfos env structsFor machineClassOf ehabiFor data with
  | none => throw .typeError
  | some (H, infos) =>
    match infos[k]? with
    | none => throw .indexError
    | some info => info.getEntry env H data n

end PyElf.Model.C20
