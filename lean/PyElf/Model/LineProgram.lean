/-
  Mirrors of elftools/dwarf/lineprogram.py (`LineState`, `LineProgram._decode_line_program`)
  and of the line-program part of elftools/dwarf/dwarfinfo.py
  (`line_program_for_CU`, `_parse_line_program_at_offset`, `_linetable_cache`) and of the
  `FormattedEntry` construct local to `DWARFStructs._create_lineprog_header`.

  Parameterised by the struct bundle `S` (the CU's `structs`), the enum environment `env`
  and the `DW_LNS_* / DW_LNE_*` constants `K` the code imports from dwarf/constants.py.
-/
import PyElf.Core.Bundles
import PyElf.Model.Utils
namespace PyElf.Model.Line
open PyElf

/-- `from .constants import *`: the names `_decode_line_program` compares opcodes with -/
structure LnConsts where
  copy : Nat
  advance_pc : Nat
  advance_line : Nat
  set_file : Nat
  set_column : Nat
  negate_stmt : Nat
  set_basic_block : Nat
  const_add_pc : Nat
  fixed_advance_pc : Nat
  set_prologue_end : Nat
  set_epilogue_begin : Nat
  set_isa : Nat
  end_sequence : Nat
  set_address : Nat
  define_file : Nat
  set_discriminator : Nat
  deriving Repr, DecidableEq

def LnConsts.ofTable (t : List (String × Int)) : Option LnConsts := do
  let g (k : String) : Option Nat :=
    (t.find? (·.1 == k)).bind fun kv => if kv.2 < 0 then none else some kv.2.toNat
  some {
    copy := ← g "DW_LNS_copy", advance_pc := ← g "DW_LNS_advance_pc", advance_line := ← g "DW_LNS_advance_line",
    set_file := ← g "DW_LNS_set_file", set_column := ← g "DW_LNS_set_column", negate_stmt := ← g "DW_LNS_negate_stmt",
    set_basic_block := ← g "DW_LNS_set_basic_block", const_add_pc := ← g "DW_LNS_const_add_pc",
    fixed_advance_pc := ← g "DW_LNS_fixed_advance_pc", set_prologue_end := ← g "DW_LNS_set_prologue_end",
    set_epilogue_begin := ← g "DW_LNS_set_epilogue_begin", set_isa := ← g "DW_LNS_set_isa",
    end_sequence := ← g "DW_LNE_end_sequence", set_address := ← g "DW_LNE_set_address",
    define_file := ← g "DW_LNE_define_file", set_discriminator := ← g "DW_LNE_set_discriminator" }

/-! ### lineprogram.py -/

/-- `class LineState` -/
structure LineState where
  address : Nat
  file : Nat
  line : Int
  column : Nat
  op_index : Nat
  /-- `default_is_stmt` (an int) until DW_LNS_negate_stmt makes it a bool -/
  is_stmt : Val
  basic_block : Bool
  end_sequence : Bool
  prologue_end : Bool
  epilogue_begin : Bool
  isa : Nat
  discriminator : Nat
  deriving Repr

/-- `LineState.__init__(default_is_stmt)` -/
def LineState.new (default_is_stmt : Val) : LineState :=
  { address := 0, file := 1, line := 1, column := 0, op_index := 0, is_stmt := default_is_stmt,
    basic_block := false, end_sequence := false, prologue_end := false, epilogue_begin := false,
    isa := 0, discriminator := 0 }

/-- `LineProgramEntry(command, is_extended, args, state)` -/
structure Entry where
  command : Nat
  is_extended : Bool
  args : List Val
  state : Option LineState
  deriving Repr

/-- the header entries `_decode_line_program` reads through `self[...]` -/
structure Hdr where
  default_is_stmt : Val
  opcode_base : Nat
  maximum_operations_per_instruction : Nat
  line_range : Nat
  minimum_instruction_length : Nat
  line_base : Int
  standard_opcode_lengths : List Val
  deriving Repr

def Hdr.ofHeader (h : Val) : R Hdr := do
  let lens ← match ← h.getField "standard_opcode_lengths" with
    | .list xs => pure xs
    | _ => .error .typeError
  return {
    default_is_stmt := ← h.getField "default_is_stmt",
    opcode_base := ← h.getNat "opcode_base",
    maximum_operations_per_instruction := ← h.getNat "maximum_operations_per_instruction",
    line_range := ← h.getNat "line_range",
    minimum_instruction_length := ← h.getNat "minimum_instruction_length",
    line_base := ← h.getInt "line_base",
    standard_opcode_lengths := lens }

/-- the registers `add_entry_new_state` clears after appending a row -/
def LineState.cleared (s : LineState) : LineState :=
  { s with discriminator := 0, basic_block := false, prologue_end := false, epilogue_begin := false }

/-- local helper `advance_pc(operation_advance)`: new state and the address addend -/
def advancePc (H : Hdr) (st : LineState) (operation_advance : Nat) : R (LineState × Nat) :=
  let m := H.maximum_operations_per_instruction
  if m = 0 then .error .zeroDivision else
  let address_addend := H.minimum_instruction_length * ((st.op_index + operation_advance) / m)
  .ok ({ st with address := st.address + address_addend,
                 op_index := (st.op_index + operation_advance) % m }, address_addend)

/-- `PY_SSIZE_T_MAX` on the 64-bit platforms the harness runs on: the largest stream position -/
def ssizeMax : Nat := 9223372036854775807

/-- `[struct_parse(the_Dwarf_uleb128, stream) for _ in range(n)]` -/
def readUlebs (env : Env) (S : DwarfStructs) (data : Bytes) : Nat → Nat → List Val → R (List Val × Nat)
  | 0, pos, acc => .ok (acc, pos)
  | n+1, pos, acc => do
    let (v, p) ← structParse env S.the_Dwarf_uleb128 data pos
    readUlebs env S data n p (acc ++ [v])

/-- what one iteration of the `while offset < program_end_offset` loop does:
    new offset (`stream.tell()`), new state, the (possibly appended-to) `file_entry` list and
    the entries appended -/
abbrev StepOut := Nat × LineState × Option (List Val) × List Entry

/-- the `if opcode >= self.header['opcode_base']` branch: special opcode -/
def stepSpecial (H : Hdr) (opcode p1 : Nat) (st : LineState) (files : Option (List Val)) : R StepOut := do
  let adjusted_opcode := opcode - H.opcode_base
  if H.line_range = 0 then .error .zeroDivision else
  let operation_advance := adjusted_opcode / H.line_range
  let (st1, address_addend) ← advancePc H st operation_advance
  let line_addend : Int := H.line_base + ((adjusted_opcode % H.line_range : Nat) : Int)
  let st2 := { st1 with line := st1.line + line_addend }
  return (p1, st2.cleared, files,
    [⟨opcode, false, [.int line_addend, .int address_addend, .int st2.op_index], some st2⟩])

/-- the `elif opcode == 0` branch: extended opcode -/
def stepExtended (env : Env) (S : DwarfStructs) (K : LnConsts) (data : Bytes) (H : Hdr)
    (p1 : Nat) (st : LineState) (files : Option (List Val)) : R StepOut := do
  let (lenv, p2) ← structParse env S.the_Dwarf_uleb128 data p1
  let inst_len ← lenv.asNat
  let (exv, p3) ← structParse env S.the_Dwarf_uint8 data p2
  let ex_opcode ← exv.asNat
  if ex_opcode = K.end_sequence then
    let st1 := { st with end_sequence := true }
    return (p3, LineState.new H.default_is_stmt, files, [⟨ex_opcode, true, [], some st1⟩])
  else if ex_opcode = K.set_address then
    let (operand, p4) ← structParse env S.the_Dwarf_target_addr data p3
    let a ← operand.asNat
    return (p4, { st with address := a, op_index := 0 }, files, [⟨ex_opcode, true, [operand], none⟩])
  else if ex_opcode = K.define_file then
    let (operand, p4) ← structParse env S.Dwarf_lineprog_file_entry data p3
    -- self['file_entry'].append(operand): a tuple or None has no `append`
    match files with
    | some fl => return (p4, st, some (fl ++ [operand]), [⟨ex_opcode, true, [operand], none⟩])
    | none => .error .attributeError
  else if ex_opcode = K.set_discriminator then
    let (operand, p4) ← structParse env S.the_Dwarf_uleb128 data p3
    let d ← operand.asNat
    return (p4, { st with discriminator := d }, files, [])
  else
    -- stream.seek(inst_len - 1, os.SEEK_CUR); BytesIO clamps a negative target at 0 and raises
    -- OverflowError when the target exceeds PY_SSIZE_T_MAX
    if inst_len ≥ 1 ∧ p3 + (inst_len - 1) > ssizeMax then .error .overflowError
    else return (p3 + inst_len - 1, st, files, [])

/-- the `else` branch (`0 < opcode < opcode_base`): standard opcode -/
def stepStandard (env : Env) (S : DwarfStructs) (K : LnConsts) (data : Bytes) (H : Hdr)
    (opcode p1 : Nat) (st : LineState) (files : Option (List Val)) : R StepOut := do
  if opcode = K.copy then
    return (p1, st.cleared, files, [⟨opcode, false, [], some st⟩])
  else if opcode = K.advance_pc then
    let (operand, p2) ← structParse env S.the_Dwarf_uleb128 data p1
    let n ← operand.asNat
    let (st1, address_addend) ← advancePc H st n
    return (p2, st1, files, [⟨opcode, false, [.int address_addend], none⟩])
  else if opcode = K.advance_line then
    let (operand, p2) ← structParse env S.the_Dwarf_sleb128 data p1
    let d ← operand.asInt
    return (p2, { st with line := st.line + d }, files, [])
  else if opcode = K.set_file then
    let (operand, p2) ← structParse env S.the_Dwarf_uleb128 data p1
    let n ← operand.asNat
    return (p2, { st with file := n }, files, [⟨opcode, false, [operand], none⟩])
  else if opcode = K.set_column then
    let (operand, p2) ← structParse env S.the_Dwarf_uleb128 data p1
    let n ← operand.asNat
    return (p2, { st with column := n }, files, [⟨opcode, false, [operand], none⟩])
  else if opcode = K.negate_stmt then
    return (p1, { st with is_stmt := .bool (!st.is_stmt.truthy) }, files, [⟨opcode, false, [], none⟩])
  else if opcode = K.set_basic_block then
    return (p1, { st with basic_block := true }, files, [⟨opcode, false, [], none⟩])
  else if opcode = K.const_add_pc then
    let adjusted_opcode := 255 - H.opcode_base
    if H.line_range = 0 then .error .zeroDivision else
    let (st1, address_addend) ← advancePc H st (adjusted_opcode / H.line_range)
    return (p1, st1, files, [⟨opcode, false, [.int address_addend], none⟩])
  else if opcode = K.fixed_advance_pc then
    let (operand, p2) ← structParse env S.the_Dwarf_uint16 data p1
    let n ← operand.asNat
    return (p2, { st with address := st.address + n, op_index := 0 }, files, [⟨opcode, false, [operand], none⟩])
  else if opcode = K.set_prologue_end then
    return (p1, { st with prologue_end := true }, files, [⟨opcode, false, [], none⟩])
  else if opcode = K.set_epilogue_begin then
    return (p1, { st with epilogue_begin := true }, files, [⟨opcode, false, [], none⟩])
  else if opcode = K.set_isa then
    let (operand, p2) ← structParse env S.the_Dwarf_uleb128 data p1
    let n ← operand.asNat
    return (p2, { st with isa := n }, files, [⟨opcode, false, [operand], none⟩])
  else
    -- unknown standard opcode: skip standard_opcode_lengths[opcode - 1] ULEB128 operands
    let cnt ← match H.standard_opcode_lengths[opcode - 1]? with
      | some v => v.asInt
      | none => .error .indexError
    let (args, p2) ← readUlebs env S data cnt.toNat p1 []
    return (p2, st, files, [⟨opcode, false, args, none⟩])

def step (env : Env) (S : DwarfStructs) (K : LnConsts) (data : Bytes) (H : Hdr)
    (offset : Nat) (st : LineState) (files : Option (List Val)) : R StepOut := do
  let (opv, p1) ← structParse env S.the_Dwarf_uint8 data offset
  let opcode ← opv.asNat
  if opcode ≥ H.opcode_base then stepSpecial H opcode p1 st files
  else if opcode = 0 then stepExtended env S K data H p1 st files
  else stepStandard env S K data H opcode p1 st files

/-- the `while offset < self.program_end_offset` loop; every iteration moves `offset` forward,
    so `program_end_offset - program_start_offset + 1` iterations always suffice -/
def decodeLoop (env : Env) (S : DwarfStructs) (K : LnConsts) (data : Bytes) (H : Hdr) (endOff : Nat) :
    Nat → Nat → LineState → Option (List Val) → List Entry → R (List Entry × Option (List Val) × Nat)
  | 0, _, _, _, _ => .error .outOfFuel
  | fuel+1, offset, st, files, entries =>
    if offset < endOff then
      match step env S K data H offset st files with
      | .error e => .error e
      | .ok (off', st', files', new) => decodeLoop env S K data H endOff fuel off' st' files' (entries ++ new)
    else .ok (entries, files, offset)

/-- a `LineProgram` object: its header, whether `header['file_entry']` is a list (it is a tuple
    or None for version 5), and the program extent -/
structure LineProg where
  header : Val
  fileEntry : Option (List Val)
  program_start_offset : Nat
  program_end_offset : Nat
  /-- `_decoded_entries` -/
  decoded : Option (List Entry)
  deriving Repr

/-- `LineProgram._decode_line_program`: entries, the final `file_entry` list, and the local `offset` when the
    loop ends — `stream.tell()` as soon as the body ran once; `program_start_offset` if it never ran (the
    stream then stands wherever the header parse left it) -/
def decodeLineProgram (env : Env) (S : DwarfStructs) (K : LnConsts) (data : Bytes) (lp : LineProg) :
    R (List Entry × Option (List Val) × Nat) := do
  let H ← Hdr.ofHeader lp.header
  decodeLoop env S K data H lp.program_end_offset
    (lp.program_end_offset - lp.program_start_offset + 1) lp.program_start_offset
    (LineState.new H.default_is_stmt) lp.fileEntry []

/-- `LineProgram.get_entries`: decode once, remember the entries; DW_LNE_define_file has
    appended to `header['file_entry']` (the object is shared with `_linetable_cache`).
    Also returns `stream.tell()` after a decode (`none` when the entries came from the memo). -/
def getEntries (env : Env) (S : DwarfStructs) (K : LnConsts) (data : Bytes) (lp : LineProg) :
    R (List Entry × LineProg × Option Nat) :=
  match lp.decoded with
  | some es => .ok (es, lp, none)
  | none => do
    let (es, files, tell) ← decodeLineProgram env S K data lp
    let header := match lp.header, files with
      | .record fs, some fl => Val.record (Fields.set fs "file_entry" (.list fl))
      | h, _ => h
    return (es, { lp with header := header, fileEntry := files, decoded := some es }, some tell)

/-! ### structs.py: `FormattedEntry` and the header struct -/

/-- `Struct('formatted_entry', *(Rename(f.content_type, Dwarf_dw_form[f.form]) for f in context[format_field]))` -/
def formattedFields (S : DwarfStructs) : List Val → R ConFields
  | [] => .ok .nil
  | fv :: rest => do
    let ct ← fv.getField "content_type"
    let form ← fv.getField "form"
    let con ← match form with
      | .str nm => match S.form nm with
                   | some c => pure c
                   | none => .error .keyError
      | _ => .error .keyError
    -- Rename(name, None): None has no attribute `name`
    match con with
    | .unsupported _ => .error .attributeError
    | _ => pure ()
    let nm ← match ct with
      | .str s => pure s
      | _ => .error .typeError
    let tl ← formattedFields S rest
    return .cons (some nm) false con tl

/-- `FormattedEntry._parse` -/
def formattedParse (env : Env) (S : DwarfStructs) (data : Bytes) (formatField : String)
    (pos : Nat) (ctx : Fields) : PRes := do
  let fmt ← Fields.getR ctx formatField
  match fmt with
  | .list fs =>
    let fields ← formattedFields S fs
    Con.parse env data (.struct fields) ctx pos
  | _ => .error .typeError

/-- one field of `Dwarf_lineprog_header`: the engine, except that `If(ver5, PrefixedArray(FormattedEntry …))`
    is interpreted here (Core's `Con.parse` does not implement `Con.formatted`) -/
def parseHeaderField (env : Env) (S : DwarfStructs) (data : Bytes) (c : Con) (ctx : Fields) (pos : Nat) : PRes :=
  match c with
  | .ifThenElse cond (.prefixed len (.formatted ff)) e => do
    if (← cond.eval ctx .none).truthy then
      let (n, p, ctx') ← Con.parse env data len ctx pos
      let n ← n.asInt
      arrayLoop (fun p c => formattedParse env S data ff p c) n.toNat p ctx' []
    else Con.parse env data e ctx pos
  | c => Con.parse env data c ctx pos

/-- `Struct._parse` over the header's fields (none of them embedded) -/
def parseHeaderFields (env : Env) (S : DwarfStructs) (data : Bytes) :
    ConFields → (obj ctx : Fields) → (pos : Nat) → R (Fields × Nat × Fields)
  | .nil, obj, ctx, pos => .ok (obj, pos, ctx)
  | .cons name embed c rest, obj, ctx, pos =>
    if embed then .error .notImplemented
    else
      match parseHeaderField env S data c ctx pos with
      | .error e => .error e
      | .ok (v, p, ctx') =>
        match name with
        | some nm => parseHeaderFields env S data rest (Fields.set obj nm v) (Fields.set ctx' nm v) p
        | none => parseHeaderFields env S data rest obj ctx' p

/-- `struct_parse(structs.Dwarf_lineprog_header, stream, offset)` -/
def parseHeader (env : Env) (S : DwarfStructs) (data : Bytes) (offset : Nat) : R (Fields × Nat) :=
  match S.Dwarf_lineprog_header with
  | .struct fs => do
    let (obj, p, _) ← parseHeaderFields env S data fs [] [] offset
    return (obj, p)
  | _ => .error .notImplemented

/-! ### dwarfinfo.py -/

/-- the other sections `_parse_line_program_at_offset` may read strings from:
    `.debug_line_str`, `.debug_str`, and `supplementary_dwarfinfo` (with its `.debug_str`) -/
structure Secs where
  lineStr : Option Bytes
  str : Option Bytes
  sup : Option (Option Bytes)
  deriving Repr

def optBytes : Option Bytes → Val
  | some b => .bytes b
  | none => .none

/-- `get_string_from_linetable` / `get_string_from_table` on a section that may be absent -/
def getString (sec : Option Bytes) (x : Val) : R Val := do
  let off ← x.asNat
  match sec with
  | some s =>
    -- stream.seek(offset): OverflowError beyond PY_SSIZE_T_MAX
    if off > ssizeMax then .error .overflowError
    else return optBytes (← parseCStringFromStream s off)
  | none => .error .attributeError

/-- decimal digits of a natural number, as ASCII (`str(x).encode()`) -/
def decimalBytes (n : Nat) : Bytes := (toString n).toList.map fun c => UInt8.ofNat c.toNat

/-- `repr` of a bytes object (CPython `PyBytes_Repr` with smart quotes) -/
def pyBytesRepr (b : Bytes) : String :=
  let q : Nat := if b.contains 0x27 && !b.contains 0x22 then 0x22 else 0x27
  let hex2 (n : Nat) : List Char :=
    let d := Nat.toDigits 16 n
    if d.length = 1 then '0' :: d else d
  let esc (c : UInt8) : List Char :=
    let n := c.toNat
    if n = q ∨ n = 0x5c then ['\\', Char.ofNat n]
    else if n = 9 then ['\\', 't']
    else if n = 10 then ['\\', 'n']
    else if n = 13 then ['\\', 'r']
    else if n < 32 ∨ n ≥ 127 then ['\\', 'x'] ++ hex2 n
    else [Char.ofNat n]
  String.ofList (['b', Char.ofNat q] ++ b.flatMap esc ++ [Char.ofNat q])

/-- `str(x).encode()` for the values a line-table entry field can hold (an int; after a later field of the
    same content type overwrote it, also an inline string or a data16 / block list of ints) -/
def pyStrEncode : Val → R Bytes
  | .int n => .ok (toString n).toUTF8.toList
  | .bytes b => .ok (pyBytesRepr b).toUTF8.toList
  | .none => .ok "None".toUTF8.toList
  | .bool b => .ok (if b then "True" else "False").toUTF8.toList
  | .str s => .ok s.toUTF8.toList
  | .list xs => do
    let items ← xs.mapM fun v => match v with
      | .int n => pure (toString n)
      | _ => .error .notImplemented
    .ok ("[" ++ ", ".intercalate items ++ "]").toUTF8.toList
  | .record _ => .error .notImplemented

/-- `replace_value(data, content_type, replacer)` -/
def replaceValue (replacer : Val → R Val) (ct : String) : List Val → R (List Val)
  | [] => .ok []
  | .record fs :: rest => do
    let old ← Fields.getR fs ct
    let new ← replacer old
    let tl ← replaceValue replacer ct rest
    return .record (Fields.set fs ct new) :: tl
  | _ :: _ => .error .typeError

/-- the `for field in lineprog_header[format_field]` loop of `resolve_strings` -/
def resolveLoop (secs : Secs) : List Val → List Val → R (List Val)
  | [], data => .ok data
  | field :: rest, data => do
    let form ← field.getField "form"
    let ctv ← field.getField "content_type"
    let ct ← match ctv with
      | .str s => pure s
      | _ => .error .typeError
    let isForm (nm : String) : Bool := form == .str nm
    if isForm "DW_FORM_line_strp" then
      resolveLoop secs rest (← replaceValue (getString secs.lineStr) ct data)
    else if isForm "DW_FORM_strp" then
      resolveLoop secs rest (← replaceValue (getString secs.str) ct data)
    else if isForm "DW_FORM_strp_sup" || isForm "DW_FORM_GNU_strp_alt" then
      match secs.sup with
      | some supStr => resolveLoop secs rest (← replaceValue (getString supStr) ct data)
      | none =>
        -- lambda x: str(x).encode()
        resolveLoop secs rest (← replaceValue (fun x => do return .bytes (← pyStrEncode x)) ct data)
    else if isForm "DW_FORM_strx" || isForm "DW_FORM_strx1" || isForm "DW_FORM_strx2"
        || isForm "DW_FORM_strx3" || isForm "DW_FORM_strx4" then
      .error .notImplemented
    else resolveLoop secs rest data

/-- `resolve_strings(lineprog_header, format_field, data_field)` -/
def resolveStrings (secs : Secs) (hdr : Fields) (formatField dataField : String) : R Fields :=
  match Fields.get? hdr formatField with
  | some (.list (f :: fs)) => do
    match ← Fields.getR hdr dataField with
    | .list data => return Fields.set hdr dataField (.list (← resolveLoop secs (f :: fs) data))
    | .none => .error .typeError
    | _ => .error .typeError
  | _ => .ok hdr

/-- `d.DW_LNCT_path` on a Container -/
def attrOf (k : String) : Val → R Val
  | .record fs => match Fields.get? fs k with
                  | some v => .ok v
                  | none => .error .attributeError
  | _ => .error .attributeError

def getOrNone (k : String) : Val → R Val
  | .record fs => match Fields.get? fs k with
                  | some v => .ok v
                  | none => .ok .none
  | _ => .error .attributeError

def legacyFileEntry (e : Val) : R Val := do
  return .record [("name", ← getOrNone "DW_LNCT_path" e), ("dir_index", ← getOrNone "DW_LNCT_directory_index" e),
                  ("mtime", ← getOrNone "DW_LNCT_timestamp" e), ("length", ← getOrNone "DW_LNCT_size" e)]

abbrev Cache := List (Nat × LineProg)

/-- `_parse_line_program_at_offset(offset, structs)` after the cache lookup missed;
    `fmt` is `structs.dwarf_format` -/
def parseLineProgramFresh (env : Env) (S : DwarfStructs) (fmt : Nat) (secs : Secs) (data : Bytes)
    (offset : Nat) : R LineProg := do
  let (hdr0, _) ← parseHeader env S data offset
  let hdr1 ← resolveStrings secs hdr0 "directory_entry_format" "directories"
  let hdr2 ← resolveStrings secs hdr1 "file_name_entry_format" "file_names"
  -- legacy-compatible tables
  let hdr3 ← match Fields.get? hdr2 "directories" with
    | some (.list (d :: ds)) => do
      pure (Fields.set hdr2 "include_directory" (.list (← (d :: ds).mapM (attrOf "DW_LNCT_path"))))
    | _ => pure hdr2
  let (hdr4, isList) ← match Fields.get? hdr3 "file_names" with
    | some (.list (e :: es)) => do
      pure (Fields.set hdr3 "file_entry" (.list (← (e :: es).mapM legacyFileEntry)), false)
    | _ => pure (hdr3, true)
  let unit_length ← (Val.record hdr4).getNat "unit_length"
  let end_offset := offset + unit_length + (if fmt = 32 then 4 else 12)
  -- start_offset = offset + structs.initial_length_field_size() + 2 + (2 if version >= 5 else 0)
  --                + structs.dwarf_format // 8 + header_length
  -- (the program starts `header_length` bytes past the `header_length` field, wherever the parse of the
  --  tables stopped: `stream.tell()` is not consulted)
  let version ← (Val.record hdr4).getInt "version"
  let header_length ← (Val.record hdr4).getNat "header_length"
  let start_offset := offset + (if fmt = 32 then 4 else 12) + 2 + (if version ≥ 5 then 2 else 0) + fmt / 8
    + header_length
  let fileEntry := match isList, Fields.get? hdr4 "file_entry" with
    | true, some (.list xs) => some xs
    | _, _ => none
  return { header := .record hdr4, fileEntry := fileEntry,
           program_start_offset := start_offset, program_end_offset := end_offset, decoded := none }

/-- `_parse_line_program_at_offset` with `_linetable_cache` -/
def parseLineProgramAtOffset (env : Env) (S : DwarfStructs) (fmt : Nat) (secs : Secs) (data : Bytes)
    (cache : Cache) (offset : Nat) : R (LineProg × Cache) :=
  match cache.find? (·.1 == offset) with
  | some (_, lp) => .ok (lp, cache)
  | none => do
    let lp ← parseLineProgramFresh env S fmt secs data offset
    return (lp, cache ++ [(offset, lp)])

/-- mutation of a cached `LineProgram` object, seen through `_linetable_cache` -/
def Cache.update (cache : Cache) (offset : Nat) (lp : LineProg) : Cache :=
  cache.map fun (o, x) => if o == offset then (o, lp) else (o, x)

/-- `line_program_for_CU(CU)`: `attrs` are the top DIE's attributes (name → `.value`) -/
def lineProgramForCU (env : Env) (S : DwarfStructs) (fmt : Nat) (secs : Secs) (data : Bytes)
    (cache : Cache) (attrs : Fields) : R (Option LineProg × Cache) :=
  match Fields.get? attrs "DW_AT_stmt_list" with
  | some v => do
    let off ← v.asNat
    let (lp, cache') ← parseLineProgramAtOffset env S fmt secs data cache off
    return (some lp, cache')
  | none => .ok (none, cache)

end PyElf.Model.Line
