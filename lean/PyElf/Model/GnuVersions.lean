/-
  Mirror of elftools/elf/gnuversions.py (GNUVersionSection, GNUVerNeedSection,
  GNUVerDefSection, GNUVerSymSection) and of the two methods of sections.py it
  calls (StringTableSection.get_string, SymbolTableSection.get_symbol).

  The Python iterators are generators; the aux iterator handed out with each
  version entry is lazy and independent of the outer one.  Each consumer in the
  library (full iteration, `get_version`, `has_indexes`) is mirrored with the
  exact amount of the generators it drives, so that errors surface in the same
  order and reads that Python never performs are not performed here.
-/
import PyElf.Core.Bundles
import PyElf.Model.Utils
namespace PyElf.Model
open PyElf

/-- what a `GNUVersionSection` object holds -/
structure VerSec where
  data : Bytes
  shOffset : Nat        -- self['sh_offset']
  shInfo : Nat          -- self['sh_info']
  strOff : Nat          -- self.stringtable['sh_offset']
  pfx : String          -- field_prefix: 'vn' | 'vd'
  verStruct : Con       -- version_struct
  auxStruct : Con       -- version_auxiliaries_struct
  need : Bool           -- the object is a GNUVerNeedSection (its iter_versions resolves vn_file)

/-- `GNUVerNeedSection.__init__` -/
def VerSec.mkNeed (S : ElfStructs) (data : Bytes) (shOffset shInfo strOff : Nat) : VerSec :=
  { data, shOffset, shInfo, strOff, pfx := "vn", verStruct := S.Elf_Verneed, auxStruct := S.Elf_Vernaux, need := true }

/-- `GNUVerDefSection.__init__` -/
def VerSec.mkDef (S : ElfStructs) (data : Bytes) (shOffset shInfo strOff : Nat) : VerSec :=
  { data, shOffset, shInfo, strOff, pfx := "vd", verStruct := S.Elf_Verdef, auxStruct := S.Elf_Verdaux, need := false }

/-- `_field_name(name, auxiliary)` -/
def VerSec.field (vs : VerSec) (name : String) (auxiliary : Bool := false) : String :=
  vs.pfx ++ (if auxiliary then "a_" else "_") ++ name

/-- `StringTableSection.get_string(offset)` as bytes; `''` for both "empty" and "no terminator" -/
def strtabGet (data : Bytes) (tableOffset offset : Nat) : R Bytes := do
  match ← parseCStringAt data (tableOffset + offset) with
  | some s => return s
  | none => return []

section
variable (env : Env) (vs : VerSec)

/-- `num_versions()` -/
def VerSec.numVersions : Nat := vs.shInfo

/-- one turn of the loop body of `_iter_version_auxiliaries` up to its `yield` -/
def auxStep (off : Nat) : R (Val × Bytes) := do
  let (entry, _) ← structParseAt env vs.auxStruct vs.data off
  let name ← strtabGet vs.data vs.strOff (← entry.getNat (vs.field "name" true))
  return (entry, name)

/-- `list(_iter_version_auxiliaries(off, count))` -/
def auxList : Nat → Nat → R (List (Val × Bytes))
  | 0, _ => pure []
  | count+1, off => do
    let (entry, name) ← auxStep env vs off
    let rest ← auxList count (off + (← entry.getNat (vs.field "next" true)))
    return (entry, name) :: rest

/-- `for aux in _iter_version_auxiliaries(off, count): if p(aux): <leave the loop with aux>` -/
def auxFind (p : Val → R Bool) : Nat → Nat → R (Option (Val × Bytes))
  | 0, _ => pure none
  | count+1, off => do
    let (entry, name) ← auxStep env vs off
    if ← p entry then return some (entry, name)
    else auxFind p count (off + (← entry.getNat (vs.field "next" true)))

/-- one turn of `iter_versions` up to its `yield` (including, for requirements, the
    override's `verneed.name = stringtable.get_string(verneed['vn_file'])`):
    the entry, its name, where its auxiliaries start and how many there are -/
def verStep (off : Nat) : R (Val × Option Bytes × Nat × Nat) := do
  let (entry, _) ← structParseAt env vs.verStruct vs.data off
  let cnt ← entry.getNat (vs.field "cnt")
  if !(cnt > 0) then throw .elfError                      -- elf_assert
  let auxOff := off + (← entry.getNat (vs.field "aux"))
  let name ← if vs.need then some <$> strtabGet vs.data vs.strOff (← entry.getNat "vn_file") else pure none
  return (entry, name, auxOff, cnt)

/-- `[(v, list(auxs)) for v, auxs in iter_versions()]` -/
def iterVersions : Nat → Nat → R (List (Val × Option Bytes × List (Val × Bytes)))
  | 0, _ => pure []
  | n+1, off => do
    let (entry, name, auxOff, cnt) ← verStep env vs off
    let auxs ← auxList env vs cnt auxOff
    let rest ← iterVersions n (off + (← entry.getNat (vs.field "next")))
    return (entry, name, auxs) :: rest

def VerSec.versions : R (List (Val × Option Bytes × List (Val × Bytes))) :=
  iterVersions env vs vs.numVersions vs.shOffset

/-- `vernaux['vna_other'] == index` -/
def auxOtherIs (index : Nat) (a : Val) : R Bool := do return (← a.getNat "vna_other") == index

/-- `if vernaux['vna_other']:` -/
def auxOtherTruthy (a : Val) : R Bool := do return (← a.getField "vna_other").truthy

/-- `GNUVerNeedSection.get_version(index)`: the auxiliaries of each entry are scanned until the
    first one whose `vna_other` equals `index` -/
def needGetLoop (index : Nat) : Nat → Nat → R (Option (Val × Option Bytes × Val × Bytes))
  | 0, _ => pure none
  | n+1, off => do
    let (entry, name, auxOff, cnt) ← verStep env vs off
    match ← auxFind env vs (auxOtherIs index) cnt auxOff with
    | some (a, an) => return some (entry, name, a, an)
    | none => needGetLoop index n (off + (← entry.getNat (vs.field "next")))

def VerSec.needGetVersion (index : Nat) : R (Option (Val × Option Bytes × Val × Bytes)) :=
  needGetLoop env vs index vs.numVersions vs.shOffset

/-- `GNUVerDefSection.get_version(index)` followed by `list()` of the returned aux iterator: the
    aux iterators of the entries skipped over are never advanced -/
def defGetLoop (index : Nat) : Nat → Nat → R (Option (Val × List (Val × Bytes)))
  | 0, _ => pure none
  | n+1, off => do
    let (entry, _, auxOff, cnt) ← verStep env vs off
    if (← entry.getNat "vd_ndx") == index then
      let auxs ← auxList env vs cnt auxOff
      return some (entry, auxs)
    else defGetLoop index n (off + (← entry.getNat (vs.field "next")))

def VerSec.defGetVersion (index : Nat) : R (Option (Val × List (Val × Bytes))) :=
  defGetLoop env vs index vs.numVersions vs.shOffset

/-- `GNUVerNeedSection.has_indexes()` on a fresh object: the `break` leaves only the inner loop,
    the outer walk always runs to the end -/
def hasIndexesLoop : Nat → Nat → Bool → R Bool
  | 0, _, acc => pure acc
  | n+1, off, acc => do
    let (entry, _, auxOff, cnt) ← verStep env vs off
    let hit ← auxFind env vs auxOtherTruthy cnt auxOff
    hasIndexesLoop n (off + (← entry.getNat (vs.field "next"))) (acc || hit.isSome)

def VerSec.hasIndexes : R Bool := hasIndexesLoop env vs vs.numVersions vs.shOffset false

end

/-- what a `GNUVerSymSection` object (and the `SymbolTableSection` it links to) holds -/
structure VersymSec where
  data : Bytes
  shOffset : Nat
  shSize : Nat
  shEntsize : Nat
  versymStruct : Con     -- structs.Elf_Versym
  symOffset : Nat        -- symboltable['sh_offset']
  symEntsize : Nat       -- symboltable['sh_entsize']
  symStruct : Con        -- structs.Elf_Sym
  symStrOff : Nat        -- symboltable.stringtable['sh_offset']

section
variable (env : Env) (v : VersymSec)

/-- `GNUVerSymSection.__init__` with the linked `SymbolTableSection` and its string table -/
def VersymSec.mk' (S : ElfStructs) (data : Bytes) (shOffset shSize shEntsize symOffset symEntsize symStrOff : Nat) : VersymSec :=
  { data, shOffset, shSize, shEntsize, versymStruct := S.Elf_Versym, symOffset, symEntsize, symStruct := S.Elf_Sym, symStrOff }

/-- `GNUVerSymSection.num_symbols()` -/
def VersymSec.numSymbols : R Nat :=
  if v.shEntsize = 0 then .error .zeroDivision else .ok (v.shSize / v.shEntsize)

/-- `SymbolTableSection.get_symbol(n).name` -/
def VersymSec.symName (n : Nat) : R Bytes := do
  let (entry, _) ← structParseAt env v.symStruct v.data (v.symOffset + n * v.symEntsize)
  strtabGet v.data v.symStrOff (← entry.getNat "st_name")

/-- `GNUVerSymSection.get_symbol(n)`: the Versym entry and the name of symbol `n` -/
def VersymSec.getSymbol (n : Nat) : R (Val × Bytes) := do
  let (entry, _) ← structParseAt env v.versymStruct v.data (v.shOffset + n * v.shEntsize)
  let name ← v.symName env n
  return (entry, name)

/-- `for i in range(k): yield get_symbol(i)` from `i` on -/
def versymLoop : Nat → Nat → R (List (Val × Bytes))
  | 0, _ => pure []
  | k+1, i => do
    let s ← v.getSymbol env i
    let rest ← versymLoop k (i + 1)
    return s :: rest

/-- `list(iter_symbols())` -/
def VersymSec.symbols : R (List (Val × Bytes)) := do
  versymLoop env v (← v.numSymbols) 0

end

end PyElf.Model
