/-
  Mirror of elftools/elf/elffile.py (construction, header tables, section and
  segment dispatch) and of the constructors in sections.py / segments.py /
  dynamic.py / relocation.py / hash.py / gnuversions.py that run when a section
  or segment object is made.
-/
import PyElf.Core.Fixed
import PyElf.Core.Bundles
import PyElf.Model.Utils
namespace PyElf.Model
open PyElf

/-- what `ELFFile.__init__` leaves behind -/
structure ElfFile where
  data : Bytes
  cls : Nat
  le : Bool
  S : ElfStructs
  header : Val
  /-- header of the section-name string table; `none` when the file has none (`e_shstrndx` =
      SHN_UNDEF) or when it lies beyond the stream -/
  shstr : Option Val

/-- `ELFFile._identify_file` -/
def identify (data : Bytes) : R (Nat × Bool) := do
  if readN data 0 4 != [0x7f, 0x45, 0x4c, 0x46] then throw .elfError
  let cls ← match readN data 4 1 with
    | [1] => pure 32
    | [2] => pure 64
    | _ => throw .elfError
  let le ← match readN data 5 1 with
    | [1] => pure true
    | [2] => pure false
    | _ => throw .elfError
  return (cls, le)

def sizeofR (c : Con) : R Nat :=
  match c.sizeof with
  | some n => .ok n
  | none => .error .structError

/-- subscripting something that may be Python `None` -/
def subscript (v : Option Val) (k : String) : R Val :=
  match v with
  | none => .error .typeError
  | some r => r.getField k

section withFile
variable (env : Env) (S : ElfStructs) (data : Bytes) (hdr : Val)

/-- `_section_offset(n)` -/
def sectionOffset (n : Nat) : R Nat := do
  let shentsize ← hdr.getNat "e_shentsize"
  let shoff ← hdr.getNat "e_shoff"
  if shoff > 0 && shentsize < (← sizeofR S.Elf_Shdr) then throw .elfError
  return shoff + n * shentsize

/-- `_segment_offset(n)` -/
def segmentOffset (n : Nat) : R Nat := do
  let phentsize ← hdr.getNat "e_phentsize"
  let phoff ← hdr.getNat "e_phoff"
  if phentsize < (← sizeofR S.Elf_Phdr) then throw .elfError
  return phoff + n * phentsize

/-- `_get_section_header(n)`: `None` when the entry starts beyond the end of the stream -/
def getSectionHeader (n : Nat) : R (Option Val) := do
  let pos ← sectionOffset S hdr n
  if pos > data.length then return none
  let (v, _) ← structParseAt env S.Elf_Shdr data pos
  return some v

/-- `_get_segment_header(n)` -/
def getSegmentHeader (n : Nat) : R Val := do
  let pos ← segmentOffset S hdr n
  let (v, _) ← structParseAt env S.Elf_Phdr data pos
  return v

/-- `get_shstrndx()` -/
def getShstrndx : R Nat := do
  let x ← hdr.getNat "e_shstrndx"
  if x != 0xffff then return x
  match ← getSectionHeader env S data hdr 0 with
  | none => throw .elfParseError
  | some h0 => h0.getNat "sh_link"

/-- `num_sections()` -/
def numSections : R Nat := do
  if (← hdr.getNat "e_shoff") = 0 then return 0
  let n ← hdr.getNat "e_shnum"
  if n = 0 then
    let h0 ← getSectionHeader env S data hdr 0
    (← subscript h0 "sh_size").asNat
  else return n

/-- `Section.__init__`: a section flagged compressed reads its Chdr at construction -/
def sectionInit (sh : Val) : R Unit := do
  let flags ← sh.getNat "sh_flags"
  if flags &&& 0x800 != 0 then
    let off ← sh.getNat "sh_offset"
    let _ ← structParseAt env S.Elf_Chdr data off
  return ()

/-- `StringTableSection.get_string(offset)` as bytes: `''` for both "empty" and "not terminated".
    (The library decodes UTF-8 with replacement; names are compared as bytes on valid UTF-8.) -/
def getString (strtab : Val) (offset : Nat) : R Bytes := do
  let toff ← strtab.getNat "sh_offset"
  match ← parseCStringAt data (toff + offset) with
  | some s => return s
  | none => return []

/-- `_get_section_name(section_header)`.  Without a name table object: the file has none when
    `get_shstrndx()` is SHN_UNDEF (gABI) — its sections bear the empty name, `section_header` is not
    looked at —; otherwise the index was given and its header lies beyond the stream -/
def getSectionName (shstr : Option Val) (sh : Option Val) : R Bytes := do
  match shstr with
  | none =>
    if (← getShstrndx env S data hdr) == 0 then return []
    throw .elfParseError
  | some st =>
    let off ← (← subscript sh "sh_name").asNat
    getString data st off

def isStr (v : Val) (s : String) : Bool := match v with | .str x => x == s | _ => false

/-- `_make_section(section_header)`: the class of the object made, after running the guards of
    the constructor chain.  `fuel` bounds the link recursion (symtab → strtab, versym → symtab → strtab). -/
def makeSection (shstr : Option Val) : Nat → Option Val → R (String × Bytes)
  | 0, _ => .error .outOfFuel
  | fuel+1, osh => do
    let name ← getSectionName env S data hdr shstr osh
    let some sh := osh | throw .typeError
    let ty ← sh.getField "sh_type"
    let link ← sh.getNat "sh_link"
    let linkedStrtab : R Unit := do
      let h ← getSectionHeader env S data hdr link
      let t ← subscript h "sh_type"
      if !isStr t "SHT_STRTAB" then throw .elfError
      let _ ← makeSection shstr fuel h
      return ()
    let linkedSymtab : R Unit := do
      let h ← getSectionHeader env S data hdr link
      let t ← subscript h "sh_type"
      if !(isStr t "SHT_SYMTAB" || isStr t "SHT_DYNSYM") then throw .elfError
      let _ ← makeSection shstr fuel h
      return ()
    let init := sectionInit env S data sh
    let kind : R String :=
      if isStr ty "SHT_STRTAB" then do init; return "StringTableSection"
      else if isStr ty "SHT_NULL" then do init; return "NullSection"
      else if isStr ty "SHT_SYMTAB" || isStr ty "SHT_DYNSYM" || isStr ty "SHT_SUNW_LDYNSYM" then do
        linkedStrtab; init
        let es ← sh.getNat "sh_entsize"
        if !(es > 0) then throw .elfError
        if (← sh.getNat "sh_size") % es != 0 then throw .elfError
        return "SymbolTableSection"
      else if isStr ty "SHT_SYMTAB_SHNDX" then do init; return "SymbolTableIndexSection"
      else if isStr ty "SHT_SUNW_syminfo" then do linkedSymtab; init; return "SUNWSyminfoTableSection"
      else if isStr ty "SHT_GNU_verneed" then do linkedStrtab; init; return "GNUVerNeedSection"
      else if isStr ty "SHT_GNU_verdef" then do linkedStrtab; init; return "GNUVerDefSection"
      else if isStr ty "SHT_GNU_versym" then do linkedSymtab; init; return "GNUVerSymSection"
      else if isStr ty "SHT_REL" || isStr ty "SHT_RELA" then do
        init
        let esz ← sizeofR (if isStr ty "SHT_RELA" then S.Elf_Rela else S.Elf_Rel)
        if (← sh.getNat "sh_entsize") != esz then throw .elfError
        return "RelocationSection"
      else if isStr ty "SHT_DYNAMIC" then do
        init
        -- elffile.get_section(sh_link, ('SHT_STRTAB', 'SHT_NOBITS'))
        let h ← getSectionHeader env S data hdr link
        match h with
        | none => throw .attributeError
        | some hh =>
          let t ← hh.getField "sh_type"
          if !(isStr t "SHT_STRTAB" || isStr t "SHT_NOBITS") then throw .elfError
          let _ ← makeSection shstr fuel h
          -- Dynamic.__init__: Elf_Dyn.sizeof()
          let _ ← sizeofR S.Elf_Dyn
          return "DynamicSection"
      else if isStr ty "SHT_NOTE" then do init; return "NoteSection"
      else if isStr ty "SHT_PROGBITS" && name == ".stab".toUTF8.toList then do init; return "StabSection"
      else if isStr ty "SHT_ARM_ATTRIBUTES" || isStr ty "SHT_RISCV_ATTRIBUTES" then do
        init
        let (fv, _) ← structParseAt env S.Elf_byte data (← sh.getNat "sh_offset")
        if (← fv.asInt) != 0x41 then throw .elfError
        return (if isStr ty "SHT_ARM_ATTRIBUTES" then "ARMAttributesSection" else "RISCVAttributesSection")
      else if isStr ty "SHT_HASH" then do
        linkedSymtab; init
        let _ ← structParseAt env S.Elf_Hash data (← sh.getNat "sh_offset")
        return "ELFHashSection"
      else if isStr ty "SHT_GNU_HASH" then do
        linkedSymtab; init
        let _ ← structParseAt env S.Gnu_Hash data (← sh.getNat "sh_offset")
        let _ ← sizeofR S.Elf_word
        let _ ← sizeofR S.Elf_xword
        return "GNUHashSection"
      else if isStr ty "SHT_RELR" then do
        init
        if (← sizeofR S.Elf_Relr) != (← sh.getNat "sh_entsize") then throw .elfError
        return "RelrRelocationSection"
      else do init; return "Section"
    return (← kind, name)

/-- `get_section(n)` observed: (class name, name bytes, header) -/
def getSection (shstr : Option Val) (n : Nat) : R (String × Bytes × Val) := do
  let h ← getSectionHeader env S data hdr n
  let (kind, name) ← makeSection env S data hdr shstr 4 h
  match h with
  | some sh => return (kind, name, sh)
  | none => throw .typeError

/-- `iter_sections()` fully consumed -/
def iterSections (shstr : Option Val) : R (List (String × Bytes × Val)) := do
  let n ← numSections env S data hdr
  (List.range n).mapM (getSection env S data hdr shstr)

/-- `num_segments()` -/
def numSegments (shstr : Option Val) : R Nat := do
  let n ← hdr.getNat "e_phnum"
  if n < 0xffff then return n
  let (_, _, sh0) ← getSection env S data hdr shstr 0
  sh0.getNat "sh_info"

/-- `_make_segment(header)`: class of the object made.  A PT_DYNAMIC segment enumerates every
    section (building each) to find the `.dynamic` section at its offset. -/
def makeSegment (shstr : Option Val) (ph : Val) : R String := do
  let ty ← ph.getField "p_type"
  if isStr ty "PT_INTERP" then return "InterpSegment"
  else if isStr ty "PT_DYNAMIC" then do
    let n ← numSections env S data hdr
    let poff ← ph.getNat "p_offset"
    -- lazily: sections after the first DynamicSection at the segment's offset are never built
    let rec find : List Nat → R Unit
      | [] => pure ()
      | i :: rest => do
        let (kind, _, sh) ← getSection env S data hdr shstr i
        if kind == "DynamicSection" && (← sh.getNat "sh_offset") == poff then
          let _ ← getSection env S data hdr shstr (← sh.getNat "sh_link")
          pure ()
        else find rest
    find (List.range n)
    let _ ← sizeofR S.Elf_Dyn
    let _ ← sizeofR S.Elf_Sym
    return "DynamicSegment"
  else if isStr ty "PT_NOTE" then return "NoteSegment"
  else return "Segment"

def getSegment (shstr : Option Val) (n : Nat) : R (String × Val) := do
  let ph ← getSegmentHeader env S data hdr n
  return (← makeSegment env S data hdr shstr ph, ph)

def iterSegments (shstr : Option Val) : R (List (String × Val)) := do
  let n ← numSegments env S data hdr shstr
  (List.range n).mapM (getSegment env S data hdr shstr)

end withFile

/-- the configuration `create_advanced_structs(e_type, e_machine, EI_OSABI)` selects -/
def cfgOfHeader (machineClassOf : Val → String) (cls : Nat) (le : Bool) (hdr : Val) : R ElfCfg := do
  let et ← hdr.getField "e_type"
  let em ← hdr.getField "e_machine"
  let osabi ← (← hdr.getField "e_ident").getField "EI_OSABI"
  return ⟨le, cls, machineClassOf em, isStr osabi "ELFOSABI_SOLARIS", isStr et "ET_CORE"⟩

/-- `ELFFile(stream)`.  `structsFor` is the bundle factory (`ELFStructs`): the generated one in the
    driver, `Spec.elfStructs` in theorems. -/
def openElf (env : Env) (structsFor : ElfCfg → Option ElfStructs) (machineClassOf : Val → String)
    (data : Bytes) : R ElfFile := do
  let (cls, le) ← identify data
  let some S0 := structsFor ⟨le, cls, "default", false, false⟩ | throw .notImplemented
  let (hdr, _) ← structParseAt env S0.Elf_Ehdr data 0
  let cfg ← cfgOfHeader machineClassOf cls le hdr
  let some S := structsFor cfg | throw .notImplemented
  -- _get_section_header_stringtable
  let ndx ← getShstrndx env S data hdr
  -- SHN_UNDEF: "the file has no section name string table" (gABI); section 0 is not looked at
  if ndx == 0 then return { data, cls, le, S, header := hdr, shstr := none }
  let sh ← getSectionHeader env S data hdr ndx
  match sh with
  | none => return { data, cls, le, S, header := hdr, shstr := none }
  | some st =>
    sectionInit env S data st          -- StringTableSection(header, '', elffile)
    return { data, cls, le, S, header := hdr, shstr := some st }

/-- `_make_section_name_map`: name → last index bearing it (dict overwrite) -/
def sectionNameMap (secs : List (String × Bytes × Val)) : List (Bytes × Nat) :=
  let rec go : List (String × Bytes × Val) → Nat → List (Bytes × Nat) → List (Bytes × Nat)
    | [], _, m => m
    | (_, name, _) :: rest, i, m =>
      let m' := if m.any (·.1 == name) then m.map (fun (k, v) => if k == name then (k, i) else (k, v))
                else m ++ [(name, i)]
      go rest (i + 1) m'
  go secs 0 []

end PyElf.Model
