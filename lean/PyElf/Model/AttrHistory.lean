/-
  The build-attributes API as a machine over call histories (after the C20 fixes).

  Model/Attributes.lean mirrors ONE observation: iter_subsections → iter_subsubsections →
  iter_attributes, nested, every generator drained before the next one advances.  The API hands out
  objects and GENERATORS, and every object made from one `ELFFile` reads through the file's single
  stream.  Here the generators are first-class:

    * objects (`SecObj`, `SubsecObj`, `SubsubObj`) are immutable records of what the constructors
      keep (`offset`, the parsed header, `subsec_start` / `subsubsec_start` / `attr_start`);
    * a suspended generator (`Gen`) keeps the object it walks and its LOCAL `offset` variable;
    * the only shared mutable state is the position of the stream (`HState.pos`).  The `*Resume`
      functions thread it exactly as the Python does (`seek`, `struct_parse(…, stream_pos=…)`,
      `struct_parse(…)` at the current position, `tell`): `pos` comes in, the position after the
      last read goes out.  After a parse that raised, the position is wherever construct stopped
      reading: `known := false` until the next absolute positioning.

  `Op.seek` is the adversary: any other reader of the file's stream (`get_section(k).data()`, a second
  attributes section, …) between two calls.
-/
import PyElf.Model.Attributes
namespace PyElf.Model.C20
open PyElf PyElf.Model

/-- `AttributesSection` after `__init__` -/
structure SecObj where
  arch : Spec.Attr.Arch
  shOffset : Nat
  dataSize : Nat
  subsecStart : Nat

/-- `AttributesSubsection` after `__init__`: `offset`, `header` (length, decoded vendor name),
    `subsubsec_start` -/
structure SubsecObj where
  arch : Spec.Attr.Arch
  offset : Nat
  length : Nat
  vendor : Val
  subsubStart : Nat

/-- `AttributesSubsubsection` after `__init__`: `offset`, `header` (an Attribute), `attr_start` -/
structure SubsubObj where
  arch : Spec.Attr.Arch
  offset : Nat
  header : Attr.AttrObj
  attrStart : Nat

inductive Item
  | subsec (o : SubsecObj)
  | subsub (o : SubsubObj)
  | attr (v : Val)

/-- a suspended generator: the object and the local `offset`; `done`: exhausted, or it raised -/
inductive Gen
  | subsecs (o : SecObj) (offset : Nat)
  | subsubs (o : SubsecObj) (offset : Nat)
  | attrs (o : SubsubObj) (offset : Nat)
  | done

section withFile
variable (env : Env) (S : ElfStructs) (data : Bytes)

/-- `AttributesSection.__init__` (after `Section.__init__`): the format-version byte at `sh_offset` -/
def openSec (arch : Spec.Attr.Arch) (shOffset dataSize : Nat) (_pos : Nat) : R (SecObj × Nat) := do
  let pos := shOffset                                   -- struct_parse(Elf_byte, stream, self['sh_offset'])
  let (fv, pos) ← Attr.parseInt env S.Elf_byte data pos
  if fv ≠ 0x41 then throw .elfError
  return ({ arch, shOffset, dataSize, subsecStart := pos }, pos)   -- self.subsec_start = self.stream.tell()

/-- one resumption of `_make_subsections`: `none` = the loop condition failed (StopIteration) -/
def subsecsResume (sec : SecObj) (offset : Nat) (pos : Nat) : R (Option (SubsecObj × Nat) × Nat) :=
  if offset = sec.shOffset + sec.dataSize then .ok (none, pos)          -- while offset != end
  else do
    let pos := offset                                   -- struct_parse(header, self.stream, self.offset)
    let (h, pos) ← structParse env S.Elf_Attr_Subsection_Header data pos
    let len ← h.getNat "length"
    let vn ← h.getField "vendor_name"
    let vendor ← (match vn with
      | .bytes b => Attr.decodeNtbs b
      | _ => .error .typeError)
    -- self.subsubsec_start = self.stream.tell();  offset += subsec['length'];  yield subsec
    return (some ({ arch := sec.arch, offset, length := len, vendor, subsubStart := pos }, offset + len), pos)

/-- one resumption of `_make_subsubsections` -/
def subsubsResume (ss : SubsecObj) (offset : Nat) (pos : Nat) : R (Option (SubsubObj × Nat) × Nat) :=
  if offset = ss.offset + ss.length then .ok (none, pos)                -- while offset != end
  else do
    let pos := offset                                   -- self.stream.seek(offset)
    -- Subsubsection(stream, structs, offset): self.header = self.attribute(structs, stream) — at the
    -- stream's position;  self.attr_start = self.stream.tell()
    let (hdr, pos) ← Attr.attributeAt ss.arch env S data pos
    let hv ← hdr.value.asNat                            -- offset += subsubsec.header.value
    return (some ({ arch := ss.arch, offset, header := hdr, attrStart := pos }, offset + hv), pos)

/-- one resumption of `_make_attributes` (fixed: local `offset`, `seek` before every attribute) -/
def attrsResume (sss : SubsubObj) (offset : Nat) (pos : Nat) : R (Option (Val × Nat) × Nat) := do
  let hv ← sss.header.value.asNat                       -- end = self.offset + self.header.value
  if offset = sss.offset + hv then return (none, pos)                   -- while offset != end
  else
    let pos := offset                                   -- self.stream.seek(offset)
    let (a, pos) ← Attr.attributeAt sss.arch env S data pos             -- self.attribute(structs, stream)
    return (some (a.toVal, pos), pos)                   -- offset = self.stream.tell();  yield attribute

/-- `next(generator)`: the item (or `none` = StopIteration), the generator afterwards, the stream
    position afterwards -/
def Gen.resume (g : Gen) (pos : Nat) : R (Option (Item × Gen) × Nat) :=
  match g with
  | .subsecs o offset => do
    let (r, pos) ← subsecsResume env S data o offset pos
    return (r.map fun (x, off') => (.subsec x, .subsecs o off'), pos)
  | .subsubs o offset => do
    let (r, pos) ← subsubsResume env S data o offset pos
    return (r.map fun (x, off') => (.subsub x, .subsubs o off'), pos)
  | .attrs o offset => do
    let (r, pos) ← attrsResume env S data o offset pos
    return (r.map fun (x, off') => (.attr x, .attrs o off'), pos)
  | .done => .ok (none, pos)

/-- `list(generator)`: all remaining items.  `fuel` bounds the walk (the Python loops are unbounded:
    a zero `length` field spins forever). -/
def Gen.collect : Nat → Gen → Nat → List Item → R (List Item × Nat)
  | 0, _, _, _ => .error .outOfFuel
  | fuel+1, g, pos, acc => do
    match ← Gen.resume env S data g pos with
    | (none, pos) => return (acc.reverse, pos)
    | (some (x, g'), pos) => Gen.collect fuel g' pos (x :: acc)

/-! ### the machine -/

structure HState where
  pos : Nat
  /-- is `pos` the real stream's position? (not after a parse that raised) -/
  known : Bool
  gens : List Gen

inductive Op
  | seek (n : Nat)
  | openSec (arch : Spec.Attr.Arch) (shOffset dataSize : Nat)
  | iterSubsecs (o : SecObj)          -- sec.iter_subsections(): a new generator
  | iterSubsubs (o : SubsecObj)       -- subsec.iter_subsubsections()
  | iterAttrs (o : SubsubObj)         -- subsubsec.iter_attributes()
  | next (g : Nat)                    -- next(generator g)
  | listSubsecs (o : SecObj)          -- sec.subsections / num_subsections: a fresh generator, drained
  | listSubsubs (o : SubsecObj)       -- subsec.subsubsections / num_subsubsections
  | listAttrs (o : SubsubObj)         -- subsubsec.attributes / num_attributes (header + the rest)

inductive Ans
  | unit
  | sec (o : SecObj)
  | gen (g : Nat)
  | item (x : Item)
  | stop
  | items (xs : List Item)
  | err (e : Err)

/-- is this call `next(generator g)`? -/
def Op.isNext (g : Nat) : Op → Bool
  | .next g' => g' == g
  | _ => false

def HState.init : HState := { pos := 0, known := true, gens := [] }

def newGen (st : HState) (g : Gen) : Ans × HState :=
  (.gen st.gens.length, { st with gens := st.gens ++ [g] })

def listOf (fuel : Nat) (st : HState) (g : Gen) : Ans × HState :=
  match Gen.collect env S data fuel g st.pos [] with
  | .ok (xs, pos) => (.items xs, { st with pos, known := st.known || !xs.isEmpty })
  | .error e => (.err e, { st with known := false })

/-- one public call -/
def step (fuel : Nat) (st : HState) : Op → Ans × HState
  | .seek n => (.unit, { st with pos := n, known := true })
  | .openSec arch off size =>
    match openSec env S data arch off size st.pos with
    | .ok (o, pos) => (.sec o, { st with pos, known := true })
    | .error e => (.err e, { st with known := false })
  | .iterSubsecs o => newGen st (.subsecs o o.subsecStart)        -- offset = self.subsec_start
  | .iterSubsubs o => newGen st (.subsubs o o.subsubStart)        -- offset = self.subsubsec_start
  | .iterAttrs o => newGen st (.attrs o o.attrStart)              -- offset = self.attr_start
  | .next g =>
    match st.gens[g]? with
    | none => (.err .keyError, st)                              -- no such handle (never issued)
    | some gen =>
      match Gen.resume env S data gen st.pos with
      | .ok (none, pos) => (.stop, { st with pos, gens := st.gens.set g .done })
      | .ok (some (x, gen'), pos) => (.item x, { pos, known := true, gens := st.gens.set g gen' })
      | .error e => (.err e, { st with known := false, gens := st.gens.set g .done })
  | .listSubsecs o => listOf env S data fuel st (.subsecs o o.subsecStart)
  | .listSubsubs o => listOf env S data fuel st (.subsubs o o.subsubStart)
  | .listAttrs o => listOf env S data fuel st (.attrs o o.attrStart)

def run (fuel : Nat) (st : HState) : List Op → HState
  | [] => st
  | op :: ops => run fuel (step env S data fuel st op).2 ops

/-- the answers of a history, in order -/
def answers (fuel : Nat) (st : HState) : List Op → List Ans
  | [] => []
  | op :: ops => (step env S data fuel st op).1 :: answers fuel (step env S data fuel st op).2 ops

/-! ### the levelwise observation: all subsections first, then all their sub-subsections, then the
    attributes (harness `observe_levelwise`) -/

def itemVal : Item → Val
  | .subsec o => .record [("length", .int o.length), ("vendor_name", o.vendor)]
  | .subsub o => o.header.toVal
  | .attr v => v

/-- pass 2: the sub-subsections of every subsection -/
def pass2 (fuel : Nat) : List Item → Nat → List (SubsecObj × List Item) → R (List (SubsecObj × List Item) × Nat)
  | [], pos, acc => .ok (acc.reverse, pos)
  | .subsec o :: rest, pos, acc => do
    let (xs, pos) ← Gen.collect env S data fuel (.subsubs o o.subsubStart) pos []
    pass2 fuel rest pos ((o, xs) :: acc)
  | _ :: _, _, _ => .error .typeError

/-- pass 3, one subsection: the attributes of every sub-subsection -/
def attrsOf (fuel : Nat) : List Item → Nat → List Val → R (List Val × Nat)
  | [], pos, acc => .ok (acc.reverse, pos)
  | .subsub o :: rest, pos, acc => do
    let (xs, pos) ← Gen.collect env S data fuel (.attrs o o.attrStart) pos []
    attrsOf fuel rest pos (.record [("tag", o.header.tag), ("value", o.header.value), ("extra", o.header.extra),
                                    ("attributes", .list (xs.map itemVal))] :: acc)
  | _ :: _, _, _ => .error .typeError

def pass3 (fuel : Nat) : List (SubsecObj × List Item) → Nat → List Val → R (List Val)
  | [], _, acc => .ok acc.reverse
  | (o, xs) :: rest, pos, acc => do
    let (subs, pos) ← attrsOf env S data fuel xs pos []
    pass3 fuel rest pos (.record [("length", .int o.length), ("vendor_name", o.vendor),
                                  ("subsubsections", .list subs)] :: acc)

def levelwise (arch : Spec.Attr.Arch) (shOffset dataSize : Nat) : R Val := do
  let fuel := data.length + 3
  let (sec, pos) ← openSec env S data arch shOffset dataSize 0
  let (secs, pos) ← Gen.collect env S data fuel (.subsecs sec sec.subsecStart) pos []
  let (lv2, pos) ← pass2 env S data fuel secs pos []
  return .list (← pass3 env S data fuel lv2 pos [])

end withFile

end PyElf.Model.C20
