/-
  Mirrors of the symbol-table and hash-table code:
    elftools/elf/sections.py  StringTableSection.get_string, SymbolTableSection,
                              SymbolTableIndexSection, SUNWSyminfoTableSection
    elftools/elf/hash.py      ELFHashTable, GNUHashTable (hash functions: Gen.Pure, T3)
    elftools/elf/elffile.py   _get_linked_symtab_section / _get_linked_strtab_section (type checks)

  Representation notes (they delimit what the correspondence run can compare):
  * A Python `str` name is represented by its UTF-8 encoding. `get_string` decodes with
    `errors='replace'`; on valid UTF-8 decoding is injective and `encode` inverts it, so `==`
    on the strings is `==` on these bytes. Names that are not valid UTF-8 are outside this
    model (the harness sets them aside).
  * Section objects are represented by the header fields the code reads (`sh_offset`,
    `sh_size`, `sh_entsize`) — parsing section headers is C01/C02's subject.
  * `params` (a construct Container) is read through `Val.getField`, exactly the dict accesses.
-/
import PyElf.Core.Bundles
import PyElf.Model.Utils
import PyElf.Gen.Pure
namespace PyElf.Model
open PyElf

/-- a `Symbol` object: (entry Container, name) -/
abbrev Symbol := Val × Bytes

/-- the header fields of a section the code reads -/
structure SecHdr where
  off : Nat
  size : Nat
  entsize : Nat
  deriving Repr, Inhabited

/-- `StringTableSection.get_string(offset)`: `s.decode(...) if s else ''` (None and b'' both give '') -/
def symGetString (data : Bytes) (strOff : Nat) (offset : Nat) : R Bytes := do
  match ← parseCStringFromStream data (strOff + offset) with
  | some s => return s
  | none => return []

/-- `_get_linked_strtab_section`: the linked section must be SHT_STRTAB -/
def linkedStrtabCheck (shType : Val) : R Unit :=
  if shType == .str "SHT_STRTAB" then .ok () else .error .elfError

/-- `_get_linked_symtab_section`: the linked section must be SHT_SYMTAB or SHT_DYNSYM -/
def linkedSymtabCheck (shType : Val) : R Unit :=
  if shType == .str "SHT_SYMTAB" || shType == .str "SHT_DYNSYM" then .ok () else .error .elfError

/-- `SymbolTableSection.__init__`: the two `elf_assert`s (`%` by zero cannot happen: guarded by the first) -/
def symtabInit (h : SecHdr) : R Unit :=
  if ¬ (h.entsize > 0) then .error .elfError
  else if ¬ (h.size % h.entsize = 0) then .error .elfError
  else .ok ()

/-- `SymbolTableSection.num_symbols` -/
def numSymbols (h : SecHdr) : R Nat :=
  if h.entsize = 0 then .error .zeroDivision else .ok (h.size / h.entsize)

/-- `SymbolTableSection.get_symbol(n)` -/
def getSymbol (S : ElfStructs) (env : Env) (data : Bytes) (h : SecHdr) (strOff : Nat) (n : Nat) : R Symbol := do
  let entryOffset := h.off + n * h.entsize
  let (entry, _) ← structParse env S.Elf_Sym data entryOffset
  let name ← symGetString data strOff (← entry.getNat "st_name")
  return (entry, name)

/-- `for i in range(n): yield f(i)` collected to a list (first error wins) -/
def collectRange (f : Nat → R α) : (start count : Nat) → R (List α)
  | _, 0 => .ok []
  | start, count+1 => do
    let x ← f start
    let xs ← collectRange f (start + 1) count
    return x :: xs

/-- `list(SymbolTableSection.iter_symbols())` -/
def iterSymbols (S : ElfStructs) (env : Env) (data : Bytes) (h : SecHdr) (strOff : Nat) : R (List Symbol) := do
  collectRange (getSymbol S env data h strOff) 0 (← numSymbols h)

/-- `defaultdict(list)`: `m[k].append(i)` -/
def nameMapAppend (m : List (Bytes × List Nat)) (k : Bytes) (i : Nat) : List (Bytes × List Nat) :=
  match m with
  | [] => [(k, [i])]
  | (k', l) :: rest => if k' = k then (k', l ++ [i]) :: rest else (k', l) :: nameMapAppend rest k i

/-- the `_symbol_name_map` built on first use -/
def buildNameMap (syms : List Symbol) : List (Bytes × List Nat) :=
  (syms.zipIdx).foldl (fun m (s, i) => nameMapAppend m s.2 i) []

def nameMapGet (m : List (Bytes × List Nat)) (k : Bytes) : Option (List Nat) :=
  (m.find? (·.1 = k)).map (·.2)

/-- the part of `get_symbol_by_name` after the map exists: `symnums = map.get(name)`;
    `[self.get_symbol(i) for i in symnums] if symnums else None` -/
def getSymbolByNameFrom (getSym : Nat → R Symbol) (m : List (Bytes × List Nat)) (name : Bytes) :
    R (Option (List Symbol)) :=
  match nameMapGet m name with
  | none => return none
  | some [] => return none            -- `if symnums` (cannot happen: lists in the map are non-empty)
  | some symnums => do return some (← symnums.mapM getSym)

/-- `SymbolTableSection.get_symbol_by_name(name)` (the map is built on the first call and kept) -/
def getSymbolByName (S : ElfStructs) (env : Env) (data : Bytes) (h : SecHdr) (strOff : Nat) (name : Bytes) :
    R (Option (List Symbol)) := do
  let m := buildNameMap (← iterSymbols S env data h strOff)
  getSymbolByNameFrom (getSymbol S env data h strOff) m name

/-- the symbols `iter_symbols` yields before it raises (all of them if it does not) -/
def collectRangePartial (f : Nat → R α) : (start count : Nat) → List α
  | _, 0 => []
  | start, count+1 =>
    match f start with
    | .ok x => x :: collectRangePartial f (start + 1) count
    | .error _ => []

/-- HISTORICAL (before fix 31a474f in /repo): `_symbol_name_map` as the FIRST call of
    `get_symbol_by_name` used to leave it when that call raised half-way through `iter_symbols`
    (later calls answered from the partial map).  The map is now published only when complete, so the
    driver no longer uses this definition; it is kept as the description of the repaired defect. -/
def nameMapAfterFirstCall (S : ElfStructs) (env : Env) (data : Bytes) (h : SecHdr) (strOff : Nat) :
    List (Bytes × List Nat) :=
  match numSymbols h with
  | .ok n => buildNameMap (collectRangePartial (getSymbol S env data h strOff) 0 n)
  | .error _ => []

/-- `SymbolTableIndexSection.get_section_index(n)` -/
def getSectionIndex (S : ElfStructs) (env : Env) (data : Bytes) (h : SecHdr) (n : Nat) : R Val := do
  let (v, _) ← structParse env S.Elf_word data (h.off + n * h.entsize)
  return v

/-! ### SUNW syminfo -/

/-- `SUNWSyminfoTableSection.num_symbols`: `sh_size // sh_entsize - 1` (may be −1) -/
def syminfoNum (h : SecHdr) : R Int :=
  if h.entsize = 0 then .error .zeroDivision else .ok ((h.size / h.entsize : Nat) - 1)

/-- `SUNWSyminfoTableSection.get_symbol(n)`: entry from this table, name from the linked symbol table -/
def syminfoGet (S : ElfStructs) (env : Env) (data : Bytes) (h : SecHdr) (symH : SecHdr) (strOff : Nat) (n : Nat) :
    R Symbol := do
  let (entry, _) ← structParse env S.Elf_Sunw_Syminfo data (h.off + n * h.entsize)
  let sym ← getSymbol S env data symH strOff n
  return (entry, sym.2)

/-- `list(iter_symbols())`: `range(1, num_symbols() + 1)` -/
def syminfoIter (S : ElfStructs) (env : Env) (data : Bytes) (h : SecHdr) (symH : SecHdr) (strOff : Nat) :
    R (List Symbol) := do
  let num ← syminfoNum h
  collectRange (syminfoGet S env data h symH strOff) 1 num.toNat

/-! ### System V hash table -/

/-- `ELFHashTable.__init__`: `params = struct_parse(Elf_Hash, stream, start_offset)` -/
def elfHashInit (S : ElfStructs) (env : Env) (data : Bytes) (off : Nat) : R Val := do
  let (v, _) ← structParse env S.Elf_Hash data off
  return v

/-- `ELFHashTable.get_number_of_symbols` -/
def elfHashCount (params : Val) : R Val := params.getField "nchains"

/-- `seq[i]` for a Python list of ints and `i ≥ 0` -/
def listIdx (v : Val) (i : Nat) : R Nat :=
  match v with
  | .list xs =>
    match xs[i]? with
    | some x => x.asNat
    | none => .error .indexError
  | _ => .error .typeError

/-- the `while symndx != 0` loop; `fuel` bounds the iterations (a cyclic chain makes the code loop forever) -/
def elfHashLoop (getSym : Nat → R Symbol) (chains : Val) (name : Bytes) : Nat → Nat → R (Option Symbol)
  | 0, _ => .error .outOfFuel
  | fuel+1, symndx =>
    if symndx = 0 then .ok none
    else do
      let sym ← getSym symndx
      if sym.2 = name then return some sym
      else elfHashLoop getSym chains name fuel (← listIdx chains symndx)

/-- `ELFHashTable.get_symbol(name)`; the symbol table is whatever offers `get_symbol` -/
def elfHashGetSymbol (params : Val) (getSym : Nat → R Symbol) (name : Bytes) : R (Option Symbol) := do
  let nbuckets ← params.getNat "nbuckets"
  if nbuckets = 0 then return none
  let hval := (Gen.Pure.elf_hash name).toNat % nbuckets
  let symndx ← listIdx (← params.getField "buckets") hval
  elfHashLoop getSym (← params.getField "chains") name ((← params.getNat "nchains") + 1) symndx

/-! ### GNU hash table -/

structure GnuHash where
  params : Val
  wordsize : Nat
  xwordsize : Nat
  chainPos : Nat

/-- `GNUHashTable.__init__` (`Elf_word('').sizeof()` is 4, `Elf_xword('').sizeof()` the class's word size) -/
def gnuHashInit (S : ElfStructs) (env : Env) (cls : Nat) (data : Bytes) (off : Nat) : R GnuHash := do
  let (params, _) ← structParse env S.Gnu_Hash data off
  let wordsize := 4
  let xwordsize := cls / 8
  let chainPos := off + 4 * wordsize + (← params.getNat "bloom_size") * xwordsize
                    + (← params.getNat "nbuckets") * wordsize
  return { params, wordsize, xwordsize, chainPos }

/-- `struct.unpack('<I' | '>I', stream.read(4))[0]` after `stream.seek(pos)`: a short read is struct.error -/
def readHashWord (le : Bool) (data : Bytes) (pos : Nat) : R Nat :=
  let bs := readN data pos 4
  if bs.length = 4 then .ok (decNat le bs) else .error .structError

/-- `max(seq)` of a Python list of ints -/
def listMax (v : Val) : R Nat :=
  match v with
  | .list [] => .error .valueError
  | .list (x :: xs) => do
    let x ← x.asNat
    xs.foldlM (fun m y => do let y ← y.asNat; return (if y > m then y else m)) x
  | _ => .error .typeError

/-- the `while True` loop of `get_number_of_symbols`; the stream is read sequentially from `pos` -/
def gnuCountLoop (le : Bool) (data : Bytes) : Nat → Nat → Nat → R Nat
  | 0, _, _ => .error .outOfFuel
  | fuel+1, pos, maxIdx =>
    match readHashWord le data pos with
    | .error e => .error e
    | .ok cur =>
      if cur &&& 1 ≠ 0 then .ok (maxIdx + 1)
      else gnuCountLoop le data fuel (pos + 4) (maxIdx + 1)

/-- `GNUHashTable.get_number_of_symbols` -/
def gnuHashCount (le : Bool) (data : Bytes) (g : GnuHash) : R Nat := do
  let maxIdx ← listMax (← g.params.getField "buckets")
  let symoffset ← g.params.getNat "symoffset"
  if maxIdx < symoffset then .ok symoffset
  else
    let maxChainPos := g.chainPos + (maxIdx - symoffset) * g.wordsize
    gnuCountLoop le data (data.length + 1) maxChainPos maxIdx

/-- `_matches_bloom(H1)`; `int(H1 / arch_bits)` is exact for 32-bit `H1` (float division of an
    integer below 2^53 by 32 or 64) -/
def gnuMatchesBloom (cls : Nat) (params : Val) (h1 : Nat) : R Bool := do
  let archBits := cls
  let h2 := h1 >>> (← params.getNat "bloom_shift")
  let bloomSize ← params.getNat "bloom_size"
  if bloomSize = 0 then .error .zeroDivision
  else
    let wordIdx := (h1 / archBits) % bloomSize
    let bitmask := (1 <<< (h1 % archBits)) ||| (1 <<< (h2 % archBits))
    let w ← listIdx (← params.getField "bloom") wordIdx
    .ok ((w &&& bitmask) == bitmask)

/-- the `while True` loop of `get_symbol` (fixed code: seeks to the chain word of `symidx` every time) -/
def gnuLoop (le : Bool) (data : Bytes) (g : GnuHash) (symoffset : Nat) (getSym : Nat → R Symbol)
    (name : Bytes) (namehash : Nat) : Nat → Nat → R (Option Symbol)
  | 0, _ => .error .outOfFuel
  | fuel+1, symidx =>
    match readHashWord le data (g.chainPos + (symidx - symoffset) * g.wordsize) with
    | .error e => .error e
    | .ok cur =>
      -- the tail of the loop body: `if cur_hash & 1: break` (→ `return None`), else `symidx += 1`
      let tail : R (Option Symbol) :=
        if cur &&& 1 ≠ 0 then .ok none
        else gnuLoop le data g symoffset getSym name namehash fuel (symidx + 1)
      if cur ||| 1 = namehash ||| 1 then
        match getSym symidx with
        | .error e => .error e
        | .ok sym => if name = sym.2 then .ok (some sym) else tail
      else tail

/-- `GNUHashTable.get_symbol(name)` -/
def gnuHashGetSymbol (le : Bool) (cls : Nat) (data : Bytes) (g : GnuHash) (getSym : Nat → R Symbol)
    (name : Bytes) : R (Option Symbol) := do
  let namehash := (Gen.Pure.gnu_hash name).toNat
  if !(← gnuMatchesBloom cls g.params namehash) then .ok none
  else
    let nbuckets ← g.params.getNat "nbuckets"
    if nbuckets = 0 then .error .zeroDivision
    else
      let symidx ← listIdx (← g.params.getField "buckets") (namehash % nbuckets)
      let symoffset ← g.params.getNat "symoffset"
      if symidx < symoffset then .ok none
      else gnuLoop le data g symoffset getSym name namehash (data.length + 1) symidx

end PyElf.Model
