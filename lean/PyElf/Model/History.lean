/-
  C10 — the state machine of the lazily built caches behind the public read-only API.

  Mirrors (statement by statement, as far as cache state and stream position are concerned):
    elftools/dwarf/dwarfinfo.py    get_CU_at, get_CU_containing, iter_CUs (`_parse_CUs_iter`, resumable),
                                   get_DIE_from_refaddr, line_program_for_CU (`_linetable_cache`)
    elftools/dwarf/compileunit.py  get_top_DIE, get_DIE_from_refaddr, `_get_cached_DIE` (bisect insertion into
                                   `_diemap`/`_dielist`, Python's `[i - 1]` with i = 0), iter_DIE_children (generator,
                                   resumable, DW_AT_sibling shortcut, `_terminator` reuse), iter_DIEs /
                                   `_iter_DIE_subtree` (generator stack)
    elftools/dwarf/die.py          get_parent, `_search_ancestor_offspring`, set_parent, iter_siblings (list form and as a
                                   resumable generator: `sibNext`), get_DIE_from_attribute
    elftools/elf/elffile.py        `_section_name_map` (get_section_index)
    elftools/elf/sections.py       `_symbol_name_map` (get_symbol_by_name)

  The parse functions are PARAMETERS, pure in (file, offset): `File.parseCU`, `File.parseDIE` (a DIE as far as the
  cache logic reads it: offset, size, has_children, null, the offset DW_AT_sibling resolves to, DW_AT_stmt_list of a
  top DIE, and a payload standing for tag and attributes).  For the code, purity is the content of the absolute
  `seek` before every parse; the model records where each parse leaves the `.debug_info` stream (`pos`), `seek`
  operations overwrite it, and nothing ever reads it.

  DIE objects are unique per (unit, offset) while cached and are never evicted, so `_parent` / `_terminator`
  attributes are modelled as maps keyed by DIE offset inside the unit's cache.
-/
import PyElf.Model.DwarfLookup
namespace PyElf.Model.C10
open PyElf PyElf.Model.Lookup

/-- a parsed DIE as far as navigation and caching read it -/
structure DIE where
  offset : Nat
  size : Nat
  hasChildren : Bool
  isNull : Bool
  /-- the section offset `DW_AT_sibling` resolves to (`value + cu_offset` for unit-relative forms) -/
  sibling : Option Nat
  /-- `DW_AT_stmt_list` (read from top DIEs only) -/
  stmt : Option Nat
  /-- stands for tag, abbreviation code and attribute values -/
  payload : Nat
  deriving DecidableEq, Repr, Inhabited

/-- `dict[k] = v` on an insertion-ordered dict with int keys -/
def assocSet {V} (d : List (Nat × V)) (k : Nat) (v : V) : List (Nat × V) :=
  match d with
  | [] => [(k, v)]
  | (k', v') :: rest => if k' = k then (k', v) :: rest else (k', v') :: assocSet rest k v

def assocGet? {V} (d : List (Nat × V)) (k : Nat) : Option V := (d.find? (·.1 == k)).map (·.2)

/-- the per-`CompileUnit` state: `_diemap`, `_dielist`, the `_parent` / `_terminator` attributes of the cached
    DIE objects, and (threaded through) the position of the shared `.debug_info` stream -/
structure UnitCache where
  pos : Nat
  diemap : List Nat
  dielist : List DIE
  parent : List (Nat × DIE)
  term : List (Nat × DIE)
  deriving Repr, Inhabited

def UnitCache.empty (pos : Nat) : UnitCache := ⟨pos, [], [], [], []⟩

section unit
variable (PD : Nat → R DIE) (dieOff : Nat)

/-- `CompileUnit.get_top_DIE` (after the fix: a top DIE whose indirect attributes cannot be translated is not
    kept, so a failing translation is a failing `PD dieOff`) -/
def getTopDIE (u : UnitCache) : R DIE × UnitCache :=
  match u.diemap with
  | _ :: _ =>
    match u.dielist[0]? with
    | some d => (.ok d, u)
    | none => (.error .indexError, u)
  | [] =>
    match PD dieOff with
    | .error e => (.error e, u)
    | .ok d => (.ok d, { u with pos := dieOff + d.size, dielist := pyInsert u.dielist 0 d, diemap := pyInsert u.diemap 0 dieOff })

/-- `CompileUnit._get_cached_DIE(offset)` -/
def getCachedDIE (u : UnitCache) (offset : Nat) : R DIE × UnitCache :=
  match getTopDIE PD dieOff u with
  | (.error e, u) => (.error e, u)
  | (.ok _, u) =>
    match bisectRight u.diemap offset with
    | .error e => (.error e, u)
    | .ok i =>
      -- `self._diemap[i - 1]`: with i = 0 Python reads the LAST element
      let j := if i = 0 then u.diemap.length - 1 else i - 1
      match u.diemap[j]? with
      | none => (.error .indexError, u)
      | some o =>
        if offset = o then
          match u.dielist[j]? with
          | some d => (.ok d, u)
          | none => (.error .indexError, u)
        else
          match PD offset with
          | .error e => (.error e, u)
          | .ok d => (.ok d, { u with pos := offset + d.size, dielist := pyInsert u.dielist i d, diemap := pyInsert u.diemap i offset })

/-- `CompileUnit.get_DIE_from_refaddr(refaddr)`; `cuEnd` = `cu_offset + size` -/
def unitDIEFromRefaddr (cuEnd : Nat) (u : UnitCache) (refaddr : Nat) : R DIE × UnitCache :=
  if dieOff ≤ refaddr ∧ refaddr < cuEnd then getCachedDIE PD dieOff u refaddr else (.error .dwarfError, u)

/-- the suspended frame of one `iter_DIE_children(die)` generator: `cur` is `cur_offset`, `last` the child
    yielded last (the code after `yield child` runs when the generator is resumed) -/
structure ChildIter where
  die : DIE
  started : Bool
  cur : Nat
  last : Option DIE
  done : Bool
  deriving Repr, Inhabited

def ChildIter.new (die : DIE) : ChildIter := ⟨die, false, 0, none, false⟩

/-- a fully consumed nested `iter_DIE_children` (the recursive call of the generator) -/
abbrev Drain := ChildIter → UnitCache → List DIE → R (List DIE) × UnitCache

/-- the code between two `yield`s that computes where the next child starts (`cur_offset`) -/
def nextCur (D : Drain) (it : ChildIter) (u : UnitCache) : R Nat × UnitCache :=
  match it.last with
  | none => (.ok (it.die.offset + it.die.size), u)
  | some child =>
    if !child.hasChildren then (.ok (it.cur + child.size), u)
    else
      match child.sibling with
      | some s => (.ok s, u)
      | none =>
        match assocGet? u.term child.offset with
        | some t => (.ok (t.offset + t.size), u)
        | none =>
          -- `for _ in self.iter_DIE_children(child): pass`
          match D (ChildIter.new child) u [] with
          | (.error e, u) => (.error e, u)
          | (.ok _, u) =>
            match assocGet? u.term child.offset with
            | some t => (.ok (t.offset + t.size), u)
            | none => (.error .attributeError, u)

/-- one `next()` of an `iter_DIE_children` generator, given the nested full iteration `D` -/
def childStep (D : Drain) (it : ChildIter) (u : UnitCache) : R (Option DIE) × ChildIter × UnitCache :=
  if it.done then (.ok none, it, u)
  else if !it.die.hasChildren then (.ok none, { it with done := true }, u)
  else
    match nextCur D it u with
    | (.error e, u) => (.error e, { it with done := true }, u)
    | (.ok cur, u) =>
      match getCachedDIE PD dieOff u cur with
      | (.error e, u) => (.error e, { it with done := true }, u)
      | (.ok child, u) =>
        let u := { u with parent := assocSet u.parent child.offset it.die }
        if child.isNull then
          (.ok none, { it with done := true }, { u with term := assocSet u.term it.die.offset child })
        else
          (.ok (some child), { it with started := true, cur := cur, last := some child }, u)

mutual
/-- one `next()` of an `iter_DIE_children` generator -/
def childNext : Nat → ChildIter → UnitCache → R (Option DIE) × ChildIter × UnitCache
  | 0, it, u => (.error .outOfFuel, { it with done := true }, u)
  | fuel+1, it, u => childStep PD dieOff (fun it u acc => drain fuel it u acc) it u

/-- a generator consumed to the end (`list(...)`, `for _ in ...: pass`) -/
def drain : Nat → ChildIter → UnitCache → List DIE → R (List DIE) × UnitCache
  | 0, _, u, _ => (.error .outOfFuel, u)
  | fuel+1, it, u, acc =>
    match childNext fuel it u with
    | (.error e, _, u) => (.error e, u)
    | (.ok none, _, u) => (.ok acc, u)
    | (.ok (some d), it, u) => drain fuel it u (acc ++ [d])
end

/-- one frame of the `_iter_DIE_subtree` generator stack -/
structure Frame where
  die : DIE
  /-- 0: `yield die` not yet executed; 1: inside `for c in die.iter_children()` -/
  phase : Nat
  ci : ChildIter
  deriving Repr, Inhabited

/-- one `next()` of a `CompileUnit.iter_DIEs()` generator (the stack of `_iter_DIE_subtree` frames) -/
def subNext : Nat → List Frame → UnitCache → R (Option DIE) × List Frame × UnitCache
  | 0, st, u => (.error .outOfFuel, st, u)
  | _+1, [], u => (.ok none, [], u)
  | fuel+1, fr :: rest, u =>
    if fr.phase = 0 then (.ok (some fr.die), { fr with phase := 1 } :: rest, u)
    else if !fr.die.hasChildren then subNext fuel rest u
    else
      match childNext PD dieOff fuel fr.ci u with
      | (.error e, _, u) => (.error e, [], u)
      | (.ok (some c), ci, u) =>
        -- `yield from die.cu._iter_DIE_subtree(c)`: its first action is `yield c`
        (.ok (some c), ⟨c, 1, ChildIter.new c⟩ :: { fr with ci := ci } :: rest, u)
      | (.ok none, _, u) =>
        -- `yield die._terminator`
        match assocGet? u.term fr.die.offset with
        | some t => (.ok (some t), rest, u)
        | none => (.error .attributeError, [], u)

/-- `DIE._search_ancestor_offspring` for the DIE `self` -/
def searchLoop (self : DIE) : Nat → DIE → UnitCache → R Unit × UnitCache
  | 0, _, u => (.error .outOfFuel, u)
  | fuel+1, search, u =>
    if search.offset < self.offset then
      match drain PD dieOff fuel (ChildIter.new search) u [] with
      | (.error e, u) => (.error e, u)
      | (.ok children, u) =>
        -- `child.set_parent(search)` (again) and `if child.offset <= self.offset: prev = child`
        let u := children.foldl (fun u c => { u with parent := assocSet u.parent c.offset search }) u
        let prev := children.foldl (fun p c => if c.offset ≤ self.offset then c else p) search
        let prevR : R DIE :=
          if search.hasChildren then
            match assocGet? u.term search.offset with
            | none => .error .attributeError
            | some t => .ok (if t.offset ≤ self.offset then t else prev)
          else .ok prev
        match prevR with
        | .error e => (.error e, u)
        | .ok prev =>
          if prev.offset = search.offset then (.error .valueError, u)
          else searchLoop self fuel prev u
    else (.ok (), u)

/-- `DIE.get_parent()` -/
def getParent (fuel : Nat) (self : DIE) (u : UnitCache) : R (Option DIE) × UnitCache :=
  match assocGet? u.parent self.offset with
  | some p => (.ok (some p), u)
  | none =>
    match getTopDIE PD dieOff u with
    | (.error e, u) => (.error e, u)
    | (.ok top, u) =>
      match searchLoop PD dieOff self fuel top u with
      | (.error e, u) => (.error e, u)
      | (.ok (), u) => (.ok (assocGet? u.parent self.offset), u)

/-- `for sibling in parent.iter_children(): if sibling is not self: yield sibling` up to the next `yield`
    (DIE objects are unique per offset while cached, so `is` is equality of offsets); `n` bounds the entries skipped -/
def sibSkip (fuel : Nat) (self : DIE) : Nat → ChildIter → UnitCache → R (Option DIE) × ChildIter × UnitCache
  | 0, ci, u => (.error .outOfFuel, ci, u)
  | n+1, ci, u =>
    match childNext PD dieOff fuel ci u with
    | (.error e, ci, u) => (.error e, ci, u)
    | (.ok none, ci, u) => (.ok none, ci, u)
    | (.ok (some s), ci, u) => if s.offset = self.offset then sibSkip fuel self n ci u else (.ok (some s), ci, u)

/-- one `next()` of a `die.iter_siblings()` generator; `ci = none`: the body has not started yet, its first
    statement is `parent = self.get_parent()`; without a parent the generator executes `raise StopIteration()` -/
def sibNext (fuel : Nat) (self : DIE) (ci : Option ChildIter) (u : UnitCache) :
    R (Option DIE) × Option ChildIter × UnitCache :=
  match ci with
  | some ci =>
    let r := sibSkip PD dieOff fuel self fuel ci u
    (r.1, some r.2.1, r.2.2)
  | none =>
    match getParent PD dieOff fuel self u with
    | (.error e, u) => (.error e, none, u)
    | (.ok none, u) => (.error .stopIteration, none, u)
    | (.ok (some p), u) =>
      let r := sibSkip PD dieOff fuel self fuel (ChildIter.new p) u
      (r.1, some r.2.1, r.2.2)

end unit

/-! ### the whole object -/

/-- the pure (stateless) side of one opened file -/
structure File where
  /-- `debug_info_sec.size` -/
  size : Nat
  /-- `DWARFInfo._parse_CU_at_offset` -/
  parseCU : Nat → R CU
  /-- `DIE(cu, stream, offset)` for the unit at the first argument -/
  parseDIE : Nat → Nat → R DIE
  /-- section names by index, symbol names by index -/
  secNames : List String
  symNames : List String
  /-- the reference-class attributes of the DIE at (unit, offset): name ↦ (the form is `DW_FORM_ref_addr`,
      `raw_value`); the other forms are the unit-relative ones -/
  refAttr : Nat → Nat → String → Option (Bool × Nat) := fun _ _ _ => none
  /-- `.debug_pubnames` as the `NameLUT` dict: name ↦ (`cu_ofs`, `die_ofs`); `none`: the section is absent.
      (`get_pubnames()` builds a new `NameLUT` on every call; it reads its own section's stream.) -/
  pubnames : Option (List (String × Nat × Nat)) := none

inductive IterKind
  | cus
  | dies (cu : Nat)
  | children (cu off : Nat)
  | siblings (cu off : Nat)
  deriving DecidableEq, Repr, Inhabited

inductive Op
  | seek (n : Nat)
  | cuAt (o : Nat)
  | cuCont (x : Nat)
  | top (cu : Nat)
  | die (cu off : Nat)
  | refaddr (x : Nat)
  | children (cu off : Nat)
  | parent (cu off : Nat)
  | lp (cu : Nat) (decode : Bool)
  | take (k : IterKind) (n : Nat)
  | all (k : IterKind)
  | itNew (k : IterKind)
  | itNext (h : Nat)
  | secIdx (name : String)
  | symByName (name : String)
  | siblings (cu off : Nat)
  | ref (cu off : Nat) (name : String)
  | pubname (name : String)
  deriving DecidableEq, Repr, Inhabited

inductive Ans
  | unit
  | nat (n : Nat)
  | pair (a b : Nat)
  | opt (o : Option Nat)
  | list (l : List Nat)
  | optList (o : Option (List Nat))
  | str (s : String)
  deriving DecidableEq, Repr, Inhabited

/-- a suspended generator -/
inductive Iter
  | cus (offset : Nat) (done : Bool)
  | children (cu : Nat) (ci : ChildIter)
  | dies (cu : Nat) (stack : List Frame) (done : Bool)
  /-- `die.iter_siblings()` of the DIE `self`; `ci = none`: the generator body has not started -/
  | siblings (cu : Nat) (self : DIE) (ci : Option ChildIter) (done : Bool)
  deriving Repr, Inhabited

structure State where
  /-- position of the `.debug_info` stream -/
  pos : Nat
  cus : CUCache
  /-- per `CompileUnit` object (they are unique per offset and never evicted) -/
  units : List (Nat × UnitCache)
  /-- `_linetable_cache`: offset ↦ "`_decoded_entries` is set" -/
  line : List (Nat × Bool)
  iters : List Iter
  secMap : Option (List (String × Nat))
  symMap : Option (List (String × List Nat))
  deriving Repr, Inhabited

def State.init : State := ⟨0, CUCache.empty, [], [], [], none, none⟩

/-- where a unit lookup leaves the stream: the units parsed by one lookup are parsed in increasing
    offset order, so the last parse is the one of the greatest newly cached offset -/
def posAfterCU (old new : CUCache) (pos : Nat) : Nat :=
  match (new.cus.filter (fun c => !old.offsets.contains c.cuOffset)).getLast? with
  | some c => c.cuDieOffset
  | none => pos

def fuelOf (F : File) : Nat := 4 * F.size + 16

section ops
variable (F : File)

def withCU (st : State) (r : R CU × CUCache) : R CU × State :=
  (r.1, { st with cus := r.2, pos := posAfterCU st.cus r.2 st.pos })

def getCUAt' (st : State) (o : Nat) : R CU × State := withCU st (getCUAt F.parseCU F.size st.cus o)
def getCUCont' (st : State) (x : Nat) : R CU × State := withCU st (getCUContaining F.parseCU F.size st.cus x)

def unitOf (st : State) (cu : Nat) : UnitCache :=
  match assocGet? st.units cu with
  | some u => { u with pos := st.pos }
  | none => UnitCache.empty st.pos

def putUnit (st : State) (cu : Nat) (u : UnitCache) : State :=
  { st with units := assocSet st.units cu u, pos := u.pos }

/-- run a unit-level action inside the unit object `c` -/
def inUnit {α} (st : State) (c : CU) (f : UnitCache → R α × UnitCache) : R α × State :=
  let r := f (unitOf st c.cuOffset)
  (r.1, putUnit st c.cuOffset r.2)

def cuEnd (c : CU) : R Nat := do return c.cuOffset + (← c.size)

/-- `get_CU_at(cu).get_DIE_from_refaddr(off)` -/
def dieAt (st : State) (cu off : Nat) : R (CU × DIE) × State :=
  match getCUAt' F st cu with
  | (.error e, st) => (.error e, st)
  | (.ok c, st) =>
    match cuEnd c with
    | .error e => (.error e, st)
    | .ok e =>
      match inUnit st c (fun u => unitDIEFromRefaddr (F.parseDIE c.cuOffset) c.cuDieOffset e u off) with
      | (.error e, st) => (.error e, st)
      | (.ok d, st) => (.ok (c, d), st)

/-- `_make_section_name_map` (dict overwrite: the last index bearing a name) -/
def buildSecMap (names : List String) : List (String × Nat) :=
  (names.zipIdx).foldl (fun m (n, i) => if m.any (·.1 == n) then m.map (fun (k, v) => if k == n then (k, i) else (k, v)) else m ++ [(n, i)]) []

/-- `_symbol_name_map`: name ↦ indices in table order -/
def buildSymMap (names : List String) : List (String × List Nat) :=
  (names.zipIdx).foldl (fun m (n, i) => if m.any (·.1 == n) then m.map (fun (k, v) => if k == n then (k, v ++ [i]) else (k, v)) else m ++ [(n, [i])]) []

/-- creating a generator object (the outermost iterable of the harness' generator expression is evaluated
    at creation: `get_CU_at`, `get_top_DIE` / `get_DIE_from_refaddr` happen here, the generator body does not start) -/
def newIter (st : State) : IterKind → R Iter × State
  | .cus => (.ok (.cus 0 false), st)
  | .dies cu =>
    match getCUAt' F st cu with
    | (.error e, st) => (.error e, st)
    | (.ok c, st) =>
      match inUnit st c (getTopDIE (F.parseDIE c.cuOffset) c.cuDieOffset) with
      | (.error e, st) => (.error e, st)
      | (.ok top, st) => (.ok (.dies cu [⟨top, 0, ChildIter.new top⟩] false), st)
  | .children cu off =>
    match dieAt F st cu off with
    | (.error e, st) => (.error e, st)
    | (.ok (_, d), st) => (.ok (.children cu (ChildIter.new d)), st)
  | .siblings cu off =>
    -- `die.iter_siblings()` creates the generator; its body (`get_parent()` first) runs at the first `next()`
    match dieAt F st cu off with
    | (.error e, st) => (.error e, st)
    | (.ok (_, d), st) => (.ok (.siblings cu d none false), st)

/-- `next(it)`: `none` is StopIteration.  A generator that raised is finished. -/
def nextIter (st : State) : Iter → R (Option Nat) × Iter × State
  | .cus offset done =>
    if done then (.ok none, .cus offset true, st)
    else if offset < F.size then
      match withCU st (cachedCUAtOffset F.parseCU st.cus offset) with
      | (.error e, st) => (.error e, .cus offset true, st)
      | (.ok c, st) =>
        match c.size with
        | .error e => (.error e, .cus offset true, st)
        | .ok sz => (.ok (some c.cuOffset), .cus (offset + sz) false, st)
    else (.ok none, .cus offset true, st)
  | .children cu ci =>
    -- the CompileUnit object was obtained when the generator was created; it is the cached one
    match st.cus.cus.find? (·.cuOffset == cu) with
    | none => (.error .keyError, .children cu ci, st)
    | some c =>
      let r := childNext (F.parseDIE cu) c.cuDieOffset (fuelOf F) ci (unitOf st cu)
      (r.1.map (·.map (·.offset)), .children cu r.2.1, putUnit st cu r.2.2)
  | .dies cu stack done =>
    if done then (.ok none, .dies cu [] true, st)
    else
      match st.cus.cus.find? (·.cuOffset == cu) with
      | none => (.error .keyError, .dies cu stack done, st)
      | some c =>
        let r := subNext (F.parseDIE cu) c.cuDieOffset (fuelOf F) stack (unitOf st cu)
        let fin := match r.1 with | .ok (some _) => false | _ => true
        (r.1.map (·.map (·.offset)), .dies cu r.2.1 fin, putUnit st cu r.2.2)
  | .siblings cu self ci done =>
    if done then (.ok none, .siblings cu self ci true, st)
    else
      match st.cus.cus.find? (·.cuOffset == cu) with
      | none => (.error .keyError, .siblings cu self ci done, st)
      | some c =>
        let r := sibNext (F.parseDIE cu) c.cuDieOffset (fuelOf F) self ci (unitOf st cu)
        let fin := match r.1 with | .ok (some _) => false | _ => true
        (r.1.map (·.map (·.offset)), .siblings cu self r.2.1 fin, putUnit st cu r.2.2)

/-- up to `n` items of a generator -/
def takeIter : Nat → Iter → State → List Nat → R (List Nat) × Iter × State
  | 0, it, st, acc => (.ok acc, it, st)
  | n+1, it, st, acc =>
    match nextIter F st it with
    | (.error e, it, st) => (.error e, it, st)
    | (.ok none, it, st) => (.ok acc, it, st)
    | (.ok (some x), it, st) => takeIter n it st (acc ++ [x])

def listSet {α} (l : List α) (i : Nat) (x : α) : List α := l.take i ++ x :: l.drop (i + 1)

/-- `DWARFInfo.get_DIE_from_refaddr(x)` (no unit given) -/
def refaddrAt (st : State) (x : Nat) : R Ans × State :=
  match getCUCont' F st x with
  | (.error e, st) => (.error e, st)
  | (.ok c, st) =>
    match cuEnd c with
    | .error e => (.error e, st)
    | .ok e =>
      match inUnit st c (fun u => unitDIEFromRefaddr (F.parseDIE c.cuOffset) c.cuDieOffset e u x) with
      | (.error e, st) => (.error e, st)
      | (.ok d, st) => (.ok (.nat d.offset), st)

/-- one public call on the live object -/
def step (st : State) : Op → R Ans × State
  | .seek n => (.ok .unit, { st with pos := n })
  | .cuAt o =>
    match getCUAt' F st o with
    | (.error e, st) => (.error e, st)
    | (.ok c, st) => (.ok (.pair c.cuOffset c.cuDieOffset), st)
  | .cuCont x =>
    match getCUCont' F st x with
    | (.error e, st) => (.error e, st)
    | (.ok c, st) => (.ok (.pair c.cuOffset c.cuDieOffset), st)
  | .top cu =>
    match getCUAt' F st cu with
    | (.error e, st) => (.error e, st)
    | (.ok c, st) =>
      match inUnit st c (getTopDIE (F.parseDIE c.cuOffset) c.cuDieOffset) with
      | (.error e, st) => (.error e, st)
      | (.ok d, st) => (.ok (.nat d.offset), st)
  | .die cu off =>
    match dieAt F st cu off with
    | (.error e, st) => (.error e, st)
    | (.ok (_, d), st) => (.ok (.nat d.offset), st)
  | .refaddr x => refaddrAt F st x
  | .children cu off =>
    match dieAt F st cu off with
    | (.error e, st) => (.error e, st)
    | (.ok (c, d), st) =>
      match inUnit st c (fun u => drain (F.parseDIE c.cuOffset) c.cuDieOffset (fuelOf F) (ChildIter.new d) u []) with
      | (.error e, st) => (.error e, st)
      | (.ok l, st) => (.ok (.list (l.map (·.offset))), st)
  | .parent cu off =>
    match dieAt F st cu off with
    | (.error e, st) => (.error e, st)
    | (.ok (c, d), st) =>
      match inUnit st c (getParent (F.parseDIE c.cuOffset) c.cuDieOffset (fuelOf F) d) with
      | (.error e, st) => (.error e, st)
      | (.ok p, st) => (.ok (.opt (p.map (·.offset))), st)
  | .lp cu decode =>
    match getCUAt' F st cu with
    | (.error e, st) => (.error e, st)
    | (.ok c, st) =>
      match inUnit st c (getTopDIE (F.parseDIE c.cuOffset) c.cuDieOffset) with
      | (.error e, st) => (.error e, st)
      | (.ok top, st) =>
        match top.stmt with
        | none => (.ok (.opt none), st)
        | some o =>
          let was := (assocGet? st.line o).getD false
          (.ok (.opt (some o)), { st with line := assocSet st.line o (was || decode) })
  | .take k n =>
    match newIter F st k with
    | (.error e, st) => (.error e, st)
    | (.ok it, st) =>
      match takeIter F n it st [] with
      | (.error e, _, st) => (.error e, st)
      | (.ok l, _, st) => (.ok (.list l), st)
  | .all k =>
    match newIter F st k with
    | (.error e, st) => (.error e, st)
    | (.ok it, st) =>
      match takeIter F (fuelOf F) it st [] with
      | (.error e, _, st) => (.error e, st)
      | (.ok l, _, st) => (.ok (.list l), st)
  | .itNew k =>
    match newIter F st k with
    | (.error e, st) => (.error e, st)
    | (.ok it, st) => (.ok (.nat st.iters.length), { st with iters := st.iters ++ [it] })
  | .itNext h =>
    if st.iters.length = 0 then (.ok (.str "no-iterator"), st)
    else
      let i := h % st.iters.length
      match st.iters[i]? with
      | none => (.error .indexError, st)
      | some it =>
        match nextIter F st it with
        | (.error e, it, st) => (.error e, { st with iters := listSet st.iters i it })
        | (.ok none, it, st) => (.ok (.str "stop"), { st with iters := listSet st.iters i it })
        | (.ok (some x), it, st) => (.ok (.nat x), { st with iters := listSet st.iters i it })
  | .secIdx name =>
    let m := match st.secMap with | some m => m | none => buildSecMap F.secNames
    (.ok (.opt ((m.find? (·.1 == name)).map (·.2))), { st with secMap := some m })
  | .symByName name =>
    let m := match st.symMap with | some m => m | none => buildSymMap F.symNames
    let r := match (m.find? (·.1 == name)).map (·.2) with
      | some [] => none
      | o => o
    (.ok (.optList r), { st with symMap := some m })
  | .siblings cu off =>
    -- `list(die.iter_siblings())`
    match dieAt F st cu off with
    | (.error e, st) => (.error e, st)
    | (.ok (c, d), st) =>
      -- `parent = self.get_parent()`
      match inUnit st c (getParent (F.parseDIE c.cuOffset) c.cuDieOffset (fuelOf F) d) with
      | (.error e, st) => (.error e, st)
      -- `raise StopIteration()` inside the generator (PEP 479 hands it to the caller as RuntimeError)
      | (.ok none, st) => (.error .stopIteration, st)
      | (.ok (some p), st) =>
        -- `for sibling in parent.iter_children(): if sibling is not self: yield sibling` (DIE objects are unique per offset)
        match inUnit st c (fun u => drain (F.parseDIE c.cuOffset) c.cuDieOffset (fuelOf F) (ChildIter.new p) u []) with
        | (.error e, st) => (.error e, st)
        | (.ok l, st) => (.ok (.list ((l.filter (fun s => s.offset != d.offset)).map (·.offset))), st)
  | .ref cu off name =>
    -- `die.get_DIE_from_attribute(name)`
    match dieAt F st cu off with
    | (.error e, st) => (.error e, st)
    | (.ok (c, d), st) =>
      match F.refAttr c.cuOffset d.offset name with
      | none => (.error .keyError, st)
      | some (false, raw) =>
        -- `self.cu.get_DIE_from_refaddr(self.cu.cu_offset + attr.raw_value)`
        match cuEnd c with
        | .error e => (.error e, st)
        | .ok e =>
          match inUnit st c (fun u => unitDIEFromRefaddr (F.parseDIE c.cuOffset) c.cuDieOffset e u (c.cuOffset + raw)) with
          | (.error e, st) => (.error e, st)
          | (.ok d', st) => (.ok (.nat d'.offset), st)
      -- `self.cu.dwarfinfo.get_DIE_from_refaddr(attr.raw_value)`
      | some (true, raw) => refaddrAt F st raw
  | .pubname name =>
    -- `e = di.get_pubnames().get(name)`, then `di.get_DIE_from_lut_entry(e)`
    match F.pubnames with
    | none => (.ok (.opt none), st)
    | some tbl =>
      match tbl.find? (·.1 == name) with
      | none => (.ok (.opt none), st)
      | some (_, cuo, dieo) =>
        match dieAt F st cuo dieo with
        | (.error e, st) => (.error e, st)
        | (.ok (_, d), st) => (.ok (.list [cuo, dieo, d.offset]), st)

/-- a whole history on one object -/
def run (st : State) : List Op → State
  | [] => st
  | op :: ops => run (step F st op).2 ops

/-- the stateless meaning of a query: its answer on a freshly opened object -/
def answer (op : Op) : R Ans := (step F State.init op).1

end ops
end PyElf.Model.C10
