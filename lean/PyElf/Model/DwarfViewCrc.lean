/-
  C11 — mirror of `_file_crc32` (elftools/dwarf/dwarf_util.py), the checksum `get_dwarf_info`
  compares with the one recorded in `.gnu_debuglink`:

      d = file.read(4096)
      checksum = 0
      while d:
          checksum = binascii.crc32(d, checksum)
          d = file.read(4096)
      return checksum

  `crc d init` is `binascii.crc32(d, init)` (external); the chunk size is a parameter (4096 in the
  source).  `Model/DwarfView.lean` takes the whole-file checksum as the external `Ext.crc32`;
  `extOfStreaming` builds that external from the streaming primitive through this loop.
-/
import PyElf.Model.DwarfView
namespace PyElf.Model.C11
open PyElf PyElf.Model

/-- the `while d:` loop: `rest` is what the file still holds, `checksum` the running value.
    `file.read(n)` returns `rest.take n`; the loop ends on the first empty read (end of file, or
    `n = 0`).  Terminates because every non-empty read consumes at least one byte. -/
def fileCrc32Loop (crc : Bytes → Nat → Nat) (n : Nat) (rest : Bytes) (checksum : Nat) : Nat :=
  if h : rest.take n = [] then checksum
  else fileCrc32Loop crc n (rest.drop n) (crc (rest.take n) checksum)
termination_by rest.length
decreasing_by
  have h' : ¬ (n = 0 ∨ rest = []) := by simpa [List.take_eq_nil_iff] using h
  have h1 : n ≠ 0 := fun e => h' (Or.inl e)
  have h2 : rest.length ≠ 0 := fun e => h' (Or.inr (List.eq_nil_of_length_eq_zero e))
  simp only [List.length_drop]
  omega

/-- `_file_crc32(file)` on a file with contents `data`, read in chunks of `n` bytes -/
def fileCrc32 (crc : Bytes → Nat → Nat) (n : Nat) (data : Bytes) : Nat := fileCrc32Loop crc n data 0

/-- the externals, given zlib and the STREAMING `binascii.crc32(data, init)`: the whole-file
    checksum is `_file_crc32`'s chunked fold (4096-byte reads) -/
def extOfStreaming (decompress : Bytes → Nat → Option Bytes) (crc : Bytes → Nat → Nat) : Ext :=
  { decompress := decompress, crc32 := fileCrc32 crc 4096 }

end PyElf.Model.C11
