/-
  `RelrRelocationTable._cached_relocations` (relocation.py): `num_relocations()` and `get_relocation(n)` answer from
  `list(self.iter_relocations())`, built on first use and assigned only when the expansion returns (an expansion that
  raises leaves `None`, the next query expands again).  Instance of the lazily-built-cache machine `Model/SigCache`.
-/
import PyElf.Model.Relocation
import PyElf.Model.SigCache
namespace PyElf.Model.Reloc
open PyElf PyElf.Model

/-- the queries answered from the cache -/
inductive RelrQ
  | num                    -- `num_relocations()`
  | get (n : Int)          -- `get_relocation(n)` (a Python list index: negative counts from the end)
  deriving Repr, DecidableEq

/-- `list(self.iter_relocations())`: the finished list, or what the expansion raised -/
def relrScan (env : Env) (data : Bytes) (t : RelrTable) : List Nat × Option Err :=
  match relrIter env data t with
  | .ok l => (l, none)
  | .error e => ([], some e)

/-- `len(cache)` / `cache[n]['r_offset']` with Python's list indexing -/
def relrLook (l : List Nat) : RelrQ → R Nat
  | .num => .ok l.length
  | .get n =>
    if 0 ≤ n then
      match l[n.toNat]? with
      | some x => .ok x
      | none => .error .indexError
    else if n.natAbs ≤ l.length then
      match l[l.length - n.natAbs]? with
      | some x => .ok x
      | none => .error .indexError
    else .error .indexError

/-- a history of queries on ONE table object, through the cache -/
def relrHist (env : Env) (data : Bytes) (t : RelrTable) (qs : List RelrQ) : List (R Nat) × SigCache.St (List Nat) :=
  SigCache.run (relrScan env data t) relrLook SigCache.St.init qs

/-- the same query on a freshly made table object -/
def relrFresh (env : Env) (data : Bytes) (t : RelrTable) (q : RelrQ) : R Nat :=
  match relrIter env data t with
  | .ok l => relrLook l q
  | .error e => .error e

end PyElf.Model.Reloc
