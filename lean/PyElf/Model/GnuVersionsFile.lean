/-
  How the version-section objects of gnuversions.py come into being: mirror of
  `ELFFile.get_section(n)` → `_make_section` → `_make_gnu_verneed_section` /
  `_make_gnu_verdef_section` / `_make_gnu_versym_section` (elffile.py), i.e. of
  the constructor arguments that `Model/GnuVersions.lean` takes as given
  (`sh_offset`, `sh_info`, the linked string table's `sh_offset`; for the
  version-symbol table the linked symbol table and *its* string table), and of
  `ELFFile.get_section_by_name`.
-/
import PyElf.Model.ElfFile
import PyElf.Model.GnuVersions
namespace PyElf.Model.C15
open PyElf PyElf.Model

/-- `elffile._get_section_header(n)` whose result is subscripted: `None[...]` raises TypeError -/
def linkedHeader (env : Env) (f : ElfFile) (n : Nat) : R Val := do
  match ← getSectionHeader env f.S f.data f.header n with
  | some h => pure h
  | none => throw .typeError

/-- what `get_section(n)` hands out, as far as C15 is concerned -/
inductive VerObj where
  | need (vs : VerSec)          -- GNUVerNeedSection
  | def_ (vs : VerSec)          -- GNUVerDefSection
  | versym (v : VersymSec)      -- GNUVerSymSection
  | other (kind : String)       -- any other class

/-- `ELFFile.get_section(n)`: the section object is built by `getSection` (which runs the whole
    constructor chain, linked tables included); the fields the version classes later read are taken
    from the section's own header, from the header of `sh_link` (`self.stringtable` /
    `self.symboltable`) and, for the version-symbol table, from the header of the symbol table's
    `sh_link` (`self.symboltable.stringtable`) -/
def getVerSection (env : Env) (f : ElfFile) (n : Nat) : R VerObj := do
  let (kind, _, sh) ← getSection env f.S f.data f.header f.shstr n
  if kind == "GNUVerNeedSection" || kind == "GNUVerDefSection" then
    let need := kind == "GNUVerNeedSection"
    let st ← linkedHeader env f (← sh.getNat "sh_link")
    let mk := if need then VerSec.mkNeed else VerSec.mkDef
    let vs : VerSec := mk f.S f.data (← sh.getNat "sh_offset") (← sh.getNat "sh_info") (← st.getNat "sh_offset")
    return (if need then .need vs else .def_ vs)
  else if kind == "GNUVerSymSection" then
    let symh ← linkedHeader env f (← sh.getNat "sh_link")
    let strh ← linkedHeader env f (← symh.getNat "sh_link")
    let v : VersymSec := VersymSec.mk' f.S f.data (← sh.getNat "sh_offset") (← sh.getNat "sh_size")
      (← sh.getNat "sh_entsize") (← symh.getNat "sh_offset") (← symh.getNat "sh_entsize") (← strh.getNat "sh_offset")
    return .versym v
  else
    return .other kind

/-- `ELFFile.get_section_by_name(name)` on a fresh object: `_make_section_name_map` enumerates (and
    builds) every section, later names overwrite earlier ones, then `get_section(secnum)` -/
def getVerSectionByName (env : Env) (f : ElfFile) (name : Bytes) : R (Option VerObj) := do
  let secs ← iterSections env f.S f.data f.header f.shstr
  match (sectionNameMap secs).find? (·.1 == name) with
  | none => return none
  | some (_, i) => return some (← getVerSection env f i)

end PyElf.Model.C15
