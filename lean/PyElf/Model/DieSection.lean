/-
  Mirrors of the glue between a parsed unit header and the context its entries are decoded in:
  `DWARFInfo._parse_CU_at_offset` / `_parse_TU_at_offset` (the second `DWARFStructs(...)` built from
  the header's format, address_size and version — `cu.structs`), `CompileUnit.get_abbrev_table`
  (`dwarfinfo.get_abbrev_table(self['debug_abbrev_offset'])`, parsed with `DWARFInfo.structs`),
  `CompileUnit.size`, and of the drivers `DWARFInfo.iter_CUs()` / `iter_TUs()` with `cu.iter_DIEs()`
  on every unit, `_parse_debug_types` + `get_DIE_by_sig8`.

  Unit headers are `Model.Lookup.parseCUAtOffset` (C13) / `Model.C04.parseTUAtOffset`; the loop over a
  section is `Model.C04.unitsLoop`; one entry, the top entry, iteration are Model/Die.lean.
-/
import PyElf.Model.Die
import PyElf.Model.Env
namespace PyElf.Model.C04
open PyElf PyElf.Model
open PyElf.Spec.C04 (AttrObs DieObs Sections)

/-- a `DWARFInfo` as far as entries are concerned: the sections, the configuration, and the three
    things the code takes from elsewhere in the library (regenerated on the driver's side): the enum
    registry, the `DWARFStructs(...)` constructor, `DW_FORM_raw2name` -/
structure DInfo where
  le : Bool                                     -- config.little_endian
  dasz : Nat                                    -- config.default_address_size
  info : Option Bytes
  abbr : Option Bytes
  types : Option Bytes
  secs : Sections
  enumDecode : String → Int → Option String
  structsOf : DwarfCfg → Option DwarfStructs
  raw2name : Nat → Option String

/-- the `DWARFInfo` over given sections with everything else REGENERATED from the code: the enum registry
    (`Model.genEnumDecode`), the struct bundles (`Model.dwarfStructsFor`), `DW_FORM_raw2name`.  This is the model the
    driver runs and the one Props/C04 `debug_info_exact` / `debug_types_exact` are about. -/
def genDInfo (le : Bool) (dasz : Nat) (info abbr types : Option Bytes) (secs : Sections) : DInfo :=
  { le := le, dasz := dasz, info := info, abbr := abbr, types := types, secs := secs,
    enumDecode := Model.genEnumDecode, structsOf := Model.dwarfStructsFor, raw2name := genRaw2name }

/-- `CompileUnit(header, dwarfinfo, structs, cu_offset, cu_die_offset)` / `TypeUnit(...)` as the context of
    its entries.  `S0` is `DWARFInfo.structs` (32-bit format, default address size): the abbreviation table is
    parsed with it, at the header's `debug_abbrev_offset` of `.debug_abbrev`; `data` is the stream of the
    section the unit lives in. -/
def unitCtx (w : DInfo) (S0 : DwarfStructs) (data : Bytes) (cu : Lookup.CU) : R UnitCtx := do
  let asz ← cu.header.getNat "address_size"
  let ver ← cu.header.getNat "version"
  let some S := w.structsOf ⟨w.le, cu.fmt, asz, ver⟩ | .error .assertion
  let ao ← cu.header.getNat "debug_abbrev_offset"
  let sz ← cu.size
  return { S := S, env := { enumDecode := w.enumDecode, forms := S.form }, data := data,
           abbrevs := getAbbrevTable { enumDecode := w.enumDecode, forms := S0.form } S0 w.abbr ao,
           cuOffset := cu.cuOffset, cuDieOffset := cu.cuDieOffset, size := sz, fmt := cu.fmt, addrSize := asz,
           secs := w.secs, raw2name := w.raw2name }

/-- `list(dwarfinfo.iter_CUs())` (`isTypes = false`) / `list(dwarfinfo.iter_TUs())`: the unit objects with
    the contexts of their entries, and the exception that ended the iteration, if any -/
def sectionUnits (w : DInfo) (S0 : DwarfStructs) (sec : Option Bytes) (isTypes : Bool) :
    List (Lookup.CU × R UnitCtx) × Option Err :=
  match sec with
  | none => ([], none)
  | some data =>
    let P := if isTypes then parseTUAtOffset w.enumDecode w.structsOf S0 w.le data
             else Lookup.parseCUAtOffset w.enumDecode w.structsOf S0 w.le data
    let (cus, e) := unitsLoop P data.length (data.length + 1) 0 []
    (cus.map fun cu => (cu, unitCtx w S0 data cu), e)

/--
  `_get_cached_DIE(offset)` inside its domain.  `get_top_DIE` returns `_dielist[0]` ("a top DIE always has
  minimal offset"): once a DIE at an offset BELOW `cu_die_offset` has been cached (a DW_AT_sibling or a
  type_offset pointing into or before the unit header — never in a well-formed unit) it takes the top DIE's
  slot and every later parse resolves its index forms against that entry; DIEs cached earlier keep their
  values.  What the unit answers from then on depends on the cache history, which the pure model
  (`getCachedDIE`: values of (unit, offset)) does not carry — C10's subject.  Such a fetch is marked with an
  error class nothing in the DIE model raises; the driver stops there and reports the case as `low_fetch`.
-/
def fetch (U : UnitCtx) (offset : Nat) : R DieObs :=
  if offset < U.cuDieOffset then .error .stopIteration else getCachedDIE U offset

/-- the bound the driver and the harness put on one unit's iteration -/
def unitFuel (U : UnitCtx) : Nat := 2 * U.data.length + 8

/-- `[(cu, list(cu.iter_DIEs())) for cu in dwarfinfo.iter_CUs()]` (resp. `iter_TUs()`): every unit with its
    entries in iteration order, each entry with the parent recorded for it, or what iterating the unit raises;
    and the exception that ended the unit iteration, if any.  `G` is `_get_cached_DIE` (`getCachedDIE`, or the
    driver's marked `fetch`). -/
def iterSection (G : UnitCtx → Nat → R DieObs) (w : DInfo) (S0 : DwarfStructs) (sec : Option Bytes) (isTypes : Bool) :
    List (Lookup.CU × R (List (DieObs × Option Nat))) × Option Err :=
  let (us, e) := sectionUnits w S0 sec isTypes
  (us.map fun (cu, rU) => (cu, rU >>= fun U => iterDIEs (G U) U.cuOffset U.cuDieOffset (unitFuel U)), e)

/-- the units `_parse_debug_types` files by signature, in the order it enters them into the dict, and the exception
    that ends the scan: every unit of `.debug_types`, then (`for cu in self._parse_CUs_iter()`) the DWARF 5 type
    units among the units of `.debug_info`.  An error in `.debug_types` is raised before `.debug_info` is looked at. -/
def sigUnits (w : DInfo) (S0 : DwarfStructs) : List (Lookup.CU × R UnitCtx) × Option Err :=
  let (ts, et) := sectionUnits w S0 w.types true
  let (is, ei) := sectionUnits w S0 w.info false
  (ts ++ is.filter (fun p => isV5TypeUnit p.1), match et with | some e => some e | none => ei)

/-- `dwarfinfo.get_DIE_by_sig8(sig)`: `_parse_debug_types` scans the whole `.debug_types` and the whole `.debug_info`,
    then the entry at the type_offset of the (last) unit carrying the signature -/
def sig8Lookup (G : UnitCtx → Nat → R DieObs) (w : DInfo) (S0 : DwarfStructs) (sig : Int) : R (Nat × DieObs) :=
  let (us, e) := sigUnits w S0
  dieBySig8 G us e sig

end PyElf.Model.C04
