/-
  What every model needs from the regenerated side: the enum decoding environment
  and the struct bundle the library would build for a configuration.
-/
import PyElf.Core.Bundles
import PyElf.Gen.Tables
import PyElf.Gen.Structs
namespace PyElf.Model
open PyElf

/-- last entry with the given value wins (Python: `dict((v, k) for k, v in mapping.items())`) -/
def decodeIn (t : List (String × Int)) (v : Int) : Option String :=
  t.foldl (fun acc (k, x) => if x = v then some k else acc) none

/-- `Enum` decoding with the tables regenerated from /repo -/
def genEnumDecode (tid : String) (v : Int) : Option String :=
  match Gen.tables.find? (·.1 == tid) with
  | some (_, t, _) => decodeIn t v
  | none => none

/-- name → value in a generated table (first entry with that name) -/
def genEnumValue (tid : String) (name : String) : Option Int :=
  match Gen.tables.find? (·.1 == tid) with
  | some (_, t, _) => (t.find? (·.1 == name)).map (·.2)
  | none => none

def elfStructsFor (cfg : ElfCfg) : Option ElfStructs :=
  (Gen.elfBundles.find? (·.1 == cfg)).map (·.2)

def dwarfStructsFor (cfg : DwarfCfg) : Option DwarfStructs :=
  (Gen.dwarfBundles.find? (·.1 == cfg)).map (·.2)

def ehabiStructsFor (le : Bool) : Option EhabiStructs :=
  (Gen.ehabiBundles.find? (·.1 == le)).map (·.2)

/-- the behaviour class of an `e_machine` value as reported by the Ehdr parse
    (an `ENUM_E_MACHINE` name, or the raw integer for unnamed codes) -/
def machineClassOf : Val → String
  | .str m => match Gen.machineClass.find? (·.1 == m) with
              | some (_, c) => c
              | none => "default"
  | _ => "default"

def elfEnv : Env := { enumDecode := genEnumDecode, forms := fun _ => none }
def dwarfEnv (S : DwarfStructs) : Env := { enumDecode := genEnumDecode, forms := S.form }

end PyElf.Model
