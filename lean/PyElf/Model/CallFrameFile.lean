/-
  C06 model, the glue between the container and the call-frame parser:

    DWARFInfo.__init__   (the part CFI needs: `self.structs = DWARFStructs(little_endian=config.little_endian,
                          dwarf_format=32, address_size=config.default_address_size)`)
    DWARFInfo.has_CFI / CFI_entries / has_EH_CFI / EH_CFI_entries                       (dwarf/dwarfinfo.py)
    CallFrameInfo.__init__ / get_entries                                                 (dwarf/callframe.py)

  `C11.DwarfInfo` is what `ELFFile.get_dwarf_info()` returns as far as the container decides it
  (Model/DwarfView.lean): the configuration and one `DebugSectionDescriptor` (or None) per keyword.
  `CFI_entries()` hands the `.debug_frame` descriptor's stream, size and ADDRESS (`sh_addr`; the pc-relative
  pointer encodings of `.eh_frame` use it) to a fresh `CallFrameInfo`, whose `get_entries()` is `_parse_entries()`
  (`Model.parseEntries`).  A fresh object per call: no state survives between calls.
-/
import PyElf.Model.CallFrame
import PyElf.Model.DwarfView
namespace PyElf.Model.C06
open PyElf PyElf.Model PyElf.Model.C11

/-- `DWARFInfo.has_CFI()`: `self.debug_frame_sec is not None` -/
def hasCFI (di : DwarfInfo) : Bool := (descrOf di.secs "debug_frame_sec").isSome

/-- `DWARFInfo.has_EH_CFI()`: `self.eh_frame_sec is not None` -/
def hasEHCFI (di : DwarfInfo) : Bool := (descrOf di.secs "eh_frame_sec").isSome

/-- `CallFrameInfo(stream=sec.stream, size=sec.size, address=sec.address, base_structs=self.structs,
    for_eh_frame=eh)`: `_parse_entry_at` builds `DWARFStructs(little_endian=base.little_endian,
    dwarf_format=fmt, address_size=base.address_size)` per entry (`DWARFStructs.__new__` asserts the format) -/
def cfiOfDescr (T : CfiTables) (P : Params) (di : DwarfInfo) (d : Descr) (eh : Bool) : Cfi :=
  { T := T,
    structs := fun fmt =>
      match P.dwarfStructsFor ⟨di.le, fmt, di.addrSize, 2⟩ with
      | some S => .ok S
      | none => .error .assertion,
    env := P.env, data := d.stream, address := d.address, eh := eh }

/-- the body shared by `CFI_entries()` / `EH_CFI_entries()` for keyword `kw`; on a DWARFInfo without the
    section the attribute access `None.stream` raises AttributeError -/
def entriesOf (T : CfiTables) (P : Params) (di : DwarfInfo) (kw : String) (eh : Bool) : R (List Entry) :=
  match descrOf di.secs kw with
  | none => .error .attributeError
  | some d => parseEntries (cfiOfDescr T P di d eh) d.size

/-- `DWARFInfo.CFI_entries()` -/
def cfiEntries (T : CfiTables) (P : Params) (di : DwarfInfo) : R (List Entry) :=
  entriesOf T P di "debug_frame_sec" false

/-- `DWARFInfo.EH_CFI_entries()` -/
def ehCfiEntries (T : CfiTables) (P : Params) (di : DwarfInfo) : R (List Entry) :=
  entriesOf T P di "eh_frame_sec" true

/-- `ELFFile(BytesIO(data), loader).get_dwarf_info(relocate, follow_links)` followed by `f` -/
def onFile {α : Type} (P : Params) (fuel : Nat) (loader : Option Loader) (data : Bytes) (relocate followLinks : Bool)
    (f : DwarfInfo → R α) : V α := do
  let di ← getDwarfInfo P fuel loader data relocate followLinks
  liftR (f di)

/-- `ELFFile(BytesIO(data), loader).get_dwarf_info(relocate, follow_links).CFI_entries()` -/
def fileCfiEntries (T : CfiTables) (P : Params) (fuel : Nat) (loader : Option Loader) (data : Bytes)
    (relocate followLinks : Bool) : V (List Entry) :=
  onFile P fuel loader data relocate followLinks (cfiEntries T P)

/-- `ELFFile(BytesIO(data), loader).get_dwarf_info(relocate, follow_links).EH_CFI_entries()` -/
def fileEhCfiEntries (T : CfiTables) (P : Params) (fuel : Nat) (loader : Option Loader) (data : Bytes)
    (relocate followLinks : Bool) : V (List Entry) :=
  onFile P fuel loader data relocate followLinks (ehCfiEntries T P)

/-- `….get_dwarf_info(…).has_CFI()` / `has_EH_CFI()` -/
def fileHasCFI (P : Params) (fuel : Nat) (loader : Option Loader) (data : Bytes) (relocate followLinks : Bool) : V Bool :=
  onFile P fuel loader data relocate followLinks (fun di => .ok (hasCFI di))

def fileHasEHCFI (P : Params) (fuel : Nat) (loader : Option Loader) (data : Bytes) (relocate followLinks : Bool) : V Bool :=
  onFile P fuel loader data relocate followLinks (fun di => .ok (hasEHCFI di))

end PyElf.Model.C06
