/-
  Mirrors of elftools/elf/relocation.py, Dynamic.get_relocation_tables /
  get_table_offset / _iter_tags (dynamic.py), ELFFile.address_offsets /
  get_machine_arch / _read_dwarf_section (elffile.py) — as far as C08 observes them.

  The struct bundle `S` and `env` are parameters exactly as `elffile.structs` is.
  The recipe tables, calc functions and the machine-architecture map are the
  regenerated ones (Gen.Extra_C08, Gen.Pure).
-/
import PyElf.Core.Bundles
import PyElf.Model.Env
import PyElf.Gen.Extra_C08
namespace PyElf.Model.Reloc
open PyElf PyElf.Model

/-! ### construct `sizeof()` and `struct_parse` with a seek -/

mutual
/-- `Construct.sizeof()` for the shapes relocation structs are made of; anything else is a
    `SizeofError` (a ConstructError) -/
def conSizeof : Con → R Nat
  | .uint n _ => .ok n
  | .sint n _ => .ok n
  | .value _ => .ok 0
  | .enum sub _ _ => conSizeof sub
  | .struct fs => fieldsSizeof fs
  | _ => .error .structError
def fieldsSizeof : ConFields → R Nat
  | .nil => .ok 0
  | .cons _ _ c rest => do
      let a ← conSizeof c
      let b ← fieldsSizeof rest
      return a + b
end

/-- `struct_parse(struct, stream, stream_pos=pos)`: `stream.seek(pos)` raises OverflowError for a position
    that does not fit a C ssize_t; a short read is the ELFParseError -/
def seekParse (env : Env) (c : Con) (data : Bytes) (pos : Nat) : R Val := do
  if pos ≥ 2 ^ 63 then .error .elfParseError
  let (v, _) ← structParse env c data pos
  return v

/-! ### RelocationTable / RelocationSection -/

structure RelocTable where
  offset : Option Nat       -- `None` when a dynamic table address is not mapped by any PT_LOAD
  size : Nat
  isRela : Bool
  entryStruct : Con
  entrySize : Nat

/-- `RelocationTable.__init__` -/
def mkTable (S : ElfStructs) (offset : Option Nat) (size : Nat) (isRela : Bool) : R RelocTable := do
  let st := if isRela then S.Elf_Rela else S.Elf_Rel
  let sz ← conSizeof st
  return { offset := offset, size := size, isRela := isRela, entryStruct := st, entrySize := sz }

/-- `num_relocations`: `self._size // self.entry_size` -/
def numRelocations (t : RelocTable) : R Nat :=
  if t.entrySize = 0 then .error .zeroDivision else .ok (t.size / t.entrySize)

/-- `get_relocation(n)`: the parsed entry (a `Relocation` wraps it) -/
def getRelocation (env : Env) (data : Bytes) (t : RelocTable) (n : Nat) : R Val :=
  match t.offset with
  | none => .error .typeError                    -- None + int
  | some off => seekParse env t.entryStruct data (off + n * t.entrySize)

/-- `for i in range(count): yield get_relocation(i)` from index `i` -/
def iterFrom (env : Env) (data : Bytes) (t : RelocTable) : (count i : Nat) → R (List Val)
  | 0, _ => .ok []
  | count+1, i => do
      let r ← getRelocation env data t i
      let rest ← iterFrom env data t count (i + 1)
      return r :: rest

/-- `list(iter_relocations())` -/
def iterRelocations (env : Env) (data : Bytes) (t : RelocTable) : R (List Val) := do
  let n ← numRelocations t
  iterFrom env data t n 0

/-- `RelocationSection.__init__` after `Section.__init__`: the table, then the two asserts -/
def relocSectionInit (S : ElfStructs) (shType : Val) (shOffset shSize shEntsize : Nat) : R RelocTable := do
  let t ← mkTable S (some shOffset) shSize (shType == Val.str "SHT_RELA")
  if !(shType == Val.str "SHT_REL" || shType == Val.str "SHT_RELA") then .error .elfError
  if shEntsize ≠ t.entrySize then .error .elfError
  return t

/-- `Relocation.is_RELA()`: `'r_addend' in self.entry` -/
def entryIsRela : Val → Bool
  | .record fs => (Fields.get? fs "r_addend").isSome
  | _ => false

/-! ### RELR -/

structure RelrTable where
  offset : Option Nat
  size : Nat
  relrStruct : Con
  entrySize : Nat
  addrSize : Nat            -- `self._elffile.structs.Elf_addr('').sizeof()`

/-- `RelrRelocationTable.__init__` -/
def relrInit (S : ElfStructs) (offset : Option Nat) (size entsizeArg : Nat) : R RelrTable := do
  let es ← conSizeof S.Elf_Relr
  if es ≠ entsizeArg then .error .elfError
  let a ← conSizeof S.Elf_addr
  return { offset := offset, size := size, relrStruct := S.Elf_Relr, entrySize := es, addrSize := a }

/-- the inner `while True:` of a bitmap entry: shift right; stop at zero; yield on a set LSB; `i += 1`.
    A word of `entrysize` bytes is exhausted after at most `8·entrysize` shifts (the fuel the caller passes). -/
def relrBitmapLoop (base es : Nat) : (fuel : Nat) → (entryOffset i : Nat) → R (List Nat)
  | 0, _, _ => .error .outOfFuel
  | fuel+1, entryOffset, i =>
    let entryOffset := entryOffset >>> 1
    if entryOffset = 0 then .ok []
    else if entryOffset &&& 1 ≠ 0 then do
      let rest ← relrBitmapLoop base es fuel entryOffset (i + 1)
      return (base + i * es) :: rest
    else relrBitmapLoop base es fuel entryOffset (i + 1)

/-- the outer `while relr < limit:`; yields the `r_offset` of every Relocation produced -/
def relrLoop (env : Env) (data : Bytes) (t : RelrTable) (limit : Nat) :
    (fuel : Nat) → (relr : Nat) → (base : Option Nat) → R (List Nat)
  | 0, _, _ => .error .outOfFuel
  | fuel+1, relr, base =>
    if relr < limit then do
      let entry ← seekParse env t.relrStruct data relr
      let eo ← entry.getNat "r_offset"
      if eo &&& 1 = 0 then do
        let rest ← relrLoop env data t limit fuel (relr + t.entrySize) (some (eo + t.entrySize))
        return eo :: rest
      else
        match base with
        | none => .error .elfError                     -- elf_assert(base is not None)
        | some b => do
          let here ← relrBitmapLoop b t.entrySize (8 * t.entrySize) eo 0
          let rest ← relrLoop env data t limit fuel (relr + t.entrySize)
                        (some (b + (8 * t.entrySize - 1) * t.addrSize))
          return here ++ rest
    else .ok []

/-- `list(RelrRelocationTable.iter_relocations())` as the list of `r_offset`s -/
def relrIter (env : Env) (data : Bytes) (t : RelrTable) : R (List Nat) :=
  if t.size = 0 then .ok []
  else
    match t.offset with
    | none => .error .typeError
    | some off => relrLoop env data t (off + t.size) (t.size + 1) off none

/-! ### dynamic tags → tables -/

/-- `Dynamic._iter_tags()` run to completion: every raw tag up to and including DT_NULL -/
def iterTagsLoop (env : Env) (S : ElfStructs) (data : Bytes) (offset tagsize : Nat) :
    (fuel : Nat) → (n : Nat) → R (List (Val × Nat))
  | 0, _ => .error .outOfFuel
  | fuel+1, n => do
      let tag ← seekParse env S.Elf_Dyn data (offset + n * tagsize)
      let dt ← tag.getField "d_tag"
      let dv ← tag.getNat "d_val"
      if dt == Val.str "DT_NULL" then return [(dt, dv)]
      else
        let rest ← iterTagsLoop env S data offset tagsize fuel (n + 1)
        return (dt, dv) :: rest

def iterTags (env : Env) (S : ElfStructs) (data : Bytes) (offset : Nat) (empty : Bool) : R (List (Val × Nat)) := do
  if empty then return []
  let ts ← conSizeof S.Elf_Dyn
  iterTagsLoop env S data offset ts (data.length + 2) 0

def tagsOf (tags : List (Val × Nat)) (name : String) : List Nat :=
  (tags.filter fun t => t.1 == Val.str name).map (·.2)

/-- `next(self.iter_tags(name))['d_val']` -/
def firstTag (tags : List (Val × Nat)) (name : String) : R Nat :=
  match tagsOf tags name with
  | v :: _ => .ok v
  | [] => .error .stopIteration

/-- a PT_LOAD segment: (p_vaddr, p_filesz, p_offset) -/
abbrev Load := Nat × Nat × Nat

/-- `next(self.elffile.address_offsets(ptr), None)` -/
def addressOffset (loads : List Load) (start : Nat) : Option Nat :=
  match loads.find? (fun (va, fs, _) => decide (start ≥ va) && decide (start + 1 ≤ va + fs)) with
  | some (va, _, po) => some (start - va + po)
  | none => none

/-- `get_table_offset(tag)[1]` -/
def tableOffset (tags : List (Val × Nat)) (loads : List Load) (name : String) : Option Nat :=
  match tagsOf tags name with
  | ptr :: _ => addressOffset loads ptr          -- `if ptr is not None:` — address 0 is mapped like any other
  | [] => none

inductive DynTable
  | rel (t : RelocTable)
  | relr (t : RelrTable)

/-- `Dynamic.get_relocation_tables()`: name → table, in dict insertion order -/
def getRelocationTables (S : ElfStructs) (tags : List (Val × Nat)) (loads : List Load) :
    R (List (String × DynTable)) := do
  let mut result : List (String × DynTable) := []
  if !(tagsOf tags "DT_REL").isEmpty then
    let t ← mkTable S (tableOffset tags loads "DT_REL") (← firstTag tags "DT_RELSZ") false
    let relentsz ← firstTag tags "DT_RELENT"
    if t.entrySize ≠ relentsz then .error .elfError
    result := result ++ [("REL", .rel t)]
  if !(tagsOf tags "DT_RELA").isEmpty then
    let t ← mkTable S (tableOffset tags loads "DT_RELA") (← firstTag tags "DT_RELASZ") true
    let relentsz ← firstTag tags "DT_RELAENT"
    if t.entrySize ≠ relentsz then .error .elfError
    result := result ++ [("RELA", .rel t)]
  if !(tagsOf tags "DT_RELR").isEmpty then
    let sz ← firstTag tags "DT_RELRSZ"
    let ent ← firstTag tags "DT_RELRENT"
    let t ← relrInit S (tableOffset tags loads "DT_RELR") sz ent
    result := result ++ [("RELR", .relr t)]
  if !(tagsOf tags "DT_JMPREL").isEmpty then
    let sz ← firstTag tags "DT_PLTRELSZ"
    let pltrel ← firstTag tags "DT_PLTREL"
    let dtRela ← match genEnumValue "ENUM_D_TAG" "DT_RELA" with
      | some v => pure v
      | none => .error .keyError
    let t ← mkTable S (tableOffset tags loads "DT_JMPREL") sz ((pltrel : Int) == dtRela)
    result := result ++ [("JMPREL", .rel t)]
  return result

/-! ### applying relocations -/

/-- `ELFFile.get_machine_arch()` on the decoded `e_machine` -/
def machineArchOf (eMachine : Val) : String :=
  match eMachine with
  | .str m =>
    match Gen.machineArch.find? (·.1 == m) with
    | some (_, a) => a
    | none => Gen.machineArchDefault
  | _ => Gen.machineArchDefault

structure Recipe where
  bytesize : Nat
  hasAddend : Bool
  calcName : String
  deriving Repr

/-- `self._RELOCATION_RECIPES_<T>.get(reloc_type, None)` -/
def recipeGet (table : String) (ty : Int) : R (Option Recipe) :=
  match Gen.relocRecipes.find? (·.1 == table) with
  | none => .error .attributeError
  | some (_, ents) =>
    -- dict lookup: keys are unique in a dict, `find?` returns the entry
    match ents.find? (·.1 == ty) with
    | some (_, b, a, c) => .ok (some ⟨b, a, c⟩)
    | none => .ok none

/-- the `if/elif` chain of `_do_apply_relocation` choosing the recipe (after the symbol check) -/
def chooseRecipe (arch : String) (cls : Nat) (reloc : Val) : R (Option Recipe) := do
  let rela := entryIsRela reloc
  let ty ← reloc.getInt "r_info_type"
  if arch = "x86" then
    if rela then .error .elfRelocError
    recipeGet "_RELOCATION_RECIPES_X86" ty
  else if arch = "x64" then
    if !rela then .error .elfRelocError
    recipeGet "_RELOCATION_RECIPES_X64" ty
  else if arch = "MIPS" then
    -- only the ELF64 MIPS r_info packs three types and a second symbol
    if cls = 64 then
      if (← reloc.getInt "r_type2") ≠ 0 || (← reloc.getInt "r_type3") ≠ 0 || (← reloc.getInt "r_ssym") ≠ 0 then
        .error .elfRelocError
    if rela then recipeGet "_RELOCATION_RECIPES_MIPS_RELA" ty
    else recipeGet "_RELOCATION_RECIPES_MIPS_REL" ty
  else if arch = "ARM" then
    if rela then .error .elfRelocError
    recipeGet "_RELOCATION_RECIPES_ARM" ty
  else if arch = "AArch64" then
    if !rela then .error .elfRelocError
    recipeGet "_RELOCATION_RECIPES_AARCH64" ty
  else if arch = "64-bit PowerPC" then
    if !rela then .error .elfRelocError
    recipeGet "_RELOCATION_RECIPES_PPC64" ty
  else if arch = "IBM S/390" then
    if !rela then .error .elfRelocError
    recipeGet "_RELOCATION_RECIPES_S390X" ty
  else if arch = "Linux BPF - in-kernel virtual machine" then
    recipeGet "_RELOCATION_RECIPES_EBPF" ty
  else if arch = "LoongArch" then
    if !rela then .error .elfRelocError
    recipeGet "_RELOCATION_RECIPES_LOONGARCH" ty
  else return none

/-- steps 0–3 of `_do_apply_relocation` once symbol value and recipe are known:
    read the field, compute, wrap, write back -/
def applyRecipe (le : Bool) (stream : Bytes) (r : Recipe) (symValue : Int) (offset : Nat) (addendField : R Int) :
    R Bytes := do
  if !(r.bytesize = 4 || r.bytesize = 8 || r.bytesize = 1 || r.bytesize = 2) then .error .elfRelocError
  -- struct_parse(value_struct, stream, stream_pos=r_offset); Elf_word/word64/byte/half are unsigned
  if offset ≥ 2 ^ 63 then .error .elfParseError
  let bs ← readExact stream offset r.bytesize
  let original : Int := decNat le bs
  let fn ← match Gen.relocCalc r.calcName with
    | some f => pure f
    | none => .error .attributeError
  let addend ← if r.hasAddend then addendField else pure 0
  let relocated := fn original symValue offset addend
  let wrapped := PyInt.fmod relocated ((2 ^ (r.bytesize * 8) : Nat) : Int)
  -- stream.seek(r_offset); value_struct.build_stream(value, stream): overwrite in place
  return stream.take offset ++ encNat le r.bytesize wrapped.toNat ++ stream.drop (offset + r.bytesize)

/-- a symbol table section as the relocation code uses it: header fields and the entry struct -/
structure SymTab where
  shOffset : Nat
  shSize : Nat
  shEntsize : Nat

/-- `_do_apply_relocation` from `reloc_type = reloc['r_info_type']` on, i.e. once `sym_value` is known -/
def applyWithSym (le : Bool) (cls : Nat) (arch : String) (stream : Bytes) (reloc : Val) (symValue : Int) : R Bytes := do
  let recipe ← chooseRecipe arch cls reloc
  match recipe with
  | none => .error .elfRelocError
  | some r =>
    -- `if recipe.calc_func is _reloc_calc_identity: return` (R_*_NONE: no field; calc functions are named by the
    -- formula they compute, tools/gen/calcfns.py)
    if r.calcName = "reloc_calc_identity" then return stream
    let off ← reloc.getNat "r_offset"
    applyRecipe le stream r symValue off (reloc.getInt "r_addend")

/-- `_do_apply_relocation(stream, reloc, symtab)` -/
def doApplyRelocation (env : Env) (S : ElfStructs) (le : Bool) (cls : Nat) (arch : String) (data : Bytes)
    (symtab : SymTab) (stream : Bytes) (reloc : Val) : R Bytes := do
  let symIdx ← reloc.getNat "r_info_sym"
  if symtab.shEntsize = 0 then .error .zeroDivision
  if symIdx ≥ symtab.shSize / symtab.shEntsize then .error .elfRelocError
  let sym ← seekParse env S.Elf_Sym data (symtab.shOffset + symIdx * symtab.shEntsize)
  let symValue ← sym.getInt "st_value"
  applyWithSym le cls arch stream reloc symValue

/-- `apply_section_relocations`: relocations are parsed lazily, one at a time, and applied in order -/
def applyLoop (env : Env) (S : ElfStructs) (le : Bool) (cls : Nat) (arch : String) (data : Bytes)
    (symtab : SymTab) (t : RelocTable) : (count i : Nat) → (stream : Bytes) → R Bytes
  | 0, _, stream => .ok stream
  | count+1, i, stream => do
      let reloc ← getRelocation env data t i
      let stream' ← doApplyRelocation env S le cls arch data symtab stream reloc
      applyLoop env S le cls arch data symtab t count (i + 1) stream'

def applySectionRelocations (env : Env) (S : ElfStructs) (le : Bool) (cls : Nat) (arch : String) (data : Bytes)
    (symtab : SymTab) (t : RelocTable) (stream : Bytes) : R Bytes := do
  let n ← numRelocations t
  applyLoop env S le cls arch data symtab t n 0 stream

/-- a section header as `find_relocations_for_section` sees it while iterating all sections -/
structure SecHdr where
  name : String
  shType : Val
  shOffset : Nat
  shSize : Nat
  shEntsize : Nat
  shLink : Nat

/-- `find_relocations_for_section`: sections are constructed one by one (a malformed relocation section
    raises on construction) until the first RelocationSection named `.rel<name>` or `.rela<name>` -/
def findRelocations (S : ElfStructs) (target : String) : List SecHdr → R (Option (SecHdr × RelocTable))
  | [] => .ok none
  | h :: rest =>
    if h.shType == Val.str "SHT_REL" || h.shType == Val.str "SHT_RELA" then do
      let t ← relocSectionInit S h.shType h.shOffset h.shSize h.shEntsize
      if h.name = ".rel" ++ target || h.name = ".rela" ++ target then return some (h, t)
      else findRelocations S target rest
    else findRelocations S target rest

/-- `_read_dwarf_section(section, relocate_dwarf_sections)` as far as the stream contents go.
    `symtabs` resolves `sh_link` to the symbol table section it names. -/
def readDwarfSection (env : Env) (S : ElfStructs) (le : Bool) (cls : Nat) (arch : String) (data : Bytes)
    (secs : List SecHdr) (symtabOf : Nat → Option SymTab) (name : String) (sectionData : Bytes)
    (relocate phantom : Bool) : R Bytes := do
  let stream := if phantom then (sectionData.zipIdx.filter (fun p => p.2 % 2 = 0)).map (·.1) else sectionData
  if relocate then
    match ← findRelocations S name secs with
    | none => return stream
    | some (h, t) =>
      if phantom then .error .elfParseError
      else
        match symtabOf h.shLink with
        | none =>
          -- `symtab.num_symbols()` on a section that is not a symbol table, at the first relocation (if there is one)
          if (← numRelocations t) = 0 then return stream
          let _ ← getRelocation env data t 0
          .error .attributeError
        | some st => applySectionRelocations env S le cls arch data st t stream
  else return stream

end PyElf.Model.Reloc
