/-
  Mirrors of elftools/dwarf/abbrevtable.py (AbbrevTable._parse_abbrev_table, AbbrevDecl),
  elftools/dwarf/die.py (DIE._parse_DIE, _resolve_indirect, _translate_attr_value,
  _translate_indirect_attributes, get_DIE_from_attribute), elftools/dwarf/dwarf_util.py
  (_get_base_offset, _resolve_via_offset_table), elftools/dwarf/compileunit.py and typeunit.py
  (get_top_DIE, iter_DIE_children, _iter_DIE_subtree, get_DIE_from_refaddr) and of
  dwarfinfo.py (_parse_TU_at_offset, _parse_debug_types, get_DIE_by_sig8 = `dieBySig8`, get_addr).
  Unit headers of .debug_info are `Model.Lookup.parseCUAtOffset` (C13).

  Caches (`_dielist`/`_diemap`, `_abbrevtable_cache`, `_terminator`, `_parent`) hold results of
  pure functions of (unit, offset); the model recomputes them.  This is exact for the one
  canonical order of calls C04 observes (iter_DIEs to the end, then children / parent /
  reference queries); independence of the order is C10.
-/
import PyElf.Core.Bundles
import PyElf.Gen.Tables
import PyElf.Model.Utils
import PyElf.Model.DwarfLookup
import PyElf.Spec.DieTree
namespace PyElf.Model.C04
open PyElf PyElf.Model
open PyElf.Spec.C04 (AttrObs DieObs Sections)

/-! ### dicts -/

/-- `self.attributes[name] = …` (insertion-ordered dict: overwrite keeps the position) -/
def attrSet (d : List AttrObs) (a : AttrObs) : List AttrObs :=
  match d with
  | [] => [a]
  | x :: rest => if x.name == a.name then a :: rest else x :: attrSet rest a

def attrGet? (d : List AttrObs) (k : Val) : Option AttrObs := d.find? (·.name == k)

/-- `map[decl_code] = AbbrevDecl(...)` -/
def mapSet (m : List (Nat × Val)) (k : Nat) (v : Val) : List (Nat × Val) :=
  match m with
  | [] => [(k, v)]
  | (k', v') :: rest => if k' = k then (k', v) :: rest else (k', v') :: mapSet rest k v

def mapGet? (m : List (Nat × Val)) (k : Nat) : Option Val := (m.find? (·.1 == k)).map (·.2)

/-! ### abbrevtable.py -/

/-- the `while True` loop of `_parse_abbrev_table` -/
def abbrevLoop (env : Env) (S : DwarfStructs) (data : Bytes) : Nat → Nat → List (Nat × Val) → R (List (Nat × Val))
  | 0, _, _ => .error .outOfFuel
  | fuel+1, pos, m => do
    let (code, p) ← Lookup.parseNat env S.the_Dwarf_uleb128 data pos
    if code = 0 then return m
    let (decl, p') ← structParse env S.Dwarf_abbrev_declaration data p
    abbrevLoop env S data fuel p' (mapSet m code decl)

/-- `AbbrevTable(structs, stream, offset)._abbrev_map` -/
def parseAbbrevTable (env : Env) (S : DwarfStructs) (data : Bytes) (offset : Nat) : R (List (Nat × Val)) := do
  seekCheck offset
  abbrevLoop env S data (data.length + 2) offset []

/-- `DWARFInfo.get_abbrev_table(offset)`; `sec = none` is `debug_abbrev_sec is None` -/
def getAbbrevTable (env : Env) (S0 : DwarfStructs) (sec : Option Bytes) (offset : Nat) : R (List (Nat × Val)) :=
  match sec with
  | none => .error .attributeError
  | some data =>
    if ¬ offset < data.length then .error .dwarfError
    else parseAbbrevTable env S0 data offset

/-! ### unit context -/

/-- what a DIE sees of its unit and of the DWARFInfo -/
structure UnitCtx where
  S : DwarfStructs                       -- cu.structs
  env : Env
  data : Bytes                           -- the stream of the section the unit lives in
  abbrevs : R (List (Nat × Val))         -- cu.get_abbrev_table()._abbrev_map, or what building it raises
  cuOffset : Nat
  cuDieOffset : Nat
  size : Nat                             -- cu.size
  fmt : Nat                              -- cu.structs.dwarf_format
  addrSize : Nat                         -- cu.header.address_size
  secs : Sections
  raw2name : Nat → Option String         -- DW_FORM_raw2name

/-- `DW_FORM_raw2name` regenerated from /repo -/
def genRaw2name (code : Nat) : Option String :=
  match Gen.constTables.find? (·.1 == "DW_FORM_raw2name") with
  | some (_, t) => (t.find? (·.2 == (code : Int))).map (·.1)
  | none => none

/-- `structs.Dwarf_dw_form[form]`.  `DW_FORM_ref` (a pre-standard form the bundles' form list does not
    carry) is the 4-byte reader in structs.py: `Dwarf_dw_form['DW_FORM_ref'] = the_Dwarf_uint32`, regenerated
    by tools/gen/extra_c04.py and tied by Props/TieC04 `form_ref_entry` / `form_extra_keys`. -/
def formParser (S : DwarfStructs) (form : Val) : R Con :=
  match form with
  | .str f =>
    if f = "DW_FORM_ref" then .ok S.the_Dwarf_uint32
    else match S.form f with
      | some c => .ok c
      | none => .error .keyError
  | _ => .error .keyError

/-- parsing with a dict entry that is `None` (DW_FORM_implicit_const): `None.parse_stream` -/
def parseWith (env : Env) (c : Con) (data : Bytes) (pos : Nat) : R (Val × Nat) :=
  match c with
  | .unsupported "None" => .error .attributeError
  | c => structParse env c data pos

/-! ### value translation -/

/-- Python `base + n` for an attribute value `base` and an int `n` -/
def pyAddInt (base : Val) (n : Int) : R Int := do return (← base.asInt) + n

/-- `struct_parse(struct, stream, pos)` for a computed (possibly negative) position -/
def structParseAtInt (env : Env) (c : Con) (data : Bytes) (pos : Int) : R (Val × Nat) :=
  if pos < -((2 ^ 63 : Nat) : Int) then .error .elfParseError
  else if pos < 0 then .error .valueError
  else structParseAt env c data pos.toNat

/-- `get_string_from_table` / `get_string_from_linetable` -/
def getString (sec : Option Bytes) (off : Val) : R Val :=
  match sec with
  | none => .error .attributeError
  | some data => do
    let o ← off.asInt
    if o < 0 then .error .valueError
    match ← parseCStringAt data o.toNat with
    | some s => return .bytes s
    | none => return .none

/-- `_get_base_offset(cu, name)`; `top` = the attributes of the cached top DIE -/
def getBaseOffset (top : List AttrObs) (name : String) : R Val :=
  match attrGet? top (.str name) with
  | some a => .ok a.value
  | none => .error .dwarfError

def addrxForms : List String := ["DW_FORM_addrx", "DW_FORM_addrx1", "DW_FORM_addrx2", "DW_FORM_addrx3", "DW_FORM_addrx4"]
def strxForms : List String := ["DW_FORM_strx", "DW_FORM_strx1", "DW_FORM_strx2", "DW_FORM_strx3", "DW_FORM_strx4"]

/-- `_resolve_via_offset_table(stream, cu, index, base_attribute_name)` -/
def resolveViaOffsetTable (U : UnitCtx) (sec : Option Bytes) (top : List AttrObs) (raw : Val) (baseName : String) :
    R Val :=
  match sec with
  | none => .error .attributeError
  | some data => do
    let base ← getBaseOffset top baseName
    let offsetSize : Int := if U.fmt = 32 then 4 else 8
    let idx ← raw.asInt
    let pos ← pyAddInt base (idx * offsetSize)
    let (v, _) ← structParseAtInt U.env U.S.the_Dwarf_offset data pos
    return .int ((← base.asInt) + (← v.asInt))

/-- `DIE._translate_attr_value(form, raw_value)`; `ti = none` when `translate_indirect` is false
    (the top DIE while it is being parsed), otherwise the attributes of the cached top DIE -/
def translate (U : UnitCtx) (ti : Option (List AttrObs)) (form raw : Val) : R Val :=
  match form with
  | .str "DW_FORM_strp" => getString U.secs.str raw
  | .str "DW_FORM_line_strp" => getString U.secs.lineStr raw
  | .str "DW_FORM_flag" => .ok (.bool (!(raw == .int 0)))
  | .str "DW_FORM_flag_present" => .ok (.bool true)
  | .str f =>
    match ti with
    | none => .ok raw
    | some top =>
      if addrxForms.contains f then
        -- DWARFInfo.get_addr
        match U.secs.addr with
        | none => .error .dwarfError
        | some data => do
          let base ← getBaseOffset top "DW_AT_addr_base"
          let idx ← raw.asInt
          let pos ← pyAddInt base (idx * U.addrSize)
          let (v, _) ← structParseAtInt U.env U.S.the_Dwarf_target_addr data pos
          return v
      else if strxForms.contains f then
        match U.secs.strOffsets with
        | none => .error .attributeError
        | some data => do
          let base ← getBaseOffset top "DW_AT_str_offsets_base"
          let offsetSize : Int := if U.fmt = 32 then 4 else 8
          let idx ← raw.asInt
          let pos ← pyAddInt base (idx * offsetSize)
          let (v, _) ← structParseAtInt U.env U.S.the_Dwarf_offset data pos
          getString U.secs.str v
      else if f = "DW_FORM_loclistx" then resolveViaOffsetTable U U.secs.loclists top raw "DW_AT_loclists_base"
      else if f = "DW_FORM_rnglistx" then resolveViaOffsetTable U U.secs.rnglists top raw "DW_AT_rnglists_base"
      else .ok raw
  | _ => .ok raw

/-! ### DIE._parse_DIE -/

/-- the `while True` loop of `_resolve_indirect`; returns (form, raw_value, stream position) -/
def indirectLoop (U : UnitCtx) : Nat → Nat → Nat → R (Val × Val × Nat)
  | 0, _, _ => .error .outOfFuel
  | fuel+1, pos, code =>
    match U.raw2name code with
    | none => .error .dwarfError
    | some realForm => do
      let c ← formParser U.S (.str realForm)
      let (raw, p) ← parseWith U.env c U.data pos
      if realForm ≠ "DW_FORM_indirect" then return (.str realForm, raw, p)
      else indirectLoop U fuel p (← raw.asNat)

def resolveIndirect (U : UnitCtx) (pos : Nat) : R (Val × Val × Nat) := do
  let (code, p) ← Lookup.parseNat U.env U.S.the_Dwarf_uleb128 U.data pos
  indirectLoop U (U.data.length + 2) p code

/-- `for spec in abbrev_decl['attr_spec']` -/
def attrLoop (U : UnitCtx) (ti : Option (List AttrObs)) : List Val → Nat → List AttrObs → R (List AttrObs × Nat)
  | [], pos, acc => .ok (acc, pos)
  | spec :: rest, pos, acc => do
    let form ← spec.getField "form"
    let name ← spec.getField "name"
    if form == .str "DW_FORM_implicit_const" then
      let value ← spec.getField "value"
      attrLoop U ti rest pos (attrSet acc ⟨name, form, value, value, pos⟩)
    else if form == .str "DW_FORM_indirect" then
      let (form', raw, p) ← resolveIndirect U pos
      let value ← translate U ti form' raw
      attrLoop U ti rest p (attrSet acc ⟨name, form', value, raw, pos⟩)
    else
      let c ← formParser U.S form
      let (raw, p) ← parseWith U.env c U.data pos
      let value ← translate U ti form raw
      attrLoop U ti rest p (attrSet acc ⟨name, form, value, raw, pos⟩)

/-- `DIE(cu, stream, offset)` -/
def parseDIE (U : UnitCtx) (ti : Option (List AttrObs)) (offset : Nat) : R DieObs := do
  seekCheck offset
  let (code, p) ← Lookup.parseNat U.env U.S.the_Dwarf_uleb128 U.data offset
  if code = 0 then return ⟨offset, p - offset, 0, .none, .none, []⟩
  let m ← U.abbrevs
  let some decl := mapGet? m code | .error .keyError
  let tag ← decl.getField "tag"
  let flag ← decl.getField "children_flag"
  match ← decl.getField "attr_spec" with
  | .list specs =>
    let (attrs, p') ← attrLoop U ti specs p []
    return ⟨offset, p' - offset, code, tag, .bool (flag == .str "DW_CHILDREN_yes"), attrs⟩
  | _ => .error .typeError

def indexForms : List String := strxForms ++ addrxForms ++ ["DW_FORM_loclistx", "DW_FORM_rnglistx"]

/-- `DIE._translate_indirect_attributes()`: `todo` = the items being iterated, `cur` = the dict -/
def retranslate (U : UnitCtx) : List AttrObs → List AttrObs → R (List AttrObs)
  | [], cur => .ok cur
  | a :: todo, cur =>
    match a.form with
    | .str f =>
      if indexForms.contains f then do
        let v ← translate U (some cur) a.form a.raw
        retranslate U todo (attrSet cur { a with value := v })
      else retranslate U todo cur
    | _ => retranslate U todo cur

/-- `CompileUnit.get_top_DIE()` / `TypeUnit.get_top_DIE()` (first call) -/
def getTopDIE (U : UnitCtx) : R DieObs := do
  let top ← parseDIE U none U.cuDieOffset
  let attrs ← retranslate U top.attrs top.attrs
  return { top with attrs := attrs }

/-- does `get_top_DIE` raise AFTER it has cached the parsed top DIE (in the deferred
    `_translate_indirect_attributes` hook)?  The unit then keeps a half-translated top DIE and later
    calls behave differently from the first one: state after a failure, C10's subject. -/
def topHookFails (U : UnitCtx) : Bool :=
  match parseDIE U none U.cuDieOffset with
  | .error _ => false
  | .ok top => match retranslate U top.attrs top.attrs with
    | .error _ => true
    | .ok _ => false

/-- `_get_cached_DIE(offset)`: the top DIE is built by `get_top_DIE` first; the DIE at the top
    DIE's offset is that object, every other one is parsed at its offset -/
def getCachedDIE (U : UnitCtx) (offset : Nat) : R DieObs := do
  let top ← getTopDIE U
  if offset = U.cuDieOffset then return top
  parseDIE U (some top.attrs) offset

/-! ### iteration (compileunit.py / typeunit.py) -/

def unitRefForms : List String :=
  ["DW_FORM_ref1", "DW_FORM_ref2", "DW_FORM_ref4", "DW_FORM_ref8", "DW_FORM_ref", "DW_FORM_ref_udata"]

/-- the `elif "DW_AT_sibling" in child.attributes:` branch: `none` = no such attribute -/
def siblingNext (cuOffset : Nat) (child : DieObs) : Option (R Nat) :=
  match attrGet? child.attrs (.str "DW_AT_sibling") with
  | none => none
  | some sib =>
    match sib.form with
    | .str f =>
      if unitRefForms.contains f then some (do return ((← sib.value.asInt) + cuOffset).toNat)
      else if f = "DW_FORM_ref_addr" then some (do return (← sib.value.asInt).toNat)
      else some (.error .notImplemented)
    | _ => some (.error .notImplemented)

mutual
/-- `_iter_DIE_subtree(die)` driven to exhaustion; each DIE is paired with the `_parent` that
    `iter_DIE_children` recorded for it (`none` for the DIE the walk starts at) -/
def subtree (G : Nat → R DieObs) (cuOffset : Nat) : Nat → DieObs → Option Nat → R (List (DieObs × Option Nat))
  | 0, _, _ => .error .outOfFuel
  | fuel+1, die, parent =>
    if die.kids then do
      let (sub, _) ← childWalk G cuOffset fuel die.offset (die.offset + die.size)
      return (die, parent) :: sub
    else .ok [(die, parent)]
/-- `iter_DIE_children(die)` as `_iter_DIE_subtree` consumes it: after each yielded child the
    consumer walks the child's subtree (which records the child's `_terminator`) before the
    generator resumes.  Returns the flattened subtrees followed by the terminator, and the terminator. -/
def childWalk (G : Nat → R DieObs) (cuOffset : Nat) : Nat → Nat → Nat → R (List (DieObs × Option Nat) × DieObs)
  | 0, _, _ => .error .outOfFuel
  | fuel+1, parent, cur => do
    let child ← G cur
    if child.isNull then return ([(child, some parent)], child)
    let sub ← subtree G cuOffset fuel child (some parent)
    let next ←
      if !child.kids then pure (cur + child.size)
      else match siblingNext cuOffset child with
        | some r => r
        | none =>
          -- `child._terminator` was set when the consumer exhausted `iter_children(child)`
          match sub.getLast? with
          | some (t, _) => pure (t.offset + t.size)
          | none => .error .attributeError
    let (rest, term) ← childWalk G cuOffset fuel parent next
    return (sub ++ rest, term)
end

/-- `list(cu.iter_DIEs())` with each DIE's recorded parent offset -/
def iterDIEs (G : Nat → R DieObs) (cuOffset cuDieOffset fuel : Nat) : R (List (DieObs × Option Nat)) := do
  let top ← G cuDieOffset
  subtree G cuOffset fuel top none

/-- `[c.offset for c in die.iter_children()]` together with the terminator, on fully cached units
    (every `_terminator` is the one a walk of that child's list finds) -/
def iterChildren (G : Nat → R DieObs) (cuOffset : Nat) : Nat → Nat → R (List DieObs × DieObs)
  | 0, _ => .error .outOfFuel
  | fuel+1, cur => do
    let child ← G cur
    if child.isNull then return ([], child)
    let next ←
      if !child.kids then pure (cur + child.size)
      else match siblingNext cuOffset child with
        | some r => r
        | none => do
          let (_, t) ← iterChildren G cuOffset fuel (child.offset + child.size)
          pure (t.offset + t.size)
    let (rest, term) ← iterChildren G cuOffset fuel next
    return (child :: rest, term)

def childrenOf (G : Nat → R DieObs) (cuOffset fuel : Nat) (die : DieObs) : R (List Nat) :=
  if die.kids then do
    let (cs, _) ← iterChildren G cuOffset fuel (die.offset + die.size)
    return cs.map (·.offset)
  else .ok []

/-! ### references -/

/-- `CompileUnit.get_DIE_from_refaddr(refaddr)` -/
def unitDIEFromRefaddr (U : UnitCtx) (refaddr : Nat) : R DieObs :=
  if U.cuDieOffset ≤ refaddr ∧ refaddr < U.cuOffset + U.size then getCachedDIE U refaddr
  else .error .dwarfError

inductive RefTarget
  | unitRel (refaddr : Nat)        -- cu.get_DIE_from_refaddr(cu_offset + raw)
  | section (refaddr : Int)        -- dwarfinfo.get_DIE_from_refaddr(raw)
  | sig8 (sig : Int)               -- dwarfinfo.get_DIE_by_sig8(raw)
  deriving Repr

def sigForms : List String := ["DW_FORM_ref_sig8"]
def supForms : List String := ["DW_FORM_ref_sup4", "DW_FORM_ref_sup8", "DW_FORM_GNU_ref_alt"]

/-- the dispatch of `DIE.get_DIE_from_attribute(name)` (no supplementary file).
    `attr.form in ('DW_FORM_ref_addr')` is a substring test on a str. -/
def refTarget (cuOffset : Nat) (die : DieObs) (name : Val) : R RefTarget :=
  match attrGet? die.attrs name with
  | none => .error .keyError
  | some a =>
    match a.form with
    | .str f =>
      if unitRefForms.contains f then do return .unitRel ((cuOffset : Int) + (← a.raw.asInt)).toNat
      else if f = "DW_FORM_ref_addr" then do return .section (← a.raw.asInt)
      else if f = "DW_FORM_ref_sig8" then do return .sig8 (← a.raw.asInt)
      else if supForms.contains f then .error .notImplemented
      else .error .dwarfError
    | _ => .error .typeError

/-! ### type units -/

/-- `DWARFInfo._parse_TU_at_offset`: (header, format, die offset) -/
def parseTUAtOffset (enumDecode : String → Int → Option String) (structsOf : DwarfCfg → Option DwarfStructs)
    (S0 : DwarfStructs) (le : Bool) (data : Bytes) (offset : Nat) : R Lookup.CU := do
  let env0 : Env := { enumDecode := enumDecode, forms := S0.form }
  let (il, _) ← Lookup.parseNat env0 S0.the_Dwarf_uint32 data offset
  let fmt := if il = 0xFFFFFFFF then 64 else 32
  let some S1 := structsOf ⟨le, fmt, 4, 2⟩ | .error .assertion
  let env1 : Env := { enumDecode := enumDecode, forms := S1.form }
  let (hdr, p) ← structParse env1 S1.Dwarf_TU_header data offset
  let asz ← hdr.getNat "address_size"
  let ver ← hdr.getNat "version"
  if asz ≠ 8 ∧ asz ≠ 4 then .error .assertion
  else if ¬ (2 ≤ ver ∧ ver ≤ 5) then .error .dwarfError
  else return ⟨hdr, fmt, offset, p⟩

/-- `_parse_CUs_iter` / `_parse_TUs_iter` driven to exhaustion: the units, and the exception
    that ended the iteration if any -/
def unitsLoop (P : Nat → R Lookup.CU) (size : Nat) : Nat → Nat → List Lookup.CU → List Lookup.CU × Option Err
  | 0, _, acc => (acc.reverse, some .outOfFuel)
  | fuel+1, offset, acc =>
    if offset < size then
      match P offset with
      | .error e => (acc.reverse, some e)
      | .ok cu =>
        match cu.size with
        | .error e => (acc.reverse, some e)
        | .ok sz => unitsLoop P size fuel (offset + sz) (cu :: acc)
    else (acc.reverse, none)

/-- the key `_parse_debug_types` files a type unit under: `tu['signature']` for a unit of `.debug_types`
    (`Dwarf_TU_header`), `cu['type_signature']` for a DWARF 5 type unit of `.debug_info` (`Dwarf_CU_header`,
    DW_UT_type / DW_UT_split_type variant; that header has no field called `signature`) -/
def unitSig (h : Val) : R Int :=
  match h.getInt "signature" with
  | .ok s => .ok s
  | .error _ => h.getInt "type_signature"

/-- `cu.header.get('unit_type') in ('DW_UT_type', 'DW_UT_split_type')`: the units of `.debug_info` that
    `_parse_debug_types` enters into the signature map (after the fix for sig8-v5-type-unit) -/
def isV5TypeUnit (cu : Lookup.CU) : Bool :=
  match cu.header.getField "unit_type" with
  | .ok (.str s) => s == "DW_UT_type" || s == "DW_UT_split_type"
  | _ => false

/-- `DWARFInfo.get_DIE_by_sig8(sig8)`.  `units` = the type units `_parse_debug_types` finds: those of `.debug_types`
    followed by the DWARF 5 type units of `.debug_info`
    (each with the unit context its entries are parsed in, or what building that raises), `scanErr` = the
    exception that ended that scan, if any: the map is published only when the scan completes, so EVERY lookup
    re-raises it (after the fix of `_parse_debug_types`).  The dict is keyed by signature: the last unit with a
    signature wins.  `fetch` is `tu._get_cached_DIE`.  Returns the unit's offset and the entry at its type_offset. -/
def dieBySig8 (fetch : UnitCtx → Nat → R DieObs) (units : List (Lookup.CU × R UnitCtx)) (scanErr : Option Err)
    (sig : Int) : R (Nat × DieObs) := do
  match scanErr with
  | some e => throw e
  | none => pure ()
  let hit := units.foldl (fun acc (cu, rU) =>
    match unitSig cu.header with
    | .ok s => if s = sig then some (cu, rU) else acc
    | .error _ => acc) none
  match hit with
  | none => .error .keyError
  | some (cu, rU) => do
    let to ← cu.header.getNat "type_offset"
    let U ← rU
    let d ← fetch U (cu.cuOffset + to)
    return (cu.cuOffset, d)

end PyElf.Model.C04
