/-
  C05: the glue between `.debug_info` and the line-program code.

  Model/LineProgram.lean takes the attributes of the unit's top entry and the unit's `structs` as
  arguments.  Here they are PRODUCED from section bytes by the model of `dwarfinfo.iter_CUs()` and
  `cu.get_top_DIE()` (Model/DieSection.lean, Model/Die.lean — C04's model):

      for cu in dwarfinfo.iter_CUs():
          lp = dwarfinfo.line_program_for_CU(cu)      # top_DIE = CU.get_top_DIE()
                                                      # if 'DW_AT_stmt_list' in top_DIE.attributes:
                                                      #     self._parse_line_program_at_offset(
                                                      #         top_DIE.attributes['DW_AT_stmt_list'].value, CU.structs)

  Units of one `DWARFInfo` have different `structs` (format, address size, version) while
  `_linetable_cache` is keyed by the offset alone: a `LineProgram` object remembers the `structs` it was
  created with and decodes with them, whichever unit asks (`LP`).
-/
import PyElf.Model.LineProgram
import PyElf.Model.DieSection
import PyElf.Model.Env
namespace PyElf.Model.LineInfo
open PyElf PyElf.Model
open PyElf.Spec.C04 (AttrObs DieObs Sections)
open PyElf.Model.C04 (DInfo UnitCtx getTopDIE sectionUnits)
open PyElf.Model.Line (LineProg LnConsts Entry)

/-- a `LineProgram` object: Model/LineProgram's part and `self.structs` -/
structure LP where
  lp : LineProg
  S : DwarfStructs

/-- `_linetable_cache` -/
abbrev LCache := List (Nat × LP)

/-- the `DWARFInfo` as far as line programs are concerned, besides `Model.C04.DInfo`: `debug_line_sec`, and
    `supplementary_dwarfinfo` with its `.debug_str` (`some none`: attached, without that section) -/
structure LineWorld where
  line : Option Bytes
  sup : Option (Option Bytes) := none

/-- the string sections `_parse_line_program_at_offset` reads from -/
def lineSecsOf (s : Sections) (sup : Option (Option Bytes)) : Line.Secs :=
  { lineStr := s.lineStr, str := s.str, sup := sup }

/-- the enum environment a struct of the bundle `S` is parsed in (`UnitCtx.env` of the unit that owns `S`) -/
def envOf (ed : String → Int → Option String) (S : DwarfStructs) : Env := { enumDecode := ed, forms := S.form }

/-- `die.attributes.get(k)`: `attributes` is a dict filled in entry order, a repeated name keeps the LAST value -/
def lastNamed (k : Val) : List AttrObs → Option AttrObs → Option AttrObs
  | [], acc => acc
  | a :: as, acc => lastNamed k as (if a.name == k then some a else acc)

/-- `_parse_line_program_at_offset(offset, structs)` with `structs = CU.structs` of the unit `U`, for an `offset`
    that is a natural number -/
def parseAtNat (L : LineWorld) (U : UnitCtx) (cache : LCache) (offset : Nat) : R (LP × LCache) :=
  match cache.find? (·.1 == offset) with
  | some (_, x) => .ok (x, cache)
  | none =>
    match L.line with
    -- self.debug_line_sec.stream
    | none => .error .attributeError
    | some data => do
      let lp ← Line.parseLineProgramFresh U.env U.S U.fmt (lineSecsOf U.secs L.sup) data offset
      return (⟨lp, U.S⟩, cache ++ [(offset, ⟨lp, U.S⟩)])

/-- `_parse_line_program_at_offset(value, structs)` for whatever `.value` the attribute has, in the order the
    code looks at it: `value in self._linetable_cache` hashes it (a list — the value of a block form — is
    unhashable: TypeError; the keys are the offsets of successful parses, so only a non-negative int, or a bool
    standing for 0 / 1, can be present); then `self.debug_line_sec.stream` (AttributeError without the section);
    then `stream.seek(value)` (ValueError for a negative number, TypeError for bytes).  `None` (a dangling
    DW_FORM_strp) would make `struct_parse` skip the seek and read wherever the stream stands: stream state, not
    modelled (the harness never builds it). -/
def parseAt (L : LineWorld) (U : UnitCtx) (cache : LCache) (value : Val) : R (LP × LCache) :=
  match value with
  | .list _ | .record _ => .error .typeError
  | .none => .error .notImplemented
  | _ =>
    match value.asInt with
    | .ok k =>
      if k < 0 then (match L.line with | none => .error .attributeError | some _ => .error .valueError)
      else parseAtNat L U cache k.toNat
    | .error _ => match L.line with | none => .error .attributeError | some _ => .error .typeError

/-- `dwarfinfo.line_program_for_CU(cu)` on the unit object whose entries are decoded in the context `U` -/
def lineProgramForUnit (L : LineWorld) (U : UnitCtx) (cache : LCache) : R (Option LP × LCache) := do
  let top ← getTopDIE U
  match lastNamed (.str "DW_AT_stmt_list") top.attrs none with
  | none => .ok (none, cache)
  | some a => do
    let (x, cache') ← parseAt L U cache a.value
    return (some x, cache')

/-- `[dwarfinfo.line_program_for_CU(cu) for cu in …]` over unit objects with their contexts; an exception
    leaves `_linetable_cache` as it was (the object is cached last) -/
def lineProgramsLoop (L : LineWorld) : List (Lookup.CU × R UnitCtx) → LCache → List (Lookup.CU × R (Option LP))
  | [], _ => []
  | (cu, rU) :: rest, cache =>
    match rU >>= fun U => lineProgramForUnit L U cache with
    | .error e => (cu, .error e) :: lineProgramsLoop L rest cache
    | .ok (r, cache') => (cu, .ok r) :: lineProgramsLoop L rest cache'

/-- `[(cu, dwarfinfo.line_program_for_CU(cu)) for cu in dwarfinfo.iter_CUs()]` from section bytes, on a fresh
    `DWARFInfo`; and the exception that ended the unit iteration, if any -/
def infoLinePrograms (w : DInfo) (S0 : DwarfStructs) (L : LineWorld) :
    List (Lookup.CU × R (Option LP)) × Option Err :=
  let (us, e) := sectionUnits w S0 w.info false
  (lineProgramsLoop L us [], e)

/-- `lp._decode_line_program()` of a `LineProgram` object: with the `structs` it was created with -/
def decodeLP (ed : String → Int → Option String) (K : LnConsts) (data : Bytes) (x : LP) :
    R (List Entry × Option (List Val) × Nat) :=
  Line.decodeLineProgram (envOf ed x.S) x.S K data x.lp

/-- `lp.get_entries()` -/
def getEntriesLP (ed : String → Int → Option String) (K : LnConsts) (data : Bytes) (x : LP) :
    R (List Entry × LP × Option Nat) := do
  let (es, lp', tell) ← Line.getEntries (envOf ed x.S) x.S K data x.lp
  return (es, { x with lp := lp' }, tell)

/-- mutation of a cached `LineProgram` object, seen through `_linetable_cache` -/
def LCache.update (cache : LCache) (offset : Nat) (x : LP) : LCache :=
  cache.map fun (o, y) => if o == offset then (o, x) else (o, y)

end PyElf.Model.LineInfo
