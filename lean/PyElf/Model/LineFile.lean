/-
  C05: line programs of a whole FILE.

      di = ELFFile(stream).get_dwarf_info(relocate_dwarf_sections, follow_links)
      [(cu, di.line_program_for_CU(cu)) for cu in di.iter_CUs()]

  `get_dwarf_info` is C11's model (Model/DwarfView.lean: section lookup by name, `.zdebug` renaming, gABI / legacy
  decompression, relocation, links); what it hands to `DWARFInfo(config, **sections)` is the `View` — per keyword the
  stream of the `DebugSectionDescriptor` — from which `dinfoOfView` builds the `DWARFInfo` of C04's model and of
  Model/LineInfo.lean.
-/
import PyElf.Model.LineInfo
import PyElf.Model.DwarfView
namespace PyElf.Model.LineInfo
open PyElf PyElf.Model
open PyElf.Model.C11 (View SecView V VErr Params Loader dwarfView)

/-- `DWARFInfo.<keyword>.stream` (the whole section as the container delivers it), `None` sections absent -/
def viewSec (secs : List (String × Option SecView)) (k : String) : Option Bytes :=
  match secs.find? (·.1 == k) with
  | some (_, some sv) => some sv.stream
  | _ => none

/-- `DWARFInfo(config, debug_info_sec = …, …)` as C04's model and the line-program model see it:
    `config.little_endian`, `config.default_address_size`, the sections; a supplementary file's `.debug_str` -/
def dinfoOfView : View → C04.DInfo × LineWorld
  | .mk le asz _ secs sup =>
    (C04.genDInfo le asz (viewSec secs "debug_info_sec") (viewSec secs "debug_abbrev_sec") (viewSec secs "debug_types_sec")
        { str := viewSec secs "debug_str_sec", lineStr := viewSec secs "debug_line_str_sec",
          addr := viewSec secs "debug_addr_sec", strOffsets := viewSec secs "debug_str_offsets_sec",
          loclists := viewSec secs "debug_loclists_sec", rnglists := viewSec secs "debug_rnglists_sec" },
     { line := viewSec secs "debug_line_sec",
       sup := sup.map fun | .mk _ _ _ s _ => viewSec s "debug_str_sec" })

/-- the line programs of the units of a `DWARFInfo` built from a view; `DWARFInfo.structs` is the bundle of
    (byte order, 32-bit format, default address size, version 2) -/
def viewLinePrograms (v : View) : List (Lookup.CU × R (Option LP)) × Option Err :=
  let (w, W) := dinfoOfView v
  match Model.dwarfStructsFor ⟨w.le, 32, w.dasz, 2⟩ with
  | some S0 => infoLinePrograms w S0 W
  | none => ([], some .assertion)

/-- `[(cu, di.line_program_for_CU(cu)) for cu in di.iter_CUs()]` on `di = ELFFile(BytesIO(data)).get_dwarf_info(…)` -/
def fileLinePrograms (P : Params) (fuel : Nat) (loader : Option Loader) (data : Bytes) (relocate followLinks : Bool) :
    V (List (Lookup.CU × R (Option LP)) × Option Err) :=
  (dwarfView P fuel loader data relocate followLinks).map viewLinePrograms

end PyElf.Model.LineInfo
