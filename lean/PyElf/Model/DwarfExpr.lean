/-
  Mirror of elftools/dwarf/dwarf_expr.py (`DWARFExprParser.parse_expr` and the closures
  `_init_dispatch_table` builds) and of `read_blob` / `struct_parse` from common/utils.py.

  The dispatch table `D` (opcode → operand parsers) and the reverse name table `N`
  (`DW_OP_opcode2name`) are parameters: the driver and the theorems instantiate them with
  the tables regenerated from the code (`Gen.opDispatch`, `Gen.opOpcode2Name`).
-/
import PyElf.Core.Construct
import PyElf.Spec.DwarfExprKinds
namespace PyElf.Model
open PyElf PyElf.Spec

/-- `read_blob(stream, length)`: `[struct_parse(ULInt8(''), stream) for i in range(length)]`;
    one byte per iteration, EOF is the construct FieldError → ELFParseError.  Returns the bytes
    (Python: a list of ints in 0..255) and the stream position afterwards. -/
def readBlob (data : Bytes) : Nat → Nat → Bytes → R (Bytes × Nat)
  | 0, pos, acc => .ok (acc.reverse, pos)
  | n+1, pos, acc =>
    match data[pos]? with
    | none => .error .elfParseError
    | some b => readBlob data n (pos + 1) (b :: acc)

/-- a Python list of byte values -/
def blobVal (b : Bytes) : Val := .list (b.map fun x => .int x.toNat)

/-- `'%x' % op` -/
def hexStr (n : Nat) : String := String.ofList (Nat.toDigits 16 n)

/-- the construct a scalar operand kind stands for -/
def scalarCon : ArgKind → Option Con
  | .u n le => some (.uint n le)
  | .s n le => some (.sint n le)
  | .uleb => some .uleb
  | .sleb => some .sleb
  | _ => none

/-- one element of the argument list a dispatch closure builds.  `nested blob` is
    `DWARFExprParser(structs).parse_expr(blob)`.  Returns the Python values appended to
    `args` and the stream position. -/
def parseArg (nested : Bytes → R (List Val)) (data : Bytes) (k : ArgKind) (pos : Nat) : R (List Val × Nat) :=
  match k with
  | .u n le => do      -- struct_parse(arg_struct, stream)
      let (v, p) ← structParse Env.empty (.uint n le) data pos
      return ([v], p)
  | .s n le => do
      let (v, p) ← structParse Env.empty (.sint n le) data pos
      return ([v], p)
  | .uleb => do
      let (v, p) ← structParse Env.empty .uleb data pos
      return ([v], p)
  | .sleb => do
      let (v, p) ← structParse Env.empty .sleb data pos
      return ([v], p)
  | .block => do       -- parse_blob: read_blob(stream, struct_parse(uleb128, stream))
      let (n, p) ← structParse Env.empty .uleb data pos
      let n ← n.asNat
      let (bs, p') ← readBlob data n p []
      return ([blobVal bs], p')
  | .block1 => do      -- second element of parse_typedblob: read_blob(stream, struct_parse(uint8, stream))
      let (n, p) ← structParse Env.empty (.uint 1 true) data pos
      let n ← n.asNat
      let (bs, p') ← readBlob data n p []
      return ([blobVal bs], p')
  | .expr => do        -- parse_nestedexpr
      let (n, p) ← structParse Env.empty .uleb data pos
      let n ← n.asNat
      let (bs, p') ← readBlob data n p []
      let ops ← nested bs
      return ([.list ops], p')
  | .wasm le => do     -- parse_wasmloc
      let (op, p) ← structParse Env.empty (.uint 1 le) data pos
      let opn ← op.asInt
      if 0 ≤ opn ∧ opn ≤ 2 then
        let (v, p') ← structParse Env.empty .uleb data p
        return ([op, v], p')
      else if opn = 3 then
        let (v, p') ← structParse Env.empty (.uint 4 le) data p
        return ([op, v], p')
      else .error .dwarfError
  | .refused _ => .error .notImplemented

/-- the closure's list display, left to right -/
def parseArgs (nested : Bytes → R (List Val)) (data : Bytes) : List ArgKind → Nat → R (List Val × Nat)
  | [], pos => .ok ([], pos)
  | k :: ks, pos => do
      let (vs, p) ← parseArg nested data k pos
      let (ws, p') ← parseArgs nested data ks p
      return (vs ++ ws, p')

def exprOpVal (op : Nat) (name : String) (args : List Val) (offset : Nat) : Val :=
  .record [("op", .int op), ("op_name", .str name), ("args", .list args), ("offset", .int offset)]

/-- the `while True` loop of `parse_expr`.  `fuel` bounds loop iterations plus nesting depth;
    `expr.length + 1` always suffices (every iteration consumes the opcode byte, a nested blob is
    at least two bytes shorter than what is left of its parent). -/
def parseExprLoop (D : List (Nat × List ArgKind)) (N : List (Nat × String)) :
    Nat → Bytes → Nat → List Val → R (List Val)
  | 0, _, _, _ => .error .outOfFuel
  | fuel+1, data, pos, parsed =>
    -- offset = stream.tell(); byte = stream.read(1); if not byte: break
    match data[pos]? with
    | none => .ok parsed.reverse
    | some byte =>
      let op := byte.toNat
      -- op_name = DW_OP_opcode2name.get(op, 'OP:0x%x' % op)
      let opName := match N.lookup op with
        | some s => s
        | none => "OP:0x" ++ hexStr op
      -- arg_parser = self._dispatch_table[op]
      match D.lookup op with
      | none => .error .keyError
      | some kinds =>
        match parseArgs (fun blob => parseExprLoop D N fuel blob 0 []) data kinds (pos + 1) with
        | .error e => .error e
        | .ok (args, pos') => parseExprLoop D N fuel data pos' (exprOpVal op opName args pos :: parsed)

/-- `DWARFExprParser(structs).parse_expr(expr)` -/
def parseExpr (D : List (Nat × List ArgKind)) (N : List (Nat × String)) (expr : Bytes) : R (List Val) :=
  parseExprLoop D N (expr.length + 1) expr 0 []

end PyElf.Model
