/-
  C13, fourth wave: the `DWARFInfo` entry points around the lookup tables, with ABSENT sections.

  Mirrors of dwarfinfo.py `get_aranges` (`None` when the file has no `.debug_aranges`),
  `get_pubnames` / `get_pubtypes` (same), and the first assertion of `get_CU_containing` /
  `get_CU_at` (`dwarf_assert(self.has_debug_info, …)`), which `Model/DwarfLookup.lean` leaves out
  because it is parameterised by a present section.  A section descriptor is a non-empty
  namedtuple, so `if self.debug_…_sec:` is exactly `is not None`; a present section of size 0 is
  `some []`.
-/
import PyElf.Model.DwarfLookup
namespace PyElf.Model.Lookup
open PyElf

/-- `DWARFInfo.get_aranges()` -/
def getAranges (env : Env) (S : DwarfStructs) (sec : Option Bytes) : R (Option ARanges) :=
  match sec with
  | none => .ok none
  | some data => do
    let t ← ARanges.init env S 32 data data.length
    return some t

/-- `DWARFInfo.get_pubnames()` / `get_pubtypes()` followed by a first use of the (lazy) table -/
def getNameLUT (env : Env) (S : DwarfStructs) (sec : Option Bytes) : R (Option (NameDict × List Val)) :=
  match sec with
  | none => .ok none
  | some data => do
    let r ← nameGetEntries env S 32 data data.length
    return some r

/-- `DWARFInfo.get_CU_containing(refaddr)` from its first line: `info = none` is a file without
    `.debug_info` (`dwarf_assert(self.has_debug_info, 'CU lookup but no debug info section')`) -/
def getCUContainingI (P : Bytes → Nat → R CU) (info : Option Bytes) (st : CUCache) (refaddr : Nat) : R CU × CUCache :=
  match info with
  | none => (.error .dwarfError, st)
  | some data => getCUContaining (P data) data.length st refaddr

/-- `DWARFInfo.get_CU_at(offset)` from its first line -/
def getCUAtI (P : Bytes → Nat → R CU) (info : Option Bytes) (st : CUCache) (offset : Nat) : R CU × CUCache :=
  match info with
  | none => (.error .dwarfError, st)
  | some data => getCUAt (P data) data.length st offset

/-- The idiom the docstrings of `get_CU_at` / `get_CU_containing` describe ("the offset may be from
    an accelerated access table such as … the address range table"):

        ar  = dwarfinfo.get_aranges()
        off = ar.cu_offset_at_addr(addr) if ar is not None else None
        cu  = None if off is None else dwarfinfo.get_CU_containing(off)      # or get_CU_at(off)

    NOT a library function: the composition of three public calls, written once so that the
    theorem (`Props.C13.addr_to_unit`) and the harness run the same thing.  `t` is the result of
    `get_aranges()`.  The answer `none` — no table, an empty table, or no range containing the
    address — is where a consumer has to fall back to scanning the units. -/
def unitForAddr (byContaining : Bool) (t : Option ARanges) (P : Bytes → Nat → R CU) (info : Option Bytes)
    (st : CUCache) (addr : Nat) : R (Option CU) × CUCache :=
  match t with
  | none => (.ok none, st)
  | some t =>
    match t.cuOffsetAtAddr addr with
    | .error e => (.error e, st)
    | .ok none => (.ok none, st)
    | .ok (some o) =>
      match (if byContaining then getCUContainingI P info st o else getCUAtI P info st o) with
      | (.error e, st') => (.error e, st')
      | (.ok cu, st') => (.ok (some cu), st')

end PyElf.Model.Lookup
