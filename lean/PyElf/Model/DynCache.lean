/-
  The two lazily built caches of `DynamicSegment` (dynamic.py), as instances of the generic machine `Model/SigCache`:
    * `_num_symbols`       — `num_symbols()` computes the count once (GNU hash, SysV hash, or the fallback estimate) and
                             assigns it only when the computation returns;
    * `_symbol_name_map`   — `get_symbol_by_name(name)` builds name → [indices] from one complete `iter_symbols()` walk
                             and publishes it only when the walk returns (fix d3667cb / c521cca: it used to publish a
                             half-built map), then reads the named symbols with `get_symbol(i)`.
  The scan of the second cache calls `num_symbols()`; by `num_symbols_history_independent` that call answers the
  stateless count in every reachable state, so the scan is the pure `iterSymbols` of Model/Dynamic.
-/
import PyElf.Model.Dynamic
import PyElf.Model.SigCache
namespace PyElf.Model.Dynamic
open PyElf PyElf.Model

section caches
variable (env : Env) (S : ElfStructs) (data : Bytes) (ifc : FileIfc) (d : Dyn)
variable (iterSegs : R (List (String × Val))) (le : Bool)

/-- the computation behind `_num_symbols`: the count, or what computing it raised -/
def numScan : Nat × Option Err :=
  match numSymbols env S data ifc d iterSegs le with
  | .ok n => (n, none)
  | .error e => (0, some e)

/-- a history of `num_symbols()` calls on one object -/
def numHist (k : Nat) : List (R Nat) × SigCache.St Nat :=
  SigCache.run (numScan env S data ifc d iterSegs le) (fun n (_ : Unit) => .ok n) SigCache.St.init (List.replicate k ())

/-- the walk behind `_symbol_name_map`: every (name, entry) in index order, or what the walk raised -/
def nameScan : List (Bytes × Val) × Option Err :=
  match iterSymbols env S data ifc d iterSegs le with
  | .ok l => (l, none)
  | .error e => ([], some e)

/-- `symnums = self._symbol_name_map.get(name)`; `[self.get_symbol(i) for i in symnums] if symnums else None` -/
def nameLook (syms : List (Bytes × Val)) (name : Bytes) : R (Option (List (Bytes × Val))) := do
  let idxs := ((List.range syms.length).zip syms).filter (fun p => p.2.1 == name) |>.map (·.1)
  if idxs.isEmpty then return none
  return some (← idxs.mapM (getSymbol env S data ifc d))

/-- a history of `get_symbol_by_name` calls on one object -/
def nameHist (qs : List Bytes) : List (R (Option (List (Bytes × Val)))) × SigCache.St (List (Bytes × Val)) :=
  SigCache.run (nameScan env S data ifc d iterSegs le) (nameLook env S data ifc d) SigCache.St.init qs

end caches
end PyElf.Model.Dynamic
