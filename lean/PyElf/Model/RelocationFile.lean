/-
  C08 over whole files: the public routes to the relocation objects,

      ELFFile(stream).get_section(n)                 → RelocationSection / RelrRelocationSection
      ELFFile(stream).get_section_by_name(name)
      RelocationHandler(elffile).find_relocations_for_section(section)
      RelocationHandler(elffile).apply_section_relocations(stream, reloc_section)
      ELFFile(stream).get_dwarf_info(relocate_dwarf_sections) → _read_dwarf_section

  composed from the mirror of elffile.py (Model/ElfFile.lean), the mirror of relocation.py
  (Model/Relocation.lean) and — for `apply_section_relocations` / `_read_dwarf_section` — the mirror
  of the container side of the DWARF reader that C11 maintains (Model/DwarfView.lean:
  `C11.applyRelocations`, `C11.readDwarfSection`, `C11.getDwarfInfo`).  The only input is the byte
  string: headers, names, links and section contents are all decoded from it.
-/
import PyElf.Model.ElfFile
import PyElf.Model.Relocation
import PyElf.Model.DwarfView
namespace PyElf.Model.C08
open PyElf PyElf.Model

/-- what `get_section(n)` hands out, as far as C08 is concerned -/
inductive RelObj where
  | rel (t : Reloc.RelocTable)          -- RelocationSection
  | relr (t : Reloc.RelrTable)          -- RelrRelocationSection
  | other (kind : String)               -- any other class

/-- `ELFFile.get_section(n)`: `getSection` runs the whole constructor chain (guards included); the table
    object is then `RelocationTable.__init__(self['sh_offset'], self['sh_size'], sh_type == 'SHT_RELA')`
    resp. `RelrRelocationTable.__init__(self['sh_offset'], self['sh_size'], self['sh_entsize'])` over the
    header the file object decoded -/
def getRelSection (env : Env) (f : ElfFile) (n : Nat) : R RelObj := do
  let (kind, _, sh) ← getSection env f.S f.data f.header f.shstr n
  if kind == "RelocationSection" then
    let t ← Reloc.relocSectionInit f.S (← sh.getField "sh_type") (← sh.getNat "sh_offset") (← sh.getNat "sh_size")
      (← sh.getNat "sh_entsize")
    return .rel t
  else if kind == "RelrRelocationSection" then
    let t ← Reloc.relrInit f.S (some (← sh.getNat "sh_offset")) (← sh.getNat "sh_size") (← sh.getNat "sh_entsize")
    return .relr t
  else
    return .other kind

/-- `ELFFile.get_section_by_name(name)` on a fresh object: `_make_section_name_map` enumerates (and builds)
    every section, later names overwrite earlier ones, then `get_section(secnum)` -/
def getRelSectionByName (env : Env) (f : ElfFile) (name : Bytes) : R (Option RelObj) := do
  let secs ← iterSections env f.S f.data f.header f.shstr
  match (sectionNameMap secs).find? (·.1 == name) with
  | none => return none
  | some (_, i) => return some (← getRelSection env f i)

/-- the loop of `find_relocations_for_section`: `iter_sections()` is a generator, so sections are built one at
    a time and those after the first match never are -/
def findRelFrom (env : Env) (f : ElfFile) (target : Bytes) : List Nat → R (Option (Nat × C11.Sec))
  | [] => .ok none
  | i :: rest => do
    let s ← getSection env f.S f.data f.header f.shstr i
    if s.1 == "RelocationSection" && (s.2.1 == C11.nRel ++ target || s.2.1 == C11.nRela ++ target) then
      return some (i, s)
    else findRelFrom env f target rest

/-- `RelocationHandler(elffile).find_relocations_for_section(section)` for a section named `target`:
    the index and the object of the first RelocationSection named `.rel<target>` or `.rela<target>` -/
def fileFindRelocations (env : Env) (f : ElfFile) (target : Bytes) : R (Option (Nat × C11.Sec)) := do
  let n ← numSections env f.S f.data f.header
  findRelFrom env f target (List.range n)

/-- `h = RelocationHandler(elffile); r = h.find_relocations_for_section(section);
    h.apply_section_relocations(stream, r)` on a caller-supplied stream (a copy of the section's bytes);
    `none` when there is no relocation section (nothing is applied) -/
def fileApplyFor (P : C11.Params) (f : ElfFile) (target : Bytes) (stream : Bytes) : R (Option Bytes) := do
  match ← fileFindRelocations P.env f target with
  | none => return none
  | some (_, rsec) => return some (← C11.applyRelocations P f rsec stream)

end PyElf.Model.C08
