/-
  Mirror of elftools/dwarf/locationlists.py, ranges.py, the list-related parts of
  dwarf_util.py (`_get_base_offset`, `_resolve_via_offset_table`,
  `_iter_CUs_in_section`), dwarfinfo.py (`get_addr`) and die.py:328-331 (the
  DW_FORM_loclistx / DW_FORM_rnglistx value translation).

  What the list code reads of a compile unit is collected in `Cu`; its debugging
  entries are given as already-decoded (name, form, raw value) triples — DIE
  decoding itself belongs to other properties.  Named tuples are records whose
  first field `_t` is the tuple's class name.
-/
import PyElf.Core.Bundles
import PyElf.Model.Utils
namespace PyElf.Model.Lists
open PyElf

structure RawAttr where
  name : String
  form : String
  raw : Val
  deriving Repr, Inhabited

structure Attr where
  name : String
  form : String
  value : Val
  deriving Repr, Inhabited

/-- what the list code reads of a `CompileUnit` -/
structure Cu where
  version : Nat              -- `cu['version']` / `cu.header.version`
  asz : Nat                  -- `cu.header.address_size`
  fmt : Nat                  -- `cu.structs.dwarf_format`
  S : DwarfStructs           -- `cu.structs`
  /-- the unit's DIEs in `iter_DIEs()` order (the first one is the top DIE) -/
  dies : List (List RawAttr)

/-- the sections a `DWARFInfo` may hold (`None` when absent) -/
structure Secs where
  addr : Option Bytes
  loclists : Option Bytes
  rnglists : Option Bytes

/-- a named tuple -/
def nt (t : String) (fs : Fields) : Val := .record (("_t", .str t) :: fs)

/-- `container.k`: AttributeError when the key is absent -/
def attr (v : Val) (k : String) : R Val :=
  match v with
  | .record fs =>
    match Fields.get? fs k with
    | some x => .ok x
    | none => .error .attributeError
  | _ => .error .attributeError

/-- `a + b` on Python ints -/
def addV (a b : Val) : R Val := do
  let x ← a.asInt
  let y ← b.asInt
  return .int (x + y)

/-- `stream.seek(offset)` with a Python int: negative → ValueError, ≥ 2^63 → OverflowError -/
def seekInt (off : Int) : R Nat :=
  if off < 0 then .error .valueError
  else if off.toNat ≥ 2 ^ 63 then .error .overflowError
  else .ok off.toNat

/-- the seek inside `struct_parse(…, stream_pos=off)`: `struct_parse` wraps the OverflowError of an
    offset ≥ 2^63 into ELFParseError (negative offsets stay ValueError) -/
def seekParseInt (off : Int) : R Nat :=
  if off < 0 then .error .valueError
  else if off.toNat ≥ 2 ^ 63 then .error .elfParseError
  else .ok off.toNat

/-- `die.attributes`: an ordered dict keyed by attribute name (a repeated name overwrites in place) -/
def attrDict (as : List Attr) : List Attr :=
  as.foldl (fun acc a =>
    if acc.any (·.name == a.name) then acc.map (fun b => if b.name == a.name then a else b)
    else acc ++ [a]) []

def findAttr (d : List Attr) (name : String) : Option Attr := d.find? (·.name == name)

/-- `_get_base_offset(cu, name)`: the value of a base attribute of the top DIE.  (The top DIE's
    base attributes are offsets in a non-indexed form: value = raw value.) -/
def getBaseOffset (cu : Cu) (name : String) : R Val :=
  match cu.dies with
  | [] => .error .elfParseError
  | top :: _ =>
    match (top.reverse.find? (·.name == name)) with
    | some a => .ok a.raw
    | none => .error .dwarfError

/-- `DWARFInfo.get_addr(cu, addr_index)` -/
def getAddr (env : Env) (secs : Secs) (cu : Cu) (idx : Val) : R Val := do
  match secs.addr with
  | none => .error .dwarfError
  | some data =>
    let base ← (← getBaseOffset cu "DW_AT_addr_base").asInt
    let i ← idx.asInt
    let pos ← seekParseInt (base + i * cu.asz)
    let (v, _) ← structParse env cu.S.the_Dwarf_target_addr data pos
    return v

/-- `_resolve_via_offset_table(stream, cu, index, base_attribute_name)` -/
def resolveViaOffsetTable (env : Env) (stream : Option Bytes) (cu : Cu) (index : Val) (baseName : String) :
    R Val := do
  match stream with
  | none => .error .attributeError
  | some data =>
    let base ← (← getBaseOffset cu baseName).asInt
    let offsetSize : Int := if cu.fmt = 32 then 4 else 8
    let i ← index.asInt
    let pos ← seekParseInt (base + i * offsetSize)
    let (v, _) ← structParse env cu.S.the_Dwarf_offset data pos
    addV (.int base) v

/-- die.py `_translate_attr_value` for the forms the list code depends on -/
def translateAttrValue (env : Env) (secs : Secs) (cu : Cu) (form : String) (raw : Val) : R Val :=
  if form = "DW_FORM_loclistx" then resolveViaOffsetTable env secs.loclists cu raw "DW_AT_loclists_base"
  else if form = "DW_FORM_rnglistx" then resolveViaOffsetTable env secs.rnglists cu raw "DW_AT_rnglists_base"
  else .ok raw

def dieAttrs (env : Env) (secs : Secs) (cu : Cu) (die : List RawAttr) : R (List Attr) := do
  let as ← die.mapM fun a => do
    let v ← translateAttrValue env secs cu a.form a.raw
    pure ({ name := a.name, form := a.form, value := v } : Attr)
  return attrDict as

/-! ### entry translation tables -/

def cuAddr (env : Env) (secs : Secs) (cu : Option Cu) (idx : Val) : R Val :=
  match cu with
  | none => .error .attributeError           -- `None.dwarfinfo`
  | some c => getAddr env secs c idx

/-- locationlists.py `entry_translate[entry.entry_type](entry, cu)` -/
def translateLoc (env : Env) (secs : Secs) (cu : Option Cu) (e : Val) : R Val := do
  let ty ← attr e "entry_type"
  match ty with
  | .str "DW_LLE_base_address" =>
      return nt "BaseAddressEntry" [("entry_offset", ← attr e "entry_offset"), ("entry_length", ← attr e "entry_length"),
        ("base_address", ← attr e "address")]
  | .str "DW_LLE_offset_pair" =>
      return nt "LocationEntry" [("entry_offset", ← attr e "entry_offset"), ("entry_length", ← attr e "entry_length"),
        ("begin_offset", ← attr e "start_offset"), ("end_offset", ← attr e "end_offset"),
        ("loc_expr", ← attr e "loc_expr"), ("is_absolute", .bool false)]
  | .str "DW_LLE_start_length" =>
      return nt "LocationEntry" [("entry_offset", ← attr e "entry_offset"), ("entry_length", ← attr e "entry_length"),
        ("begin_offset", ← attr e "start_address"),
        ("end_offset", ← addV (← attr e "start_address") (← attr e "length")),
        ("loc_expr", ← attr e "loc_expr"), ("is_absolute", .bool true)]
  | .str "DW_LLE_start_end" =>
      return nt "LocationEntry" [("entry_offset", ← attr e "entry_offset"), ("entry_length", ← attr e "entry_length"),
        ("begin_offset", ← attr e "start_address"), ("end_offset", ← attr e "end_address"),
        ("loc_expr", ← attr e "loc_expr"), ("is_absolute", .bool true)]
  | .str "DW_LLE_default_location" =>
      return nt "LocationEntry" [("entry_offset", ← attr e "entry_offset"), ("entry_length", ← attr e "entry_length"),
        ("begin_offset", .int (-1)), ("end_offset", .int (-1)),
        ("loc_expr", ← attr e "loc_expr"), ("is_absolute", .bool true)]
  | .str "DW_LLE_base_addressx" =>
      return nt "BaseAddressEntry" [("entry_offset", ← attr e "entry_offset"), ("entry_length", ← attr e "entry_length"),
        ("base_address", ← cuAddr env secs cu (← attr e "index"))]
  | .str "DW_LLE_startx_endx" =>
      return nt "LocationEntry" [("entry_offset", ← attr e "entry_offset"), ("entry_length", ← attr e "entry_length"),
        ("begin_offset", ← cuAddr env secs cu (← attr e "start_index")),
        ("end_offset", ← cuAddr env secs cu (← attr e "end_index")),
        ("loc_expr", ← attr e "loc_expr"), ("is_absolute", .bool true)]
  | .str "DW_LLE_startx_length" => do
      let start ← cuAddr env secs cu (← attr e "start_index")
      return nt "LocationEntry" [("entry_offset", ← attr e "entry_offset"), ("entry_length", ← attr e "entry_length"),
        ("begin_offset", start), ("end_offset", ← addV start (← attr e "length")),
        ("loc_expr", ← attr e "loc_expr"), ("is_absolute", .bool true)]
  | _ => .error .keyError

/-- ranges.py `entry_translate[entry.entry_type](entry, cu)` -/
def translateRng (env : Env) (secs : Secs) (cu : Option Cu) (e : Val) : R Val := do
  let ty ← attr e "entry_type"
  match ty with
  | .str "DW_RLE_base_address" =>
      return nt "BaseAddressEntry" [("entry_offset", ← attr e "entry_offset"), ("base_address", ← attr e "address")]
  | .str "DW_RLE_offset_pair" =>
      return nt "RangeEntry" [("entry_offset", ← attr e "entry_offset"), ("entry_length", ← attr e "entry_length"),
        ("begin_offset", ← attr e "start_offset"), ("end_offset", ← attr e "end_offset"), ("is_absolute", .bool false)]
  | .str "DW_RLE_start_end" =>
      return nt "RangeEntry" [("entry_offset", ← attr e "entry_offset"), ("entry_length", ← attr e "entry_length"),
        ("begin_offset", ← attr e "start_address"), ("end_offset", ← attr e "end_address"), ("is_absolute", .bool true)]
  | .str "DW_RLE_start_length" =>
      return nt "RangeEntry" [("entry_offset", ← attr e "entry_offset"), ("entry_length", ← attr e "entry_length"),
        ("begin_offset", ← attr e "start_address"),
        ("end_offset", ← addV (← attr e "start_address") (← attr e "length")), ("is_absolute", .bool true)]
  | .str "DW_RLE_base_addressx" =>
      return nt "BaseAddressEntry" [("entry_offset", ← attr e "entry_offset"),
        ("base_address", ← cuAddr env secs cu (← attr e "index"))]
  | .str "DW_RLE_startx_endx" =>
      return nt "RangeEntry" [("entry_offset", ← attr e "entry_offset"), ("entry_length", ← attr e "entry_length"),
        ("begin_offset", ← cuAddr env secs cu (← attr e "start_index")),
        ("end_offset", ← cuAddr env secs cu (← attr e "end_index")), ("is_absolute", .bool true)]
  | .str "DW_RLE_startx_length" => do
      let start ← cuAddr env secs cu (← attr e "start_index")
      return nt "RangeEntry" [("entry_offset", ← attr e "entry_offset"), ("entry_length", ← attr e "entry_length"),
        ("begin_offset", start), ("end_offset", ← addV start (← attr e "length")), ("is_absolute", .bool true)]
  | _ => .error .keyError

/-- `[f(entry) for entry in struct_parse(entries, stream)]` -/
def mapEntries (f : Val → R Val) : Val → R (List Val)
  | .list es => es.mapM f
  | _ => .error .typeError

/-! ### the list sections -/

/-- a `LocationLists` / `RangeLists` object: its stream, the structs it was given, `version` -/
structure Lists where
  data : Bytes
  S : DwarfStructs
  asz : Nat                  -- `structs.address_size`
  version : Nat

/-- `self._max_addr` -/
def Lists.maxAddr (l : Lists) : Nat := 2 ^ (l.asz * 8) - 1

/-- `[struct_parse(c, stream) for i in range(n)]` -/
def readElems (env : Env) (c : Con) (data : Bytes) : Nat → Nat → List Val → R (List Val × Nat)
  | 0, pos, acc => .ok (acc.reverse, pos)
  | n+1, pos, acc =>
    match structParse env c data pos with
    | .error e => .error e
    | .ok (v, p) => readElems env c data n p (v :: acc)

/-- `LocationLists._parse_location_list_from_stream` (the `while True` loop) -/
def parseLocV4Loop (env : Env) (l : Lists) : Nat → Nat → List Val → R (List Val × Nat)
  | 0, _, _ => .error .outOfFuel
  | fuel+1, pos, acc =>
    match structParse env l.S.the_Dwarf_target_addr l.data pos with
    | .error e => .error e
    | .ok (b, p1) =>
      match structParse env l.S.the_Dwarf_target_addr l.data p1 with
      | .error e => .error e
      | .ok (e, p2) =>
        if b == Val.int 0 && e == Val.int 0 then .ok (acc.reverse, p2)
        else if b == Val.int l.maxAddr then
          parseLocV4Loop env l fuel p2
            (nt "BaseAddressEntry" [("entry_offset", .int pos), ("entry_length", .int (p2 - pos : Nat)),
                                    ("base_address", e)] :: acc)
        else
          match structParse env l.S.the_Dwarf_uint16 l.data p2 with
          | .error er => .error er
          | .ok (n, p3) =>
            match n.asInt with
            | .error er => .error er
            | .ok n =>
              match readElems env l.S.the_Dwarf_uint8 l.data n.toNat p3 [] with
              | .error er => .error er
              | .ok (x, p4) =>
                parseLocV4Loop env l fuel p4
                  (nt "LocationEntry" [("entry_offset", .int pos), ("entry_length", .int (p4 - pos : Nat)),
                                       ("begin_offset", b), ("end_offset", e), ("loc_expr", .list x),
                                       ("is_absolute", .bool false)] :: acc)

def parseLocV4 (env : Env) (l : Lists) (pos : Nat) : R (List Val × Nat) :=
  parseLocV4Loop env l (l.data.length + 1) pos []

/-- `LocationLists._parse_location_list_from_stream_v5(cu)` -/
def parseLocV5 (env : Env) (secs : Secs) (l : Lists) (pos : Nat) (cu : Option Cu) : R (List Val × Nat) := do
  let (v, p) ← structParse env l.S.Dwarf_loclists_entries l.data pos
  let es ← mapEntries (translateLoc env secs cu) v
  return (es, p)

/-- `LocationLists.get_location_list_at_offset(offset, die)`; `cu` is `die.cu` -/
def getLocationListAtOffset (env : Env) (secs : Secs) (l : Lists) (offset : Int) (cu : Option Cu) :
    R (List Val) := do
  if l.version ≥ 5 && cu.isNone then throw .dwarfError
  let pos ← seekInt offset
  if l.version ≥ 5 then
    let (es, _) ← parseLocV5 env secs l pos cu
    return es
  else
    let (es, _) ← parseLocV4 env l pos
    return es

/-- the DWARF < 5 branch of `RangeLists._parse_range_list_from_stream` -/
def parseRngV4Loop (env : Env) (l : Lists) : Nat → Nat → List Val → R (List Val × Nat)
  | 0, _, _ => .error .outOfFuel
  | fuel+1, pos, acc =>
    match structParse env l.S.the_Dwarf_target_addr l.data pos with
    | .error e => .error e
    | .ok (b, p1) =>
      match structParse env l.S.the_Dwarf_target_addr l.data p1 with
      | .error e => .error e
      | .ok (e, p2) =>
        if b == Val.int 0 && e == Val.int 0 then .ok (acc.reverse, p2)
        else if b == Val.int l.maxAddr then
          parseRngV4Loop env l fuel p2
            (nt "BaseAddressEntry" [("entry_offset", .int pos), ("base_address", e)] :: acc)
        else
          parseRngV4Loop env l fuel p2
            (nt "RangeEntry" [("entry_offset", .int pos), ("entry_length", .int (p2 - pos : Nat)),
                              ("begin_offset", b), ("end_offset", e), ("is_absolute", .bool false)] :: acc)

def parseRngV4 (env : Env) (l : Lists) (pos : Nat) : R (List Val × Nat) :=
  parseRngV4Loop env l (l.data.length + 1) pos []

def parseRngV5 (env : Env) (secs : Secs) (l : Lists) (pos : Nat) (cu : Option Cu) : R (List Val × Nat) := do
  let (v, p) ← structParse env l.S.Dwarf_rnglists_entries l.data pos
  let es ← mapEntries (translateRng env secs cu) v
  return (es, p)

/-- `RangeLists.get_range_list_at_offset(offset, cu)` -/
def getRangeListAtOffset (env : Env) (secs : Secs) (l : Lists) (offset : Int) (cu : Option Cu) :
    R (List Val) := do
  let pos ← seekInt offset
  if l.version ≥ 5 then
    let (es, _) ← parseRngV5 env secs l pos cu
    return es
  else
    let (es, _) ← parseRngV4 env l pos
    return es

/-- `RangeLists.get_range_list_at_offset_ex(offset)` -/
def getRangeListAtOffsetEx (env : Env) (l : Lists) (offset : Int) : R Val := do
  let pos ← seekParseInt offset
  let (v, _) ← structParse env l.S.Dwarf_rnglists_entries l.data pos
  return v

/-! ### unit blocks of the DWARF 5 sections -/

/-- `_iter_CUs_in_section(stream, structs, parser)` -/
def iterCUsLoop (env : Env) (S : DwarfStructs) (parser : Con) (data : Bytes) :
    Nat → Int → List Val → R (List Val)
  | 0, _, _ => .error .outOfFuel
  | fuel+1, offset, acc =>
    if offset < (data.length : Int) then
      match seekInt offset with
      | .error e => .error e
      | .ok pos =>
        match structParse env parser data pos with
        | .error e => .error e
        | .ok (h, p) => do
          let cnt ← (← attr h "offset_count").asInt
          let offs ← (if cnt > 0 then do
              let is64 ← attr h "is64"
              let sub := if is64.truthy then S.Dwarf_uint64 else S.Dwarf_uint32
              let (v, _) ← structParse env (.array (.lit cnt) sub) data p
              pure v
            else pure (Val.bool false) : R Val)
          let h' ← (match h with
            | .record fs => pure (Val.record (Fields.set fs "offsets" offs))
            | _ => .error .typeError : R Val)
          let a ← (← attr h "offset_after_length").asInt
          let b ← (← attr h "unit_length").asInt
          iterCUsLoop env S parser data fuel (a + b) (h' :: acc)
    else .ok acc.reverse

/-- `RangeLists.iter_CUs()` / `LocationLists.iter_CUs()`; `cus` are the units of .debug_info -/
def iterCUs (env : Env) (l : Lists) (loc : Bool) (cus : List Cu) : R (List Val) := do
  if l.version < 5 then throw .dwarfError
  match cus with
  | [] => .error .stopIteration
  | cu :: _ =>
    iterCUsLoop env cu.S (if loc then cu.S.Dwarf_loclists_CU_header else cu.S.Dwarf_rnglists_CU_header)
      l.data (l.data.length + 1) 0 []

def rangeListsExLoop (env : Env) (l : Lists) (stop : Int) : Nat → Nat → List Val → R (List Val)
  | 0, _, _ => .error .outOfFuel
  | fuel+1, pos, acc =>
    if (pos : Int) < stop then
      match structParse env l.S.Dwarf_rnglists_entries l.data pos with
      | .error e => .error e
      | .ok (v, p) => rangeListsExLoop env l stop fuel p (v :: acc)
    else .ok acc.reverse

/-- `RangeLists.iter_CU_range_lists_ex(cu)`; `cu` is a header yielded by `iter_CUs()` -/
def iterCURangeListsEx (env : Env) (l : Lists) (cu : Val) : R (List Val) := do
  let oto ← (← attr cu "offset_table_offset").asInt
  let is64 ← attr cu "is64"
  let cnt ← (← attr cu "offset_count").asInt
  let pos ← seekInt (oto + (if is64.truthy then 8 else 4) * cnt)
  let a ← (← attr cu "offset_after_length").asInt
  let b ← (← attr cu "unit_length").asInt
  rangeListsExLoop env l (a + b) (l.data.length + 1) pos []

/-- `RangeLists.translate_v5_entry(entry, cu)` -/
def translateV5Entry (env : Env) (secs : Secs) (cu : Option Cu) (e : Val) : R Val :=
  translateRng env secs cu e

/-! ### attribute classification: `LocationParser` -/

def dataForms : List String := ["DW_FORM_data1", "DW_FORM_data2", "DW_FORM_data4", "DW_FORM_data8"]

/-- `_attribute_is_constant` -/
def attributeIsConstant (name form : String) (ver : Nat) : Bool :=
  ((decide (ver ≥ 3) && name == "DW_AT_data_member_location")
    || ["DW_AT_upper_bound", "DW_AT_count"].contains name)
  && (dataForms ++ ["DW_FORM_sdata", "DW_FORM_udata"]).contains form

/-- `_attribute_has_loc_expr` (`str.startswith` as a prefix test on the characters) -/
def attributeHasLocExpr (name form : String) (ver : Nat) : Bool :=
  (decide (ver < 4) && "DW_FORM_block".toList.isPrefixOf form.toList && !(name == "DW_AT_const_value"))
    || form == "DW_FORM_exprloc"

/-- `_attribute_has_loc_list` -/
def attributeHasLocList (name form : String) (ver : Nat) : Bool :=
  ((decide (ver < 4) && dataForms.contains form && !(name == "DW_AT_const_value"))
    || ["DW_FORM_sec_offset", "DW_FORM_loclistx"].contains form)
  && !attributeIsConstant name form ver

/-- `_attribute_is_loclistptr_class` -/
def attributeIsLoclistptrClass (name : String) : Bool :=
  ["DW_AT_location", "DW_AT_string_length", "DW_AT_const_value", "DW_AT_return_addr",
   "DW_AT_data_member_location", "DW_AT_frame_base", "DW_AT_segment", "DW_AT_static_link",
   "DW_AT_use_location", "DW_AT_vtable_elem_location", "DW_AT_call_value", "DW_AT_GNU_call_site_value",
   "DW_AT_GNU_call_site_target", "DW_AT_GNU_call_site_data_value", "DW_AT_call_target",
   "DW_AT_call_target_clobbered", "DW_AT_call_data_location", "DW_AT_call_data_value",
   "DW_AT_upper_bound", "DW_AT_count"].contains name

/-- `LocationParser.attribute_has_location(attr, dwarf_version)` -/
def attributeHasLocation (name form : String) (ver : Nat) : Bool :=
  attributeIsLoclistptrClass name && (attributeHasLocExpr name form ver || attributeHasLocList name form ver)

/-- `LocationParser.parse_from_attribute(attr, dwarf_version, die)`: a `LocationExpr` or a list -/
def parseFromAttribute (env : Env) (secs : Secs) (l : Lists) (a : Attr) (ver : Nat) (cu : Option Cu) : R Val := do
  if attributeHasLocation a.name a.form ver then
    if attributeHasLocExpr a.name a.form ver then
      return nt "LocationExpr" [("loc_expr", a.value)]
    else if attributeHasLocList a.name a.form ver then
      let off ← a.value.asInt
      return .list (← getLocationListAtOffset env secs l off cu)
    else return .none
  else .error .valueError

/-! ### enumeration driven by the debugging entries -/

/-- a Python dict with int keys: overwrite keeps the position, new keys append -/
def dictSet {α} (d : List (Int × α)) (k : Int) (v : α) : List (Int × α) :=
  match d with
  | [] => [(k, v)]
  | (k', v') :: rest => if k' = k then (k', v) :: rest else (k', v') :: dictSet rest k v

def dictGet? {α} (d : List (Int × α)) (k : Int) : Option α := (d.find? (·.1 == k)).map (·.2)

def insertSorted (x : Int) : List Int → List Int
  | [] => [x]
  | y :: ys => if x < y then x :: y :: ys else if x = y then y :: ys else y :: insertSorted x ys

/-- `sorted(set(xs))` -/
def sortedSet (xs : List Int) : List Int := xs.foldl (fun acc x => insertSorted x acc) []

/-- one DIE's contribution to the dict comprehension of `iter_range_lists`: the DIE is decoded first,
    then `'DW_AT_ranges' in die.attributes and (cu['version'] >= 5) == ver5` is tested -/
def rangeRefDie (env : Env) (secs : Secs) (ver5 : Bool) (cu : Cu) (die : List RawAttr) : R (Option (Int × Cu)) := do
  let d ← dieAttrs env secs cu die
  match findAttr d "DW_AT_ranges" with
  | some a =>
    if decide (cu.version ≥ 5) == ver5 then
      let off ← a.value.asInt
      return some (off, cu)
    else return none
  | none => return none

/-- `for cu in iter_CUs() for die in cu.iter_DIEs()`: the (offset, unit) pairs in DIE order -/
def rangeRefs (env : Env) (secs : Secs) (ver5 : Bool) : List Cu → R (List (Int × Cu))
  | [] => .ok []
  | cu :: rest => do
      let here ← cu.dies.mapM (rangeRefDie env secs ver5 cu)
      let more ← rangeRefs env secs ver5 rest
      return here.filterMap id ++ more

/-- the dict `{offset: cu}` built from the pairs in order (a later pair overwrites) -/
def cuMapOf (refs : List (Int × Cu)) : List (Int × Cu) := refs.foldl (fun d r => dictSet d r.1 r.2) []

/-- `RangeLists.iter_range_lists()` -/
def iterRangeLists (env : Env) (secs : Secs) (l : Lists) (cus : List Cu) : R (List (List Val)) := do
  let ver5 := decide (l.version ≥ 5)
  let refs ← rangeRefs env secs ver5 cus
  let cuMap := cuMapOf refs
  let allOffsets := sortedSet (cuMap.map (·.1))
  allOffsets.mapM fun offset =>
    match dictGet? cuMap offset with
    | none => .error .keyError
    | some cu => getRangeListAtOffset env secs l offset (some cu)

structure Scan where
  allOffsets : List Int := []            -- a set
  locviews : List (Int × Int) := []
  cuMap : List (Int × Cu) := []

def setAdd (s : List Int) (x : Int) : List Int := if s.contains x then s else s ++ [x]

/-- the body of `for key in die.attributes` (the scan for list-valued attributes) -/
def scanAttr (cu : Cu) (hasViews : Bool) (st : Scan) (a : Attr) : R Scan :=
  if (a.name != "DW_AT_location" || !hasViews) && attributeHasLocation a.name a.form cu.version
      && attributeHasLocList a.name a.form cu.version then do
    let listOffset ← a.value.asInt
    return { st with allOffsets := setAdd st.allOffsets listOffset,
                     cuMap := dictSet st.cuMap listOffset cu }
  else return st

/-- the `if 'DW_AT_GNU_locviews' in die.attributes` block -/
def scanViews (cu : Cu) (st : Scan) (d : List Attr) : R Scan :=
  match findAttr d "DW_AT_GNU_locviews" with
  | some va =>
    match findAttr d "DW_AT_location" with
    | some la => do
      if !attributeHasLocList la.name la.form cu.version then throw .assertion
      let viewsOffset ← va.value.asInt
      let listOffset ← la.value.asInt
      return { st with locviews := dictSet st.locviews viewsOffset listOffset,
                       cuMap := dictSet st.cuMap listOffset cu,
                       allOffsets := setAdd st.allOffsets viewsOffset }
    | none => throw .assertion
  | none => pure st

/-- the body of `for die in cu.iter_DIEs()` -/
def scanDie (env : Env) (secs : Secs) (cu : Cu) (st : Scan) (die : List RawAttr) : R Scan := do
  let d ← dieAttrs env secs cu die
  let hasViews := (findAttr d "DW_AT_GNU_locviews").isSome
  let st ← scanViews cu st d
  d.foldlM (scanAttr cu hasViews) st

/-- the body of `for cu in self.dwarfinfo.iter_CUs()` -/
def scanCu (env : Env) (secs : Secs) (ver5 : Bool) (st : Scan) (cu : Cu) : R Scan :=
  if decide (cu.version ≥ 5) == ver5 then cu.dies.foldlM (scanDie env secs cu) st else pure st

/-- the DIE scan at the start of `iter_location_lists` -/
def scanDies (env : Env) (secs : Secs) (ver5 : Bool) (cus : List Cu) : R Scan := do
  let st ← cus.foldlM (scanCu env secs ver5) {}
  return { st with allOffsets := sortedSet st.allOffsets }

/-- `_parse_locview_pairs(locviews)`: the `while stream.tell() < list_offset` loop -/
def locviewLoop (env : Env) (l : Lists) (listOffset : Int) : Nat → Nat → List Val → R (List Val × Nat)
  | 0, _, _ => .error .outOfFuel
  | fuel+1, pos, acc =>
    if (pos : Int) < listOffset then
      match structParse env l.S.Dwarf_locview_pair l.data pos with
      | .error e => .error e
      | .ok (pr, p) => do
        let v := nt "LocationViewPair" [("entry_offset", ← attr pr "entry_offset"), ("begin", ← attr pr "begin"),
                                        ("end", ← attr pr "end")]
        locviewLoop env l listOffset fuel p (v :: acc)
    else if (pos : Int) = listOffset then .ok (acc.reverse, pos)
    else .error .assertion

def parseLocviewPairs (env : Env) (l : Lists) (locviews : List (Int × Int)) (pos : Nat) : R (List Val × Nat) :=
  match dictGet? locviews pos with
  | none => .ok ([], pos)
  | some listOffset => locviewLoop env l listOffset (l.data.length + 1) pos []

/-- the inner `while stream.tell() < cu_end_offset` loop of the DWARF 5 branch -/
def locUnitLoop (env : Env) (secs : Secs) (l : Lists) (sc : Scan) (cuEnd : Int) :
    Nat → Nat → Nat → List (List Val) → R (Nat × Nat × List (List Val))
  | 0, _, _, _ => .error .outOfFuel
  | fuel+1, pos, idx, acc =>
    if (pos : Int) < cuEnd then
      let nextOffset : Int := match sc.allOffsets[idx]? with
        | some o => o
        | none => cuEnd
      if nextOffset = pos then
        match parseLocviewPairs env l sc.locviews pos with
        | .error e => .error e
        | .ok (pairs, p) =>
          match dictGet? sc.cuMap p with
          | none => .error .keyError
          | some cu =>
            match parseLocV5 env secs l p (some cu) with
            | .error e => .error e
            | .ok (es, p') => locUnitLoop env secs l sc cuEnd fuel p' (idx + 1) ((pairs ++ es) :: acc)
      else
        let nextOffset := if nextOffset > cuEnd then cuEnd else nextOffset
        match seekInt nextOffset with
        | .error e => .error e
        | .ok p => locUnitLoop env secs l sc cuEnd fuel p idx acc
    else .ok (pos, idx, acc)

/-- the outer `while stream.tell() < endpos` loop -/
def locSectionLoop (env : Env) (secs : Secs) (l : Lists) (sc : Scan) (inner : Nat) :
    Nat → Nat → Nat → List (List Val) → R (List (List Val))
  | 0, _, _, _ => .error .outOfFuel
  | fuel+1, pos, idx, acc =>
    if pos < l.data.length then
      match structParse env l.S.Dwarf_loclists_CU_header l.data pos with
      | .error e => .error e
      | .ok (h, p) => do
        let ver ← attr h "version"
        if !(ver == Val.int 5) then throw .assertion
        let a ← (← attr h "offset_after_length").asInt
        let b ← (← attr h "unit_length").asInt
        let (p', idx', acc') ← locUnitLoop env secs l sc (a + b) inner p idx acc
        locSectionLoop env secs l sc inner fuel p' idx' acc'
    else .ok acc.reverse

/-- the `for offset in all_offsets` loop of the DWARF < 5 branch -/
def locV4Loop (env : Env) (l : Lists) (sc : Scan) : List Int → List (List Val) → R (List (List Val))
  | [], out => .ok out
  | offset :: rest, out =>
    let listOffset := (dictGet? sc.locviews offset).getD offset      -- `locviews.get(offset, offset)`
    match dictGet? sc.cuMap listOffset with
    | none => .error .keyError
    | some cu =>
      if cu.version < 5 then
        match seekInt offset with
        | .error e => .error e
        | .ok pos =>
          match parseLocviewPairs env l sc.locviews pos with
          | .error e => .error e
          | .ok (pairs, p) =>
            match parseLocV4 env l p with
            | .error e => .error e
            | .ok (es, _) => locV4Loop env l sc rest (out ++ [pairs ++ es])
      else locV4Loop env l sc rest out

/-- `LocationLists.iter_location_lists()` -/
def iterLocationLists (env : Env) (secs : Secs) (l : Lists) (cus : List Cu) : R (List (List Val)) := do
  let ver5 := decide (l.version ≥ 5)
  let sc ← scanDies env secs ver5 cus
  if ver5 then
    let budget := 2 * (l.data.length + sc.allOffsets.length) + 8
    locSectionLoop env secs l sc budget budget 0 0 []
  else
    locV4Loop env l sc sc.allOffsets []

/-! ### both generations present: `LocationListsPair` / `RangeListsPair` -/

/-- the two list objects a pair holds: `_loc` / `_ranges` (version 4) and `_loclists` / `_rnglists` (version 5) -/
structure ListsPair where
  old : Lists
  new : Lists

/-- `LocationListsPair(streamv4, streamv5, structs, dwarfinfo)` / `RangeListsPair(…)` -/
def mkPair (S : DwarfStructs) (asz : Nat) (v4 v5 : Bytes) : ListsPair :=
  { old := { data := v4, S := S, asz := asz, version := 4 },
    new := { data := v5, S := S, asz := asz, version := 5 } }

/-- `LocationListsPair.get_location_list_at_offset(offset, die)`; `cu` is `die.cu` (`none`: no die given) -/
def pairGetLocationListAtOffset (env : Env) (secs : Secs) (p : ListsPair) (offset : Int) (cu : Option Cu) :
    R (List Val) :=
  match cu with
  | none => .error .dwarfError
  | some c =>
    let sec := if c.version ≥ 5 then p.new else p.old
    getLocationListAtOffset env secs sec offset (some c)

/-- `LocationListsPair.iter_location_lists()` -/
def pairIterLocationLists : R (List (List Val)) := .error .dwarfError

/-- `LocationListsPair.iter_CUs()` -/
def pairLocIterCUs : R (List Val) := .error .dwarfError

/-- `RangeListsPair.get_range_list_at_offset(offset, cu)` -/
def pairGetRangeListAtOffset (env : Env) (secs : Secs) (p : ListsPair) (offset : Int) (cu : Option Cu) :
    R (List Val) :=
  match cu with
  | none => .error .dwarfError
  | some c =>
    let sec := if c.version ≥ 5 then p.new else p.old
    getRangeListAtOffset env secs sec offset (some c)

/-- `RangeListsPair.get_range_list_at_offset_ex(offset)` -/
def pairGetRangeListAtOffsetEx (env : Env) (p : ListsPair) (offset : Int) : R Val :=
  getRangeListAtOffsetEx env p.new offset

/-- `RangeListsPair.iter_range_lists()` -/
def pairIterRangeLists : R (List (List Val)) := .error .dwarfError

/-- `RangeListsPair.iter_CUs()` -/
def pairRngIterCUs (env : Env) (p : ListsPair) (cus : List Cu) : R (List Val) := iterCUs env p.new false cus

/-- `RangeListsPair.iter_CU_range_lists_ex(cu)` -/
def pairIterCURangeListsEx (env : Env) (p : ListsPair) (cu : Val) : R (List Val) := iterCURangeListsEx env p.new cu

/-- `RangeListsPair.translate_v5_entry(entry, cu)` -/
def pairTranslateV5Entry (env : Env) (secs : Secs) (cu : Option Cu) (e : Val) : R Val :=
  translateV5Entry env secs cu e

/-- what `DWARFInfo.location_lists()` / `range_lists()` return -/
inductive ListsObj
  | absent
  | single (l : Lists)
  | pair (p : ListsPair)

/-- `DWARFInfo.location_lists()` / `range_lists()`: `old` is .debug_loc / .debug_ranges, `new` is
    .debug_loclists / .debug_rnglists (a section descriptor is a non-empty tuple: always true) -/
def listsFactory (S : DwarfStructs) (asz : Nat) (old new : Option Bytes) : ListsObj :=
  match new, old with
  | some d5, none => .single { data := d5, S := S, asz := asz, version := 5 }
  | none, some d4 => .single { data := d4, S := S, asz := asz, version := 4 }
  | some d5, some d4 => .pair (mkPair S asz d4 d5)
  | none, none => .absent

end PyElf.Model.Lists
