/-
  `GNUVerNeedSection._has_indexes` (gnuversions.py): `has_indexes()` walks every requirement and auxiliary once and
  keeps the answer.  After fix (has-indexes-cached-before-walk) the answer is assigned only when the walk returns: the
  code used to assign `False` BEFORE walking, so a walk that raised (a chain leading out of the file) left `False`
  behind and the second call answered `False` instead of raising again.  Instance of `Model/SigCache` with one query.
-/
import PyElf.Model.GnuVersions
import PyElf.Model.SigCache
namespace PyElf.Model
open PyElf

section
variable (env : Env) (vs : VerSec)

/-- the walk behind `_has_indexes`: its answer, or what it raised -/
def VerSec.hasIndexesScan : Bool × Option Err :=
  match vs.hasIndexes env with
  | .ok b => (b, none)
  | .error e => (false, some e)

/-- `k` calls of `has_indexes()` on ONE section object -/
def VerSec.hasIndexesHist (k : Nat) : List (R Bool) × SigCache.St Bool :=
  SigCache.run (vs.hasIndexesScan env) (fun b (_ : Unit) => .ok b) SigCache.St.init (List.replicate k ())

end
end PyElf.Model
