/-
  Mirrors of elftools/common/utils.py.
-/
import PyElf.Core.Construct
namespace PyElf.Model

/-- `parse_cstring_from_stream(stream, stream_pos)` with `CHUNKSIZE = chunk`:
    read chunks until one contains a NUL (→ bytes before it) or is short (→ None).
    `fuel` bounds the loop; `data.length - pos + 1` always suffices for `chunk ≥ 1`. -/
def cstringChunkLoop (data : Bytes) (chunk : Nat) : Nat → Nat → Bytes → R (Option Bytes)
  | 0, _, _ => .error .outOfFuel
  | fuel+1, pos, acc =>
    let c := readN data pos chunk
    match c.idxOf? (0 : UInt8) with
    | some i => .ok (some (acc ++ c.take i))
    | none =>
      if c.length < chunk then .ok none
      else cstringChunkLoop data chunk fuel (pos + chunk) (acc ++ c)

def parseCStringFromStream (data : Bytes) (pos : Nat) (chunk : Nat := 64) : R (Option Bytes) :=
  cstringChunkLoop data chunk (data.length - pos + 2) pos []

/-- `BytesIO.seek(pos)` / `read(n)` convert their argument to a C `Py_ssize_t`:
    values ≥ 2^63 raise OverflowError -/
def seekCheck (pos : Nat) : R Unit :=
  if pos ≥ 2 ^ 63 then .error .overflowError else .ok ()

/-- `struct_parse(struct, stream, stream_pos=pos)` including the seek; `struct_parse` wraps the
    OverflowError of an unrepresentable offset into ELFParseError, like construct's own errors -/
def structParseAt (env : Env) (c : Con) (data : Bytes) (pos : Nat) : R (Val × Nat) := do
  if pos ≥ 2 ^ 63 then throw .elfParseError
  structParse env c data pos

/-- `parse_cstring_from_stream(stream, stream_pos=pos)` including the seek -/
def parseCStringAt (data : Bytes) (pos : Nat) : R (Option Bytes) := do
  seekCheck pos
  parseCStringFromStream data pos

/-- `roundup(num, bits)` for natural `num ≥ 1` is what the notes code relies on; the
    generated `Gen.Pure.roundup` is the translation of the Python. -/
def roundupNat (num bits : Nat) : Nat := (num + 2 ^ bits - 1) / 2 ^ bits * 2 ^ bits

end PyElf.Model
