/-
  C14 over whole files: the two public routes to `iter_notes`,

      ELFFile(stream).get_section(i).iter_notes()      ELFFile(stream).get_segment(j).iter_notes()

  composed from the mirror of elffile.py (Model/ElfFile.lean) and the mirror of notes.py
  (Model/Notes.lean).  Only `NoteSection` / `NoteSegment` objects have the method: on any other
  class Python raises AttributeError.  The extent handed to `iter_notes` is
  (`sh_offset`, `sh_size`) resp. (`p_offset`, `p_filesz`) of the header the file object decoded;
  the code applies no alignment other than the 4-byte rounding of name and descriptor
  (`sh_addralign` / `p_align` are not consulted).
-/
import PyElf.Model.ElfFile
import PyElf.Model.Notes
namespace PyElf.Model.C14
open PyElf PyElf.Model

/-- `ELFFile(BytesIO(data)).get_section(i).iter_notes()`, the generator drained into a list -/
def fileSectionNotes (env : Env) (structsFor : ElfCfg → Option ElfStructs) (machineClassOf : Val → String)
    (data : Bytes) (i : Nat) : R (List Val) := do
  let f ← openElf env structsFor machineClassOf data
  let (kind, _, sh) ← getSection env f.S data f.header f.shstr i
  if kind != "NoteSection" then throw .attributeError
  noteSectionIterNotes f.S env f.cls data sh

/-- `ELFFile(BytesIO(data)).get_segment(j).iter_notes()`, drained -/
def fileSegmentNotes (env : Env) (structsFor : ElfCfg → Option ElfStructs) (machineClassOf : Val → String)
    (data : Bytes) (j : Nat) : R (List Val) := do
  let f ← openElf env structsFor machineClassOf data
  let (kind, ph) ← getSegment env f.S data f.header f.shstr j
  if kind != "NoteSegment" then throw .attributeError
  noteSegmentIterNotes f.S env f.cls data ph

end PyElf.Model.C14
