/-
  C06 model: mirror of elftools/dwarf/callframe.py (CallFrameInfo, CFIEntry._decode_CFI_table),
  statement by statement, parameterised by the struct bundles and the constant tables exactly
  as the Python is parameterised by `DWARFStructs(...)`, `constants`, `enums`.

  Stream discipline: the Python keeps one `self.stream`; here the stream position is threaded
  explicitly (`pos`).  `struct_parse(s, stream, p)` seeks to `p` first; without `p` it reads at the
  current position.  `preserve_stream_pos` = the position returned by the inner call is dropped.
-/
import PyElf.Core.Bundles
import PyElf.Model.CfiTables
namespace PyElf.Model
open PyElf

/-- `CallFrameInstruction(opcode, args)` -/
structure Instr where
  opcode : Nat
  args : List Val
  deriving Inhabited

/-- `_OPCODE_NAME_MAP[k]` -/
def nameOf (T : CfiTables) (k : Nat) : R String :=
  match T.nameMap.find? (fun e => e.1 == k) with
  | some e => .ok e.2
  | none => .error .keyError

/-- `instruction_name(opcode)` -/
def instructionName (T : CfiTables) (opcode : Nat) : R String :=
  let primary := opcode &&& T.primaryMask
  if primary = 0 then nameOf T opcode else nameOf T primary

/-- `structs.Dwarf_dw_form['DW_FORM_block']` -/
def formBlock (S : DwarfStructs) : R Con :=
  match S.form "DW_FORM_block" with
  | some c => .ok c
  | none => .error .keyError

/-- the operand part of one iteration of `_parse_instructions` (the if/elif chain) -/
def parseInstrArgs (T : CfiTables) (S : DwarfStructs) (env : Env) (data : Bytes) (opcode pos : Nat) :
    R (List Val × Nat) :=
  let o := T.ops
  let primary := opcode &&& T.primaryMask
  let primaryArg := opcode &&& T.primaryArgMask
  if primary = o.advance_loc then .ok ([.int primaryArg], pos)
  else if primary = o.offset then do
    let (a, p) ← structParse env S.the_Dwarf_uleb128 data pos
    return ([.int primaryArg, a], p)
  else if primary = o.restore then .ok ([.int primaryArg], pos)
  else if opcode = o.nop ∨ opcode = o.remember_state ∨ opcode = o.restore_state
            ∨ opcode = o.AARCH64_negate_ra_state then .ok ([], pos)
  else if opcode = o.set_loc then do
    let (a, p) ← structParse env S.the_Dwarf_target_addr data pos
    return ([a], p)
  else if opcode = o.advance_loc1 then do
    let (a, p) ← structParse env S.the_Dwarf_uint8 data pos
    return ([a], p)
  else if opcode = o.advance_loc2 then do
    let (a, p) ← structParse env S.the_Dwarf_uint16 data pos
    return ([a], p)
  else if opcode = o.advance_loc4 then do
    let (a, p) ← structParse env S.the_Dwarf_uint32 data pos
    return ([a], p)
  else if opcode = o.offset_extended ∨ opcode = o.register ∨ opcode = o.def_cfa ∨ opcode = o.val_offset then do
    let (a, p) ← structParse env S.the_Dwarf_uleb128 data pos
    let (b, p) ← structParse env S.the_Dwarf_uleb128 data p
    return ([a, b], p)
  else if opcode = o.restore_extended ∨ opcode = o.undefined ∨ opcode = o.same_value
            ∨ opcode = o.def_cfa_register ∨ opcode = o.def_cfa_offset then do
    let (a, p) ← structParse env S.the_Dwarf_uleb128 data pos
    return ([a], p)
  else if opcode = o.def_cfa_offset_sf then do
    let (a, p) ← structParse env S.the_Dwarf_sleb128 data pos
    return ([a], p)
  else if opcode = o.def_cfa_expression then do
    let blk ← formBlock S
    let (a, p) ← structParse env blk data pos
    return ([a], p)
  else if opcode = o.expression ∨ opcode = o.val_expression then do
    let (a, p) ← structParse env S.the_Dwarf_uleb128 data pos
    let blk ← formBlock S
    let (b, p) ← structParse env blk data p
    return ([a, b], p)
  else if opcode = o.offset_extended_sf ∨ opcode = o.def_cfa_sf ∨ opcode = o.val_offset_sf then do
    let (a, p) ← structParse env S.the_Dwarf_uleb128 data pos
    let (b, p) ← structParse env S.the_Dwarf_sleb128 data p
    return ([a, b], p)
  else if opcode = o.GNU_args_size then do
    let (a, p) ← structParse env S.the_Dwarf_uleb128 data pos
    return ([a], p)
  else .error .dwarfError            -- dwarf_assert(False, 'Unknown CFI opcode')

/-- one iteration of the `while offset < end_offset` loop of `_parse_instructions` -/
def parseInstr (T : CfiTables) (S : DwarfStructs) (env : Env) (data : Bytes) (offset : Nat) : R (Instr × Nat) := do
  let (opv, p) ← structParse env S.the_Dwarf_uint8 data offset
  let opcode ← opv.asNat
  let (args, p) ← parseInstrArgs T S env data opcode p
  return (⟨opcode, args⟩, p)

/-- `_parse_instructions(structs, offset, end_offset)`: the instructions and the stream position
    afterwards (`offset` is always the stream position here: the caller passes `stream.tell()` and
    every iteration ends with `offset = self.stream.tell()`).  Every iteration consumes ≥ 1 byte. -/
def parseInstructions (T : CfiTables) (S : DwarfStructs) (env : Env) (data : Bytes) (endOff : Nat) :
    Nat → Nat → R (List Instr × Nat)
  | 0, _ => .error .outOfFuel
  | fuel+1, offset =>
    if offset < endOff then do
      let (i, p) ← parseInstr T S env data offset
      let (rest, p') ← parseInstructions T S env data endOff fuel p
      return (i :: rest, p')
    else .ok ([], offset)

/-- CIE / FDE / ZERO objects -/
inductive Entry
  | cie (header : Fields) (instrs : List Instr) (offset : Nat) (augDict : Fields) (augBytes : Bytes) (fmt : Nat)
  | fde (header : Fields) (instrs : List Instr) (offset : Nat) (cie : Entry) (augBytes : Bytes)
        (lsda : Option Int) (fmt : Nat)
  | zero (offset : Nat)
  deriving Inhabited

/-- `entry.header` (ZERO has none) -/
def Entry.header : Entry → R Fields
  | .cie h .. => .ok h
  | .fde h .. => .ok h
  | .zero _ => .error .attributeError

/-- `entry.augmentation_dict` (`CFIEntry.__init__`: `augmentation_dict or {}`) -/
def Entry.augDict : Entry → R Fields
  | .cie _ _ _ d _ _ => .ok d
  | .fde .. => .ok []
  | .zero _ => .error .attributeError

/-- `entry.structs.initial_length_field_size()` -/
def Entry.ilfs : Entry → R Nat
  | .cie _ _ _ _ _ fmt => .ok (if fmt = 32 then 4 else 12)
  | .fde _ _ _ _ _ _ fmt => .ok (if fmt = 32 then 4 else 12)
  | .zero _ => .error .attributeError

def Entry.offset : Entry → Nat
  | .cie _ _ o .. => o
  | .fde _ _ o .. => o
  | .zero o => o

abbrev Cache := List (Int × Entry)

def Cache.get (c : Cache) (k : Int) : Option Entry :=
  match c with
  | [] => none
  | (k', e) :: rest => if k' = k then some e else Cache.get rest k

/-- `self` of CallFrameInfo -/
structure Cfi where
  T : CfiTables
  /-- `DWARFStructs(little_endian=base.little_endian, dwarf_format=fmt, address_size=base.address_size)` -/
  structs : Nat → R DwarfStructs
  env : Env
  data : Bytes
  address : Int
  eh : Bool

def mkStruct : List (String × Con) → ConFields
  | [] => .nil
  | (n, c) :: rest => .cons (some n) false c (mkStruct rest)

def asFields : Val → R Fields
  | .record fs => .ok fs
  | _ => .error .typeError

/-- `_eh_encoding_to_field(entry_structs)[basic_encoding]` -/
def ehField (T : CfiTables) (S : DwarfStructs) (basic : Nat) : R Con :=
  match T.peField.find? (fun e => e.1 == basic) with
  | none => .error .keyError
  | some e =>
    match S.get e.2 with
    | some c => .ok c
    | none => .error .notImplemented

/-- the seek inside `struct_parse(…, stream_pos=p)` for a Python int: negative → ValueError;
    ≥ 2^63 → OverflowError, which `struct_parse` wraps into ELFParseError -/
def seekPos (p : Int) : R Nat :=
  if p < 0 then .error .valueError
  else if p ≥ 2 ^ 63 then .error .elfParseError
  else .ok p.toNat

/-- `_read_augmentation_data(entry_structs)` at stream position `pos` -/
def readAugmentationData (C : Cfi) (S : DwarfStructs) (pos : Nat) : R (Bytes × Nat) :=
  if !C.eh then .ok ([], pos)
  else do
    let (v, p) ← structParse C.env (.struct (mkStruct [("length", S.Dwarf_uleb128)])) C.data pos
    let len ← v.getNat "length"
    -- `stream.read(n)` with n ≥ 2^63 (PY_SSIZE_T_MAX + 1): CPython raises OverflowError before reading anything.
    -- A bytes object is shorter than 2^63, so such an n always exceeds what is left; the second conjunct is true in
    -- every realisable execution and keeps the round-trip lemmas free of a "section shorter than 2^63" hypothesis.
    if len ≥ 2 ^ 63 ∧ C.data.length < p + len then throw .overflowError
    let bs := readN C.data p len          -- `stream.read(n)`: possibly short
    return (bs, p + bs.length)

/-- the `for b in iterbytes(augmentation)` loop of `_parse_cie_augmentation`:
    fields of the struct to build, and the dict so far -/
def augFieldsLoop (T : CfiTables) (S : DwarfStructs) : Bytes → List (String × Con) → Fields →
    R (List (String × Con) × Fields)
  | [], fields, d => .ok (fields, d)
  | b :: rest, fields, d =>
    if b = 0x7a then augFieldsLoop T S rest (fields ++ [("length", S.Dwarf_uleb128)]) d
    else if b = 0x4c then augFieldsLoop T S rest (fields ++ [("LSDA_encoding", S.Dwarf_uint8)]) d
    else if b = 0x52 then augFieldsLoop T S rest (fields ++ [("FDE_encoding", S.Dwarf_uint8)]) d
    else if b = 0x53 then augFieldsLoop T S rest fields (Fields.set d "True" (.bool true))
    else if b = 0x50 then do
      -- Struct('personality', uint8('encoding'), Switch('function', ctx.encoding & 0x0f, {enc: fld('function')}))
      let cases ← T.peField.foldrM (fun e acc => do
        let c ← ehField T S e.1
        return ConCases.cons (.int e.1) c acc) ConCases.nil
      let pers := Con.struct (mkStruct [("encoding", S.Dwarf_uint8),
        ("function", .switch (.band (.ctx "encoding") (.lit 0x0f)) cases .noDefault)])
      augFieldsLoop T S rest (fields ++ [("personality", pers)]) d
    else .ok (fields, d)               -- KeyError → break

/-- `_parse_cie_augmentation(header, entry_structs)` with the stream at `pos` -/
def parseCieAugmentation (C : Cfi) (S : DwarfStructs) (header : Fields) (pos : Nat) :
    R (Bytes × Fields × Nat) := do
  let aug := (Fields.get? header "augmentation").getD .none
  if !aug.truthy then return ([], [], pos)
  let augB ← match aug with
    | .bytes b => pure b
    | _ => .error .attributeError
  if [0x61, 0x72, 0x6d, 0x63, 0x63].isPrefixOf augB then return ([], [], pos)     -- b'armcc'
  if !([0x7a] : Bytes).isPrefixOf augB then .error .assertion
  let (fields, d) ← augFieldsLoop C.T S augB [] []
  let offset := pos
  let (v, _) ← structParse C.env (.struct (mkStruct fields)) C.data offset
  let parsed ← asFields v
  let d := parsed.foldl (fun acc kv => Fields.set acc kv.1 kv.2) d      -- aug_dict.update(...)
  let (augBytes, p) ← readAugmentationData C S offset                    -- after stream.seek(offset)
  return (augBytes, d, p)

/-- `_parse_lsda_pointer(structs, stream_offset, encoding)` -/
def parseLsdaPointer (C : Cfi) (S : DwarfStructs) (streamOffset : Nat) (encoding : Nat) : R (Int × Nat) := do
  if encoding = C.T.pe.omit_ then .error .assertion
  let basic := encoding &&& 0x0f
  let modifier := encoding &&& 0xf0
  let fld ← ehField C.T S basic
  let (v, p) ← structParse C.env (.struct (mkStruct [("LSDA_pointer", fld)])) C.data streamOffset
  let ptr ← v.getInt "LSDA_pointer"
  if modifier = C.T.pe.absptr then return (ptr, p)
  else if modifier = C.T.pe.pcrel then return (ptr + (C.address + streamOffset), p)
  else .error .assertion

/-- `_parse_cie_for_fde(fde_offset, fde_header, entry_structs)`; `recur` is `_parse_entry_at` -/
def parseCieForFde (C : Cfi) (recur : Int → Nat → Cache → R (Entry × Nat × Cache))
    (fdeOffset : Nat) (header : Fields) (fmt : Nat) (pos : Nat) (cache : Cache) : R (Entry × Cache) := do
  let cp ← (← Fields.getR header "CIE_pointer").asInt
  let cieOffset : Int := if C.eh then (fdeOffset : Int) + (fmt / 8 : Nat) - cp else cp
  let (e, _, cache') ← recur cieOffset pos cache          -- with preserve_stream_pos(self.stream)
  return (e, cache')

/-- `_parse_fde_header(entry_structs, offset)` -/
def parseFdeHeader (C : Cfi) (recur : Int → Nat → Cache → R (Entry × Nat × Cache))
    (S : DwarfStructs) (fmt : Nat) (offset : Nat) (cache : Cache) : R (Fields × Nat × Cache) := do
  if !C.eh then
    let (v, p) ← structParse C.env S.Dwarf_FDE_header C.data offset
    return (← asFields v, p, cache)
  let fields := [("length", S.Dwarf_initial_length), ("CIE_pointer", S.Dwarf_offset)]
  let (mh, p) ← structParse C.env (.struct (mkStruct fields)) C.data offset
  let (cie, cache) ← parseCieForFde C recur offset (← asFields mh) fmt p cache
  let initialLocationOffset := p
  let encoding ← match Fields.get? (← cie.augDict) "FDE_encoding" with
    | some v => v.asNat
    | none => pure C.T.pe.absptr
  if encoding = C.T.pe.omit_ then .error .assertion
  let basic := encoding &&& 0x0f
  let modifier := encoding &&& 0xf0
  let fld ← ehField C.T S basic
  let fields := fields ++ [("initial_location", fld), ("address_range", fld)]
  let (rv, p) ← structParse C.env (.struct (mkStruct fields)) C.data offset
  let result ← asFields rv
  if modifier = 0 then return (result, p, cache)
  else if modifier = C.T.pe.pcrel then
    let il ← (← Fields.getR result "initial_location").asInt
    return (Fields.set result "initial_location" (.int (il + (C.address + initialLocationOffset))), p, cache)
  else .error .assertion

/-- `_parse_entry_at(offset)` with the stream at `pos`; returns the entry, the stream position
    afterwards and the cache.  `fuel` bounds the FDE → CIE recursion (the Python recursion is
    unbounded: an FDE designating itself overflows the interpreter stack). -/
def parseEntryAt (C : Cfi) : Nat → Int → Nat → Cache → R (Entry × Nat × Cache)
  | 0, _, _, _ => .error .outOfFuel
  | fuel+1, offset, pos, cache =>
    match cache.get offset with
    | some entry => do
        let h ← entry.header
        let len ← (← Fields.getR h "length").asNat
        -- self.stream.seek(entry.header.length + entry.structs.initial_length_field_size(), os.SEEK_CUR)
        return (entry, pos + (len + (← entry.ilfs)), cache)
    | none => do
        let off ← seekPos offset
        let S32 ← C.structs 32
        let (elv, p) ← structParse C.env S32.the_Dwarf_uint32 C.data off
        let entryLength ← elv.asNat
        if C.eh && entryLength == 0 then return (.zero off, p, cache)
        let fmt := if entryLength = 0xFFFFFFFF then 64 else 32
        let S ← C.structs fmt
        let ilfs := if fmt = 32 then 4 else 12
        let (idv, _) ← structParse C.env S.the_Dwarf_offset C.data (off + ilfs)
        let cieId ← idv.asNat
        let isCie := if C.eh then cieId == 0
                     else (fmt == 32 && cieId == 0xFFFFFFFF) || cieId == 0xFFFFFFFFFFFFFFFF
        if isCie then
          let hs := if C.eh then S.EH_CIE_header else S.Dwarf_CIE_header
          let (hv, p) ← structParse C.env hs C.data off
          let header ← asFields hv
          let (augBytes, augDict, p) ← parseCieAugmentation C S header p
          let len ← (← Fields.getR header "length").asNat
          let endOffset := off + len + ilfs
          let (instrs, p) ← parseInstructions C.T S C.env C.data endOffset (C.data.length + 1 - p) p
          let entry := Entry.cie header instrs off augDict augBytes fmt
          return (entry, p, (offset, entry) :: cache)
        else
          let recur := parseEntryAt C fuel
          let (header, p, cache) ← parseFdeHeader C recur S fmt off cache
          let (cie, cache) ← parseCieForFde C recur off header fmt p cache
          let cieAug := (Fields.get? (← cie.header) "augmentation").getD (.bytes [])
          let hasZ ← match cieAug with
            | .bytes b => pure (([0x7a] : Bytes).isPrefixOf b)
            | _ => .error .attributeError
          let (augBytes, p) ← if hasZ then readAugmentationData C S p else pure ([], p)
          let lsdaEncoding ← match Fields.get? (← cie.augDict) "LSDA_encoding" with
            | some v => v.asNat
            | none => pure C.T.pe.omit_
          let (lsda, p) ← if lsdaEncoding ≠ C.T.pe.omit_ then do
              let (ptr, p') ← parseLsdaPointer C S (p - augBytes.length) lsdaEncoding
              pure (some ptr, p')
            else pure (none, p)
          let len ← (← Fields.getR header "length").asNat
          let endOffset := off + len + ilfs
          let (instrs, p) ← parseInstructions C.T S C.env C.data endOffset (C.data.length + 1 - p) p
          let (cie, cache) ← parseCieForFde C recur off header fmt p cache
          let entry := Entry.fde header instrs off cie augBytes lsda fmt
          return (entry, p, (offset, entry) :: cache)

/-- `_parse_entries()`: `while offset < self.size`.  The first call happens at whatever position the
    stream has (`pos0`); it is only used by a cache hit, and the cache is empty then. -/
def parseEntriesLoop (C : Cfi) (size : Nat) (depth : Nat) : Nat → Nat → Cache → R (List Entry)
  | 0, _, _ => .error .outOfFuel
  | fuel+1, offset, cache =>
    if offset < size then do
      let (e, p, cache') ← parseEntryAt C depth offset offset cache
      let rest ← parseEntriesLoop C size depth fuel p cache'
      return e :: rest
    else .ok []

/-- `get_entries()`.  Each iteration consumes at least the 4-byte length word. -/
def parseEntries (C : Cfi) (size : Nat) : R (List Entry) :=
  parseEntriesLoop C size (size + 2) (size + 2) 0 []

/-! ### `CFIEntry._decode_CFI_table` -/

/-- `RegisterRule(type, arg)` -/
structure RuleV where
  ty : String
  arg : Val

/-- `CFARule(reg, offset, expr)` -/
structure CfaV where
  reg : Val
  offset : Val
  expr : Val

/-- a line of the table: `dict(pc=…, cfa=…, <regnum>=RegisterRule…)`; `regs` = the integer keys in
    insertion order (keys are unique) -/
structure Line where
  pc : Int
  cfa : CfaV
  regs : List (Nat × RuleV)

structure Decoded where
  table : List Line
  regOrder : List Nat

def regGet (m : List (Nat × RuleV)) (r : Nat) : Option RuleV :=
  match m with
  | [] => none
  | (k, v) :: rest => if k = r then some v else regGet rest r

/-- `cur_line[r] = v`: overwrite in place, or append -/
def regSet (m : List (Nat × RuleV)) (r : Nat) (v : RuleV) : List (Nat × RuleV) :=
  match m with
  | [] => [(r, v)]
  | (k, w) :: rest => if k = r then (k, v) :: rest else (k, w) :: regSet rest r v

/-- `cur_line.pop(r, None)` -/
def regPop (m : List (Nat × RuleV)) (r : Nat) : List (Nat × RuleV) := m.filter (fun kv => kv.1 ≠ r)

structure DState where
  cur : Line
  table : List Line
  stack : List Line
  order : List Nat

def Instr.arg (i : Instr) (k : Nat) : R Val :=
  match i.args[k]? with
  | some v => .ok v
  | none => .error .indexError

def Instr.argInt (i : Instr) (k : Nat) : R Int := do (← i.arg k).asInt
/-- register operands come from ULEB128 / the low opcode bits: natural numbers -/
def Instr.argReg (i : Instr) (k : Nat) : R Nat := do (← i.arg k).asNat

def addToOrder (order : List Nat) (r : Nat) : List Nat := if order.contains r then order else order ++ [r]

def setRule (s : DState) (r : Nat) (v : RuleV) : DState :=
  { s with order := addToOrder s.order r, cur := { s.cur with regs := regSet s.cur.regs r v } }

def hdrInt (h : Fields) (k : String) : R Int := do (← Fields.getR h k).asInt

/-- the body of `for instr in self.instructions`.  `isFde`: `isinstance(self, FDE)`;
    `last`: the register part of `last_line_in_CIE`; `cieH`: `cie.header`. -/
def decodeStep (T : CfiTables) (isFde : Bool) (last : List (Nat × RuleV)) (cieH : Fields) (s : DState) (i : Instr) :
    R DState := do
  let name ← instructionName T i.opcode
  if name = "DW_CFA_set_loc" then
    let a ← i.argInt 0
    return { s with table := s.table ++ [s.cur], cur := { s.cur with pc := a } }
  else if name = "DW_CFA_advance_loc1" ∨ name = "DW_CFA_advance_loc2" ∨ name = "DW_CFA_advance_loc4"
            ∨ name = "DW_CFA_advance_loc" then
    let a ← i.argInt 0
    let caf ← hdrInt cieH "code_alignment_factor"
    return { s with table := s.table ++ [s.cur], cur := { s.cur with pc := s.cur.pc + a * caf } }
  else if name = "DW_CFA_def_cfa" then
    return { s with cur := { s.cur with cfa := ⟨← i.arg 0, ← i.arg 1, .none⟩ } }
  else if name = "DW_CFA_def_cfa_sf" then
    let r ← i.arg 0
    let o ← i.argInt 1
    let daf ← hdrInt cieH "data_alignment_factor"
    return { s with cur := { s.cur with cfa := ⟨r, .int (o * daf), .none⟩ } }
  else if name = "DW_CFA_def_cfa_register" then
    return { s with cur := { s.cur with cfa := ⟨← i.arg 0, s.cur.cfa.offset, .none⟩ } }
  else if name = "DW_CFA_def_cfa_offset" then
    return { s with cur := { s.cur with cfa := ⟨s.cur.cfa.reg, ← i.arg 0, .none⟩ } }
  else if name = "DW_CFA_def_cfa_offset_sf" then
    let o ← i.argInt 0
    let daf ← hdrInt cieH "data_alignment_factor"
    return { s with cur := { s.cur with cfa := ⟨s.cur.cfa.reg, .int (o * daf), .none⟩ } }
  else if name = "DW_CFA_def_cfa_expression" then
    return { s with cur := { s.cur with cfa := ⟨.none, .none, ← i.arg 0⟩ } }
  else if name = "DW_CFA_undefined" then
    return setRule s (← i.argReg 0) ⟨"UNDEFINED", .none⟩
  else if name = "DW_CFA_same_value" then
    return setRule s (← i.argReg 0) ⟨"SAME_VALUE", .none⟩
  else if name = "DW_CFA_offset" ∨ name = "DW_CFA_offset_extended" ∨ name = "DW_CFA_offset_extended_sf" then
    let r ← i.argReg 0
    let o ← i.argInt 1
    let daf ← hdrInt cieH "data_alignment_factor"
    return setRule s r ⟨"OFFSET", .int (o * daf)⟩
  else if name = "DW_CFA_val_offset" ∨ name = "DW_CFA_val_offset_sf" then
    let r ← i.argReg 0
    let o ← i.argInt 1
    let daf ← hdrInt cieH "data_alignment_factor"
    return setRule s r ⟨"VAL_OFFSET", .int (o * daf)⟩
  else if name = "DW_CFA_register" then
    return setRule s (← i.argReg 0) ⟨"REGISTER", ← i.arg 1⟩
  else if name = "DW_CFA_expression" then
    return setRule s (← i.argReg 0) ⟨"EXPRESSION", ← i.arg 1⟩
  else if name = "DW_CFA_val_expression" then
    return setRule s (← i.argReg 0) ⟨"VAL_EXPRESSION", ← i.arg 1⟩
  else if name = "DW_CFA_restore" ∨ name = "DW_CFA_restore_extended" then
    let r ← i.argReg 0
    let order := addToOrder s.order r
    if !isFde then .error .dwarfError         -- dwarf_assert(isinstance(self, FDE), …)
    else
      match regGet last r with
      | some v => return { s with order := order, cur := { s.cur with regs := regSet s.cur.regs r v } }
      | none => return { s with order := order, cur := { s.cur with regs := regPop s.cur.regs r } }
  else if name = "DW_CFA_remember_state" then
    return { s with stack := s.stack ++ [s.cur] }
  else if name = "DW_CFA_restore_state" then
    match s.stack.getLast? with
    | none => .error .indexError              -- pop from empty list
    | some top => return { s with stack := s.stack.dropLast, cur := { top with pc := s.cur.pc } }
  else return s

def decodeLoop (T : CfiTables) (isFde : Bool) (last : List (Nat × RuleV)) (cieH : Fields) :
    DState → List Instr → R DState
  | s, [] => .ok s
  | s, i :: is => do
    let s' ← decodeStep T isFde last cieH s i
    decodeLoop T isFde last cieH s' is

/-- the tail of `_decode_CFI_table`: the current line is appended if it says anything -/
def finish (s : DState) : Decoded :=
  let c := s.cur
  let keep := (match c.cfa.reg with | .none => false | _ => true)
            || (match c.cfa.expr with | .none => false | _ => true) || !c.regs.isEmpty
  ⟨if keep then s.table ++ [c] else s.table, s.order⟩

/-- `entry.get_decoded()` -/
def decodeTable (T : CfiTables) : Entry → R Decoded
  | .zero _ => .error .attributeError
  | .cie h instrs _ _ _ _ => do
      let cur : Line := ⟨0, ⟨.none, .int 0, .none⟩, []⟩
      let s ← decodeLoop T false [] h ⟨cur, [], [], []⟩ instrs
      return finish s
  | .fde h instrs _ ce _ _ _ => do
      let cd ← decodeTable T ce
      let (last, cur) : List (Nat × RuleV) × Line :=
        match cd.table.getLast? with
        | some l => (l.regs, l)
        | none => ([], ⟨0, ⟨.none, .int 0, .none⟩, []⟩)
      let il ← hdrInt h "initial_location"
      let cur := { cur with pc := il }
      let cieH ← ce.header
      let s ← decodeLoop T true last cieH ⟨cur, [], [], cd.regOrder⟩ instrs
      return finish s

/-! ### observation (canonical value of what the public API exposes) -/

def Instr.toVal (i : Instr) : Val := .list [.int i.opcode, .list i.args]

def RuleV.toVal (r : RuleV) : Val := .list [.str r.ty, r.arg]
def CfaV.toVal (c : CfaV) : Val := .list [c.reg, c.offset, c.expr]

/-- insertion sort of the register columns by register number (canonical row form) -/
def insertSorted (kv : Nat × RuleV) : List (Nat × RuleV) → List (Nat × RuleV)
  | [] => [kv]
  | x :: rest => if kv.1 ≤ x.1 then kv :: x :: rest else x :: insertSorted kv rest

def sortRegs (m : List (Nat × RuleV)) : List (Nat × RuleV) := m.foldr insertSorted []

def Line.toVal (l : Line) : Val :=
  .record [("pc", .int l.pc), ("cfa", l.cfa.toVal),
           ("regs", .list ((sortRegs l.regs).map fun (k, v) => .list [.int k, v.toVal]))]

/-- table in canonical form, plus the pyelftools-specific orders (`reg_order`, dict key order per line) -/
def tableVals (T : CfiTables) (e : Entry) : Val × Val :=
  match decodeTable T e with
  | .ok d => (.list (d.table.map Line.toVal),
              .list [.list (d.regOrder.map fun (r : Nat) => Val.int r),
                     .list (d.table.map fun l => .list (l.regs.map fun kv => Val.int (kv.1 : Nat)))])
  | .error err => (.record [("err", .str err.name)], .none)

def optInt : Option Int → Val
  | some n => .int n
  | none => .none

def Entry.toVal (T : CfiTables) (e : Entry) : Val :=
  match e with
  | .zero off => .record [("kind", .str "ZERO"), ("offset", .int off)]
  | .cie h instrs off d ab _ =>
    let (t, o) := tableVals T e
    .record [("kind", .str "CIE"), ("offset", .int off), ("header", .record h), ("aug_bytes", .bytes ab),
             ("aug_dict", .record d), ("instructions", .list (instrs.map Instr.toVal)), ("table", t), ("order", o)]
  | .fde h instrs off ce ab lsda _ =>
    let (t, o) := tableVals T e
    .record [("kind", .str "FDE"), ("offset", .int off), ("header", .record h), ("cie", .int ce.offset),
             ("aug_bytes", .bytes ab), ("lsda_pointer", optInt lsda),
             ("instructions", .list (instrs.map Instr.toVal)), ("table", t), ("order", o)]

end PyElf.Model
