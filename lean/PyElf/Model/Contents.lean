/-
  C02 model: mirrors of
    sections.py   Section.__init__ (compression header), data_size, data_alignment, compressed, data()
                  StringTableSection.get_string  (Model.getString in Model/ElfFile.lean)
    segments.py   Segment.data, InterpSegment.get_interp_name, Segment.section_in_segment
    elffile.py    ELFFile.address_offsets
  statement by statement.  `zlib cdata n` stands for
  `zlib.decompressobj().decompress(cdata, n)` (an external call: a parameter).
  `F : ShFlags` are the `SH_FLAGS` constants the code consults (the generated ones in the
  driver, the gABI's in theorems; TieC02 proves them equal).
-/
import PyElf.Model.ElfFile
import PyElf.Spec.Contents
namespace PyElf.Model.C02
open PyElf PyElf.Model
open PyElf.Spec.C02 (ShFlags)

/-- the three `SH_FLAGS` constants the code consults, from the (regenerated) `SH_FLAGS` table -/
def flagsOfTable (t : List (String × Int)) : Option ShFlags := do
  let g (k : String) : Option Nat := (t.find? (·.1 == k)).map (·.2.toNat)
  pure ⟨← g "SHF_ALLOC", ← g "SHF_TLS", ← g "SHF_COMPRESSED"⟩

/-- `BytesIO.read(n)` converts `n` to a C `Py_ssize_t` (as `seek` does) -/
def readCheck (n : Nat) : R Unit :=
  if n ≥ 2 ^ 63 then .error .overflowError else .ok ()

/-- `stream.read(n)` for a Python int `n` at `pos`: negative means "to the end" -/
def readInt (data : Bytes) (pos : Nat) (n : Int) : R Bytes :=
  if n < 0 then .ok (data.drop pos)
  else do
    readCheck n.toNat
    return readN data pos n.toNat

/-- what `Section.__init__` leaves behind -/
structure SectionObj where
  header : Val
  /-- `header['sh_flags'] & SH_FLAGS.SHF_COMPRESSED` (an int used as a truth value) -/
  compressed : Int
  /-- `_compression_type`: only set for compressed sections -/
  ctype : Option Val
  /-- `_decompressed_size`, `_decompressed_align` -/
  dsize : Val
  dalign : Val

/-- `Section.__init__` -/
def sectionNew (env : Env) (S : ElfStructs) (F : ShFlags) (data : Bytes) (sh : Val) : R SectionObj := do
  let comp := PyInt.land (← sh.getInt "sh_flags") (F.compressed : Int)
  if comp != 0 then
    let off ← sh.getNat "sh_offset"
    let (ch, _) ← structParseAt env S.Elf_Chdr data off
    return { header := sh, compressed := comp, ctype := some (← ch.getField "ch_type"),
             dsize := ← ch.getField "ch_size", dalign := ← ch.getField "ch_addralign" }
  else
    return { header := sh, compressed := comp, ctype := none,
             dsize := ← sh.getField "sh_size", dalign := ← sh.getField "sh_addralign" }

/-- `Section.data()` -/
def sectionData (zlib : Bytes → Nat → R Bytes) (S : ElfStructs) (data : Bytes) (o : SectionObj) : R Bytes := do
  let ty ← o.header.getField "sh_type"
  if isStr ty "SHT_NOBITS" then do
    -- b'\0' * self.data_size  (a repeat count ≥ 2^63 is an OverflowError; MemoryError is not modelled)
    let n ← o.dsize.asNat
    readCheck n
    pure (List.replicate n 0)
  else if o.compressed != 0 then
    match o.ctype with
    | none => throw .attributeError
    | some ct =>
      if isStr ct "ELFCOMPRESS_ZLIB" then do
        let hdrSize ← sizeofR S.Elf_Chdr
        let off ← o.header.getNat "sh_offset"
        seekCheck (off + hdrSize)
        let size ← o.header.getInt "sh_size"
        let compressed ← readInt data (off + hdrSize) (size - hdrSize)
        -- decomp.decompress(compressed, self.data_size + 1): max_length is a Py_ssize_t
        let want ← o.dsize.asNat
        readCheck (want + 1)
        let result ← zlib compressed (want + 1)
        if result.length != want then throw .elfCompressionError
        else pure result
      else
        -- 'Unknown compression type: {:#0x}'.format(c_type): a *named* type other than ZLIB is a str,
        -- for which the 'x' format code is a ValueError
        match ct with
        | .str _ => throw .valueError
        | _ => throw .elfCompressionError
  else do
    let off ← o.header.getNat "sh_offset"
    seekCheck off
    let n ← o.dsize.asNat
    readCheck n
    pure (readN data off n)

/-- `Segment.data()` -/
def segmentData (data : Bytes) (ph : Val) : R Bytes := do
  let off ← ph.getNat "p_offset"
  seekCheck off
  let n ← ph.getNat "p_filesz"
  readCheck n
  return readN data off n

/-- `InterpSegment.get_interp_name()` as bytes (the library decodes them as UTF-8):
    `struct_parse(CString('', encoding='utf-8'), stream, stream_pos=p_offset)` -/
def getInterpName (env : Env) (data : Bytes) (ph : Val) : R Bytes := do
  let off ← ph.getNat "p_offset"
  let (v, _) ← structParseAt env .cstring data off
  match v with
  | .bytes b => return b
  | _ => throw .typeError

/-- the loop of `ELFFile.address_offsets(start, size)` over the segment headers
    `iter_segments(type='PT_LOAD')` walks -/
def addressOffsetsOf (start size : Int) : List Val → R (List Int)
  | [] => .ok []
  | ph :: rest => do
    let ty ← ph.getField "p_type"
    if isStr ty "PT_LOAD" then
      let vaddr ← ph.getInt "p_vaddr"
      -- `start >= seg['p_vaddr'] and end <= seg['p_vaddr'] + seg['p_filesz']` (short-circuit)
      let hit ← if start ≥ vaddr then do
          let vaddr2 ← ph.getInt "p_vaddr"
          let filesz ← ph.getInt "p_filesz"
          pure (decide (start + size ≤ vaddr2 + filesz))
        else pure false
      if hit then
        let v ← ph.getInt "p_vaddr"
        let o ← ph.getInt "p_offset"
        return (start - v + o) :: (← addressOffsetsOf start size rest)
      else addressOffsetsOf start size rest
    else addressOffsetsOf start size rest

/-- `list(elffile.address_offsets(start, size))` -/
def addressOffsets (env : Env) (f : ElfFile) (start size : Int) : R (List Int) := do
  let segs ← iterSegments env f.S f.data f.header f.shstr
  addressOffsetsOf start size (segs.map (·.2))

def isAnyStr (v : Val) (names : List String) : Bool := names.any (isStr v)

/-- `isinstance(segtype, int) and (segtype == _PT_GNU_SFRAME or _PT_GNU_MBIND_LO <= segtype <= _PT_GNU_MBIND_HI)` -/
def isSframeOrMbind : Val → Bool
  | .int n => n == 0x6474e554 || (decide (0x6474e555 ≤ n) && decide (n ≤ 0x6474e555 + 4095))
  | _ => false

/-- the two range checks of `section_in_segment` share one shape:
    `x >= base and x - base + size <= len and (len == 0 or x - base <= len - 1)`;
    `size`/`len` are fetched only when Python's `and` reaches them -/
def withinPy (x base : Int) (size len : R Int) : R Bool :=
  if !(x ≥ base) then pure false
  else do
    let sz ← size
    let l ← len
    if !(x - base + sz ≤ l) then pure false
    else do
      let l2 ← len
      if l2 == 0 then pure true
      else do
        let l3 ← len
        pure (decide (x - base ≤ l3 - 1))

/-- `Segment.section_in_segment(section)` -/
def sectionInSegment (F : ShFlags) (ph sh : Val) : R Bool := do
  let segtype ← ph.getField "p_type"
  let sectype ← sh.getField "sh_type"
  let secflags ← sh.getInt "sh_flags"
  let tls := PyInt.land secflags (F.tls : Int)
  -- if A: pass / elif B: pass / else: return False
  if !((tls != 0 && isAnyStr segtype ["PT_TLS", "PT_GNU_RELRO", "PT_LOAD"]) ||
       (tls == 0 && !isAnyStr segtype ["PT_TLS", "PT_PHDR"])) then pure false
  else
    let alloc := PyInt.land secflags (F.alloc : Int)
    if alloc == 0 &&
        (isAnyStr segtype ["PT_LOAD", "PT_DYNAMIC", "PT_GNU_EH_FRAME", "PT_GNU_RELRO", "PT_GNU_STACK"] ||
         isSframeOrMbind segtype) then pure false
    else do
      let vmaOk ← if alloc != 0 then do
          let secaddr ← sh.getInt "sh_addr"
          let vaddr ← ph.getInt "p_vaddr"
          withinPy secaddr vaddr (sh.getInt "sh_size") (ph.getInt "p_memsz")
        else pure true
      if !vmaOk then pure false
      else if isStr sectype "SHT_NOBITS" then pure true
      else do
        let secoffset ← sh.getInt "sh_offset"
        let poffset ← ph.getInt "p_offset"
        withinPy secoffset poffset (sh.getInt "sh_size") (ph.getInt "p_filesz")

end PyElf.Model.C02
