/-
  C07: the DESCRIPTION side of the composition with `.debug_info` (shared by the driver and by Proofs/ListsSlots,
  Proofs/ListsInfo): what the list code must see of a forest description (Spec/DieSection `Forest`) — `forestCus` —,
  the value an attribute has as far as the list code is concerned (`specValue`: DW_FORM_loclistx / rnglistx designate
  `base +` a slot of the offset table, DWARF 5 §7.28 / §7.29), the decoded entry (`specDec`), the address an index
  designates (`addrSlot`, §7.27), and the decidable conditions "every index designates a slot inside its section"
  (`dieResolves`, `forestResolves`).  No streams, no errors: sections are read with `Spec.C04.uintAt`.
-/
import PyElf.Spec.DieSection
import PyElf.Spec.DwarfStructs
import PyElf.Model.ListsInfo
namespace PyElf.Model.Lists
open PyElf PyElf.Spec PyElf.Spec.C04
open PyElf.Spec.C04 (uintAt)

/-- the section offset an index designates: `base +` the value in slot `i` of the table at `base` -/
def slotValue (le : Bool) (sec : Option Bytes) (base : R Val) (osz : Nat) (raw : Val) : Option Val :=
  match sec, base, raw with
  | some data, .ok (.int (.ofNat b)), .int (.ofNat i) => (uintAt le data (b + i * osz) osz).map fun o => .int ((b + o : Nat) : Int)
  | _, _, _ => none

/-- offset size of a unit: 4 in the 32-bit, 8 in the 64-bit DWARF format -/
def oszOf (cu : Cu) : Nat := if cu.fmt = 32 then 4 else 8

/-- value of an attribute as far as the list code is concerned: the raw value, except that
    DW_FORM_loclistx / DW_FORM_rnglistx designate an offset through the unit's offset table (§7.28, §7.29) -/
def specValue (le : Bool) (secs : Secs) (cu : Cu) (a : RawAttr) : Option Val :=
  if a.form = "DW_FORM_loclistx" then
    slotValue le secs.loclists (getBaseOffset cu "DW_AT_loclists_base") (oszOf cu) a.raw
  else if a.form = "DW_FORM_rnglistx" then
    slotValue le secs.rnglists (getBaseOffset cu "DW_AT_rnglists_base") (oszOf cu) a.raw
  else some a.raw

/-- the decoded debugging entry (`die.attributes`) -/
def specDec (le : Bool) (secs : Secs) (cu : Cu) (die : List RawAttr) : List Attr :=
  attrDict (die.map fun a => ⟨a.name, a.form, (specValue le secs cu a).getD .none⟩)

/-- every index of the entry designates a slot that lies in its table section -/
def dieResolves (le : Bool) (secs : Secs) (cu : Cu) (die : List RawAttr) : Bool :=
  die.all fun a => (specValue le secs cu a).isSome

/-- the address an index designates in the unit's array of .debug_addr (§7.27) -/
def addrSlot (le : Bool) (secs : Secs) (cu : Cu) (i : Nat) : Option Nat :=
  match secs.addr, getBaseOffset cu "DW_AT_addr_base" with
  | some data, .ok (.int (.ofNat b)) => uintAt le data (b + i * cu.asz) cu.asz
  | _, _ => none

/-- what the list code reads of the attributes of the entries of a unit -/
def unitDies (nm : Names) (F : Forest) (p : Nat × UnitDesc) : List (List RawAttr) :=
  (flattenUnit nm (p.2.cfg F.le) (resolveD (p.2.cfg F.le) F.secs (basesOf p.2.tree.root))
      (resolveD (p.2.cfg F.le) F.secs (basesOf p.2.tree.root)) (infoDieOff F p.1 p.2) p.2.tree).map
    fun d => d.attrs.map rawAttrOfObs

/-- the unit `p.2` of a forest, placed at `p.1`, as the list code reads it -/
def forestCu (nm : Names) (F : Forest) (p : Nat × UnitDesc) : Cu :=
  { version := p.2.version, asz := p.2.asz, fmt := if p.2.fmt64 then 64 else 32,
    S := Spec.dwarfStructs (p.2.cfg F.le), dies := unitDies nm F p }

/-- the units of `.debug_info` of a forest as the list code reads them -/
def forestCus (nm : Names) (F : Forest) : List Cu := (placeInfo F 0 F.units).map (forestCu nm F)

/-- every index of every entry of every unit designates a slot that lies in its table section (decidable) -/
def forestResolves (nm : Names) (F : Forest) : Bool :=
  (forestCus nm F).all fun cu => cu.dies.all fun die => dieResolves F.le (secsOfSections F.secs) cu die

end PyElf.Model.Lists
