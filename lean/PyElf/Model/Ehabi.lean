/-
  Mirror of elftools/ehabi/ehabiinfo.py (`EHABIInfo.num_entry`, `get_entry`, the entry classes)
  and elftools/ehabi/decoder.py (`EHABIBytecodeDecoder._decode`, the handlers), after the C20 fixes.
  `arm_expand_prel31` is the T3 translation `Gen.Pure.arm_expand_prel31`; the `ring` dispatch table
  is `Gen.ehabiRing` (T1).
-/
import PyElf.Core.Bundles
import PyElf.Gen.Pure
import PyElf.Gen.Extra_C20
import PyElf.Spec.Ehabi
namespace PyElf.Model.Ehabi
open PyElf

/-- `struct_parse(struct, stream, pos)` on a BytesIO / file: `seek` of an int ≥ 2^63 is CPython's
    OverflowError (ssize_t) -/
def parseAt (env : Env) (c : Con) (data : Bytes) (pos : Int) : R (Val × Nat) :=
  if pos < 0 then .error .valueError
  else if pos ≥ 2 ^ 63 then .error .elfParseError
  else structParse env c data pos.toNat

/-- the entry object: function_offset, personality, bytecode_array, eh_table_offset, unwindable, corrupt -/
def entryObj (fn pers code tab : Val) (unwindable corrupt : Bool) : Val :=
  .record [("function_offset", fn), ("personality", pers), ("bytecode_array", code),
           ("eh_table_offset", tab), ("unwindable", .bool unwindable), ("corrupt", .bool corrupt)]

def corruptEntry : Val := entryObj .none .none .none .none true true

def ints (xs : List Int) : Val := .list (xs.map .int)

/-- the `for i in range(more_word)` loop of compact models 1/2 -/
def moreWords (env : Env) (H : EhabiStructs) (data : Bytes) : Nat → Nat → List Int → R (List Int)
  | 0, _, acc => .ok acc
  | n+1, pos, acc => do
    let (v, p) ← structParse env H.EH_table_struct data pos
    let r ← v.getInt "word0"
    moreWords env H data n p
      (acc ++ [PyInt.land (PyInt.shr r 24) 0xFF, PyInt.land (PyInt.shr r 16) 0xFF,
               PyInt.land (PyInt.shr r 8) 0xFF, PyInt.land (PyInt.shr r 0) 0xFF])

/-- `EHABIInfo.get_entry(n)`; `shOffset`/`shSize` are the SHT_ARM_EXIDX section's sh_offset/sh_size -/
def getEntry (env : Env) (H : EhabiStructs) (data : Bytes) (shOffset shSize n : Nat) : R Val := do
  if n ≥ shSize / Gen.ehabiEntrySize then .error .indexError
  else
    let place : Int := shOffset + n * Gen.ehabiEntrySize
    let (d, _) ← parseAt env H.EH_index_struct data place
    let word0 ← d.getInt "word0"
    let word1 ← d.getInt "word1"
    if PyInt.land word0 0x80000000 ≠ 0 then return corruptEntry
    else
      let functionOffset := Gen.Pure.arm_expand_prel31 word0 place
      if word1 = 1 then
        return entryObj (.int functionOffset) .none .none .none false false
      else if PyInt.land word1 0x80000000 = 0 then
        let ehTableOffset := Gen.Pure.arm_expand_prel31 word1 (place + 4)
        let (t, p) ← parseAt env H.EH_table_struct data ehTableOffset
        let word0 ← t.getInt "word0"
        if PyInt.land word0 0x80000000 = 0 then
          return entryObj (.int functionOffset) (.int (Gen.Pure.arm_expand_prel31 word0 ehTableOffset)) .none .none true false
        else if PyInt.land word0 0x70000000 ≠ 0 then return corruptEntry
        else
          let perIndex := PyInt.land (PyInt.shr word0 24) 0x7f
          if perIndex = 0 then
            let opcode := [PyInt.shr (PyInt.land word0 0xFF0000) 16, PyInt.shr (PyInt.land word0 0xFF00) 8,
                           PyInt.land word0 0xFF]
            return entryObj (.int functionOffset) (.int perIndex) (ints opcode) .none true false
          else if perIndex = 1 ∨ perIndex = 2 then
            let moreWord := PyInt.land (PyInt.shr word0 16) 0xff
            let opcode := [PyInt.land (PyInt.shr word0 8) 0xff, PyInt.land (PyInt.shr word0 0) 0xff]
            -- `stream.seek(eh_table_offset + 4)`: the position right after the word just parsed
            let opcode ← moreWords env H data moreWord.toNat p opcode
            return entryObj (.int functionOffset) (.int perIndex) (ints opcode) (.int ehTableOffset) true false
          else return corruptEntry
      else
        if PyInt.land word1 0x7f000000 ≠ 0 then return corruptEntry
        else
          let opcode := [PyInt.shr (PyInt.land word1 0xFF0000) 16, PyInt.shr (PyInt.land word1 0xFF00) 8,
                         PyInt.land word1 0xFF]
          return entryObj (.int functionOffset) (.int 0) (ints opcode) .none true false

/-! ### byte-code decoder -/

def byteAt (arr : Bytes) (i : Nat) : R Nat :=
  match arr[i]? with
  | some b => .ok b.toNat
  | none => .error .indexError

/-- `_calculate_range` -/
def calculateRange (start count : Nat) : Nat := ((1 <<< (count + 1)) - 1) <<< start

def hits (mask : Nat) : List Nat := (List.range 32).filter fun i => mask &&& (1 <<< i) ≠ 0

def braces (xs : List String) : String := "{" ++ ", ".intercalate xs ++ "}"

/-- `_printGPR`: `gpr_register_names[i]` may raise IndexError -/
def printGPR (mask : Nat) : R String := do
  let names ← (hits mask).mapM fun i =>
    match Gen.ehabiGprNames[i]? with
    | some s => (.ok s : R String)
    | none => .error .indexError
  return braces names

/-- `_print_registers` -/
def printRegisters (mask : Nat) (pfx : String) : String :=
  braces ((hits mask).map fun i => pfx ++ toString i)

/-- `_decode_11001001_sssscccc` (shared by 10110011) with `start` offset 0, and 11001000 with 16 -/
def popD (arr : Bytes) (idx base : Nat) (pfx : String) : R (String × Nat) := do
  let op1 ← byteAt arr (idx + 1)
  let start := base + ((op1 &&& 0xf0) >>> 4)
  let count := (op1 &&& 0x0f) >>> 0
  return ("pop " ++ printRegisters (calculateRange start count) pfx, idx + 2)

/-- the ULEB128 buffer loop of `_decode_10110010_uleb128` (fixed): append while the last byte has bit 7 -/
def ulebBuffer (arr : Bytes) : Nat → Nat → List Nat → R (List Nat × Nat)
  | 0, _, _ => .error .outOfFuel
  | fuel+1, idx, buf =>
    match buf.getLast? with
    | none => .error .indexError
    | some l =>
      if l &&& 0x80 ≠ 0 then do
        let b ← byteAt arr idx
        ulebBuffer arr fuel (idx + 1) (buf ++ [b])
      else .ok (buf, idx)

/-- handler `name` run with `self._index = idx`: the mnemonic and the new index -/
def handler (name : String) (arr : Bytes) (idx : Nat) : R (String × Nat) :=
  match name with
  | "_decode_00xxxxxx" => do
    let opcode ← byteAt arr idx
    return ("vsp = vsp + " ++ toString (((opcode &&& 0x3f) <<< 2) + 4), idx + 1)
  | "_decode_01xxxxxx" => do
    let opcode ← byteAt arr idx
    return ("vsp = vsp - " ++ toString (((opcode &&& 0x3f) <<< 2) + 4), idx + 1)
  | "_decode_1000iiii_iiiiiiii" => do
    let op0 ← byteAt arr idx
    let op1 ← byteAt arr (idx + 1)
    let gprMask := (op1 <<< 4) ||| ((op0 &&& 0x0f) <<< 12)
    if gprMask = 0 then return ("refuse to unwind", idx + 2)
    else return ("pop " ++ (← printGPR gprMask), idx + 2)
  | "_decode_10011101" => .ok ("reserved (ARM MOVrr)", idx + 1)
  | "_decode_10011111" => .ok ("reserved (WiMMX MOVrr)", idx + 1)
  | "_decode_1001nnnn" => do
    let opcode ← byteAt arr idx
    return ("vsp = r" ++ toString (opcode &&& 0x0f), idx + 1)
  | "_decode_10100nnn" => do
    let opcode ← byteAt arr idx
    return ("pop " ++ (← printGPR (calculateRange 4 (opcode &&& 0x07))), idx + 1)
  | "_decode_10101nnn" => do
    let opcode ← byteAt arr idx
    return ("pop " ++ (← printGPR (calculateRange 4 (opcode &&& 0x07) ||| (1 <<< 14))), idx + 1)
  | "_decode_10110000" => .ok ("finish", idx + 1)
  | "_decode_10110001_0000iiii" => do
    let op1 ← byteAt arr (idx + 1)
    if (op1 &&& 0xf0) ≠ 0 ∨ op1 = 0x00 then return ("spare", idx + 2)
    else return ("pop " ++ (← printGPR (op1 &&& 0x0f)), idx + 2)
  | "_decode_10110010_uleb128" => do
    let b ← byteAt arr (idx + 1)
    let (buf, idx') ← ulebBuffer arr (arr.length + 1) (idx + 2) [b]
    let value := buf.reverse.foldl (fun v b => (v <<< 7) + (b &&& 0x7F)) 0
    return ("vsp = vsp + " ++ toString (0x204 + (value <<< 2)), idx')
  | "_decode_10110011_sssscccc" => popD arr idx 0 "d"
  | "_decode_101101nn" => .ok ("spare", idx + 1)
  | "_decode_10111nnn" => do
    let opcode ← byteAt arr idx
    return ("pop " ++ printRegisters (calculateRange 8 (opcode &&& 0x07)) "d", idx + 1)
  | "_decode_11000110_sssscccc" => popD arr idx 0 "wR"
  | "_decode_11000111_0000iiii" => do
    let op1 ← byteAt arr (idx + 1)
    if (op1 &&& 0xf0) ≠ 0 ∨ op1 = 0x00 then return ("spare", idx + 2)
    else return ("pop " ++ printRegisters (op1 &&& 0x0f) "wCGR", idx + 2)
  | "_decode_11001000_sssscccc" => popD arr idx 16 "d"
  | "_decode_11001001_sssscccc" => popD arr idx 0 "d"
  | "_decode_11001yyy" => .ok ("spare", idx + 1)
  | "_decode_11000nnn" => do
    let opcode ← byteAt arr idx
    return ("pop " ++ printRegisters (calculateRange 10 (opcode &&& 0x07)) "wR", idx + 1)
  | "_decode_11010nnn" => do
    let opcode ← byteAt arr idx
    return ("pop " ++ printRegisters (calculateRange 8 (opcode &&& 0x07)) "d", idx + 1)
  | "_decode_11xxxyyy" => .ok ("spare", idx + 1)
  | _ => .error .attributeError

/-- the first recipe of the ring whose `(opcode & mask) == value` -/
def findHandler (ring : List (Nat × Nat × String)) (op : Nat) : Option String :=
  match ring with
  | [] => none
  | (m, v, h) :: rest => if op &&& m = v then some h else findHandler rest op

/-- `_decode`: `while self._index < len(arr): for mask, value, handler in ring: if match: …; break`.
    When no recipe matches the Python `while` spins forever (`outOfFuel`). -/
def decodeLoop (ring : List (Nat × Nat × String)) (arr : Bytes) :
    Nat → Nat → List (Bytes × String) → R (List (Bytes × String))
  | 0, _, _ => .error .outOfFuel
  | fuel+1, idx, acc =>
    if idx < arr.length then do
      let op ← byteAt arr idx
      match findHandler ring op with
      | none => .error .outOfFuel
      | some h =>
        let (mn, idx') ← handler h arr idx
        decodeLoop ring arr fuel idx' (((arr.drop idx).take (idx' - idx), mn) :: acc)
    else .ok acc.reverse

def decode (ring : List (Nat × Nat × String)) (arr : Bytes) : R (List (Bytes × String)) :=
  decodeLoop ring arr (arr.length + 1) 0 []

/-- `EHABIEntry.mnmemonic_array()`: None for a falsy `bytecode_array` -/
def mnemonicArray (ring : List (Nat × Nat × String)) (code : Option Bytes) : R (Option (List (Bytes × String))) :=
  match code with
  | none => .ok none
  | some [] => .ok none
  | some arr => do return some (← decode ring arr)

end PyElf.Model.Ehabi
