/-
  C11 — mirror of the container side of the DWARF reader:

    ELFFile.has_section / get_section_by_name / has_dwarf_info / has_dwarf_link / get_dwarf_link,
    ELFFile.get_dwarf_info (debug-link gate, section-name selection, the per-section loop,
    supplementary file), ELFFile._read_dwarf_section, ELFFile._decompress_dwarf_section,
    ELFFile.get_supplementary_dwarfinfo, ELFFile.has_phantom_bytes          (elf/elffile.py)
    Section.data / data_size                                                (elf/sections.py)
    DWARFInfo.parse_debugsupinfo                                            (dwarf/dwarfinfo.py)
    _file_crc32                                                             (dwarf/dwarf_util.py)

  zlib and CRC-32 are EXTERNAL: `Ext.decompress` is `zlib.decompressobj().decompress(data, max_length)`
  and `Ext.crc32` is `binascii.crc32` of a whole file.  The stream loader is a mapping
  (path bytes → file contents); a missing path is the mapping's KeyError.

  Everything is parameterised by `P : Params` (enum environment, struct factories, the section
  name table of `get_dwarf_info`, the externals) exactly as the Python is parameterised by
  `self.structs` and the imported modules: the driver instantiates it with the REGENERATED
  bundles/tables, the theorems with the Spec ones.
-/
import PyElf.Core.Bundles
import PyElf.Model.Utils
import PyElf.Model.ElfFile
import PyElf.Model.Relocation
namespace PyElf.Model.C11
open PyElf PyElf.Model

/-! ### errors: the library's, plus `zlib.error` -/

inductive VErr
  | py (e : Err)
  | zlib                     -- `zlib.error` (not an `Err` constructor of Core)
  deriving DecidableEq, Repr

def VErr.name : VErr → String
  | .py e => e.name
  | .zlib => "zlibError"

abbrev V (α : Type) := Except VErr α

def liftR {α : Type} : R α → V α
  | .ok a => .ok a
  | .error e => .error (.py e)

def fail {α : Type} (e : Err) : V α := .error (.py e)

/-! ### externals and parameters -/

structure Ext where
  /-- `zlib.decompressobj().decompress(data, max_length)`; `max_length = 0` means no limit;
      `none` is `zlib.error` -/
  decompress : Bytes → Nat → Option Bytes
  /-- `binascii.crc32(contents, 0)` -/
  crc32 : Bytes → Nat

/-- `stream_loader`: a mapping from path to file contents -/
abbrev Loader := Bytes → Option Bytes

structure Params where
  env : Env
  structsFor : ElfCfg → Option ElfStructs
  machineClassOf : Val → String
  machineArchOf : Val → String
  dwarfStructsFor : DwarfCfg → Option DwarfStructs
  /-- (DWARFInfo keyword, section name, renamed `.z…` when the file has `.zdebug_info`) in loop
      order: `Gen.c11SectionNames` -/
  names : List (String × Bytes × Bool)
  X : Ext

/-- one element of `iter_sections()`: (class of the object, name, decoded header) -/
abbrev Sec := String × Bytes × Val

def Sec.kind (s : Sec) : String := s.1
def Sec.name (s : Sec) : Bytes := s.2.1
def Sec.hdr (s : Sec) : Val := s.2.2

/-! ### section-name constants -/

/-- `'.gnu_debuglink'` -/
def nGnuDebuglink : Bytes := [0x2e, 0x67, 0x6e, 0x75, 0x5f, 0x64, 0x65, 0x62, 0x75, 0x67, 0x6c, 0x69, 0x6e, 0x6b]
/-- `'.debug_info'` -/
def nDebugInfo : Bytes := [0x2e, 0x64, 0x65, 0x62, 0x75, 0x67, 0x5f, 0x69, 0x6e, 0x66, 0x6f]
/-- `'.zdebug_info'` -/
def nZdebugInfo : Bytes := [0x2e, 0x7a, 0x64, 0x65, 0x62, 0x75, 0x67, 0x5f, 0x69, 0x6e, 0x66, 0x6f]
/-- `'.eh_frame'` -/
def nEhFrame : Bytes := [0x2e, 0x65, 0x68, 0x5f, 0x66, 0x72, 0x61, 0x6d, 0x65]
/-- `'.rel'`, `'.rela'` -/
def nRel : Bytes := [0x2e, 0x72, 0x65, 0x6c]
def nRela : Bytes := [0x2e, 0x72, 0x65, 0x6c, 0x61]
/-- `b'ZLIB'` -/
def magicZlib : Bytes := [0x5a, 0x4c, 0x49, 0x42]
/-- `'.z'` -/
def dotZ : Bytes := [0x2e, 0x7a]

/-- `'.z' + x[1:]` -/
def zName (x : Bytes) : Bytes := dotZ ++ x.drop 1

/-- `secname.startswith('.z')` -/
def startsWithDotZ (x : Bytes) : Bool := x.take 2 == dotZ

/-! ### `_section_name_map` -/

/-- `d[k] = v` on an insertion-ordered dict -/
def dictSet (m : List (Bytes × Nat)) (k : Bytes) (v : Nat) : List (Bytes × Nat) :=
  match m with
  | [] => [(k, v)]
  | (k', v') :: rest => if k' = k then (k', v) :: rest else (k', v') :: dictSet rest k v

/-- `d.get(k, None)` -/
def dictGet (m : List (Bytes × Nat)) (k : Bytes) : Option Nat :=
  match m with
  | [] => none
  | (k', v) :: rest => if k' = k then some v else dictGet rest k

/-- `for i, sec in enumerate(self.iter_sections()): self._section_name_map[sec.name] = i` from index `i` -/
def nameMapFrom : List Sec → Nat → List (Bytes × Nat) → List (Bytes × Nat)
  | [], _, m => m
  | s :: rest, i, m => nameMapFrom rest (i + 1) (dictSet m s.name i)

/-- `_make_section_name_map()` -/
def nameMap (secs : List Sec) : List (Bytes × Nat) := nameMapFrom secs 0 []

/-- `has_section(name)` -/
def hasSection (secs : List Sec) (name : Bytes) : Bool := (dictGet (nameMap secs) name).isSome

/-- `get_section_by_name(name)`: `get_section(secnum)` builds the section again, which gives the
    object `iter_sections()` gave -/
def getSectionByName (secs : List Sec) (name : Bytes) : Option Sec :=
  match dictGet (nameMap secs) name with
  | none => none
  | some i => secs[i]?

/-- `has_dwarf_info(strict)` -/
def hasDwarfInfo (secs : List Sec) (strict : Bool) : Bool :=
  hasSection secs nDebugInfo || hasSection secs nZdebugInfo || (!strict && hasSection secs nEhFrame)

/-- `has_dwarf_link()` -/
def hasDwarfLink (secs : List Sec) : Bool := hasSection secs nGnuDebuglink

/-! ### `Section.__init__` / `Section.data()` -/

/-- what `Section.__init__` stores: `(_compression_type, _decompressed_size)`;
    the compression type is `none` for a section that is not flagged SHF_COMPRESSED -/
def sectionInfo (env : Env) (S : ElfStructs) (data : Bytes) (sh : Val) : R (Option Val × Nat) := do
  let flags ← sh.getNat "sh_flags"
  if flags &&& 0x800 != 0 then
    let off ← sh.getNat "sh_offset"
    let (ch, _) ← structParseAt env S.Elf_Chdr data off
    return (some (← ch.getField "ch_type"), ← ch.getNat "ch_size")
  else
    return (none, ← sh.getNat "sh_size")

/-- `BytesIO.read(n)` with a Python int `n`: negative reads to the end, `n ≥ 2^63` does not fit a
    C ssize_t -/
def pyRead (data : Bytes) (pos : Nat) (n : Int) : R Bytes :=
  if n < 0 then .ok (data.drop pos)
  else if n ≥ 2 ^ 63 then .error .overflowError
  else .ok (readN data pos n.toNat)

/-- `Section.data()` given what `__init__` stored -/
def sectionDataWith (X : Ext) (S : ElfStructs) (data : Bytes) (sh : Val) (ctype : Option Val) (dsize : Nat) :
    V Bytes := do
  let ty ← liftR (sh.getField "sh_type")
  if isStr ty "SHT_NOBITS" then return List.replicate dsize 0
  match ctype with
  | some ct =>
    if isStr ct "ELFCOMPRESS_ZLIB" then
      let hdrSize ← liftR (sizeofR S.Elf_Chdr)
      let off ← liftR (sh.getNat "sh_offset")
      let size ← liftR (sh.getNat "sh_size")
      liftR (seekCheck (off + hdrSize))
      let compressed ← liftR (pyRead data (off + hdrSize) ((size : Int) - (hdrSize : Int)))
      -- decomp.decompress(compressed, self.data_size + 1)
      if dsize + 1 ≥ 2 ^ 63 then fail .overflowError
      match X.decompress compressed (dsize + 1) with
      | none => .error .zlib
      | some result =>
        if result.length ≠ dsize then fail .elfCompressionError
        else return result
    else
      -- 'Unknown compression type: {:#0x}'.format(c_type): a named (str) type cannot be formatted
      match ct with
      | .str _ => fail .valueError
      | _ => fail .elfCompressionError
  | none =>
    let off ← liftR (sh.getNat "sh_offset")
    liftR (seekCheck off)
    liftR (pyRead data off dsize)

/-- `Section.data()` -/
def sectionData (X : Ext) (env : Env) (S : ElfStructs) (data : Bytes) (sh : Val) : V Bytes := do
  let (ctype, dsize) ← liftR (sectionInfo env S data sh)
  sectionDataWith X S data sh ctype dsize

/-! ### `_read_dwarf_section` -/

/-- `DebugSectionDescriptor` -/
structure Descr where
  stream : Bytes
  name : Bytes
  globalOffset : Nat
  size : Nat
  address : Nat
  deriving Repr, DecidableEq

/-- `has_phantom_bytes()` -/
def hasPhantomBytes (hdr : Val) : R Bool := do
  let m ← hdr.getField "e_machine"
  if isStr m "EM_DSPIC30F" then
    let fl ← hdr.getNat "e_flags"
    return fl &&& 0x80000000 == 0
  else return false

/-- `data[::2]` -/
def everyOther : Bytes → Bytes
  | [] => []
  | [a] => [a]
  | a :: _ :: rest => a :: everyOther rest

/-- `RelocationHandler.find_relocations_for_section(section)`: the first RelocationSection named
    `.rel<name>` or `.rela<name>` -/
def findRelocations (secs : List Sec) (name : Bytes) : Option Sec :=
  secs.find? fun s => s.kind == "RelocationSection" && (s.name == nRel ++ name || s.name == nRela ++ name)

/-- `reloc_handler.apply_section_relocations(section_stream, reloc_section)` -/
def applyRelocations (P : Params) (f : ElfFile) (rsec : Sec) (stream : Bytes) : R Bytes := do
  let ty ← rsec.hdr.getField "sh_type"
  let t ← Reloc.mkTable f.S (some (← rsec.hdr.getNat "sh_offset")) (← rsec.hdr.getNat "sh_size") (isStr ty "SHT_RELA")
  -- symtab = self.elffile.get_section(reloc_section['sh_link'])
  let (kind, _, sh) ← getSection P.env f.S f.data f.header f.shstr (← rsec.hdr.getNat "sh_link")
  if kind != "SymbolTableSection" then
    -- `symtab.num_symbols()` on a section without symbols, at the first relocation
    if (← Reloc.numRelocations t) = 0 then return stream
    let _ ← Reloc.getRelocation P.env f.data t 0
    throw .attributeError
  let st : Reloc.SymTab := ⟨← sh.getNat "sh_offset", ← sh.getNat "sh_size", ← sh.getNat "sh_entsize"⟩
  Reloc.applySectionRelocations P.env f.S f.le f.cls (P.machineArchOf (← f.header.getField "e_machine")) f.data st t stream

/-! ### `_decompress_dwarf_section` (legacy GNU `.zdebug_*`) -/

def decompressZdebug (X : Ext) (d : Descr) : V Descr := do
  -- assert section.size > 12
  if !(d.size > 12) then fail .assertion
  -- compression_type = section.stream.read(4); assert compression_type == b'ZLIB'
  if readN d.stream 0 4 != magicZlib then fail .assertion
  -- struct.unpack('>Q', section.stream.read(8))
  let szb := readN d.stream 4 8
  if szb.length ≠ 8 then fail .structError
  let uncompressedSize := beNat szb
  -- the 4096-byte chunk loop and flush(): all remaining bytes through one decompressobj
  match X.decompress (d.stream.drop 12) 0 with
  | none => .error .zlib
  | some out =>
    if uncompressedSize ≠ out.length then fail .assertion
    else return { d with stream := out, size := out.length }

/-- `_read_dwarf_section(section, relocate_dwarf_sections, legacy_compressed)`: the descriptor of the
    (de-phantomed) section data; a legacy `.zdebug` section is decompressed; THEN relocations are
    applied — relocation offsets refer to the uncompressed contents -/
def readDwarfSection (P : Params) (f : ElfFile) (secs : List Sec) (sec : Sec) (relocate legacy : Bool) : V Descr := do
  let phantom ← liftR (hasPhantomBytes f.header)
  let (ctype, dsize) ← liftR (sectionInfo P.env f.S f.data sec.hdr)
  let sdata ← sectionDataWith P.X f.S f.data sec.hdr ctype dsize
  let stream := if phantom then everyOther sdata else sdata
  let d : Descr :=
    { stream := stream, name := sec.name,
      globalOffset := ← liftR (sec.hdr.getNat "sh_offset"),
      size := if phantom then dsize / 2 else dsize,
      address := ← liftR (sec.hdr.getNat "sh_addr") }
  let d ← if legacy then decompressZdebug P.X d else pure d
  if relocate then
    match findRelocations secs sec.name with
    | none => return d
    | some rsec =>
      if phantom then fail .elfParseError
      else
        let relocated ← liftR (applyRelocations P f rsec d.stream)
        return { d with stream := relocated }
  else return d

/-! ### the per-section loop of `get_dwarf_info` -/

/-- the name a table entry is looked up under: `'.z' + x[1:]` for the renamed ones when the file
    has `.zdebug_info` -/
def secNameOf (compressed : Bool) (kn : String × Bytes × Bool) : Bytes :=
  if compressed && kn.2.2 then zName kn.2.1 else kn.2.1

/-- `compressed and secname.startswith('.z')` -/
def legacyOf (compressed : Bool) (kn : String × Bytes × Bool) : Bool :=
  compressed && startsWithDotZ (secNameOf compressed kn)

/-- the body of `for secname in section_names:` for one (keyword, name) pair -/
def readOne (P : Params) (f : ElfFile) (secs : List Sec) (relocate compressed : Bool)
    (kn : String × Bytes × Bool) : V (String × Option Descr) :=
  match getSectionByName secs (secNameOf compressed kn) with
  | none => .ok (kn.1, none)
  | some sec => do
    let d ← readDwarfSection P f secs sec relocate (legacyOf compressed kn)
    return (kn.1, some d)

/-- the loop, in order; the first failure ends it -/
def readAll (P : Params) (f : ElfFile) (secs : List Sec) (relocate compressed : Bool) :
    List (String × Bytes × Bool) → V (List (String × Option Descr))
  | [] => .ok []
  | kn :: rest => do
    let d ← readOne P f secs relocate compressed kn
    let ds ← readAll P f secs relocate compressed rest
    return d :: ds

/-! ### links -/

/-- what `get_dwarf_info` returns, as far as the container decides it: the DwarfConfig, the
    descriptors by DWARFInfo keyword, and `supplementary_dwarfinfo` -/
inductive DwarfInfo
  | mk (le : Bool) (addrSize : Nat) (arch : String) (secs : List (String × Option Descr))
       (sup : Option DwarfInfo)

def DwarfInfo.secs : DwarfInfo → List (String × Option Descr)
  | .mk _ _ _ s _ => s
def DwarfInfo.sup : DwarfInfo → Option DwarfInfo
  | .mk _ _ _ _ s => s
def DwarfInfo.le : DwarfInfo → Bool
  | .mk l _ _ _ _ => l
def DwarfInfo.addrSize : DwarfInfo → Nat
  | .mk _ a _ _ _ => a
def DwarfInfo.arch : DwarfInfo → String
  | .mk _ _ a _ _ => a

def descrOf (ds : List (String × Option Descr)) (kw : String) : Option Descr :=
  match ds.find? (·.1 == kw) with
  | some (_, d) => d
  | none => none

/-- `Struct.parse_stream(stream)` called directly (not through `struct_parse`): a failure is the
    construct library's own error, not ELFParseError -/
def parseStream (env : Env) (c : Con) (data : Bytes) : R Val :=
  match structParse env c data 0 with
  | .ok (v, _) => .ok v
  | .error .elfParseError => .error .structError
  | .error e => .error e

def asBytes : Val → R Bytes
  | .bytes b => .ok b
  | _ => .error .typeError

/-- `DWARFInfo.parse_debugsupinfo()` -/
def parseDebugSupInfo (env : Env) (DS : DwarfStructs) (ds : List (String × Option Descr)) : R (Option Bytes) := do
  let alt : R (Option Bytes) :=
    match descrOf ds "gnu_debugaltlink_sec" with
    | some d => do
      let v ← parseStream env DS.Dwarf_debugaltlink d.stream
      return some (← asBytes (← v.getField "sup_filename"))
    | none => return none
  match descrOf ds "debug_sup_sec" with
  | some d =>
    let v ← parseStream env DS.Dwarf_debugsup d.stream
    if (← v.getInt "is_supplementary") == 0 then
      return some (← asBytes (← v.getField "sup_filename"))
    else alt
  | none => alt

/-- `get_dwarf_link()` as (filename, checksum) -/
def parseDebuglink (env : Env) (S : ElfStructs) (data : Bytes) (sec : Sec) : R (Bytes × Nat) := do
  let off ← sec.hdr.getNat "sh_offset"
  let (v, _) ← structParseAt env S.Gnu_debuglink data off
  return (← asBytes (← v.getField "filename"), ← v.getNat "checksum")

def getDwarfLink (env : Env) (S : ElfStructs) (data : Bytes) (secs : List Sec) : R (Option (Bytes × Nat)) :=
  match getSectionByName secs nGnuDebuglink with
  | none => .ok none
  | some sec => do return some (← parseDebuglink env S data sec)

/-- `ELFFile(stream)` followed by the first `_make_section_name_map()` -/
def load (P : Params) (data : Bytes) : R (ElfFile × List Sec) := do
  let f ← openElf P.env P.structsFor P.machineClassOf data
  let secs ← iterSections P.env f.S f.data f.header f.shstr
  return (f, secs)

/-- `debuglink_section and not self.has_dwarf_info(True) and follow_links and self.stream_loader`:
    the link section and the loader when the link is to be followed -/
def linkTarget (secs : List Sec) (loader : Option Loader) (followLinks : Bool) : Option (Sec × Loader) :=
  match getSectionByName secs nGnuDebuglink, loader with
  | some sec, some ld => if !hasDwarfInfo secs true && followLinks then some (sec, ld) else none
  | _, _ => none

/-- `get_supplementary_dwarfinfo(dwarfinfo)` for a DWARFInfo with descriptors `ds`; `again` as below -/
def supplementary (P : Params) (again : Option Loader → Bytes → Bool → Bool → V DwarfInfo)
    (loader : Option Loader) (f : ElfFile) (ds : List (String × Option Descr)) : V (Option DwarfInfo) := do
  -- DWARFInfo.structs = DWARFStructs(little_endian, dwarf_format=32, address_size=elfclass // 8)
  let some DS := P.dwarfStructsFor ⟨f.le, 32, f.cls / 8, 2⟩ | fail .notImplemented
  let supPath ← liftR (parseDebugSupInfo P.env DS ds)
  match supPath, loader with
  | some path, some ld =>
    match ld path with
    | none => fail .keyError
    | some supData =>
      -- ELFFile(stream).get_dwarf_info(): no loader, defaults relocate=True, follow_links=True
      let sup ← again none supData true true
      return some sup
  | _, _ => return none

/-- the part of `get_dwarf_info` after the debug-link gate: the file's own sections -/
def ownInfo (P : Params) (again : Option Loader → Bytes → Bool → Bool → V DwarfInfo)
    (loader : Option Loader) (f : ElfFile) (secs : List Sec) (relocate followLinks : Bool) : V DwarfInfo := do
  let compressed := hasSection secs nZdebugInfo
  let ds ← readAll P f secs relocate compressed P.names
  let arch := P.machineArchOf (← liftR (f.header.getField "e_machine"))
  let sup ← if followLinks then supplementary P again loader f ds else pure none
  return .mk f.le (f.cls / 8) arch ds sup

/-- `get_dwarf_info` on an opened file.  `again loader data relocate follow` is
    `ELFFile(BytesIO(data), loader).get_dwarf_info(relocate, follow)` (the recursive uses). -/
def getDwarfInfoCore (P : Params) (again : Option Loader → Bytes → Bool → Bool → V DwarfInfo)
    (loader : Option Loader) (f : ElfFile) (secs : List Sec) (relocate followLinks : Bool) : V DwarfInfo :=
  match linkTarget secs loader followLinks with
  | some (sec, ld) => do
    let (filename, checksum) ← liftR (parseDebuglink P.env f.S f.data sec)
    -- with self.stream_loader(debuglink.filename) as ext_file:
    match ld filename with
    | none => fail .keyError
    | some ext =>
      -- _file_crc32(ext_file) != debuglink.checksum
      if P.X.crc32 ext ≠ checksum then fail .elfError
      else again loader ext relocate true
  | none => ownInfo P again loader f secs relocate followLinks

/-- `ELFFile(BytesIO(data), loader).get_dwarf_info(relocate, follow_links)`; `fuel` bounds the chain
    of linked files (Python recurses until RecursionError on a cyclic link) -/
def getDwarfInfo (P : Params) : Nat → Option Loader → Bytes → Bool → Bool → V DwarfInfo
  | 0, _, _, _, _ => fail .outOfFuel
  | fuel+1, loader, data, relocate, followLinks => do
    let (f, secs) ← liftR (load P data)
    getDwarfInfoCore P (getDwarfInfo P fuel) loader f secs relocate followLinks

/-! ### the view: what the DWARF layers consume -/

/-- the part of a descriptor the parsers read: the bytes and the logical size.  (`name`,
    `global_offset` are container facts; `address` is reported separately.) -/
structure SecView where
  stream : Bytes
  size : Nat
  address : Nat
  deriving Repr, DecidableEq

inductive View
  | mk (le : Bool) (addrSize : Nat) (arch : String) (secs : List (String × Option SecView)) (sup : Option View)

def Descr.view (d : Descr) : SecView := ⟨d.stream, d.size, d.address⟩

def DwarfInfo.view : DwarfInfo → View
  | .mk le a arch ds none => .mk le a arch (ds.map fun p => (p.1, p.2.map Descr.view)) none
  | .mk le a arch ds (some s) => .mk le a arch (ds.map fun p => (p.1, p.2.map Descr.view)) (some s.view)

/-- `dwarfView : File → Loader → Except Err (Map SecName Bytes)` of the design -/
def dwarfView (P : Params) (fuel : Nat) (loader : Option Loader) (data : Bytes) (relocate followLinks : Bool) :
    V View :=
  (getDwarfInfo P fuel loader data relocate followLinks).map DwarfInfo.view

end PyElf.Model.C11
