/-
  `bytes.decode('utf-8', errors='replace')` of CPython (Objects/stringlib/codecs.h `utf8_decode` with
  the `replace` handler), observed through `.encode('utf-8')`: well-formed sequences are kept, every
  maximal ill-formed subpart (Unicode 3.9, "U+FFFD substitution of maximal subparts") becomes
  U+FFFD = EF BF BD.  `StringTableSection.get_string` decodes section names this way; the model of
  elffile.py (Model/ElfFile.lean) keeps names as bytes, the driver applies this function where a
  name is reported.
-/
import PyElf.Core.Basic
namespace PyElf.Model.C01
open PyElf

def isCont (b : UInt8) : Bool := 0x80 ≤ b.toNat && b.toNat ≤ 0xBF

/-- allowed range of the SECOND byte after lead byte `b0` (Unicode Table 3-7) -/
def secondOk (b0 b1 : UInt8) : Bool :=
  let lo := if b0.toNat == 0xE0 then 0xA0 else if b0.toNat == 0xF0 then 0x90 else 0x80
  let hi := if b0.toNat == 0xED then 0x9F else if b0.toNat == 0xF4 then 0x8F else 0xBF
  lo ≤ b1.toNat && b1.toNat ≤ hi

def fffd : Bytes := [0xEF, 0xBF, 0xBD]

/-- `fuel` ≥ number of bytes -/
def utf8ReplaceAux : Nat → Bytes → Bytes
  | 0, _ => []
  | _, [] => []
  | fuel+1, b0 :: rest =>
    let n := b0.toNat
    if n < 0x80 then b0 :: utf8ReplaceAux fuel rest
    else if 0xC2 ≤ n && n ≤ 0xDF then
      match rest with
      | b1 :: r1 => if isCont b1 then b0 :: b1 :: utf8ReplaceAux fuel r1 else fffd ++ utf8ReplaceAux fuel rest
      | [] => fffd
    else if 0xE0 ≤ n && n ≤ 0xEF then
      match rest with
      | b1 :: r1 =>
        if secondOk b0 b1 then
          match r1 with
          | b2 :: r2 => if isCont b2 then b0 :: b1 :: b2 :: utf8ReplaceAux fuel r2 else fffd ++ utf8ReplaceAux fuel r1
          | [] => fffd
        else fffd ++ utf8ReplaceAux fuel rest
      | [] => fffd
    else if 0xF0 ≤ n && n ≤ 0xF4 then
      match rest with
      | b1 :: r1 =>
        if secondOk b0 b1 then
          match r1 with
          | b2 :: r2 =>
            if isCont b2 then
              match r2 with
              | b3 :: r3 =>
                if isCont b3 then b0 :: b1 :: b2 :: b3 :: utf8ReplaceAux fuel r3 else fffd ++ utf8ReplaceAux fuel r2
              | [] => fffd
            else fffd ++ utf8ReplaceAux fuel r1
          | [] => fffd
        else fffd ++ utf8ReplaceAux fuel rest
      | [] => fffd
    else fffd ++ utf8ReplaceAux fuel rest

def utf8Replace (b : Bytes) : Bytes := utf8ReplaceAux (b.length + 1) b

end PyElf.Model.C01
