/-
  C12 × C04: mirror of the client loop that parses the expressions of a file where they occur,

      parsers = {}                                    # one DWARFExprParser per structs object
      for cu in dwarfinfo.iter_CUs():                 # resp. iter_TUs()
          dies = list(cu.iter_DIEs())
          key = id(cu.structs)                        # describe_DWARF_expr's _DWARF_EXPR_DUMPER_CACHE key
          if key not in parsers: parsers[key] = DWARFExprParser(cu.structs)
          for die in dies:
              for attr in die.attributes.values():
                  if sel(attr.name, attr.form, cu['version']):
                      (attr.offset, parsers[key].parse_expr(attr.value))

  Units and entries are C04's model (`Model.C04.iterSection`), the parser is C12's (`Model.parseExpr`).

  `cu.structs` is `DWARFStructs(little_endian, dwarf_format, address_size, dwarf_version)` of the unit header
  (`Model.C04.unitCtx`); `DWARFStructs.__new__` hands out ONE object per such key (`_structs_cache`), so the
  identity of the structs object — the key of the parser cache — is the key `DwarfCfg`.  `T` is
  `cfg ↦ _init_dispatch_table(DWARFStructs(cfg))` (regenerated: `Gen.opDispatch`), `N` is `DW_OP_opcode2name`.
-/
import PyElf.Model.DwarfExpr
import PyElf.Model.DieSection
namespace PyElf.Model.C12
open PyElf PyElf.Spec PyElf.Model
open PyElf.Spec.C04 (AttrObs DieObs)

abbrev Disp := List (Nat × List ArgKind)

/-- the parser cache: a dict from structs identity (= `DWARFStructs` cache key) to the dispatch table of the
    parser built for it; insertion ordered -/
abbrev PCache := List (DwarfCfg × Disp)

def tableGet (t : List (DwarfCfg × Disp)) (c : DwarfCfg) : Option Disp :=
  (t.find? fun e => decide (e.1 = c)).map (·.2)

/-- `if key not in parsers: parsers[key] = DWARFExprParser(structs)` then `parsers[key]`.  A configuration the
    constructor refuses (`assert address_size == 8 or address_size == 4`) never gets here: the unit failed with
    the same assertion when `cu.structs` was built. -/
def getParser (T : List (DwarfCfg × Disp)) (pc : PCache) (c : DwarfCfg) : R (Disp × PCache) :=
  match tableGet pc c with
  | some D => .ok (D, pc)
  | none =>
    match tableGet T c with
    | some D => .ok (D, pc ++ [(c, D)])
    | none => .error .assertion

/-- one element of the list handed to `bytes()`: outside range(256) a ValueError, not an int a TypeError -/
def exprByte : Val → R UInt8
  | .int n => if 0 ≤ n ∧ n < 256 then .ok (UInt8.ofNat n.toNat) else .error .valueError
  | _ => .error .typeError

/-- `bytes(expr)` at the head of `parse_expr`, for the values a block form delivers (a list of ints) and for
    bytes objects.  (`bytes(n)` of an int `n` — a run of zero bytes — is not modelled: the selection only passes
    block forms.) -/
def exprBytes : Val → R Bytes
  | .list vs => vs.mapM exprByte
  | .bytes b => .ok b
  | _ => .error .typeError

/-- the selected attributes of one entry, in `die.attributes` order: offset and parsed operations -/
def dieExprs (sel : Val → Val → Nat → Bool) (D : Disp) (N : List (Nat × String)) (ver : Nat) (d : DieObs) :
    R (List (Nat × List Val)) :=
  (d.attrs.filter fun a => sel a.name a.form ver).mapM fun a => do
    let b ← exprBytes a.value
    let ops ← parseExpr D N b
    pure (a.offset, ops)

/-- the configuration `cu.structs` was built with -/
def unitCfg (w : C04.DInfo) (cu : Lookup.CU) : R DwarfCfg := do
  let asz ← cu.header.getNat "address_size"
  let ver ← cu.header.getNat "version"
  return ⟨w.le, cu.fmt, asz, ver⟩

/-- the loop over the units, threading the parser cache -/
def unitsExprs (w : C04.DInfo) (T : List (DwarfCfg × Disp)) (N : List (Nat × String)) (sel : Val → Val → Nat → Bool) :
    PCache → List (Lookup.CU × R (List (DieObs × Option Nat))) → R (List (List (List (Nat × List Val))) × PCache)
  | pc, [] => .ok ([], pc)
  | pc, (cu, r) :: rest => do
    let dies ← r
    let c ← unitCfg w cu
    let (D, pc') ← getParser T pc c
    let out ← dies.mapM fun d => dieExprs sel D N c.ver d.1
    let (more, pc'') ← unitsExprs w T N sel pc' rest
    return (out :: more, pc'')

/-- the whole walk over `.debug_info` (`isTypes = false`, `sec = w.info`) or `.debug_types`, starting from the
    parser cache `pc` (whatever earlier walks — of this or of other files — left in it); an exception ending the
    unit iteration comes after the units before it.  `G` is `_get_cached_DIE` as in `Model.C04.iterSection`. -/
def sectionExprs (G : C04.UnitCtx → Nat → R DieObs) (w : C04.DInfo) (S0 : DwarfStructs) (sec : Option Bytes)
    (isTypes : Bool) (T : List (DwarfCfg × Disp)) (N : List (Nat × String)) (sel : Val → Val → Nat → Bool) (pc : PCache) :
    R (List (List (List (Nat × List Val))) × PCache) :=
  let (us, e) := C04.iterSection G w S0 sec isTypes
  do
    let r ← unitsExprs w T N sel pc us
    match e with
    | some err => .error err
    | none => pure r

end PyElf.Model.C12
