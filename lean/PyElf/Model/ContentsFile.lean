/-
  C02 model, whole files: the public API calls the property observes, from the byte string on —
    ELFFile(BytesIO(data)).get_section(i).data() / .data_size / .data_alignment / .compressed
    ELFFile(BytesIO(data)).get_section(i).get_string(off)          (StringTableSection only)
    ELFFile(BytesIO(data)).get_segment(j).data() / .get_interp_name()   (InterpSegment only)
    ELFFile(BytesIO(data)).get_segment(j).section_in_segment(get_section(i))
    list(ELFFile(BytesIO(data)).address_offsets(start, size))
  composed of the mirrors in Model/ElfFile.lean (opening, header tables, object dispatch) and
  Model/Contents.lean (the accessors).  `sf` / `mc` are the bundle factory and the machine
  classification (`elfStructsFor` / `machineClassOf` in the driver, the Spec's in theorems).
  An accessor a class does not have is Python's AttributeError.
-/
import PyElf.Model.Contents
namespace PyElf.Model.C02
open PyElf PyElf.Model
open PyElf.Spec.C02 (ShFlags)

section withFile
variable (env : Env) (sf : ElfCfg → Option ElfStructs) (mc : Val → String) (F : ShFlags) (data : Bytes)

/-- `ELFFile(BytesIO(data)).get_section(i)`: the file, the class of the object made, its header and
    what `Section.__init__` left in it -/
def fileSection (i : Nat) : R (ElfFile × String × Val × SectionObj) := do
  let f ← openElf env sf mc data
  let (kind, _, sh) ← getSection env f.S f.data f.header f.shstr i
  let o ← sectionNew env f.S F f.data sh
  return (f, kind, sh, o)

/-- `.get_section(i).data()` -/
def fileSectionData (zlib : Bytes → Nat → R Bytes) (i : Nat) : R Bytes := do
  let (f, _, _, o) ← fileSection env sf mc F data i
  sectionData zlib f.S f.data o

/-- `(bool(s.compressed), s.data_size, s.data_alignment)` for `s = .get_section(i)` -/
def fileSectionMeta (i : Nat) : R (Bool × Val × Val) := do
  let (_, _, _, o) ← fileSection env sf mc F data i
  return (o.compressed != 0, o.dsize, o.dalign)

/-- `.get_section(i).get_string(off)`.  (`getSection` runs the guards of the whole constructor chain,
    `Section.__init__`'s read of the compression header included; what `__init__` stores is consulted
    by `data` / `data_size` / `data_alignment` / `compressed` only.) -/
def fileGetString (i off : Nat) : R Bytes := do
  let f ← openElf env sf mc data
  let (kind, _, sh) ← getSection env f.S f.data f.header f.shstr i
  if kind == "StringTableSection" then getString f.data sh off else throw .attributeError

/-- `ELFFile(BytesIO(data)).get_segment(j)`: the file, the class of the object made, its header -/
def fileSegment (j : Nat) : R (ElfFile × String × Val) := do
  let f ← openElf env sf mc data
  let (kind, ph) ← getSegment env f.S f.data f.header f.shstr j
  return (f, kind, ph)

/-- `.get_segment(j).data()` -/
def fileSegmentData (j : Nat) : R Bytes := do
  let (f, _, ph) ← fileSegment env sf mc data j
  segmentData f.data ph

/-- `.get_segment(j).get_interp_name()` -/
def fileInterpName (j : Nat) : R Bytes := do
  let (f, kind, ph) ← fileSegment env sf mc data j
  if kind == "InterpSegment" then getInterpName env f.data ph else throw .attributeError

/-- `list(ELFFile(BytesIO(data)).address_offsets(start, size))` -/
def fileAddressOffsets (start size : Int) : R (List Int) := do
  let f ← openElf env sf mc data
  addressOffsets env f start size

/-- `f.get_segment(j).section_in_segment(f.get_section(i))` -/
def fileSectionInSegment (j i : Nat) : R Bool := do
  let f ← openElf env sf mc data
  let (_, ph) ← getSegment env f.S f.data f.header f.shstr j
  let (_, _, sh) ← getSection env f.S f.data f.header f.shstr i
  sectionInSegment F ph sh

end withFile

end PyElf.Model.C02
