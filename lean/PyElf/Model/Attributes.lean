/-
  Mirror of the build-attributes code of elftools/elf/sections.py (after the C20 fix):
  Attribute / ARMAttribute / RISCVAttribute, AttributesSubsubsection (_make_attributes),
  AttributesSubsection (_make_subsubsections), AttributesSection (_make_subsections), observed the
  way the property says: iter_subsections → iter_subsubsections → iter_attributes, nested, in
  generator order; the first exception aborts the observation.

  The struct bundle `S` is the one the library builds for the file (`elffile.structs`).  T2 renders
  `CString(.., encoding='utf-8')` as `Con.cstring` (raw bytes); the UTF-8 decoding step of
  construct's StringAdapter is applied here (`decodeNtbs`; pinned by `Gen.attrNtbsUtf8`).  A decoded
  `str` is represented by its UTF-8 bytes.
-/
import PyElf.Core.Bundles
import PyElf.Spec.Attributes
namespace PyElf.Model.Attr
open PyElf

/-- the state of an `Attribute` object after `__init__` -/
structure AttrObj where
  tag : Val                -- `self._tag['tag']`
  value : Val
  extra : Val              -- None unless set
  valueIsStr : Bool        -- `type(self.value) is str`

def AttrObj.toVal (a : AttrObj) : Val := .record [("tag", a.tag), ("value", a.value), ("extra", a.extra)]

/-- `bytes.decode('utf-8')` (strict) -/
def decodeNtbs (b : Bytes) : R Val :=
  if Spec.Attr.validUtf8 b then .ok (.bytes b) else .error .unicodeError

/-- `self.tag in (names…)` / `self.tag == name` -/
def tagIn (tag : Val) (names : List String) : Bool :=
  match tag with
  | .str s => names.contains s
  | _ => false

def parseInt (env : Env) (c : Con) (data : Bytes) (pos : Nat) : R (Int × Nat) := do
  let (v, p) ← structParse env c data pos
  return (← v.asInt, p)

/-- `Elf_ntbs(name, encoding='utf-8')` -/
def parseNtbs (env : Env) (S : ElfStructs) (data : Bytes) (pos : Nat) : R (Val × Nat) := do
  let (v, p) ← structParse env S.Elf_ntbs data pos
  match v with
  | .bytes b => return (← decodeNtbs b, p)
  | _ => .error .typeError

/-- the `s_number` loop: ULEB128 numbers up to and including a 0 -/
def sNumbers (env : Env) (S : ElfStructs) (data : Bytes) : Nat → Nat → List Val → R (List Val × Nat)
  | 0, _, _ => .error .outOfFuel
  | fuel+1, pos, acc => do
    let (n, p) ← parseInt env S.Elf_uleb128 data pos
    if n ≠ 0 then sNumbers env S data fuel p (.int n :: acc)
    else return (acc.reverse, p)

/-- the common first branch of both attribute classes: TAG_FILE / TAG_SECTION / TAG_SYMBOL -/
def scopeBranch (env : Env) (S : ElfStructs) (data : Bytes) (tag : Val) (p : Nat) : R (AttrObj × Nat) := do
  let (v, p) ← parseInt env S.Elf_word data p
  if !tagIn tag ["TAG_FILE"] then
    let (ns, p) ← sNumbers env S data (data.length - p + 2) p []
    return ({ tag, value := .int v, extra := .list ns, valueIsStr := false }, p)
  else
    return ({ tag, value := .int v, extra := .none, valueIsStr := false }, p)

/-- `ARMAttribute(structs, stream)` at `pos`; fuel bounds the TAG_ALSO_COMPATIBLE_WITH recursion
    (each level consumes ≥ 1 byte; CPython gives up after ~1000 levels) -/
def armAttribute (env : Env) (S : ElfStructs) (data : Bytes) : Nat → Nat → R (AttrObj × Nat)
  | 0, _ => .error .outOfFuel
  | fuel+1, pos => do
    let (t, p) ← structParse env S.Elf_Arm_Attribute_Tag data pos
    let tag ← t.getField "tag"
    if tagIn tag ["TAG_FILE", "TAG_SECTION", "TAG_SYMBOL"] then
      scopeBranch env S data tag p
    else if tagIn tag ["TAG_CPU_RAW_NAME", "TAG_CPU_NAME", "TAG_CONFORMANCE"] then
      let (s, p) ← parseNtbs env S data p
      return ({ tag, value := s, extra := .none, valueIsStr := true }, p)
    else if tagIn tag ["TAG_COMPATIBILITY"] then
      let (v, p) ← parseInt env S.Elf_uleb128 data p
      let (s, p) ← parseNtbs env S data p
      return ({ tag, value := .int v, extra := s, valueIsStr := false }, p)
    else if tagIn tag ["TAG_ALSO_COMPATIBLE_WITH"] then
      let (inner, p) ← armAttribute env S data fuel p
      if !inner.valueIsStr then
        let (nul, p) ← parseInt env S.Elf_byte data p
        if nul ≠ 0 then .error .elfError
        else return ({ tag, value := inner.toVal, extra := .none, valueIsStr := false }, p)
      else
        return ({ tag, value := inner.toVal, extra := .none, valueIsStr := false }, p)
    else
      let (v, p) ← parseInt env S.Elf_uleb128 data p
      return ({ tag, value := .int v, extra := .none, valueIsStr := false }, p)

/-- `RISCVAttribute(structs, stream)` at `pos` -/
def riscvAttribute (env : Env) (S : ElfStructs) (data : Bytes) (pos : Nat) : R (AttrObj × Nat) := do
  let (t, p) ← structParse env S.Elf_RiscV_Attribute_Tag data pos
  let tag ← t.getField "tag"
  if tagIn tag ["TAG_FILE", "TAG_SECTION", "TAG_SYMBOL"] then
    scopeBranch env S data tag p
  else if tagIn tag ["TAG_ARCH"] then
    let (s, p) ← parseNtbs env S data p
    return ({ tag, value := s, extra := .none, valueIsStr := true }, p)
  else
    let (v, p) ← parseInt env S.Elf_uleb128 data p
    return ({ tag, value := .int v, extra := .none, valueIsStr := false }, p)

/-- the attribute class of the section type -/
def attributeAt (arch : Spec.Attr.Arch) (env : Env) (S : ElfStructs) (data : Bytes) (pos : Nat) : R (AttrObj × Nat) :=
  match arch with
  | .arm => armAttribute env S data (data.length - pos + 2) pos
  | .riscv => riscvAttribute env S data pos

/-- `_make_attributes`: `while self.stream.tell() != end: yield self.attribute(...)` -/
def attributesLoop (attr : Nat → R (AttrObj × Nat)) (end_ : Nat) : Nat → Nat → List Val → R (List Val)
  | 0, pos, acc => if pos = end_ then .ok acc.reverse else .error .outOfFuel
  | fuel+1, pos, acc =>
    if pos = end_ then .ok acc.reverse
    else do
      let (a, p) ← attr pos
      attributesLoop attr end_ fuel p (a.toVal :: acc)

/-- `_make_subsubsections` with each yielded sub-subsection fully iterated:
    `offset = subsubsec_start; while offset != end: seek(offset); s = Subsubsection(..., offset);
     offset += s.header.value; yield s`.  All offsets are sums of naturals. -/
def subsubLoop (attr : Nat → R (AttrObj × Nat)) (dataLen : Nat) (end_ : Nat) :
    Nat → Nat → List Val → R (List Val)
  | 0, offset, acc => if offset = end_ then .ok acc.reverse else .error .outOfFuel
  | fuel+1, offset, acc =>
    if offset = end_ then .ok acc.reverse
    else do
      let (hdr, attrStart) ← attr offset
      -- `offset += subsubsec.header.value` (TypeError when the header's value is a str / Attribute)
      let hv ← hdr.value.asNat
      -- consumer: header fields, then iter_attributes(): end = self.offset + self.header.value
      let attrs ← attributesLoop attr (offset + hv) (dataLen + 2) attrStart []
      subsubLoop attr dataLen end_ fuel (offset + hv)
        (.record [("tag", hdr.tag), ("value", hdr.value), ("extra", hdr.extra), ("attributes", .list attrs)] :: acc)

/-- `_make_subsections` with each yielded subsection fully iterated -/
def subsecLoop (arch : Spec.Attr.Arch) (env : Env) (S : ElfStructs) (data : Bytes) (end_ : Nat) :
    Nat → Nat → List Val → R (List Val)
  | 0, offset, acc => if offset = end_ then .ok acc.reverse else .error .outOfFuel
  | fuel+1, offset, acc =>
    if offset = end_ then .ok acc.reverse
    else do
      let (h, subStart) ← structParse env S.Elf_Attr_Subsection_Header data offset
      let len ← h.getNat "length"
      let vn ← h.getField "vendor_name"
      let vendor ← (match vn with
        | .bytes b => decodeNtbs b
        | _ => .error .typeError)
      let subs ← subsubLoop (attributeAt arch env S data) data.length (offset + len) (data.length + 2) subStart []
      subsecLoop arch env S data end_ fuel (offset + len)
        (.record [("length", .int len), ("vendor_name", vendor), ("subsubsections", .list subs)] :: acc)

/-- `AttributesSection.__init__` + the nested iteration.  `shOffset`, `shSize`: the section header's
    `sh_offset`, `sh_size` (uncompressed section: `data_size = sh_size`). -/
def attributesSection (arch : Spec.Attr.Arch) (env : Env) (S : ElfStructs) (data : Bytes)
    (shOffset shSize : Nat) : R Val := do
  let (fv, subsecStart) ← parseInt env S.Elf_byte data shOffset
  if fv ≠ 0x41 then .error .elfError
  else
    let subs ← subsecLoop arch env S data (shOffset + shSize) (data.length + 2) subsecStart []
    return .list subs

end PyElf.Model.Attr
