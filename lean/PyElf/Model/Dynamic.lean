/-
  Mirror of elftools/elf/dynamic.py (Dynamic, DynamicTag, DynamicSection,
  DynamicSegment, _DynamicStringTable), of `ELFFile.address_offsets` /
  `get_section_by_name` as dynamic.py uses them, of the relocation-table
  constructors `get_relocation_tables` calls, and of the two
  `get_number_of_symbols` functions of hash.py.

  Generators are mirrored with their laziness: `next(it, None)` / `break`
  stop parsing at the first hit, `list(it)` runs to DT_NULL, a `DynamicTag` is
  built (and may raise) before the next entry is read.  The caches
  (`_stringtable`, `_num_tags`, `_num_symbols`, `_symbol_name_map`) hold values
  that are functions of the file; a fresh object is modelled (C10 owns history).
-/
import PyElf.Model.ElfFile
namespace PyElf.Model.Dynamic
open PyElf PyElf.Model

/-- what dynamic.py asks of the `ELFFile` object -/
structure FileIfc where
  numSegments : R Nat
  /-- `get_segment(n)`: (class name, header) -/
  getSegment : Nat → R (String × Val)
  /-- `get_section_by_name(name)`: (class name, header) or `None` -/
  sectionByName : Bytes → R (Option (String × Val))

/-- the two kinds of object `_stringtable` can hold -/
inductive StrTab
  | section (kind : String) (hdr : Val)     -- a Section; only StringTableSection has `get_string`
  | dynamic (off : Nat)                     -- `_DynamicStringTable(stream, off)`
  deriving Inhabited

/-- `Dynamic.__init__` state -/
structure Dyn where
  strtab : Option StrTab
  offset : Nat
  empty : Bool
  tagsize : Nat

/-- a `DynamicTag`: the entry and, for the handled tags, (attribute name, string) -/
structure DTag where
  entry : Val
  attr : Option (String × Bytes)
  deriving Inhabited

/-- `stringtable.get_string(offset)` as bytes (`''` for "empty" and for "not terminated") -/
def StrTab.getString (data : Bytes) : StrTab → Nat → R Bytes
  | .section kind hdr, off =>
      if kind != "StringTableSection" then .error .attributeError else Model.getString data hdr off
  | .dynamic toff, off => do
      match ← parseCStringAt data (toff + off) with
      | some s => return s
      | none => return []

/-- `_HANDLED_TAGS` and the attribute `d_tag[3:].lower()` -/
def handledAttr : Val → Option String
  | .str "DT_NEEDED" => some "needed"
  | .str "DT_RPATH" => some "rpath"
  | .str "DT_RUNPATH" => some "runpath"
  | .str "DT_SONAME" => some "soname"
  | .str "DT_SUNW_FILTER" => some "sunw_filter"
  | _ => none

/-- `[f(i) for i in range(n)]`, stopping at the first exception (a `range` is lazy: a huge `n`
    costs nothing when `f` fails early) -/
def rangeMapM {α : Type} (f : Nat → R α) : Nat → Nat → List α → R (List α)
  | 0, _, acc => .ok acc.reverse
  | k+1, i, acc =>
    match f i with
    | .error e => .error e
    | .ok v => rangeMapM f k (i + 1) (v :: acc)

/-- `tag['d_tag'] == type` -/
def tagMatches (type : Option String) (t : Val) : Bool :=
  match type with
  | none => true
  | some ty => isStr t ty

section withFile
variable (env : Env) (S : ElfStructs) (data : Bytes) (ifc : FileIfc)

/-- `ELFFile.address_offsets(start)` (size = 1) consumed by `next(..., None)`: the first PT_LOAD,
    in program-header order, whose file-backed range holds `start`.  Every segment up to it is
    constructed (`get_segment`), later ones are not. -/
def addressOffsetFirst (start : Nat) : R (Option Nat) := do
  let n ← ifc.numSegments
  let rec go : Nat → Nat → R (Option Nat)
    | 0, _ => pure none
    | k+1, i => do
      let (_, ph) ← ifc.getSegment i
      if isStr (← ph.getField "p_type") "PT_LOAD" then
        let va ← ph.getNat "p_vaddr"
        let fsz ← ph.getNat "p_filesz"
        if start ≥ va && start + 1 ≤ va + fsz then
          return some (start - va + (← ph.getNat "p_offset"))
        else go k (i + 1)
      else go k (i + 1)
  go n 0

variable (d : Dyn)

/-- `_get_tag(n)` of a fresh object (`_num_tags` is -1, or 0 for the empty table) -/
def getTagRaw (n : Nat) : R Val := do
  if d.empty then throw .indexError
  let (v, _) ← structParseAt env S.Elf_Dyn data (d.offset + n * d.tagsize)
  return v

/-- iterations after which `_get_tag` must have failed: entries that fit in the file, plus slack -/
def tagFuel : Nat := (data.length - d.offset) / d.tagsize + 2

/-- `_iter_tags(type)` consumed to the first yielded element (`for … break`, `next(...)`) -/
def firstTagRaw (type : Option String) : R (Option Val) :=
  if d.empty then pure none else
  let rec go : Nat → Nat → R (Option Val)
    | 0, _ => .error .outOfFuel
    | fuel+1, n => do
      let tag ← getTagRaw env S data d n
      let t ← tag.getField "d_tag"
      if tagMatches type t then return some tag
      if isStr t "DT_NULL" then return none
      go fuel (n + 1)
  go (tagFuel data d) 0

/-- `get_table_offset(tag_name)` -/
def getTableOffset (name : String) : R (Option Nat × Option Nat) := do
  match ← firstTagRaw env S data d (some name) with
  | none => return (none, none)
  | some tag =>
    let ptr ← tag.getNat "d_ptr"
    let off ← addressOffsetFirst ifc ptr
    return (some ptr, off)

/-- `_get_stringtable()` -/
def getStringtable : R (Option StrTab) := do
  if let some st := d.strtab then return some st
  let (_, off) ← getTableOffset env S data ifc d "DT_STRTAB"
  match off with
  | some o => return some (.dynamic o)
  | none =>
    match ← ifc.sectionByName ".dynstr".toUTF8.toList with
    | some (kind, hdr) => return some (.section kind hdr)
    | none => return none

/-- `DynamicTag(entry, stringtable)` -/
def mkTag (st : R (Option StrTab)) (entry : Val) : R DTag := do
  let some tab ← st | throw .elfError
  match handledAttr (← entry.getField "d_tag") with
  | some a =>
    let v ← entry.getNat "d_val"
    return ⟨entry, some (a, ← tab.getString data v)⟩
  | none => return ⟨entry, none⟩

/-- `for tag in self.iter_tags(type): body` — each matching entry becomes a `DynamicTag` and is
    handed to `step` before the next entry is read -/
def foldTags {σ : Type} (type : Option String) (step : σ → DTag → R σ) (init : σ) : R σ :=
  if d.empty then pure init else
  let st := getStringtable env S data ifc d
  let rec go : Nat → Nat → σ → R σ
    | 0, _, _ => .error .outOfFuel
    | fuel+1, n, s => do
      let tag ← getTagRaw env S data d n
      let t ← tag.getField "d_tag"
      let s ← if tagMatches type t then do step s (← mkTag data st tag) else pure s
      if isStr t "DT_NULL" then return s
      go fuel (n + 1) s
  go (tagFuel data d) 0 init

/-- `list(self.iter_tags(type))` -/
def iterTags (type : Option String) : R (List DTag) := do
  let acc ← foldTags env S data ifc d type (fun acc t => pure (t :: acc)) []
  return acc.reverse

/-- `next(self.iter_tags(type))` -/
def nextTag (type : String) : R DTag := do
  match ← firstTagRaw env S data d (some type) with
  | none => throw .stopIteration
  | some tag => mkTag data (getStringtable env S data ifc d) tag

/-- `get_tag(n)` -/
def getTag (n : Nat) : R DTag := do
  let raw ← getTagRaw env S data d n
  mkTag data (getStringtable env S data ifc d) raw

/-- `num_tags()` -/
def numTags : R Nat :=
  if d.empty then pure 0 else
  let rec go : Nat → Nat → R Nat
    | 0, _ => .error .outOfFuel
    | fuel+1, n => do
      let tag ← getTag env S data ifc d n
      if isStr (← tag.entry.getField "d_tag") "DT_NULL" then return n + 1
      go fuel (n + 1)
  go (tagFuel data d) 0

/-- a `RelocationTable` / `RelrRelocationTable` as observed -/
inductive RelTab
  | rel (offset : Option Nat) (size : Nat) (isRela : Bool) (entrySize : Nat)
  | relr (offset : Option Nat) (size : Nat) (entrySize : Nat)

/-- `RelocationTable.iter_relocations()` fully consumed -/
def relocations (offset : Option Nat) (size : Nat) (isRela : Bool) (entrySize : Nat) : R (List Val) := do
  if entrySize = 0 then throw .zeroDivision
  rangeMapM (fun i => do
    let some off := offset | throw .typeError
    let (v, _) ← structParseAt env (if isRela then S.Elf_Rela else S.Elf_Rel) data (off + i * entrySize)
    return v) (size / entrySize) 0 []

/-- `get_relocation_tables()`; `relaCode` is `ENUM_D_TAG['DT_RELA']` -/
def getRelocationTables (relaCode : Int) : R (List (String × RelTab)) := do
  let it := iterTags env S data ifc d
  let nx := nextTag env S data ifc d
  let gto := getTableOffset env S data ifc d
  let mut result : List (String × RelTab) := []
  if !(← it (some "DT_REL")).isEmpty then
    let off := (← gto "DT_REL").2
    let sz ← (← nx "DT_RELSZ").entry.getNat "d_val"
    let es ← sizeofR S.Elf_Rel
    result := result ++ [("REL", .rel off sz false es)]
    let relentsz ← (← nx "DT_RELENT").entry.getNat "d_val"
    if es != relentsz then throw .elfError
  if !(← it (some "DT_RELA")).isEmpty then
    let off := (← gto "DT_RELA").2
    let sz ← (← nx "DT_RELASZ").entry.getNat "d_val"
    let es ← sizeofR S.Elf_Rela
    result := result ++ [("RELA", .rel off sz true es)]
    let relentsz ← (← nx "DT_RELAENT").entry.getNat "d_val"
    if es != relentsz then throw .elfError
  if !(← it (some "DT_RELR")).isEmpty then
    let off := (← gto "DT_RELR").2
    let sz ← (← nx "DT_RELRSZ").entry.getNat "d_val"
    let ent ← (← nx "DT_RELRENT").entry.getNat "d_val"
    let es ← sizeofR S.Elf_Relr
    if es != ent then throw .elfError
    result := result ++ [("RELR", .relr off sz es)]
  if !(← it (some "DT_JMPREL")).isEmpty then
    let off := (← gto "DT_JMPREL").2
    let sz ← (← nx "DT_PLTRELSZ").entry.getNat "d_val"
    let isRela := (← (← nx "DT_PLTREL").entry.getInt "d_val") == relaCode
    let es ← sizeofR (if isRela then S.Elf_Rela else S.Elf_Rel)
    result := result ++ [("JMPREL", .rel off sz isRela es)]
  return result

/-! ### hash.py: `get_number_of_symbols` -/

/-- `ELFHashTable(elffile, off, _).get_number_of_symbols()` -/
def sysvNumSymbols (off : Nat) : R Nat := do
  let (params, _) ← structParseAt env S.Elf_Hash data off
  params.getNat "nchains"

def asList : Val → R (List Val)
  | .list xs => .ok xs
  | _ => .error .typeError

/-- `max(seq)` of a list of ints -/
def pyMax : List Val → R Int
  | [] => .error .valueError
  | x :: xs => do
    let a ← x.asInt
    xs.foldlM (fun m v => do let b ← v.asInt; pure (if b > m then b else m)) a

/-- `GNUHashTable(elffile, off, _).get_number_of_symbols()` -/
def gnuNumSymbols (le : Bool) (off : Nat) : R Nat := do
  let (params, _) ← structParseAt env S.Gnu_Hash data off
  let wordsize ← sizeofR S.Elf_word
  let xwordsize ← sizeofR S.Elf_xword
  let chainPos := off + 4 * wordsize + (← params.getNat "bloom_size") * xwordsize
                    + (← params.getNat "nbuckets") * wordsize
  let maxIdx ← pyMax (← asList (← params.getField "buckets"))
  let symoffset ← params.getNat "symoffset"
  if maxIdx < symoffset then return symoffset
  let maxIdx := maxIdx.toNat
  let pos := chainPos + (maxIdx - symoffset) * wordsize
  seekCheck pos
  -- struct.unpack('<I' | '>I', stream.read(wordsize)): needs exactly 4 bytes
  let rec walk : Nat → Nat → Nat → R Nat
    | 0, _, _ => .error .outOfFuel
    | fuel+1, p, idx => do
      let bs := readN data p wordsize
      if bs.length != 4 then throw .structError
      if decNat le bs % 2 = 1 then return idx + 1
      walk fuel (p + wordsize) (idx + 1)
  walk ((data.length - pos) / 4 + 2) pos maxIdx

/-! ### DynamicSegment -/

variable (iterSegs : R (List (String × Val))) (le : Bool)

/-- the symbol-count fallback of `num_symbols` (no hash table) -/
def numSymbolsFallback (symsize : Nat) : R Nat := do
  let (tabPtr?, tabOff?) ← getTableOffset env S data ifc d "DT_SYMTAB"
  let some tabPtr := tabPtr? | throw .elfError
  let some _ := tabOff? | throw .elfError
  let nearest ← foldTags env S data ifc d none (fun (nearest : Option Nat) tag => do
      let tagPtr ← tag.entry.getNat "d_ptr"
      if isStr (← tag.entry.getField "d_tag") "DT_SYMENT" then
        if symsize != (← tag.entry.getNat "d_val") then throw .elfError
      if tagPtr > tabPtr && (match nearest with | none => true | some np => np > tagPtr) then
        pure (some tagPtr)
      else pure nearest) none
  let nearest ← match nearest with
    | some p => pure (some p)
    | none => do
      let segs ← iterSegs
      segs.foldlM (fun (acc : Option Nat) (_, ph) => do
        let va ← ph.getNat "p_vaddr"
        let fsz ← ph.getNat "p_filesz"
        if va ≤ tabPtr && tabPtr ≤ va + fsz then pure (some (va + fsz)) else pure acc) none
  let some endPtr := nearest | throw .typeError
  if symsize = 0 then throw .zeroDivision
  -- Python floor division; `end_ptr > tab_ptr` whenever it came from a tag, `≥` from a segment
  return (endPtr - tabPtr) / symsize

/-- `num_symbols()` -/
def numSymbols : R Nat := do
  let symsize ← sizeofR S.Elf_Sym
  let (_, gnuOff) ← getTableOffset env S data ifc d "DT_GNU_HASH"
  match gnuOff with
  | some o => gnuNumSymbols env S data le o
  | none =>
    let (_, hashOff) ← getTableOffset env S data ifc d "DT_HASH"
    match hashOff with
    | some o => sysvNumSymbols env S data o
    | none => numSymbolsFallback env S data ifc d iterSegs symsize

/-- `get_symbol(index)`: (name, entry) -/
def getSymbol (index : Nat) : R (Bytes × Val) := do
  let (tabPtr?, tabOff?) ← getTableOffset env S data ifc d "DT_SYMTAB"
  let some _ := tabPtr? | throw .elfError
  let some tabOff := tabOff? | throw .elfError
  let symsize ← sizeofR S.Elf_Sym
  let (sym, _) ← structParseAt env S.Elf_Sym data (tabOff + index * symsize)
  let some tab ← getStringtable env S data ifc d | throw .attributeError
  let name ← tab.getString data (← sym.getNat "st_name")
  return (name, sym)

/-- `iter_symbols()` fully consumed -/
def iterSymbols : R (List (Bytes × Val)) := do
  let n ← numSymbols env S data ifc d iterSegs le
  rangeMapM (getSymbol env S data ifc d) n 0 []

/-- `get_symbol_by_name(name)` -/
def getSymbolByName (name : Bytes) : R (Option (List (Bytes × Val))) := do
  let syms ← iterSymbols env S data ifc d iterSegs le
  let idxs := ((List.range syms.length).zip syms).filter (fun p => p.2.1 == name) |>.map (·.1)
  if idxs.isEmpty then return none
  return some (← idxs.mapM (getSymbol env S data ifc d))

end withFile

/-! ### construction from an opened file -/

section fromFile
variable (env : Env) (f : ElfFile)

def realIfc : FileIfc where
  numSegments := numSegments env f.S f.data f.header f.shstr
  getSegment := getSegment env f.S f.data f.header f.shstr
  sectionByName := fun nm => do
    let secs ← iterSections env f.S f.data f.header f.shstr
    match (sectionNameMap secs).find? (·.1 == nm) with
    | some (_, i) =>
      let (k, _, h) ← getSection env f.S f.data f.header f.shstr i
      return some (k, h)
    | none => return none

/-- `DynamicSection(header, name, elffile)` for an already built section of that class -/
def dynOfSection (sh : Val) : R Dyn := do
  let (kind, _, h) ← getSection env f.S f.data f.header f.shstr (← sh.getNat "sh_link")
  return { strtab := some (.section kind h), offset := ← sh.getNat "sh_offset",
           empty := isStr (← sh.getField "sh_type") "SHT_NOBITS", tagsize := ← sizeofR f.S.Elf_Dyn }

/-- `DynamicSegment(header, stream, elffile)`: search the sections for the `.dynamic` section
    that starts at the segment's offset and take the section its `sh_link` names -/
def dynOfSegment (ph : Val) : R Dyn := do
  let n ← numSections env f.S f.data f.header
  let poff ← ph.getNat "p_offset"
  let rec find : List Nat → R (Option StrTab)
    | [] => pure none
    | i :: rest => do
      let (kind, _, sh) ← getSection env f.S f.data f.header f.shstr i
      if kind == "DynamicSection" && (← sh.getNat "sh_offset") == poff then
        let (k, _, h) ← getSection env f.S f.data f.header f.shstr (← sh.getNat "sh_link")
        pure (some (.section k h))
      else find rest
  let st ← find (List.range n)
  return { strtab := st, offset := poff, empty := (← ph.getNat "p_filesz") == 0,
           tagsize := ← sizeofR f.S.Elf_Dyn }

/-- `for x in it: if isinstance(x, K): return x` over a lazily built sequence -/
def findFirst {α : Type} (get : Nat → R α) (p : α → Bool) : Nat → Nat → R (Option α)
  | 0, _ => pure none
  | k+1, i => do
    let x ← get i
    if p x then return some x else findFirst get p k (i + 1)

/-- the `DynamicSection` object of the file: the first section of that class, in file order
    (`for s in elffile.iter_sections(): if isinstance(s, DynamicSection)`) -/
def dynamicSection : R (Option Dyn) := do
  let n ← numSections env f.S f.data f.header
  match ← findFirst (getSection env f.S f.data f.header f.shstr) (·.1 == "DynamicSection") n 0 with
  | none => return none
  | some (_, _, sh) => return some (← dynOfSection env f sh)

/-- the `DynamicSegment` object of the file: the first segment of that class -/
def dynamicSegment : R (Option Dyn) := do
  let n ← numSegments env f.S f.data f.header f.shstr
  match ← findFirst (getSegment env f.S f.data f.header f.shstr) (·.1 == "DynamicSegment") n 0 with
  | none => return none
  | some (_, ph) => return some (← dynOfSegment env f ph)

end fromFile

end PyElf.Model.Dynamic
