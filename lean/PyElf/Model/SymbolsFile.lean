/-
  How the symbol-table, index-table, syminfo and hash-table objects of sections.py / hash.py come
  into being: mirror of

      ELFFile.get_section(n) → _make_section → _make_symbol_table_section        (→ _get_linked_strtab_section)
                                             → _make_symbol_table_index_section  (sh_link kept as a number)
                                             → _make_sunwsyminfo_table_section   (→ _get_linked_symtab_section)
                                             → _make_elf_hash_section            (→ _get_linked_symtab_section)
                                             → _make_gnu_hash_section            (→ _get_linked_symtab_section)

  i.e. of the constructor arguments that `Model/Symbols.lean` takes as given (`sh_offset`, `sh_size`,
  `sh_entsize` of the table; the linked string table's `sh_offset`; for hash / syminfo tables the linked
  symbol table and *its* string table), and of `ELFFile.get_section_by_name`.

  The guards of the constructor chain — the header found at `sh_link` must have type SHT_STRTAB
  (`_get_linked_strtab_section`) resp. SHT_SYMTAB / SHT_DYNSYM (`_get_linked_symtab_section`), else
  ELFError; `_get_section_header` answering `None` for an entry that starts beyond the end of the stream,
  which the type check then subscripts (TypeError); the linked section object being built in turn — are
  in `Model.makeSection` (Model/ElfFile.lean), which `Model.getSection` runs.

  Offsets: `Model/Symbols.lean` reads through `structParse` / `parseCStringFromStream`, which do not
  model the `OverflowError` / `ELFParseError` of a seek beyond 2^63 − 1; every position inside a byte
  string Python can hold is below that.
-/
import PyElf.Model.ElfFile
import PyElf.Model.Symbols
import PyElf.Model.GnuVersionsFile
namespace PyElf.Model.C03
open PyElf PyElf.Model
open PyElf.Model.C15 (linkedHeader)

/-- the header fields of a section object that the table classes read later (`self['sh_offset']` …) -/
def secHdrOf (sh : Val) : R SecHdr := do
  return { off := ← sh.getNat "sh_offset", size := ← sh.getNat "sh_size", entsize := ← sh.getNat "sh_entsize" }

/-- what `get_section(n)` hands out, as far as C03 is concerned -/
inductive SymObj where
  /-- SymbolTableSection: own header, `self.stringtable['sh_offset']` -/
  | symtab (h : SecHdr) (strOff : Nat)
  /-- SymbolTableIndexSection: own header, `self.symboltable` (the number `sh_link`, not a section) -/
  | shndx (h : SecHdr) (symboltable : Nat)
  /-- SUNWSyminfoTableSection: own header, `self.symboltable` (a SymbolTableSection) -/
  | syminfo (h symH : SecHdr) (strOff : Nat)
  /-- ELFHashSection: `self.params`, `self._symboltable` -/
  | sysv (params : Val) (symH : SecHdr) (strOff : Nat)
  /-- GNUHashSection: params / word sizes / `_chain_pos`, `self._symboltable` -/
  | gnu (g : GnuHash) (symH : SecHdr) (strOff : Nat)
  /-- any other class -/
  | other (kind : String)

/-- the SymbolTableSection `_get_linked_symtab_section(sh_link)` built: its header and its string table's offset -/
def linkedSymtab (env : Env) (f : ElfFile) (sh : Val) : R (SecHdr × Nat) := do
  let symh ← linkedHeader env f (← sh.getNat "sh_link")
  let strh ← linkedHeader env f (← symh.getNat "sh_link")
  return (← secHdrOf symh, ← strh.getNat "sh_offset")

/-- `ELFFile.get_section(n)`: the section object is built by `getSection` (which runs the whole constructor
    chain, link checks and linked tables included); the fields the table classes later read are taken from
    the section's own header, from the header at `sh_link` and, for hash / syminfo tables, from the header at
    the symbol table's `sh_link` -/
def getSymSection (env : Env) (f : ElfFile) (n : Nat) : R SymObj := do
  let (kind, _, sh) ← getSection env f.S f.data f.header f.shstr n
  if kind == "SymbolTableSection" then
    let strh ← linkedHeader env f (← sh.getNat "sh_link")
    return .symtab (← secHdrOf sh) (← strh.getNat "sh_offset")
  else if kind == "SymbolTableIndexSection" then
    return .shndx (← secHdrOf sh) (← sh.getNat "sh_link")
  else if kind == "SUNWSyminfoTableSection" then
    let (symH, strOff) ← linkedSymtab env f sh
    return .syminfo (← secHdrOf sh) symH strOff
  else if kind == "ELFHashSection" then
    let (symH, strOff) ← linkedSymtab env f sh
    -- ELFHashTable.__init__(elffile, self['sh_offset'], symboltable)
    return .sysv (← elfHashInit f.S env f.data (← sh.getNat "sh_offset")) symH strOff
  else if kind == "GNUHashSection" then
    let (symH, strOff) ← linkedSymtab env f sh
    return .gnu (← gnuHashInit f.S env f.cls f.data (← sh.getNat "sh_offset")) symH strOff
  else
    return .other kind

/-- `ELFFile.get_section_by_name(name)` on a fresh object: `_make_section_name_map` enumerates (and builds)
    every section, later names overwrite earlier ones, then `get_section(secnum)` -/
def getSymSectionByName (env : Env) (f : ElfFile) (name : Bytes) : R (Option SymObj) := do
  let secs ← iterSections env f.S f.data f.header f.shstr
  match (sectionNameMap secs).find? (·.1 == name) with
  | none => return none
  | some (_, i) => return some (← getSymSection env f i)

/-- one step of the scan below: `(sec.symboltable, sec)` for an index table designating `symIdx` -/
def shndxHit (symIdx : Nat) (s : String × Bytes × Val) (i : Nat) : R (Option (Nat × SecHdr)) := do
  if s.1 == "SymbolTableIndexSection" then
    if (← s.2.2.getNat "sh_link") = symIdx then return some (i, ← secHdrOf s.2.2) else return none
  else return none

/-- how a client finds the extended-index companion of symbol table `symIdx` (scripts/readelf.py):
    `{sec.symboltable: sec for sec in elffile.iter_sections() if isinstance(sec, SymbolTableIndexSection)}.get(symIdx)`
    — the LAST index table whose `sh_link` is `symIdx` (dict overwrite); reported as (section index, its header) -/
def shndxCompanion (env : Env) (f : ElfFile) (symIdx : Nat) : R (Option (Nat × SecHdr)) := do
  let secs ← iterSections env f.S f.data f.header f.shstr
  let hits ← (secs.zipIdx).mapM fun (s, i) => shndxHit symIdx s i
  return (hits.filterMap id).getLast?

end PyElf.Model.C03
