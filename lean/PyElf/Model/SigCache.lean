/-
  `DWARFInfo._type_units_by_sig` — the lazily built signature → type unit map behind `get_DIE_by_sig8` and
  `get_TU_by_sig8` (dwarfinfo.py `_parse_debug_types`).  The map is `None` until a scan of `.debug_types` and of the
  DWARF 5 type units of `.debug_info` has COMPLETED; a scan that raises publishes nothing (after fix ccfe17f), so the
  next lookup scans again.  The scan and the lookup in a finished map enter as parameters that are pure in the file:
  Model/DieSection `sigUnits` and Model/Die `dieBySig8` are the instances (Props/C04 `sig8_history_independent`).

  The machine is generic in the query type `Q`, so the same four definitions model every cache of the library that is
  built by one complete scan on first use and published only when the scan returns:
    * `DWARFInfo._type_units_by_sig`            Q = signature                 (Props/C04)
    * `RelrRelocationTable._cached_relocations` Q = num_relocations | get_relocation n
                                                `self._cached_relocations = list(self.iter_relocations())` (Props/C08)
-/
import PyElf.Core.Basic
namespace PyElf.Model.SigCache
open PyElf

/-- `self._type_units_by_sig` -/
structure St (M : Type) where
  map : Option M

def St.init {M : Type} : St M := ⟨none⟩

/-- one `get_DIE_by_sig8(sig)` / `get_TU_by_sig8(sig)`: `_parse_debug_types()` (returns at once when the map exists;
    otherwise scans, and assigns the map only if nothing raised), then the lookup in the map -/
def step {M Q A : Type} (scan : M × Option Err) (look : M → Q → R A) (st : St M) (sig : Q) : R A × St M :=
  match st.map with
  | some m => (look m sig, st)
  | none =>
    match scan.2 with
    | some e => (.error e, st)
    | none => (look scan.1 sig, ⟨some scan.1⟩)

/-- a history of lookups on one object: the answers in order, and the final state -/
def run {M Q A : Type} (scan : M × Option Err) (look : M → Q → R A) : St M → List Q → List (R A) × St M
  | st, [] => ([], st)
  | st, sig :: rest =>
    let (a, st') := step scan look st sig
    let (as, st'') := run scan look st' rest
    (a :: as, st'')

/-- what a freshly opened object answers -/
def stateless {M Q A : Type} (scan : M × Option Err) (look : M → Q → R A) (sig : Q) : R A :=
  match scan.2 with
  | some e => .error e
  | none => look scan.1 sig

/-- reachable states: nothing published, or the completed scan's map -/
def Inv {M : Type} (scan : M × Option Err) (st : St M) : Prop :=
  st.map = none ∨ (scan.2 = none ∧ st.map = some scan.1)

end PyElf.Model.SigCache
