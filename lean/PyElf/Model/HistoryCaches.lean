/-
  C10, fourth wave — the caches the base state machine (`Model/History.lean`) abstracts away, as a layer around it:

    elftools/dwarf/dwarfinfo.py    get_abbrev_table (`_abbrevtable_cache`, shared by all units with the same
                                   debug_abbrev_offset), `_parse_line_program_at_offset` (`_linetable_cache`: the SAME
                                   LineProgram object for every unit that points at the offset, parsed with the structs
                                   of the unit that asked first), CFI_entries / EH_CFI_entries (a new CallFrameInfo per call)
    elftools/dwarf/compileunit.py  get_abbrev_table (`_abbrev_table`)
    elftools/dwarf/die.py          `_parse_DIE`: `self.cu.get_abbrev_table()` for every non-null entry
    elftools/dwarf/lineprogram.py  get_entries (`_decoded_entries`: decoded once; DW_LNE_define_file grows the header)
    elftools/dwarf/callframe.py    get_entries (`entries`), `_parse_entries`, `_parse_entry_at` with `_entry_cache`
                                   (after the fix: a cache hit seeks to the end of the entry by the entry's own offset),
                                   `_parse_cie_for_fde` (three fetches per FDE in .eh_frame, two in .debug_frame,
                                   each under `preserve_stream_pos`)

  As in the base model, what a parse produces is a PARAMETER that is pure in (file, offset): `XFile`.  Tables, headers,
  decoded programs and CFI entries are stood for by a payload number.  The DIE constructor takes what
  `cu.get_abbrev_table()` returns (or raises) as an argument, so the DIE parse of the base model really does depend on
  the state of the abbreviation caches: `fileOf X xs` is the `File` the base step runs on in state `xs`.

  Within one base operation the table a unit sees does not change (the first non-null DIE parsed loads exactly the
  value `tableFor` computes, an unsuccessful table parse is not cached and fails the same way again), so the base
  operation runs with `tableFor` of the state it starts in, and the caches are brought up to date afterwards
  (`syncAb`: every unit that holds a non-null DIE has asked for its table).  A DIE parse that fails AFTER it has
  obtained the table leaves no DIE behind and is not recorded (offsets handed to the model are DIE starts of
  well-formed units; the theorems hold in all states satisfying the invariant, loaded or not).
-/
import PyElf.Model.History
namespace PyElf.Model.C10
open PyElf PyElf.Model.Lookup

/-! ### CFI entries -/

/-- a CFI entry object as far as the cache logic and the observer read it: ZERO, CIE, FDE with THE object of its CIE -/
inductive CEnt
  | zero (off : Nat)
  | cie (off : Int) (skip : Nat) (payload : Nat)
  | fde (off : Int) (skip : Nat) (payload : Nat) (cie : CEnt)
  deriving DecidableEq, Repr, Inhabited

/-- `entry.header.length + entry.structs.initial_length_field_size()` (ZERO has no header) -/
def CEnt.skip? : CEnt → Option Nat
  | .zero _ => none
  | .cie _ s _ => some s
  | .fde _ s _ _ => some s

/-- what the parse of an FDE reads of the entry its CIE pointer designates (augmentation string and dictionary) -/
def CEnt.tag : CEnt → Nat
  | .zero _ => 0
  | .cie _ _ p => p + 1
  | .fde _ _ p _ => p + 1

/-- the number of bytes an entry occupies when its instructions end where its length field says -/
def CEnt.len : CEnt → Nat
  | .zero _ => 4
  | .cie _ s _ => s
  | .fde _ s _ _ => s

/-- a freshly parsed entry: `skip` as above, `endPos` where the parse leaves the stream, the decoded content -/
structure CRaw where
  skip : Nat
  endPos : Nat
  payload : Nat
  deriving DecidableEq, Repr, Inhabited

/-- the first two words of an entry: the zero terminator of `.eh_frame` (the stream is left behind the length
    word), a CIE (parsed without reference to anything else), or an FDE with the offset its CIE pointer designates -/
inductive CHead
  | zero (endPos : Nat)
  | cie (raw : CRaw)
  | fde (ptr : Int)
  deriving DecidableEq, Repr, Inhabited

abbrev CCache := List (Int × CEnt)

def cacheGet (c : CCache) (k : Int) : Option CEnt :=
  match c with
  | [] => none
  | (k', e) :: rest => if k' = k then some e else cacheGet rest k

/-! ### the pure side -/

structure XFile where
  /-- unit headers, names, reference attributes, pubnames; its `parseDIE` field is NOT used (see `fileWith`) -/
  skel : File
  /-- `DIE(cu, stream, offset)` given what `cu.get_abbrev_table()` returns or raises (asked for non-null entries only) -/
  ctor : Nat → Nat → R Nat → R DIE
  /-- `cu['debug_abbrev_offset']`, `debug_abbrev_sec.size`, `AbbrevTable(structs, stream, offset)` -/
  abbrevOff : Nat → Nat
  abbrevSize : Nat
  parseAbbrev : Nat → R Nat
  /-- the structs of a unit as far as a line program is parsed with them (byte order, format, address size) -/
  lpKey : Nat → Nat
  /-- `_parse_line_program_at_offset` after a cache miss: the header (with `program_start_offset`/`program_end_offset`) -/
  lpParse : Nat → Nat → R Nat
  /-- `_decode_line_program()`: the entries, and the header as it reads afterwards -/
  lpDecode : Nat → Nat → R (Nat × Nat)
  /-- per CFI section (`true`: `.eh_frame`): its size and the fresh parses -/
  cfiSize : Bool → Nat
  cfiHead : Bool → Int → R CHead
  /-- the FDE at an offset, given the tags of the entries returned by the fetch in `_parse_fde_header`
      (`.eh_frame` only, otherwise 0) and by the second `_parse_cie_for_fde` -/
  cfiFde : Bool → Int → Nat → Nat → R CRaw

/-- the `File` of the base model when unit `cu` sees the table `tbl cu` -/
def fileWith (X : XFile) (tbl : Nat → R Nat) : File :=
  { X.skel with parseDIE := fun cu off => X.ctor cu off (tbl cu) }

/-! ### abbreviation tables -/

structure AbState where
  /-- `DWARFInfo._abbrevtable_cache` -/
  cache : List (Nat × Nat)
  /-- `CompileUnit._abbrev_table`, by unit offset -/
  memo : List (Nat × Nat)
  deriving Repr, Inhabited

/-- `DWARFInfo.get_abbrev_table(offset)` -/
def diTable (X : XFile) (a : AbState) (off : Nat) : R Nat × AbState :=
  if off < X.abbrevSize then
    match assocGet? a.cache off with
    | some t => (.ok t, a)
    | none =>
      match X.parseAbbrev off with
      | .error e => (.error e, a)
      | .ok t => (.ok t, { a with cache := assocSet a.cache off t })
  else (.error .dwarfError, a)

/-- `CompileUnit.get_abbrev_table()` -/
def cuTable (X : XFile) (a : AbState) (cu : Nat) : R Nat × AbState :=
  match assocGet? a.memo cu with
  | some t => (.ok t, a)
  | none =>
    match diTable X a (X.abbrevOff cu) with
    | (.error e, a) => (.error e, a)
    | (.ok t, a) => (.ok t, { a with memo := assocSet a.memo cu t })

/-- what `cu.get_abbrev_table()` returns in state `a` -/
def tableFor (X : XFile) (a : AbState) (cu : Nat) : R Nat := (cuTable X a cu).1

/-! ### line programs -/

/-- a cached `LineProgram` object -/
structure LPObj where
  key : Nat
  hdr : Nat
  entries : Option Nat
  deriving DecidableEq, Repr, Inhabited

/-! ### CFI -/

/-- `with preserve_stream_pos(self.stream): return self._parse_entry_at(cie_offset)` -/
def fetchCie (recur : Int → CCache → R (CEnt × Nat) × CCache) (ptr : Int) (cache : CCache) : R CEnt × CCache :=
  match recur ptr cache with
  | (.error e, cache) => (.error e, cache)
  | (.ok (e, _), cache) => (.ok e, cache)

/-- `.eh_frame`: `_parse_fde_header` needs the CIE (its FDE encoding) before the header can be read -/
def fetchTag (recur : Int → CCache → R (CEnt × Nat) × CCache) (eh : Bool) (ptr : Int) (cache : CCache) : R Nat × CCache :=
  if eh then
    match fetchCie recur ptr cache with
    | (.error e, cache) => (.error e, cache)
    | (.ok e1, cache) => (.ok e1.tag, cache)
  else (.ok 0, cache)

/-- `_parse_entry_at(offset)`: the entry and the stream position afterwards.  `fuel` bounds the FDE → CIE recursion
    (unbounded in Python: an FDE designating itself overflows the interpreter stack). -/
def centAt (X : XFile) (eh : Bool) : Nat → Int → CCache → R (CEnt × Nat) × CCache
  | 0, _, cache => (.error .outOfFuel, cache)
  | fuel+1, off, cache =>
    match cacheGet cache off with
    | some e =>
      -- `self.stream.seek(offset + entry.header.length + entry.structs.initial_length_field_size())`
      match e.skip? with
      | none => (.error .attributeError, cache)
      | some s => (.ok (e, off.toNat + s), cache)
    | none =>
      match X.cfiHead eh off with
      | .error e => (.error e, cache)
      | .ok (.zero p) => (.ok (.zero off.toNat, p), cache)
      | .ok (.cie raw) =>
        let e := CEnt.cie off raw.skip raw.payload
        (.ok (e, raw.endPos), (off, e) :: cache)
      | .ok (.fde ptr) =>
        match fetchTag (centAt X eh fuel) eh ptr cache with
        | (.error e, cache) => (.error e, cache)
        | (.ok t1, cache) =>
          -- `cie = self._parse_cie_for_fde(offset, header, entry_structs)`: augmentation data, LSDA pointer
          match fetchCie (centAt X eh fuel) ptr cache with
          | (.error e, cache) => (.error e, cache)
          | (.ok e2, cache) =>
            match X.cfiFde eh off t1 e2.tag with
            | .error e => (.error e, cache)
            | .ok raw =>
              -- `cie = self._parse_cie_for_fde(...)` again, for the FDE object
              match fetchCie (centAt X eh fuel) ptr cache with
              | (.error e, cache) => (.error e, cache)
              | (.ok e3, cache) =>
                let e := CEnt.fde off raw.skip raw.payload e3
                (.ok (e, raw.endPos), (off, e) :: cache)

/-- `_parse_entries()`: `while offset < self.size: entries.append(self._parse_entry_at(offset)); offset = self.stream.tell()` -/
def centLoop (X : XFile) (eh : Bool) (depth : Nat) : Nat → Nat → CCache → R (List CEnt) × CCache
  | 0, _, cache => (.error .outOfFuel, cache)
  | fuel+1, offset, cache =>
    if offset < X.cfiSize eh then
      match centAt X eh depth offset cache with
      | (.error e, cache) => (.error e, cache)
      | (.ok (e, p), cache) =>
        match centLoop X eh depth fuel p cache with
        | (.error e, cache) => (.error e, cache)
        | (.ok rest, cache) => (.ok (e :: rest), cache)
    else (.ok [], cache)

/-- a `CallFrameInfo` object -/
structure CfiObj where
  entries : Option (List CEnt)
  cache : CCache
  deriving Repr, Inhabited

def CfiObj.new : CfiObj := ⟨none, []⟩

/-- `CallFrameInfo.get_entries()`; a parse that raises leaves `entries` unset and the entry cache partly filled -/
def cfiGetEntries (X : XFile) (eh : Bool) (o : CfiObj) : R (List CEnt) × CfiObj :=
  match o.entries with
  | some l => (.ok l, o)
  | none =>
    match centLoop X eh (X.cfiSize eh + 2) (X.cfiSize eh + 2) 0 o.cache with
    | (.error e, cache) => (.error e, { o with cache := cache })
    | (.ok l, cache) => (.ok l, ⟨some l, cache⟩)

/-! ### the whole object -/

structure XState where
  base : State
  ab : AbState
  /-- `_linetable_cache` -/
  lines : List (Nat × LPObj)
  /-- the two `CallFrameInfo` objects a client keeps (`.debug_frame`, `.eh_frame`) -/
  cfiD : CfiObj
  cfiE : CfiObj
  deriving Repr, Inhabited

def XState.init : XState := ⟨State.init, ⟨[], []⟩, [], CfiObj.new, CfiObj.new⟩

inductive XOp
  | base (op : Op)
  /-- `get_CU_at(cu).get_abbrev_table()` -/
  | abbrevCU (cu : Nat)
  /-- `dwarfinfo.get_abbrev_table(off)` -/
  | abbrevAt (off : Nat)
  /-- `line_program_for_CU(get_CU_at(cu))`: the header as it reads now, and (`decode`) `get_entries()` -/
  | lp (cu : Nat) (decode : Bool)
  /-- `dwarfinfo.CFI_entries()` / `EH_CFI_entries()` -/
  | cfi (eh : Bool)
  /-- `get_entries()` on a `CallFrameInfo` object that is kept -/
  | cfiObj (eh : Bool)
  deriving DecidableEq, Repr, Inhabited

inductive XAns
  | base (a : Ans)
  | tbl (t : Nat)
  | none
  /-- offset, header, decoded entries -/
  | lp (off hdr : Nat) (entries : Option Nat)
  | cfi (l : List CEnt)
  deriving DecidableEq, Repr, Inhabited

/-- the `File` the base step runs on in state `xs`: every unit sees what its `get_abbrev_table()` returns now -/
def fileOf (X : XFile) (xs : XState) : File := fileWith X (tableFor X xs.ab)

/-- after a base operation: every unit that holds a non-null DIE has asked for its table -/
def syncUnit (X : XFile) (a : AbState) (p : Nat × UnitCache) : AbState :=
  if p.2.dielist.any (fun d => !d.isNull) then (cuTable X a p.1).2 else a

def syncAb (X : XFile) (xs : XState) : XState :=
  { xs with ab := xs.base.units.foldl (syncUnit X) xs.ab }

/-- `_parse_line_program_at_offset(o, CU.structs)` -/
def lpFetch (X : XFile) (lines : List (Nat × LPObj)) (cu o : Nat) : R LPObj × List (Nat × LPObj) :=
  match assocGet? lines o with
  | some obj => (.ok obj, lines)
  | none =>
    match X.lpParse (X.lpKey cu) o with
    | .error e => (.error e, lines)
    | .ok h =>
      let obj : LPObj := ⟨X.lpKey cu, h, none⟩
      (.ok obj, assocSet lines o obj)

/-- `lineprogram.get_entries()` on the cached object at `o` -/
def lpEntries (X : XFile) (lines : List (Nat × LPObj)) (o : Nat) (obj : LPObj) : R (Nat × Nat) × List (Nat × LPObj) :=
  match obj.entries with
  | some e => (.ok (e, obj.hdr), lines)
  | none =>
    match X.lpDecode obj.key o with
    | .error e => (.error e, lines)
    | .ok (e, h') => (.ok (e, h'), assocSet lines o { obj with hdr := h', entries := some e })

/-- the part of `line_program_for_CU` behind `DW_AT_stmt_list`: the cached object (or a new one), the header as it
    reads now and, on request, `get_entries()` -/
def lpTail (X : XFile) (xs : XState) (cu o : Nat) (decode : Bool) : R XAns × XState :=
  match lpFetch X xs.lines cu o with
  | (.error e, lines) => (.error e, { xs with lines := lines })
  | (.ok obj, lines) =>
    if decode then
      match lpEntries X lines o obj with
      | (.error e, lines) => (.error e, { xs with lines := lines })
      | (.ok (e, h), lines) => (.ok (.lp o h (some e)), { xs with lines := lines })
    else (.ok (.lp o obj.hdr none), { xs with lines := lines })

def xstep (X : XFile) (xs : XState) : XOp → R XAns × XState
  | .base op =>
    let r := step (fileOf X xs) xs.base op
    (r.1.map XAns.base, syncAb X { xs with base := r.2 })
  | .abbrevCU cu =>
    match step (fileOf X xs) xs.base (.cuAt cu) with
    | (.error e, b) => (.error e, { xs with base := b })
    | (.ok _, b) =>
      match cuTable X xs.ab cu with
      | (.error e, a) => (.error e, { xs with base := b, ab := a })
      | (.ok t, a) => (.ok (.tbl t), { xs with base := b, ab := a })
  | .abbrevAt off =>
    match diTable X xs.ab off with
    | (.error e, a) => (.error e, { xs with ab := a })
    | (.ok t, a) => (.ok (.tbl t), { xs with ab := a })
  | .lp cu decode =>
    -- `get_CU_at`, `get_top_DIE`, `DW_AT_stmt_list`: the base operation (it also notes the request in `base.line`)
    let r := step (fileOf X xs) xs.base (.lp cu decode)
    let xs := syncAb X { xs with base := r.2 }
    match r.1 with
    | .error e => (.error e, xs)
    | .ok (.opt (some o)) => lpTail X xs cu o decode
    | .ok _ => (.ok .none, xs)
  | .cfi eh =>
    -- a new `CallFrameInfo` for every call
    ((cfiGetEntries X eh CfiObj.new).1.map XAns.cfi, xs)
  | .cfiObj eh =>
    if eh then
      let r := cfiGetEntries X eh xs.cfiE
      (r.1.map XAns.cfi, { xs with cfiE := r.2 })
    else
      let r := cfiGetEntries X eh xs.cfiD
      (r.1.map XAns.cfi, { xs with cfiD := r.2 })

def xrun (X : XFile) (xs : XState) : List XOp → XState
  | [] => xs
  | op :: ops => xrun X (xstep X xs op).2 ops

/-- the stateless meaning of a query: its answer on a freshly opened object -/
def xanswer (X : XFile) (op : XOp) : R XAns := (xstep X XState.init op).1

end PyElf.Model.C10
