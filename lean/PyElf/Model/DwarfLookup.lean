/-
  Mirrors of elftools/dwarf/aranges.py, elftools/dwarf/namelut.py and the unit
  lookup functions of elftools/dwarf/dwarfinfo.py (get_CU_containing, get_CU_at,
  _parse_CUs_iter, _cached_CU_at_offset, _parse_CU_at_offset,
  get_DIE_from_lut_entry) with CompileUnit.size / get_DIE_from_refaddr.

  Modelled library calls: `bisect.bisect_right` (CPython's lo/hi loop), `list.sort`
  (the stable sort), `list.insert`, `dict.__setitem__`, `bytes.decode('utf-8')`
  (identity on well-formed UTF-8, UnicodeDecodeError otherwise), and
  `int(math.ceil(fp/float(ts))*ts)` as integer ceil-division (exact for fp < 2^53).
-/
import PyElf.Core.Bundles
import PyElf.Spec.DwarfLookup
namespace PyElf.Model.Lookup
open PyElf
open PyElf.Spec.Lookup (AREntry utf8Valid)

/-! ### library calls -/

/-- `bisect.bisect_right(keys, x)`: `while lo < hi: mid = (lo+hi)//2; if x < a[mid]: hi = mid else: lo = mid+1` -/
def bisectLoop (keys : List Nat) (x : Nat) : Nat → Nat → Nat → R Nat
  | 0, _, _ => .error .outOfFuel
  | fuel+1, lo, hi =>
    if lo < hi then
      let mid := (lo + hi) / 2
      match keys[mid]? with
      | none => .error .indexError
      | some k => if x < k then bisectLoop keys x fuel lo mid else bisectLoop keys x fuel (mid + 1) hi
    else .ok lo

def bisectRight (keys : List Nat) (x : Nat) : R Nat := bisectLoop keys x (keys.length + 1) 0 keys.length

/-- `list.insert(i, x)` for `i ≥ 0` -/
def pyInsert {α} (l : List α) (i : Nat) (x : α) : List α := l.take i ++ x :: l.drop i

/-- one insertion step of a stable sort by key (an earlier element goes in front of the
    already sorted later ones with an equal key) -/
def insertByKey {α} (key : α → Nat) (e : α) : List α → List α
  | [] => [e]
  | x :: xs => if key e ≤ key x then e :: x :: xs else x :: insertByKey key e xs

/-- `list.sort(key=…)`: the stable sort -/
def pySortBy {α} (key : α → Nat) (l : List α) : List α := l.foldr (insertByKey key) []

/-- `dict[k] = v` on an insertion-ordered dict with `bytes`/`str` keys -/
def dictSet {V} (d : List (Bytes × V)) (k : Bytes) (v : V) : List (Bytes × V) :=
  match d with
  | [] => [(k, v)]
  | (k', v') :: rest => if k' = k then (k', v) :: rest else (k', v') :: dictSet rest k v

def dictGet? {V} (d : List (Bytes × V)) (k : Bytes) : Option V := (d.find? (·.1 == k)).map (·.2)

/-- `DWARFStructs.initial_length_field_size()` -/
def initialLengthFieldSize (fmt : Nat) : Nat := if fmt = 32 then 4 else 12

/-! ### aranges.py -/

/-- `ARanges._get_addr_size_struct` -/
def addrSizeStruct (S : DwarfStructs) (asz : Nat) : R Con :=
  if asz = 4 then .ok S.Dwarf_uint32
  else if asz = 8 then .ok S.Dwarf_uint64
  else .error .assertion

def parseNat (env : Env) (c : Con) (data : Bytes) (pos : Nat) : R (Nat × Nat) := do
  let (v, p) ← structParse env c data pos
  return (← v.asNat, p)

/-- the inner `while addr != 0 or length != 0 or (not got_entries and need_empty)` loop -/
def tupleLoop (env : Env) (c : Con) (data : Bytes) (mk : Nat → Nat → AREntry) (needEmpty : Bool) :
    Nat → Nat → Nat → Nat → Bool → List AREntry → R (List AREntry × Nat)
  | 0, _, _, _, _, _ => .error .outOfFuel
  | fuel+1, pos, addr, length, got, acc =>
    if addr ≠ 0 ∨ length ≠ 0 ∨ (!got && needEmpty) = true then
      let acc := acc ++ [mk addr length]
      if addr ≠ 0 ∨ length ≠ 0 then do
        let (a, p1) ← parseNat env c data pos
        let (l, p2) ← parseNat env c data p1
        tupleLoop env c data mk needEmpty fuel p2 a l true acc
      else tupleLoop env c data mk needEmpty fuel pos addr length true acc
    else .ok (acc, pos)

/-- the tuples of one set: the first `(addr, length)` read after the seek, then the loop -/
def readTuples (env : Env) (c : Con) (data : Bytes) (mk : Nat → Nat → AREntry) (needEmpty : Bool)
    (fuel pos : Nat) (acc : List AREntry) : R (List AREntry × Nat) := do
  let (a, p1) ← parseNat env c data pos
  let (l, p2) ← parseNat env c data p1
  tupleLoop env c data mk needEmpty fuel p2 a l false acc

/-- the outer `while offset < self.size` loop of `ARanges._get_entries` -/
def setsLoop (env : Env) (S : DwarfStructs) (fmt : Nat) (data : Bytes) (size : Nat) (needEmpty : Bool) :
    Nat → Nat → List AREntry → R (List AREntry)
  | 0, _, _ => .error .outOfFuel
  | fuel+1, offset, entries =>
    if offset < size then do
      let (hdr, fp) ← structParse env S.Dwarf_aranges_header data offset
      let asz ← hdr.getNat "address_size"
      let addrCon ← addrSizeStruct S asz
      let seg ← hdr.getNat "segment_size"
      if seg = 0 then do
        let tupleSize := asz * 2
        -- int(math.ceil(fp/float(tuple_size)) * tuple_size)
        let seekTo := (fp + tupleSize - 1) / tupleSize * tupleSize
        -- the header fields an ARangeEntry is built from (pure look-ups; read here once)
        let infoOff ← hdr.getNat "debug_info_offset"
        let ul ← hdr.getNat "unit_length"
        let ver ← hdr.getNat "version"
        let mk := fun a l => (⟨a, l, infoOff, ul, ver, asz, seg⟩ : AREntry)
        let (entries', _) ← readTuples env addrCon data mk needEmpty (data.length + 2) seekTo entries
        setsLoop env S fmt data size needEmpty fuel (offset + ul + initialLengthFieldSize fmt) entries'
      else .error .notImplemented
    else .ok entries

/-- `ARanges._get_entries(need_empty)` -/
def getEntries (env : Env) (S : DwarfStructs) (fmt : Nat) (data : Bytes) (size : Nat) (needEmpty : Bool := false) :
    R (List AREntry) :=
  setsLoop env S fmt data size needEmpty (size + 1) 0 []

structure ARanges where
  entries : List AREntry
  keys : List Nat

/-- `ARanges.__init__` -/
def ARanges.init (env : Env) (S : DwarfStructs) (fmt : Nat) (data : Bytes) (size : Nat) : R ARanges := do
  let es ← getEntries env S fmt data size
  let es := pySortBy (·.begin) es
  return ⟨es, es.map (·.begin)⟩

/-- `ARanges.cu_offset_at_addr(addr)` (after the C13 fix: no range begins at or below → None) -/
def ARanges.cuOffsetAtAddr (t : ARanges) (addr : Nat) : R (Option Nat) := do
  let i ← bisectRight t.keys addr
  if i = 0 then return none
  match t.entries[i - 1]? with
  | none => .error .indexError
  | some tup =>
    if tup.begin ≤ addr ∧ addr < tup.begin + tup.len then return some tup.infoOff
    else return none

/-! ### namelut.py -/

/-- `Struct("Dwarf_offset_name_pair", Dwarf_offset('die_ofs'), If(lambda ctx: ctx['die_ofs'], CString('name')))` -/
def nameEntryStruct (S : DwarfStructs) : Con :=
  .struct (.cons (some "die_ofs") false S.Dwarf_offset
          (.cons (some "name") false (.ifThenElse (.ctx "die_ofs") .cstring (.value .none)) .nil))

abbrev NameDict := List (Bytes × Nat × Nat)

/-- the inner `while True` loop: entries until a zero offset -/
def nameEntryLoop (env : Env) (S : DwarfStructs) (data : Bytes) (cuOfs : Nat) :
    Nat → Nat → NameDict → R (NameDict × Nat)
  | 0, _, _ => .error .outOfFuel
  | fuel+1, pos, d => do
    let (entry, p) ← structParse env (nameEntryStruct S) data pos
    let dieOfs ← entry.getNat "die_ofs"
    if dieOfs = 0 then return (d, p)
    match ← entry.getField "name" with
    | .bytes nm =>
      if utf8Valid nm then nameEntryLoop env S data cuOfs fuel p (dictSet d nm (cuOfs, cuOfs + dieOfs))
      else .error .unicodeError
    | _ => .error .attributeError

/-- the outer `while offset < self._size` loop of `NameLUT._get_entries` -/
def nameSetsLoop (env : Env) (S : DwarfStructs) (fmt : Nat) (data : Bytes) (size : Nat) :
    Nat → Nat → NameDict → List Val → R (NameDict × List Val)
  | 0, _, _, _ => .error .outOfFuel
  | fuel+1, offset, d, hdrs =>
    if offset < size then do
      let (hdr, p) ← structParse env S.Dwarf_nameLUT_header data offset
      let hdrs := hdrs ++ [hdr]
      let ul ← hdr.getNat "unit_length"
      let offset := offset + ul + initialLengthFieldSize fmt
      let cuOfs ← hdr.getNat "debug_info_offset"
      let (d, _) ← nameEntryLoop env S data cuOfs (data.length + 1) p d
      nameSetsLoop env S fmt data size fuel offset d hdrs
    else .ok (d, hdrs)

/-- `NameLUT._get_entries()` : (entries, cu_headers) -/
def nameGetEntries (env : Env) (S : DwarfStructs) (fmt : Nat) (data : Bytes) (size : Nat) : R (NameDict × List Val) :=
  nameSetsLoop env S fmt data size (size + 1) 0 [] []

/-! ### dwarfinfo.py: unit lookup -/

/-- a `CompileUnit` as far as lookup is concerned -/
structure CU where
  header : Val
  fmt : Nat               -- cu.structs.dwarf_format
  cuOffset : Nat
  cuDieOffset : Nat
  deriving Repr, Inhabited

/-- `CompileUnit.size` = `self['unit_length'] + self.structs.initial_length_field_size()` -/
def CU.size (cu : CU) : R Nat := do
  return (← cu.header.getNat "unit_length") + initialLengthFieldSize cu.fmt

/-- `DWARFInfo._parse_CU_at_offset`; `structsOf` is the `DWARFStructs(...)` constructor,
    `S0` is `DWARFInfo.structs` -/
def parseCUAtOffset (enumDecode : String → Int → Option String) (structsOf : DwarfCfg → Option DwarfStructs)
    (S0 : DwarfStructs) (le : Bool) (data : Bytes) (offset : Nat) : R CU := do
  let env0 : Env := { enumDecode := enumDecode, forms := S0.form }
  let (il, _) ← parseNat env0 S0.the_Dwarf_uint32 data offset
  let fmt := if il = 0xFFFFFFFF then 64 else 32
  let some S1 := structsOf ⟨le, fmt, 4, 2⟩ | .error .assertion
  let env1 : Env := { enumDecode := enumDecode, forms := S1.form }
  let (hdr, p) ← structParse env1 S1.Dwarf_CU_header data offset
  let asz ← hdr.getNat "address_size"
  let ver ← hdr.getNat "version"
  -- DWARFStructs.__new__: assert address_size == 8 or address_size == 4
  if asz ≠ 8 ∧ asz ≠ 4 then .error .assertion
  -- dwarf_assert(self._is_supported_version(version))
  else if ¬ (2 ≤ ver ∧ ver ≤ 5) then .error .dwarfError
  else return ⟨hdr, fmt, offset, p⟩

/-- `_cu_offsets_map` and `_cu_cache` -/
structure CUCache where
  offsets : List Nat
  cus : List CU
  deriving Repr, Inhabited

def CUCache.empty : CUCache := ⟨[], []⟩

/-- `DWARFInfo._cached_CU_at_offset`; `P` is `_parse_CU_at_offset`.  The state is returned
    also when an exception is raised. -/
def cachedCUAtOffset (P : Nat → R CU) (st : CUCache) (offset : Nat) : R CU × CUCache :=
  match bisectRight st.offsets offset with
  | .error e => (.error e, st)
  | .ok i =>
    let hit : R Bool :=
      if i ≥ 1 then
        match st.offsets[i - 1]? with
        | none => .error .indexError
        | some o => .ok (offset == o)
      else .ok false
    match hit with
    | .error e => (.error e, st)
    | .ok true =>
      match st.cus[i - 1]? with
      | none => (.error .indexError, st)
      | some cu => (.ok cu, st)
    | .ok false =>
      match P offset with
      | .error e => (.error e, st)
      | .ok cu => (.ok cu, ⟨pyInsert st.offsets i offset, pyInsert st.cus i cu⟩)

/-- `for cu in self._parse_CUs_iter(start): if cu.cu_offset <= refaddr < cu.cu_offset + cu.size: return cu`
    followed by `raise ValueError` -/
def containingLoop (P : Nat → R CU) (size refaddr : Nat) : Nat → Nat → CUCache → R CU × CUCache
  | 0, _, st => (.error .outOfFuel, st)
  | fuel+1, offset, st =>
    if offset < size then
      match cachedCUAtOffset P st offset with
      | (.error e, st') => (.error e, st')
      | (.ok cu, st') =>
        match cu.size with
        | .error e => (.error e, st')
        | .ok sz =>
          if cu.cuOffset ≤ refaddr ∧ refaddr < cu.cuOffset + sz then (.ok cu, st')
          else containingLoop P size refaddr fuel (offset + sz) st'
    else (.error .valueError, st)

/-- `DWARFInfo.get_CU_containing(refaddr)` -/
def getCUContaining (P : Nat → R CU) (size : Nat) (st : CUCache) (refaddr : Nat) : R CU × CUCache :=
  if ¬ refaddr < size then (.error .dwarfError, st)
  else
    match bisectRight st.offsets refaddr with
    | .error e => (.error e, st)
    | .ok i =>
      let start : R Nat :=
        if i > 0 then
          match st.offsets[i - 1]? with
          | none => .error .indexError
          | some o => .ok o
        else .ok 0
      match start with
      | .error e => (.error e, st)
      | .ok start => containingLoop P size refaddr (size + 1) start st

/-- `DWARFInfo.get_CU_at(offset)` -/
def getCUAt (P : Nat → R CU) (size : Nat) (st : CUCache) (offset : Nat) : R CU × CUCache :=
  if ¬ offset < size then (.error .dwarfError, st)
  else cachedCUAtOffset P st offset

/-- `DWARFInfo.get_DIE_from_lut_entry(lut_entry)` up to the construction of the DIE object:
    the unit and the section offset the DIE is read at (`CompileUnit.get_DIE_from_refaddr`
    asserts the offset lies between the first DIE and the end of the unit).  Decoding the DIE
    itself is C04's subject. -/
def getDIEFromLutEntry (P : Nat → R CU) (size : Nat) (st : CUCache) (cuOfs dieOfs : Nat) :
    R (CU × Nat) × CUCache :=
  match getCUAt P size st cuOfs with
  | (.error e, st') => (.error e, st')
  | (.ok cu, st') =>
    match cu.size with
    | .error e => (.error e, st')
    | .ok sz =>
      if cu.cuDieOffset ≤ dieOfs ∧ dieOfs < cu.cuOffset + sz then (.ok (cu, dieOfs), st')
      else (.error .dwarfError, st')

end PyElf.Model.Lookup
