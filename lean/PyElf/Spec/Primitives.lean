/-
  Standards side of the primitive encodings (DWARF 5 §7.6 LEB128, §7.4 initial
  length; gABI fixed-width integers; NUL-terminated strings).
  Nothing here mentions streams, `Con` or errors.
-/
import PyElf.Core.Basic
namespace PyElf.Spec

/-- value of a LEB128 digit string: 7 payload bits per byte, least significant group first -/
def ulebVal : Bytes → Nat
  | [] => 0
  | b :: bs => b.toNat % 128 + 128 * ulebVal bs

/-- a complete LEB128 encoding: non-empty, continuation bit set on all bytes but the last -/
def ValidLEB : Bytes → Bool
  | [] => false
  | [b] => decide (b.toNat < 128)
  | b :: bs => decide (128 ≤ b.toNat) && ValidLEB bs

/-- signed value: sign-extend from bit 6 of the last byte -/
def slebVal (bs : Bytes) : Int :=
  match bs.getLast? with
  | some l => if l.toNat % 128 ≥ 64 then (ulebVal bs : Int) - (2 ^ (7 * bs.length) : Nat) else ulebVal bs
  | none => 0

/-- the `n`-byte (possibly non-minimal) ULEB128 encoding of `v` (`n ≥ 1`, `v < 2^(7n)`) -/
def encUlebN : Nat → Nat → Bytes
  | 0, _ => []
  | 1, v => [UInt8.ofNat (v % 128)]
  | n+2, v => UInt8.ofNat (v % 128 + 128) :: encUlebN (n+1) (v / 128)

/-- minimal ULEB128 length -/
def ulebLen (v : Nat) : Nat := if v < 128 then 1 else 1 + ulebLen (v / 128)
decreasing_by omega

/-- the `n`-byte SLEB128 encoding of `v` (`-2^(7n-1) ≤ v < 2^(7n-1)`) -/
def encSlebN (n : Nat) (v : Int) : Bytes := encUlebN n (v % ((2 ^ (7 * n) : Nat) : Int)).toNat

/-- the bytes up to (not including) the first NUL, if there is one -/
def firstNul : Bytes → Option Bytes
  | [] => none
  | b :: bs => if b = 0 then some [] else (firstNul bs).map (b :: ·)

/-- DWARF initial length (§7.4): 32-bit length, or 0xffffffff followed by a 64-bit length;
    0xfffffff0–0xfffffffe are reserved -/
inductive InitLen
  | dwarf32 (len : Nat)      -- len < 0xfffffff0
  | dwarf64 (len : Nat)      -- len < 2^64
  deriving Repr, DecidableEq

def encInitLen (le : Bool) : InitLen → Bytes
  | .dwarf32 len => encNat le 4 len
  | .dwarf64 len => encNat le 4 0xffffffff ++ encNat le 8 len

end PyElf.Spec
