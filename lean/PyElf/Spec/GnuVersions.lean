/-
  Symbol versioning sections, written from the Oracle "Linker and Libraries
  Guide" (ch. 13, Versioning Sections) and the LSB Core spec ("Symbol
  Versioning"): `Elfxx_Verdef/Verdaux`, `Elfxx_Verneed/Vernaux`, the
  `Elfxx_Versym` array.  The records are the same for both classes; all
  displacements (`*_aux`, `*_next`) are unsigned byte counts from the start of
  the record that holds them.

  Nothing here mentions streams, `Con` or errors: records, their byte encoders,
  the layout predicates ("these records sit in these bytes, linked by these
  displacements") and what the property says must be observed.
-/
import PyElf.Core.Val
import PyElf.Spec.Primitives
namespace PyElf.Spec
open PyElf

/-! ### the records -/

structure Verneed where
  version : Nat     -- Half: structure version (VER_NEED_CURRENT = 1)
  cnt : Nat         -- Half: number of Vernaux entries
  file : Nat        -- Word: string-table offset of the dependency's file name
  aux : Nat         -- Word: displacement to the first Vernaux
  next : Nat        -- Word: displacement to the next Verneed
  deriving Repr, DecidableEq

structure Vernaux where
  hash : Nat        -- Word
  flags : Nat       -- Half
  other : Nat       -- Half: the version index (with the hidden bit) used by Versym
  name : Nat        -- Word: string-table offset of the version name
  next : Nat        -- Word: displacement to the next Vernaux
  deriving Repr, DecidableEq

structure Verdef where
  version : Nat     -- Half (VER_DEF_CURRENT = 1)
  flags : Nat       -- Half
  ndx : Nat         -- Half: the version index
  cnt : Nat         -- Half: number of Verdaux entries
  hash : Nat        -- Word
  aux : Nat         -- Word: displacement to the first Verdaux
  next : Nat        -- Word: displacement to the next Verdef
  deriving Repr, DecidableEq

structure Verdaux where
  name : Nat        -- Word: string-table offset
  next : Nat        -- Word: displacement to the next Verdaux
  deriving Repr, DecidableEq

def half (v : Nat) : Bool := decide (v < 2 ^ 16)
def word (v : Nat) : Bool := decide (v < 2 ^ 32)

def Verneed.fits (r : Verneed) : Bool := half r.version && half r.cnt && word r.file && word r.aux && word r.next
def Vernaux.fits (r : Vernaux) : Bool := word r.hash && half r.flags && half r.other && word r.name && word r.next
def Verdef.fits (r : Verdef) : Bool :=
  half r.version && half r.flags && half r.ndx && half r.cnt && word r.hash && word r.aux && word r.next
def Verdaux.fits (r : Verdaux) : Bool := word r.name && word r.next

def Verneed.enc (le : Bool) (r : Verneed) : Bytes :=
  encNat le 2 r.version ++ encNat le 2 r.cnt ++ encNat le 4 r.file ++ encNat le 4 r.aux ++ encNat le 4 r.next
def Vernaux.enc (le : Bool) (r : Vernaux) : Bytes :=
  encNat le 4 r.hash ++ encNat le 2 r.flags ++ encNat le 2 r.other ++ encNat le 4 r.name ++ encNat le 4 r.next
def Verdef.enc (le : Bool) (r : Verdef) : Bytes :=
  encNat le 2 r.version ++ encNat le 2 r.flags ++ encNat le 2 r.ndx ++ encNat le 2 r.cnt ++ encNat le 4 r.hash
    ++ encNat le 4 r.aux ++ encNat le 4 r.next
def Verdaux.enc (le : Bool) (r : Verdaux) : Bytes := encNat le 4 r.name ++ encNat le 4 r.next

/-- what the library shows for a record: its fields by their standard names, in order -/
def Verneed.obs (r : Verneed) : Val :=
  .record [("vn_version", .int r.version), ("vn_cnt", .int r.cnt), ("vn_file", .int r.file),
           ("vn_aux", .int r.aux), ("vn_next", .int r.next)]
def Vernaux.obs (r : Vernaux) : Val :=
  .record [("vna_hash", .int r.hash), ("vna_flags", .int r.flags), ("vna_other", .int r.other),
           ("vna_name", .int r.name), ("vna_next", .int r.next)]
def Verdef.obs (r : Verdef) : Val :=
  .record [("vd_version", .int r.version), ("vd_flags", .int r.flags), ("vd_ndx", .int r.ndx),
           ("vd_cnt", .int r.cnt), ("vd_hash", .int r.hash), ("vd_aux", .int r.aux), ("vd_next", .int r.next)]
def Verdaux.obs (r : Verdaux) : Val :=
  .record [("vda_name", .int r.name), ("vda_next", .int r.next)]

/-! ### abstract contents: entries with their auxiliary chains and resolved names -/

structure NeedAux where
  r : Vernaux
  name : Bytes            -- the version name the string table holds at `r.name`
  deriving Repr, DecidableEq
structure NeedEntry where
  r : Verneed
  file : Bytes            -- the file name the string table holds at `r.file`
  auxs : List NeedAux
  deriving Repr, DecidableEq
structure DefAux where
  r : Verdaux
  name : Bytes
  deriving Repr, DecidableEq
structure DefEntry where
  r : Verdef
  auxs : List DefAux
  deriving Repr, DecidableEq

/-! ### layout predicates -/

/-- the bytes `bs` sit at offset `pos` of `data` -/
def bytesAt (data : Bytes) (pos : Nat) (bs : Bytes) : Bool := readN data pos bs.length == bs

/-- the NUL-terminated string `s` sits at offset `pos` of `data` -/
def gv_strAt (data : Bytes) (pos : Nat) (s : Bytes) : Bool := firstNul (data.drop pos) == some s

/-- a chain of records: the first at `pos`, each next one `next` bytes after the start of
    its predecessor.  Displacements are arbitrary: gaps, padding, interleaving with other
    chains, even `0` (the same record again) are all layouts. -/
def chainAt {α : Type} (recAt : Nat → α → Bool) (next : α → Nat) : Nat → List α → Bool
  | _, [] => true
  | pos, x :: rest => recAt pos x && chainAt recAt next (pos + next x) rest

section layout
variable (le : Bool) (data : Bytes) (strOff : Nat)

def NeedAux.at (pos : Nat) (a : NeedAux) : Bool :=
  a.r.fits && bytesAt data pos (a.r.enc le) && gv_strAt data (strOff + a.r.name) a.name

def NeedEntry.at (pos : Nat) (e : NeedEntry) : Bool :=
  e.r.fits && bytesAt data pos (e.r.enc le) && gv_strAt data (strOff + e.r.file) e.file
    && decide (e.r.cnt = e.auxs.length) && decide (1 ≤ e.r.cnt)
    && chainAt (NeedAux.at le data strOff) (·.r.next) (pos + e.r.aux) e.auxs

def DefAux.at (pos : Nat) (a : DefAux) : Bool :=
  a.r.fits && bytesAt data pos (a.r.enc le) && gv_strAt data (strOff + a.r.name) a.name

def DefEntry.at (pos : Nat) (e : DefEntry) : Bool :=
  e.r.fits && bytesAt data pos (e.r.enc le)
    && decide (e.r.cnt = e.auxs.length) && decide (1 ≤ e.r.cnt)
    && chainAt (DefAux.at le data strOff) (·.r.next) (pos + e.r.aux) e.auxs

/-- `VerLayout` for a version-requirement section whose first record is at `off` and whose
    linked string table starts at `strOff` -/
def needLayout (off : Nat) (es : List NeedEntry) : Bool :=
  chainAt (NeedEntry.at le data strOff) (·.r.next) off es

/-- `VerLayout` for a version-definition section -/
def defLayout (off : Nat) (es : List DefEntry) : Bool :=
  chainAt (DefEntry.at le data strOff) (·.r.next) off es

end layout

/-! ### what must be observed -/

abbrev AuxObs := Val × Bytes                          -- the record and its resolved name
abbrev VerObs := Val × Option Bytes × List AuxObs     -- the record, its file name (requirements), its auxiliaries

def NeedAux.obs (a : NeedAux) : AuxObs := (a.r.obs, a.name)
def DefAux.obs (a : DefAux) : AuxObs := (a.r.obs, a.name)
def NeedEntry.obs (e : NeedEntry) : VerObs := (e.r.obs, some e.file, e.auxs.map NeedAux.obs)
def DefEntry.obs (e : DefEntry) : VerObs := (e.r.obs, none, e.auxs.map DefAux.obs)

/-- resolving index `i` through the requirements: the (file entry, auxiliary) carrying it, in walk order -/
def needFind (i : Nat) : List NeedEntry → Option (NeedEntry × NeedAux)
  | [] => none
  | e :: rest =>
    match e.auxs.find? (fun a => a.r.other == i) with
    | some a => some (e, a)
    | none => needFind i rest

/-- resolving index `i` through the definitions -/
def defFind (i : Nat) (es : List DefEntry) : Option DefEntry := es.find? (fun e => e.r.ndx == i)

/-- every (entry, auxiliary) pair carrying index `i` -/
def needCarriers (i : Nat) (es : List NeedEntry) : List (NeedEntry × NeedAux) :=
  es.flatMap fun e => (e.auxs.filter fun a => a.r.other == i).map fun a => (e, a)

def needHasIndexes (es : List NeedEntry) : Bool := es.any fun e => e.auxs.any fun a => a.r.other != 0

/-! ### the version-symbol table -/

/-- the reserved version indexes the gABI extension names; any other value (with or without
    the hidden bit 0x8000) is shown as the number -/
def versymVal (ndx : Nat) : Val :=
  if ndx = 0 then .str "VER_NDX_LOCAL"
  else if ndx = 1 then .str "VER_NDX_GLOBAL"
  else if ndx = 0xff00 then .str "VER_NDX_LORESERVE"
  else if ndx = 0xff01 then .str "VER_NDX_ELIMINATE"
  else .int ndx

def versymObs (ndx : Nat) : Val := .record [("ndx", versymVal ndx)]

/-- one row of the version-symbol table: the index, and the name of the dynamic symbol of the same rank -/
structure VersymRow where
  ndx : Nat
  symName : Bytes
  deriving Repr, DecidableEq

/-- `Elfxx_Versym` array: entry `i` is the Half at `off + i * entsize` -/
def versymAt (le : Bool) (data : Bytes) (off entsize : Nat) : Nat → List VersymRow → Bool
  | _, [] => true
  | i, x :: rest => half x.ndx && bytesAt data (off + i * entsize) (encNat le 2 x.ndx)
                    && versymAt le data off entsize (i + 1) rest

/-- the symbol record (gABI ch. 4, Symbol Table) — only what is needed to place it -/
structure Sym where
  name : Nat      -- Word: string-table offset
  value : Nat     -- Addr
  size : Nat      -- Word / Xword
  bind : Nat      -- st_info >> 4
  type : Nat      -- st_info & 0xf
  local_ : Nat    -- st_other bits 7..5 (PPC64 local entry)
  visibility : Nat -- st_other bits 2..0
  shndx : Nat     -- Half
  deriving Repr, DecidableEq

def Sym.fits (cls : Nat) (s : Sym) : Bool :=
  word s.name && decide (s.value < 2 ^ cls) && decide (s.size < 2 ^ cls) && decide (s.bind < 16) && decide (s.type < 16)
    && decide (s.local_ < 8) && decide (s.visibility < 8) && half s.shndx

def Sym.enc (cls : Nat) (le : Bool) (s : Sym) : Bytes :=
  let info := encNat le 1 (s.bind * 16 + s.type)                 -- ELFxx_ST_INFO(bind, type)
  let other := encNat le 1 (s.local_ * 32 + s.visibility)         -- visibility in bits 2..0, PPC64 local entry in 7..5
  if cls = 32 then
    encNat le 4 s.name ++ encNat le 4 s.value ++ encNat le 4 s.size ++ info ++ other ++ encNat le 2 s.shndx
  else
    encNat le 4 s.name ++ info ++ other ++ encNat le 2 s.shndx ++ encNat le 8 s.value ++ encNat le 8 s.size

/-- symbol `i` of a symbol table at `off` (entry size `entsize`) with string table at `strOff` is `s`, named `nm` -/
def symAt (cls : Nat) (le : Bool) (data : Bytes) (off entsize strOff : Nat) (i : Nat) (s : Sym) (nm : Bytes) : Bool :=
  s.fits cls && bytesAt data (off + i * entsize) (s.enc cls le) && gv_strAt data (strOff + s.name) nm

/-- a symbol table whose symbols carry the names of `rows` -/
def symsAt (cls : Nat) (le : Bool) (data : Bytes) (off entsize strOff : Nat) : Nat → List (Sym × VersymRow) → Bool
  | _, [] => true
  | i, (s, x) :: rest => symAt cls le data off entsize strOff i s x.symName
                         && symsAt cls le data off entsize strOff (i + 1) rest

def VersymRow.obs (x : VersymRow) : Val × Bytes := (versymObs x.ndx, x.symName)

/-! ### assembler (harness side): write the records where the displacements say -/

/-- overwrite `buf` at `pos` with `bs`, extending with `fill` when needed -/
def place (fill : UInt8) (buf : Bytes) (pos : Nat) (bs : Bytes) : Bytes :=
  let buf := if buf.length < pos + bs.length then buf ++ List.replicate (pos + bs.length - buf.length) fill else buf
  buf.take pos ++ bs ++ buf.drop (pos + bs.length)

def placeChain {α : Type} (fill : UInt8) (enc : α → Bytes) (next : α → Nat) (sub : Bytes → Nat → α → Bytes) :
    Bytes → Nat → List α → Bytes
  | buf, _, [] => buf
  | buf, pos, x :: rest =>
    placeChain fill enc next sub (sub (place fill buf pos (enc x)) pos x) (pos + next x) rest

/-- contents of a version-requirement section: every record written at the position the walk
    reaches it (later records overwrite earlier ones; whether the result is a layout is
    decided afterwards by `needLayout`) -/
def assembleNeed (le : Bool) (fill : UInt8) (size : Nat) (es : List NeedEntry) : Bytes :=
  placeChain fill (fun e : NeedEntry => e.r.enc le) (·.r.next)
    (fun buf pos e => placeChain fill (fun a : NeedAux => a.r.enc le) (·.r.next) (fun b _ _ => b) buf (pos + e.r.aux) e.auxs)
    (List.replicate size fill) 0 es

def assembleDef (le : Bool) (fill : UInt8) (size : Nat) (es : List DefEntry) : Bytes :=
  placeChain fill (fun e : DefEntry => e.r.enc le) (·.r.next)
    (fun buf pos e => placeChain fill (fun a : DefAux => a.r.enc le) (·.r.next) (fun b _ _ => b) buf (pos + e.r.aux) e.auxs)
    (List.replicate size fill) 0 es

def assembleVersym (le : Bool) (fill : UInt8) (entsize : Nat) (rows : List VersymRow) : Bytes :=
  rows.flatMap fun x => encNat le 2 x.ndx ++ List.replicate (entsize - 2) fill

def assembleSyms (cls : Nat) (le : Bool) (fill : UInt8) (entsize : Nat) (syms : List Sym) : Bytes :=
  syms.flatMap fun s => s.enc cls le ++ List.replicate (entsize - (s.enc cls le).length) fill

end PyElf.Spec
