/-
  C02, standards side: binutils' `ELF_SECTION_IN_SEGMENT_1 (sec, seg, check_vma = 1, strict = 1)`
  (= `ELF_SECTION_IN_SEGMENT_STRICT`, include/elf/internal.h, binutils 2.40) with EVERY clause:

      ELF_TBSS_SPECIAL(sec, seg)   =  (sh_flags & SHF_TLS) != 0 && sh_type == SHT_NOBITS && p_type != PT_TLS
      ELF_SECTION_SIZE(sec, seg)   =  ELF_TBSS_SPECIAL(sec, seg) ? 0 : sh_size

      (   [SHF_TLS sections only in PT_TLS / PT_GNU_RELRO / PT_LOAD;  PT_TLS only SHF_TLS;  PT_PHDR nothing]
       && [PT_LOAD and similar segments only have SHF_ALLOC sections]
       && (sh_type == SHT_NOBITS
           || (sh_offset >= p_offset
               && (!strict || sh_offset - p_offset <= p_filesz - 1)
               && sh_offset - p_offset + ELF_SECTION_SIZE(sec, seg) <= p_filesz))
       && (!check_vma || (sh_flags & SHF_ALLOC) == 0
           || (sh_addr >= p_vaddr
               && (!strict || sh_addr - p_vaddr <= p_memsz - 1)
               && sh_addr - p_vaddr + ELF_SECTION_SIZE(sec, seg) <= p_memsz))
       /* No zero size sections at start or end of PT_DYNAMIC nor PT_NOTE.  */
       && ((p_type != PT_DYNAMIC && p_type != PT_NOTE)
           || sh_size != 0
           || p_memsz == 0
           || ((sh_type == SHT_NOBITS
                || (sh_offset > p_offset && sh_offset - p_offset < p_filesz))
               && ((sh_flags & SHF_ALLOC) == 0
                   || (sh_addr > p_vaddr && sh_addr - p_vaddr < p_memsz)))))

  `macro64` of Spec/Contents.lean is this text with the file-offset half of the last clause left out
  (the two agree wherever that clause is inert, `macroFull64_eq_macro64`).  `macroFull64` evaluates
  it as C does (`bfd_vma`: unsigned 64 bit); `inSegmentFull` is the same rule in ideal arithmetic:
  the four condition groups of `inSegmentStrict` with the `.tbss` size rule applied, and the
  empty-section-at-the-edge clause.
-/
import PyElf.Spec.Contents
namespace PyElf.Spec.C02
open PyElf PyElf.Spec

/-- the whole macro, in unsigned 64-bit arithmetic -/
def macroFull64 (g : Seg) (s : Sec) : Bool :=
  typeOk g s && allocOk g s &&
  (s.nobits ||
    (decide (g.offset ≤ s.offset) && decide (sub64 s.offset g.offset ≤ sub64 g.filesz 1) &&
     decide (add64 (sub64 s.offset g.offset) (sectionSize g s) ≤ g.filesz))) &&
  (!s.alloc ||
    (decide (g.vaddr ≤ s.addr) && decide (sub64 s.addr g.vaddr ≤ sub64 g.memsz 1) &&
     decide (add64 (sub64 s.addr g.vaddr) (sectionSize g s) ≤ g.memsz))) &&
  ((g.ptype != PT_DYNAMIC && g.ptype != PT_NOTE) || s.size != 0 || g.memsz == 0 ||
    ((s.nobits || (decide (g.offset < s.offset) && decide (sub64 s.offset g.offset < g.filesz))) &&
     (!s.alloc || (decide (g.vaddr < s.addr) && decide (sub64 s.addr g.vaddr < g.memsz)))))

/-- "No zero size sections at start or end of PT_DYNAMIC nor PT_NOTE", in ideal arithmetic -/
def emptyEdgeOk (g : Seg) (s : Sec) : Bool :=
  (g.ptype != PT_DYNAMIC && g.ptype != PT_NOTE) || s.size != 0 || g.memsz == 0 ||
    ((s.nobits || (decide (g.offset < s.offset) && decide (s.offset - g.offset < g.filesz))) &&
     (!s.alloc || (decide (g.vaddr < s.addr) && decide (s.addr - g.vaddr < g.memsz))))

/-- the section with the size the macro gives it (`ELF_SECTION_SIZE`: 0 for `.tbss` outside PT_TLS) -/
def sizedFor (g : Seg) (s : Sec) : Sec := { s with size := sectionSize g s }

/-- the whole macro in ideal arithmetic -/
def inSegmentFull (g : Seg) (s : Sec) : Bool := inSegmentStrict g (sizedFor g s) && emptyEdgeOk g s

/-- where the two clauses `section_in_segment` does not implement are inert, i.e. where the rule
    the code computes (`inSegmentStrict`) is the full macro (`inSegmentFull`):
    * a `.tbss` section outside PT_TLS: the type / alloc groups fail anyway, or the address-extent
      group gives with the real size what it gives with size 0 (and the edge clause holds);
    * any other section: it is outside by the four groups anyway, or the edge clause holds. -/
def clausesInert (g : Seg) (s : Sec) : Bool :=
  if tbssSpecial g s then
    !(typeOk g s && allocOk g s) || (vmaOk g s == (vmaOk g (sizedFor g s) && emptyEdgeOk g s))
  else !inSegmentStrict g s || emptyEdgeOk g s

end PyElf.Spec.C02
