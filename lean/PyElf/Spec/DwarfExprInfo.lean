/-
  C12 × C04, standards side: DWARF expressions WHERE THEY OCCUR — as values of attributes of debugging
  information entries (DWARF 5 §7.5.5 class `exprloc`: DW_FORM_exprloc; DWARF 2/3 §7.5.4: location
  expressions are of class `block`, DW_FORM_block / block1 / block2 / block4).

  * `exprClassAt`   – the attributes DWARF 5 Table 7.5 (and DWARF 4 Figure 20, the GNU call-site
                      extension) list with class exprloc
  * `isExprAttr`    – which attribute values are expressions, by (name, form, unit version)
  * `bytesOf`       – the bytes a block value denotes
  * `expectDie`     – what parsing the expression attributes of an entry must yield: for every selected
                      attribute, in order, its offset and the annotated operations (`Spec.annotate` with the
                      configuration of THE UNIT the entry lives in)
  * `forestExprsOK` – decidable: every selected attribute of every entry of every unit of a forest description
                      carries the encoding (`Spec.encodeOps`, the unit's configuration) of a well-formed
                      operation sequence; `E` names that sequence for given bytes (the abstract syntax of the bytes)

  Nothing here is taken from the library's code.
-/
import PyElf.Spec.DwarfExpr
import PyElf.Spec.DieSection
namespace PyElf.Spec.C12
open PyElf PyElf.Spec PyElf.Spec.C04

/-- attributes whose value may be of class exprloc: DWARF 5 Table 7.5 (0x02–0x86), DW_AT_bit_offset (DWARF 4
    Figure 20; reserved in DWARF 5), and the GNU call-site attributes (GCC dwarf2.def) that DWARF 5 standardised as
    DW_AT_call_value / call_data_value / call_target / call_target_clobbered -/
def exprClassAt : List (Nat × String) :=
  [(0x02, "DW_AT_location"), (0x0b, "DW_AT_byte_size"), (0x0c, "DW_AT_bit_offset"), (0x0d, "DW_AT_bit_size"),
   (0x19, "DW_AT_string_length"), (0x22, "DW_AT_lower_bound"), (0x2a, "DW_AT_return_addr"), (0x2e, "DW_AT_bit_stride"),
   (0x2f, "DW_AT_upper_bound"), (0x37, "DW_AT_count"), (0x38, "DW_AT_data_member_location"), (0x40, "DW_AT_frame_base"),
   (0x46, "DW_AT_segment"), (0x48, "DW_AT_static_link"), (0x4a, "DW_AT_use_location"), (0x4d, "DW_AT_vtable_elem_location"),
   (0x4e, "DW_AT_allocated"), (0x4f, "DW_AT_associated"), (0x50, "DW_AT_data_location"), (0x51, "DW_AT_byte_stride"),
   (0x71, "DW_AT_rank"), (0x7e, "DW_AT_call_value"), (0x83, "DW_AT_call_target"), (0x84, "DW_AT_call_target_clobbered"),
   (0x85, "DW_AT_call_data_location"), (0x86, "DW_AT_call_data_value"),
   (0x2111, "DW_AT_GNU_call_site_value"), (0x2112, "DW_AT_GNU_call_site_data_value"),
   (0x2113, "DW_AT_GNU_call_site_target"), (0x2114, "DW_AT_GNU_call_site_target_clobbered")]

def exprClassNames : List String := exprClassAt.map (·.2)

/-- the block forms (DWARF 2 §7.5.4) -/
def blockFormNames : List String := ["DW_FORM_block", "DW_FORM_block1", "DW_FORM_block2", "DW_FORM_block4"]

/-- the attribute `name` in (final) form `form` of a unit of DWARF version `ver` holds a DWARF expression:
    DW_FORM_exprloc always does (§7.5.5: "exprloc … DWARF expression or location description"); before DWARF 4 there
    is no such form and the expressions of the attributes of `exprClassAt` are blocks -/
def isExprAttr (name form : Val) (ver : Nat) : Bool :=
  match form with
  | .str f =>
    f == "DW_FORM_exprloc" ||
      (decide (ver < 4) && blockFormNames.contains f &&
        (match name with
         | .str n => exprClassNames.contains n
         | _ => false))
  | _ => false

def byteOf : Val → Option UInt8
  | .int n => if 0 ≤ n ∧ n < 256 then some (UInt8.ofNat n.toNat) else none
  | _ => none

/-- the bytes a block value (a list of numbers 0..255) denotes -/
def bytesOf : Val → Option Bytes
  | .list vs => vs.mapM byteOf
  | _ => none

/-- what must be observed of one attribute: nothing if it is not selected, else its offset in the section and
    the operations its bytes encode (`E c b`: the operation sequence whose encoding in configuration `c` is `b`),
    annotated from offset 0 -/
def expectAttr (sel : Val → Val → Nat → Bool) (c : DwarfCfg) (E : DwarfCfg → Bytes → List Op) (a : AttrObs) :
    Option (Nat × List Val) :=
  if sel a.name a.form c.ver then some (a.offset, annotate c 0 (E c ((bytesOf a.value).getD []))) else none

def expectDie (sel : Val → Val → Nat → Bool) (c : DwarfCfg) (E : DwarfCfg → Bytes → List Op) (d : DieObs) :
    List (Nat × List Val) :=
  d.attrs.filterMap (expectAttr sel c E)

/-- a selected attribute's value is a block of bytes, `E` gives a well-formed operation sequence for them whose
    encoding in the unit's configuration is exactly those bytes -/
def attrOK (sel : Val → Val → Nat → Bool) (c : DwarfCfg) (E : DwarfCfg → Bytes → List Op) (a : AttrObs) : Bool :=
  !sel a.name a.form c.ver ||
    (match bytesOf a.value with
     | some b => WFops c (E c b) && (encodeOps c (E c b) == b)
     | none => false)

def dieOK (sel : Val → Val → Nat → Bool) (c : DwarfCfg) (E : DwarfCfg → Bytes → List Op) (d : DieObs) : Bool :=
  d.attrs.all (attrOK sel c E)

/-- the entries of the unit `p.2` of a forest placed at `p.1` with its first entry at `dieOff`, as they must be
    observed (Spec/DieTree `flattenUnit`, values resolved against the forest's sections) -/
def unitEntries (nm : Names) (F : Forest) (p : Nat × UnitDesc) (dieOff : Nat) : List DieObs :=
  flattenUnit nm (p.2.cfg F.le) (resolveD (p.2.cfg F.le) F.secs (basesOf p.2.tree.root))
    (resolveD (p.2.cfg F.le) F.secs (basesOf p.2.tree.root)) dieOff p.2.tree

/-- every selected attribute of every entry of every unit of `.debug_info` and of `.debug_types` encodes, in the
    configuration of ITS unit, the well-formed operation sequence `E` names (decidable) -/
def forestExprsOK (sel : Val → Val → Nat → Bool) (E : DwarfCfg → Bytes → List Op) (nm : Names) (F : Forest) : Bool :=
  (placeInfo F 0 F.units).all (fun p => (unitEntries nm F p (infoDieOff F p.1 p.2)).all (dieOK sel (p.2.cfg F.le) E))
    && (placeTypes F 0 F.tus).all (fun p => (unitEntries nm F p (typesDieOff F p.1 p.2)).all (dieOK sel (p.2.cfg F.le) E))

/-- what walking a section must yield: per unit, per entry (iteration order, null entries included), the
    selected attributes with their operations -/
def expectInfoExprs (sel : Val → Val → Nat → Bool) (E : DwarfCfg → Bytes → List Op) (nm : Names) (F : Forest) :
    List (List (List (Nat × List Val))) :=
  (placeInfo F 0 F.units).map fun p => (unitEntries nm F p (infoDieOff F p.1 p.2)).map (expectDie sel (p.2.cfg F.le) E)

def expectTypesExprs (sel : Val → Val → Nat → Bool) (E : DwarfCfg → Bytes → List Op) (nm : Names) (F : Forest) :
    List (List (List (Nat × List Val))) :=
  (placeTypes F 0 F.tus).map fun p => (unitEntries nm F p (typesDieOff F p.1 p.2)).map (expectDie sel (p.2.cfg F.le) E)

/-- a table of (configuration, operations): the `E` of a finite set of expressions, looked up by the bytes they
    encode to (the driver's and the examples' way of giving `E`) -/
def tableE (tbl : List (DwarfCfg × List Op)) (c : DwarfCfg) (b : Bytes) : List Op :=
  match tbl.find? (fun e => decide (e.1 = c) && (encodeOps c e.2 == b)) with
  | some e => e.2
  | none => []

end PyElf.Spec.C12
