/-
  Dynamic linking information (gABI ch. 5 "Dynamic Section", "Hash Table";
  the GNU hash table as documented with binutils/glibc; Oracle Linker and
  Libraries Guide for the Solaris tags): an abstract description of what an
  image says about dynamic linking, two layouts of one description (with a
  section header table, and with `e_shoff = 0`), and what a reader must report.
-/
import PyElf.Spec.ElfImage
namespace PyElf.Spec.Dynamic
open PyElf PyElf.Spec

/-! ### tag codes (gABI fig. 5-10; GNU; Solaris) -/
def DT_NULL : Int := 0
def DT_NEEDED : Int := 1
def DT_PLTRELSZ : Int := 2
def DT_PLTGOT : Int := 3
def DT_INIT : Int := 12
def DT_FINI : Int := 13
def DT_HASH : Int := 4
def DT_STRTAB : Int := 5
def DT_SYMTAB : Int := 6
def DT_RELA : Int := 7
def DT_RELASZ : Int := 8
def DT_RELAENT : Int := 9
def DT_SYMENT : Int := 11
def DT_SONAME : Int := 14
def DT_RPATH : Int := 15
def DT_REL : Int := 17
def DT_RELSZ : Int := 18
def DT_RELENT : Int := 19
def DT_PLTREL : Int := 20
def DT_JMPREL : Int := 23
def DT_RUNPATH : Int := 29
def DT_RELRSZ : Int := 35
def DT_RELR : Int := 36
def DT_RELRENT : Int := 37
def DT_GNU_HASH : Int := 0x6ffffef5
def DT_SUNW_FILTER : Int := 0x6000000f

/-- the names the reader's interface uses for the codes above -/
def tagNames : List (Int × String) :=
  [(DT_NULL, "DT_NULL"), (DT_NEEDED, "DT_NEEDED"), (DT_PLTRELSZ, "DT_PLTRELSZ"), (DT_HASH, "DT_HASH"),
   (DT_STRTAB, "DT_STRTAB"), (DT_SYMTAB, "DT_SYMTAB"), (DT_RELA, "DT_RELA"), (DT_RELASZ, "DT_RELASZ"),
   (DT_RELAENT, "DT_RELAENT"), (DT_SYMENT, "DT_SYMENT"), (DT_SONAME, "DT_SONAME"), (DT_RPATH, "DT_RPATH"),
   (DT_REL, "DT_REL"), (DT_RELSZ, "DT_RELSZ"), (DT_RELENT, "DT_RELENT"), (DT_PLTREL, "DT_PLTREL"),
   (DT_JMPREL, "DT_JMPREL"), (DT_RUNPATH, "DT_RUNPATH"), (DT_RELRSZ, "DT_RELRSZ"), (DT_RELR, "DT_RELR"),
   (DT_RELRENT, "DT_RELRENT"), (DT_GNU_HASH, "DT_GNU_HASH"), (DT_PLTGOT, "DT_PLTGOT"), (DT_INIT, "DT_INIT"),
   (DT_FINI, "DT_FINI")]

/-- string-valued tags: `d_val` is an offset into the dynamic string table.  The value is the
    reader's attribute name.  DT_SUNW_FILTER exists only under the Solaris OS ABI (on machines
    without a tag set of their own). -/
def stringAttr (sunw : Bool) (t : Int) : Option String :=
  if t = DT_NEEDED then some "needed"
  else if t = DT_SONAME then some "soname"
  else if t = DT_RPATH then some "rpath"
  else if t = DT_RUNPATH then some "runpath"
  else if sunw && t = DT_SUNW_FILTER then some "sunw_filter"
  else none

/-- does the configuration use the Solaris tag set? (mirrors `dTagTable`) -/
def usesSunw (mclass : String) (solaris : Bool) : Bool :=
  match mclass with
  | "EM_MIPS" => false
  | "EM_MIPS_RS3_LE" => false
  | "EM_AARCH64" => false
  | _ => solaris

/-! ### the description -/

/-- SysV hash table (gABI fig. 5-12): `nchain` equals the number of symbol table entries -/
structure SysvHash where
  buckets : List Nat
  chains : List Nat
  deriving Repr

/-- GNU hash table: symbols below `symoffset` are not hashed; the hashed ones are sorted by
    bucket; `buckets[i]` lists the 32-bit hash values of bucket `i`'s symbols in symbol order -/
structure GnuHash where
  symoffset : Nat
  bloom : List Nat
  shift : Nat
  buckets : List (List Nat)
  deriving Repr

structure DynDesc where
  cls : Nat
  le : Bool
  mclass : String
  solaris : Bool
  ehdr : Fields
  /-- the table as stored: (d_tag, d_val), terminator and whatever follows it included -/
  tags : List (Int × Nat)
  /-- file offset of the table the PT_DYNAMIC segment designates -/
  dynOff : Nat
  /-- full layout: the `.dynamic` *section* designates a second copy of the table here -/
  secDynOff : Option Nat := none
  strtab : Bytes
  strOff : Nat
  /-- raw `Elf_Sym` records -/
  syms : List Fields
  symOff : Nat
  sysv : Option (SysvHash × Nat) := none
  gnu : Option (GnuHash × Nat) := none
  /-- raw entries and file offset -/
  rel : Option (List Fields × Nat) := none
  rela : Option (List Fields × Nat) := none
  jmprel : Option (Bool × List Fields × Nat) := none
  relr : Option (List Nat × Nat) := none
  /-- raw program headers, file order -/
  segments : List Fields
  phoff : Nat
  shoff : Nat
  phentsize : Nat
  shentsize : Nat
  /-- full layout: decoy sections in front of the dynamic ones, and where the name table sits -/
  decoys : Nat := 0
  shstrOff : Nat := 0
  deriving Repr

def DynDesc.cfg (d : DynDesc) : ElfCfg := ⟨d.le, d.cls, d.mclass, d.solaris, false⟩
def DynDesc.S (d : DynDesc) : ElfStructs := elfStructs d.cfg
def DynDesc.w (d : DynDesc) : Nat := d.cls / 8
def DynDesc.sunw (d : DynDesc) : Bool := usesSunw d.mclass d.solaris

/-- the program headers as a reader reports them (C01) -/
def DynDesc.phdrs (env : Env) (d : DynDesc) : List Val :=
  d.segments.filterMap fun p =>
    match d.S.Elf_Phdr.decodeRaw env [] (.record p) with
    | .ok h => some h
    | .error _ => none

def rawTag (t : Int × Nat) : Val := .record [("d_tag", .int t.1), ("d_val", .int t.2)]

/-- the entries a reader sees: up to and including the first DT_NULL -/
def liveTags : List (Int × Nat) → List (Int × Nat)
  | [] => []
  | t :: rest => if t.1 = DT_NULL then [t] else t :: liveTags rest

def hasTerminator (tags : List (Int × Nat)) : Bool := tags.any (·.1 == DT_NULL)

def DynDesc.live (d : DynDesc) : List (Int × Nat) := liveTags d.tags

/-- value of the first live entry with the given tag -/
def firstVal (live : List (Int × Nat)) (t : Int) : Option Nat := (live.find? (·.1 == t)).map (·.2)

/-! ### address translation through the loadable segments -/

/-- is this decoded enum field the given name? -/
def isName (v : Val) (s : String) : Bool :=
  match v with
  | .str x => x == s
  | _ => false

/-- the file offset a decoded program header assigns to address `a`: only PT_LOAD segments map
    addresses, and only within their file-backed extent `[p_vaddr, p_vaddr + p_filesz)` -/
def loadOffset (h : Val) (a : Nat) : Option Nat :=
  match h.getField "p_type", h.getNat "p_vaddr", h.getNat "p_filesz", h.getNat "p_offset" with
  | .ok ty, .ok va, .ok fsz, .ok po =>
    if isName ty "PT_LOAD" && decide (va ≤ a) && decide (a < va + fsz)
    then some (a - va + po) else none
  | _, _, _, _ => none

/-- file offsets the PT_LOAD segments assign to an address (one per covering segment) -/
def offsetsOf (hs : List Val) (a : Nat) : List Nat := hs.filterMap (loadOffset · a)

def mapAddr (hs : List Val) (a : Nat) : Option Nat := (offsetsOf hs a).head?

/-- every covering segment agrees -/
def addrUnambiguous (hs : List Val) (a : Nat) : Bool :=
  match offsetsOf hs a with
  | [] => true
  | o :: rest => rest.all (· == o)

/-! ### encodings -/

def encAll (c : Con) (xs : List Val) : Option Bytes := do
  let bs ← xs.mapM c.encodeRaw
  pure bs.flatten

def encWords (le : Bool) (n : Nat) (xs : List Nat) : Bytes := (xs.map (encNat le n)).flatten

def SysvHash.enc (le : Bool) (h : SysvHash) : Bytes :=
  encNat le 4 h.buckets.length ++ encNat le 4 h.chains.length ++ encWords le 4 h.buckets ++ encWords le 4 h.chains

/-- chain words of one bucket: hash values with bit 0 cleared, set on the last -/
def chainWords : List Nat → List Nat
  | [] => []
  | [h] => [h / 2 * 2 + 1]
  | h :: rest => h / 2 * 2 :: chainWords rest

/-- bucket array: index of the bucket's first symbol, 0 for an empty bucket -/
def bucketStarts : Nat → List (List Nat) → List Nat
  | _, [] => []
  | cur, b :: rest => (if b.isEmpty then 0 else cur) :: bucketStarts (cur + b.length) rest

def GnuHash.hashed (h : GnuHash) : Nat := (h.buckets.map List.length).sum

def GnuHash.enc (le : Bool) (w : Nat) (h : GnuHash) : Bytes :=
  encNat le 4 h.buckets.length ++ encNat le 4 h.symoffset ++ encNat le 4 h.bloom.length ++ encNat le 4 h.shift
    ++ encWords le w h.bloom ++ encWords le 4 (bucketStarts h.symoffset h.buckets)
    ++ encWords le 4 (h.buckets.flatMap chainWords)

def DynDesc.tagBytes (d : DynDesc) : Option Bytes := encAll d.S.Elf_Dyn (d.tags.map rawTag)
def DynDesc.symBytes (d : DynDesc) : Option Bytes := encAll d.S.Elf_Sym (d.syms.map .record)

def optSize {α} (c : Con) (f : α → Nat) (x : α) : Nat := (c.sizeof.getD 0) * f x

/-- a relocation table at its file offset -/
def relBlob (c : Con) : Option (List Fields × Nat) → Option (List (Nat × Bytes))
  | some (es, o) => (encAll c (es.map .record)).map fun b => [(o, b)]
  | none => some []

/-- the relocation tables, each at its file offset -/
def DynDesc.relBlobs (d : DynDesc) : Option (List (Nat × Bytes)) := do
  let S := d.S
  let rel ← relBlob S.Elf_Rel d.rel
  let rela ← relBlob S.Elf_Rela d.rela
  let jmp ← match d.jmprel with
    | some (isRela, es, o) => relBlob (if isRela then S.Elf_Rela else S.Elf_Rel) (some (es, o))
    | none => some []
  let relr := match d.relr with
    | some (ws, o) => [(o, encWords d.le d.w ws)]
    | none => []
  pure (rel ++ rela ++ jmp ++ relr)

/-- the hash tables, each at its file offset -/
def DynDesc.hashBlobs (d : DynDesc) : List (Nat × Bytes) :=
  (match d.sysv with
    | some (h, o) => [(o, h.enc d.le)]
    | none => []) ++
  (match d.gnu with
    | some (h, o) => [(o, h.enc d.le d.w)]
    | none => [])

/-- the tables, each at its file offset -/
def DynDesc.blobs (d : DynDesc) (full : Bool) : Option (List (Nat × Bytes)) := do
  let tb ← d.tagBytes
  let sb ← d.symBytes
  let rs ← d.relBlobs
  let copy := match full, d.secDynOff with
    | true, some o => [(o, tb)]
    | _, _ => []
  pure ([(d.dynOff, tb), (d.strOff, d.strtab), (d.symOff, sb)] ++ rs ++ d.hashBlobs ++ copy)

/-! ### the two layouts -/

def nm (s : String) : Bytes := s.toUTF8.toList

/-- section-name table of the full layout -/
def shstrBody : Bytes :=
  [0] ++ nm ".dynstr" ++ [0] ++ nm ".dynsym" ++ [0] ++ nm ".dynamic" ++ [0] ++ nm ".shstrtab" ++ [0] ++ nm ".decoy" ++ [0]

def secHdr (ty flags addr off size link info align entsize : Nat) : Fields :=
  [("sh_type", .int ty), ("sh_flags", .int flags), ("sh_addr", .int addr), ("sh_offset", .int off),
   ("sh_size", .int size), ("sh_link", .int link), ("sh_info", .int info), ("sh_addralign", .int align),
   ("sh_entsize", .int entsize)]

def secNull : SecDesc := ⟨[], secHdr 0 0 0 0 0 0 0 0 0, none, 0⟩
def secDecoy : SecDesc := ⟨nm ".decoy", secHdr 1 0 0 0 0 0 0 1 0, none, 36⟩
def DynDesc.secDynstr (d : DynDesc) : SecDesc :=
  ⟨nm ".dynstr", secHdr 3 2 (firstVal d.live DT_STRTAB |>.getD 0) d.strOff d.strtab.length 0 0 1 0, none, 1⟩
def DynDesc.secDynsym (d : DynDesc) : SecDesc :=
  let symsz := d.S.Elf_Sym.sizeof.getD 0
  ⟨nm ".dynsym", secHdr 11 2 (firstVal d.live DT_SYMTAB |>.getD 0) d.symOff (d.syms.length * symsz) (d.decoys + 1) 1 d.w symsz, none, 9⟩
def DynDesc.secDynamic (d : DynDesc) : SecDesc :=
  let dynsz := d.S.Elf_Dyn.sizeof.getD 0
  ⟨nm ".dynamic", secHdr 6 3 0 (d.secDynOff.getD d.dynOff) (d.tags.length * dynsz) (d.decoys + 1) 0 d.w dynsz, none, 17⟩
/-- the section-name table is the body of `.shstrtab` (so that the container is a complete ELF
    description in the sense of C01: `ElfDesc.namesOk`) -/
def DynDesc.secShstrtab (d : DynDesc) : SecDesc :=
  ⟨nm ".shstrtab", secHdr 3 0 0 d.shstrOff shstrBody.length 0 0 1 0, some shstrBody, 26⟩

/-- sections of the full layout: null, decoys, .dynstr, .dynsym, .dynamic, .shstrtab -/
def DynDesc.sections (d : DynDesc) : List SecDesc :=
  secNull :: (List.replicate d.decoys secDecoy ++ [d.secDynstr, d.secDynsym, d.secDynamic, d.secShstrtab])

/-- the container as an abstract ELF image (Spec/ElfImage.lean, C01): file header, program headers
    and — in the full layout — the section header table with the section-name table -/
def DynDesc.container (d : DynDesc) (full : Bool) : ElfDesc :=
  { cls := d.cls, le := d.le, mclass := d.mclass, solaris := d.solaris, core := false, ehdr := d.ehdr,
    shoff := d.shoff, phoff := d.phoff, shentsize := d.shentsize, phentsize := d.phentsize,
    sections := if full then d.sections else [], segments := d.segments,
    shstrndx := if full then d.decoys + 4 else 0 }

/-- the regions of the image: the container's (C01's `ElfDesc.regions`) and the dynamic tables -/
def DynDesc.regions (d : DynDesc) (full : Bool) : Option (List (Nat × Bytes)) := do
  let c ← (d.container full).regions
  let b ← d.blobs full
  pure (c ++ b.filter (fun r => !r.2.isEmpty))

/-- the image: `full = true` with a section header table, `false` with `e_shoff = 0` -/
def DynDesc.assemble (d : DynDesc) (full : Bool) : Option Bytes := do
  let rs ← d.regions full
  pure (layOut (sortRegions rs) [])

/-- a byte string carries the description in the given layout: every region's bytes sit at its
    offset; nothing else about the string is constrained (cf. `Spec.Layout`) -/
def DynLayout (d : DynDesc) (full : Bool) (bytes : Bytes) : Prop :=
  ∃ rs, d.regions full = some rs ∧ ∀ r ∈ rs, readN bytes r.1 r.2.length = r.2

/-! ### what must be reported -/

/-- string at offset `off` of the dynamic string table -/
def strAt (strtab : Bytes) (off : Nat) : Option Bytes := firstNul (strtab.drop off)

/-- one dynamic entry as reported: decoded entry, and (attribute, string) for string-valued tags -/
def obsTag (env : Env) (d : DynDesc) (t : Int × Nat) : R (Val × Option (String × Bytes)) := do
  let e ← d.S.Elf_Dyn.decodeRaw env [] (rawTag t)
  match stringAttr d.sunw t.1 with
  | some a => return (e, some (a, (strAt d.strtab t.2).getD []))
  | none => return (e, none)

def obsTags (env : Env) (d : DynDesc) : R (List (Val × Option (String × Bytes))) := d.live.mapM (obsTag env d)

def obsSym (env : Env) (d : DynDesc) (s : Fields) : R (Bytes × Val) := do
  let e ← d.S.Elf_Sym.decodeRaw env [] (.record s)
  return ((strAt d.strtab (getNatD s "st_name")).getD [], e)

def obsSyms (env : Env) (d : DynDesc) : R (List (Bytes × Val)) := d.syms.mapM (obsSym env d)

/-- all symbols bearing a name, in index order; nothing for an absent name -/
def obsByName (env : Env) (d : DynDesc) (q : Bytes) : R (Option (List (Bytes × Val))) := do
  let ss ← obsSyms env d
  let hit := ss.filter (·.1 == q)
  return if hit.isEmpty then none else some hit

inductive RelObs
  | rel (isRela : Bool) (entries : List Val)
  | relr (offset size entsize : Nat)

def obsRelocs (env : Env) (d : DynDesc) : R (List (String × RelObs)) := do
  let S := d.S
  let dec (c : Con) (es : List Fields) : R (List Val) := es.mapM fun e => c.decodeRaw env [] (.record e)
  let rel ← match d.rel with
    | some (es, _) => do pure [("REL", RelObs.rel false (← dec S.Elf_Rel es))]
    | none => pure []
  let rela ← match d.rela with
    | some (es, _) => do pure [("RELA", RelObs.rel true (← dec S.Elf_Rela es))]
    | none => pure []
  let relr := match d.relr with
    | some (ws, o) => [("RELR", RelObs.relr o (ws.length * d.w) d.w)]
    | none => []
  let jmp ← match d.jmprel with
    | some (isRela, es, _) => do pure [("JMPREL", RelObs.rel isRela (← dec (if isRela then S.Elf_Rela else S.Elf_Rel) es))]
    | none => pure []
  return rel ++ rela ++ relr ++ jmp

/-- (pointer, file offset) of the table a tag designates -/
def obsTableOffset (env : Env) (d : DynDesc) (t : Int) : Option Nat × Option Nat :=
  match firstVal d.live t with
  | some p => (some p, mapAddr (d.phdrs env) p)
  | none => (none, none)

/-! ### well-formedness -/

def stringsOk (d : DynDesc) : Bool :=
  d.live.all (fun t => (stringAttr d.sunw t.1).isNone || (strAt d.strtab t.2).isSome) &&
  d.syms.all (fun s => (strAt d.strtab (getNatD s "st_name")).isSome)

/-- a pointer tag designates the table at `off` exactly when the table is described -/
def ptrOk (env : Env) (d : DynDesc) (t : Int) (off : Option Nat) : Bool :=
  match firstVal d.live t, off with
  | some p, some o => mapAddr (d.phdrs env) p == some o
  | none, none => true
  | _, _ => false

def valIs (d : DynDesc) (t : Int) (v : Nat) : Bool := firstVal d.live t == some v

def GnuHash.wf (h : GnuHash) (nsyms : Nat) : Bool :=
  decide (1 ≤ h.symoffset) && decide (1 ≤ h.buckets.length) && decide (h.symoffset + h.hashed = nsyms) &&
  decide (nsyms < 2 ^ 32) && decide (h.buckets.length < 2 ^ 32) && decide (h.bloom.length < 2 ^ 32) &&
  decide (h.shift < 2 ^ 32) && h.buckets.all (·.all (· < 2 ^ 32))

def SysvHash.wf (h : SysvHash) (nsyms : Nat) : Bool :=
  decide (h.chains.length = nsyms) && decide (nsyms < 2 ^ 32) && decide (h.buckets.length < 2 ^ 32) &&
  h.buckets.all (· < 2 ^ 32) && h.chains.all (· < 2 ^ 32)

/-- the symbol count is recoverable: a well-formed hash table is present, and every present one
    is well formed -/
def hashOk (d : DynDesc) : Bool :=
  (d.gnu.isSome || d.sysv.isSome) &&
  (match d.gnu with | some (h, _) => h.wf d.syms.length | none => true) &&
  (match d.sysv with | some (h, _) => h.wf d.syms.length | none => true)

def relocsOk (d : DynDesc) : Bool :=
  let S := d.S
  let rsz := S.Elf_Rel.sizeof.getD 0
  let rasz := S.Elf_Rela.sizeof.getD 0
  (match d.rel with | some (es, _) => valIs d DT_RELSZ (es.length * rsz) && valIs d DT_RELENT rsz | none => true) &&
  (match d.rela with | some (es, _) => valIs d DT_RELASZ (es.length * rasz) && valIs d DT_RELAENT rasz | none => true) &&
  (match d.relr with | some (ws, _) => valIs d DT_RELRSZ (ws.length * d.w) && valIs d DT_RELRENT d.w | none => true) &&
  (match d.jmprel with
   | some (isRela, es, _) =>
      valIs d DT_PLTRELSZ (es.length * (if isRela then rasz else rsz)) &&
      valIs d DT_PLTREL (if isRela then DT_RELA.toNat else DT_REL.toNat)
   | none => true)

/-- the first PT_DYNAMIC program header designates the table and is not empty -/
def dynSegOk (env : Env) (d : DynDesc) : Bool :=
  let dyns := (d.phdrs env).filter fun h =>
    match h.getField "p_type" with | .ok ty => isName ty "PT_DYNAMIC" | _ => false
  match dyns with
  | h :: _ => (match h.getNat "p_offset", h.getNat "p_filesz" with
               | .ok o, .ok fsz => o == d.dynOff && fsz != 0
               | _, _ => false)
  | [] => false

def DynDesc.wf (env : Env) (d : DynDesc) (full : Bool) : Bool :=
  hasTerminator d.tags &&
  (match d.regions full with | some rs => regionsDisjoint (sortRegions rs) | none => false) &&
  d.live.all (fun t => addrUnambiguous (d.phdrs env) t.2) &&
  stringsOk d && dynSegOk env d &&
  ptrOk env d DT_STRTAB (some d.strOff) && ptrOk env d DT_SYMTAB (some d.symOff) &&
  ptrOk env d DT_HASH (d.sysv.map (·.2)) && ptrOk env d DT_GNU_HASH (d.gnu.map (·.2)) &&
  ptrOk env d DT_REL (d.rel.map (·.2)) && ptrOk env d DT_RELA (d.rela.map (·.2)) &&
  ptrOk env d DT_RELR (d.relr.map (·.2)) && ptrOk env d DT_JMPREL (d.jmprel.map (·.2.2)) &&
  relocsOk d &&
  (match d.secDynOff with | some o => o != d.dynOff | none => true) &&
  decide (d.decoys + 5 < 0xff00) && decide (d.segments.length < 0xffff) &&
  decide ((d.phdrs env).length = d.segments.length)

/-- well-formedness of a description as a pair of images: the dynamic information is well formed
    in both layouts (`DynDesc.wf`) and each layout's container is a well-formed ELF description in
    the sense of C01 (`ElfDesc.wf`: known machine class, header consistent with it, table entry
    sizes and offsets, section names, links) -/
def DynDesc.WF (env : Env) (d : DynDesc) : Bool :=
  d.wf env true && d.wf env false && (d.container true).wf env && (d.container false).wf env

end PyElf.Spec.Dynamic
