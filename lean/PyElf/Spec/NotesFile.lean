/-
  C14 over whole files, standards side: when several sections of an ELF description
  (Spec/ElfImage.lean) lie end to end in the file — as the note sections under one PT_NOTE program
  header do — the bytes a segment covering them holds are their bodies concatenated.
-/
import PyElf.Spec.ElfImage
namespace PyElf.Spec.C14
open PyElf PyElf.Spec

/-- the sections with indices `is` lie end to end from file offset `off`: their bodies concatenated
    (`none` when one is missing, has no body, or does not start where the previous one ends) -/
def adjacentBodies (d : ElfDesc) : Nat → List Nat → Option Bytes
  | _, [] => some []
  | off, i :: rest =>
    match d.sections[i]? with
    | some s =>
      match s.body with
      | some b => if getNatD s.hdr "sh_offset" = off then (adjacentBodies d (off + b.length) rest).map (b ++ ·) else none
      | none => none
    | none => none

end PyElf.Spec.C14
