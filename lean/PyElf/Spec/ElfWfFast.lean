/-
  `Spec.ElfDesc.wfZ` computed without the quadratic `List` indexing of `secOkZ` / `decHdr`
  (section `i` and its decoded header are looked up in arrays built once), for the driver's
  images with ≥ 0xff00 sections; proved equal to `wfZ`.
-/
import PyElf.Spec.ElfImage
namespace PyElf.Spec.C01
open PyElf PyElf.Spec

/-- the decoded header of a section, if it decodes (`ElfDesc.decHdr` without the lookup) -/
def hdrOf (env : Env) (d : ElfDesc) (s : SecDesc) : Option Val :=
  (d.S.Elf_Shdr.decodeRaw env [] s.raw).toOption

/-- `ElfDesc.secOkZ` over an array of the sections and an array of their decoded headers -/
def secOkZA (env : Env) (d : ElfDesc) (a : Array SecDesc) (hs : Array (Option Val)) : Nat → Nat → Bool
  | 0, _ => false
  | fuel+1, i =>
    match a[i]?, (hs[i]?).join with
    | some s, some h =>
      let w := d.cls / 8
      let link := fieldNat h "sh_link"
      let linkIs (types : List String) : Bool :=
        match (hs[link]?).join with
        | some lh => typeIn lh types && secOkZA env d a hs fuel link
        | none => false
      let entsize := fieldNat h "sh_entsize"
      let size := fieldNat h "sh_size"
      let off := fieldNat h "sh_offset"
      let body := bodyOf s
      let word (k : Nat) : Nat := decNat d.le ((body.drop (4 * k)).take 4)
      (fieldNat h "sh_flags" &&& 0x800 == 0 ||
        (decide (off < 2 ^ 63) && decide ((if d.cls = 32 then 12 else 24) ≤ body.length))) &&
      (if typeIn h ["SHT_SYMTAB", "SHT_DYNSYM", "SHT_SUNW_LDYNSYM"] then
         linkIs ["SHT_STRTAB"] && decide (0 < entsize) && size % entsize == 0
       else if typeIn h ["SHT_SUNW_syminfo", "SHT_GNU_versym"] then linkIs ["SHT_SYMTAB", "SHT_DYNSYM"]
       else if typeIn h ["SHT_GNU_verneed", "SHT_GNU_verdef"] then linkIs ["SHT_STRTAB"]
       else if typeIn h ["SHT_REL"] then entsize == 2 * w
       else if typeIn h ["SHT_RELA"] then entsize == 3 * w
       else if typeIn h ["SHT_RELR"] then entsize == w
       else if typeIn h ["SHT_DYNAMIC"] then linkIs ["SHT_STRTAB", "SHT_NOBITS"]
       else if typeIn h ["SHT_ARM_ATTRIBUTES", "SHT_RISCV_ATTRIBUTES"] then
         decide (off < 2 ^ 63) && body.head? == some 0x41
       else if typeIn h ["SHT_HASH"] then
         linkIs ["SHT_SYMTAB", "SHT_DYNSYM"] && decide (off < 2 ^ 63) &&
         decide (8 ≤ body.length) && decide (8 + 4 * (word 0 + word 1) ≤ body.length)
       else if typeIn h ["SHT_GNU_HASH"] then
         linkIs ["SHT_SYMTAB", "SHT_DYNSYM"] && decide (off < 2 ^ 63) &&
         decide (16 ≤ body.length) && decide (16 + w * word 2 + 4 * word 0 ≤ body.length)
       else true)
    | _, _ => false

/-- `ElfDesc.wfZ` with the array-indexed section check -/
def wfZFast (env : Env) (d : ElfDesc) : Bool :=
  let n := d.sections.length
  let m := d.segments.length
  let a := d.sections.toArray
  let hs := a.map (hdrOf env d)
  (d.cls == 32 || d.cls == 64) &&
  machineClasses.contains d.mclass && d.cfgOk env &&
  (match d.regions with
   | some rs => regionsDisjoint (sortRegions rs)
   | none => false) &&
  d.escapesOk && d.namesOk &&
  (n == 0 || decide ((d.S.Elf_Shdr.sizeof.getD 0) ≤ d.shentsize)) &&
  (m == 0 || decide ((d.S.Elf_Phdr.sizeof.getD 0) ≤ d.phentsize)) &&
  decide (d.shoff + n * d.shentsize < 2 ^ 63) && decide (d.phoff + m * d.phentsize < 2 ^ 63) &&
  decide (n < 2 ^ 32) && decide (m < 2 ^ 32) &&
  (n == 0 || (decide (0 < d.shoff) && decide (d.shstrndx < n))) && (m == 0 || decide (0 < d.phoff)) &&
  (d.shstrndx == 0 ||
   match d.sections[d.shstrndx]? with
   | some st => d.sections.all fun s => decide (getNatD st.hdr "sh_offset" + s.nameOff < 2 ^ 63)
   | none => true) &&
  (List.range n).all (fun i => secOkZA env d a hs 4 i) &&
  (n != 0 || d.shstrndx == 0)

theorem hs_lookup (env : Env) (d : ElfDesc) (i : Nat) :
    (((d.sections.toArray.map (hdrOf env d))[i]?).join) = d.decHdr env i := by
  unfold ElfDesc.decHdr
  simp only [Array.getElem?_map, List.getElem?_toArray]
  cases d.sections[i]? <;> rfl

theorem secOkZA_eq (env : Env) (d : ElfDesc) :
    ∀ fuel i, secOkZA env d d.sections.toArray (d.sections.toArray.map (hdrOf env d)) fuel i
      = d.secOkZ env fuel i := by
  intro fuel
  induction fuel with
  | zero => intro i; simp [secOkZA, ElfDesc.secOkZ]
  | succ fuel ih =>
    intro i
    rw [secOkZA, ElfDesc.secOkZ]
    simp only [hs_lookup, List.getElem?_toArray, ih]
    generalize d.sections[i]? = o1
    generalize d.decHdr env i = o2
    cases o1 <;> cases o2 <;> rfl

theorem wfZFast_eq (env : Env) (d : ElfDesc) : wfZFast env d = d.wfZ env := by
  unfold wfZFast ElfDesc.wfZ
  simp only [secOkZA_eq]
  rfl

end PyElf.Spec.C01
