/-
  Dynamic linking information, continued (gABI ch. 5): the parts of a reader's
  behaviour that the dynamic array alone does not determine.

  * The symbol table has no length tag (gABI: DT_SYMTAB, DT_SYMENT only).  With
    a hash table the count is `nchain` (SysV) or follows from the buckets and
    chains (GNU).  Without one, a reader can only *estimate* it: the symbol
    table ends no later than the next thing the dynamic array points at, or the
    end of the segment that holds it.  `fallbackCount` is that estimate;
    `FallbackExact` says when the estimate is the true count.
  * The routes by which the dynamic string table is found (section link,
    DT_STRTAB through the PT_LOADs, the section named `.dynstr`, none).
-/
import PyElf.Spec.Dynamic
namespace PyElf.Spec.Dynamic
open PyElf PyElf.Spec

/-! ### the nearest pointer above an address -/

/-- one step of a running minimum of the values above `a` -/
def nearStep (a : Nat) (acc : Option Nat) (v : Nat) : Option Nat :=
  if decide (a < v) && (match acc with | none => true | some m => decide (v < m)) then some v else acc

/-- the least of the values `vs` that is greater than `a` (see `minAbove_some_iff`, `minAbove_none_iff`) -/
def minAbove (vs : List Nat) (a : Nat) : Option Nat := vs.foldl (nearStep a) none

/-- the file-backed extent of a program header, END INCLUDED, holds `a`: its end address -/
def coverEnd (h : Val) (a : Nat) : Option Nat :=
  match h.getNat "p_vaddr", h.getNat "p_filesz" with
  | .ok va, .ok fsz => if decide (va ≤ a) && decide (a ≤ va + fsz) then some (va + fsz) else none
  | _, _ => none

/-- end of the last program header (any type, table order) whose extent holds `a` -/
def segEnd (hs : List Val) (a : Nat) : Option Nat := (hs.filterMap (coverEnd · a)).getLast?

/-- where a reader without a hash table takes the symbol table to end: at the least value of ANY
    live entry (pointer or not) above the table's address, else at the end of the segment holding it -/
def fallbackEnd (hs : List Val) (live : List (Int × Nat)) (a : Nat) : Option Nat :=
  match minAbove (live.map (·.2)) a with
  | some e => some e
  | none => segEnd hs a

/-- every DT_SYMENT entry states the size of a symbol record of the class -/
def symentOk (symsz : Nat) (live : List (Int × Nat)) : Bool :=
  live.all fun t => t.1 != DT_SYMENT || t.2 == symsz

/-- the estimate: whole records between the table's address and `fallbackEnd` -/
def fallbackCount (symsz : Nat) (hs : List Val) (live : List (Int × Nat)) : Option Nat :=
  (firstVal live DT_SYMTAB).bind fun a => (fallbackEnd hs live a).map fun e => (e - a) / symsz

/-- the estimate is exact: the assumed end lies in `[a + n·size, a + (n+1)·size)` -/
def FallbackExact (symsz : Nat) (hs : List Val) (live : List (Int × Nat)) (nsyms : Nat) : Prop :=
  ∃ a e, firstVal live DT_SYMTAB = some a ∧ fallbackEnd hs live a = some e ∧
    a + nsyms * symsz ≤ e ∧ e < a + (nsyms + 1) * symsz

/-! ### how the string table is found -/

inductive StrRoute
  /-- the `.dynamic` section sits at the segment's offset: its `sh_link` -/
  | link
  /-- DT_STRTAB, through the PT_LOADs -/
  | pointer
  /-- DT_STRTAB absent or outside every PT_LOAD: the section named `.dynstr` -/
  | byName
  /-- … and no such section: there is no string table -/
  | none
  deriving DecidableEq, Repr

/-- the file offset the first live DT_STRTAB maps to -/
def DynDesc.strPtrOff (env : Env) (d : DynDesc) : Option Nat :=
  (firstVal d.live DT_STRTAB).bind (mapAddr (d.phdrs env))

def DynDesc.strRoute (env : Env) (d : DynDesc) (full : Bool) : StrRoute :=
  if full && d.secDynOff.isNone then .link
  else match d.strPtrOff env with
    | some _ => .pointer
    | none => if full then .byName else .none

/-- the route leads to the described string table -/
def DynDesc.strOk (env : Env) (d : DynDesc) (full : Bool) : Bool :=
  match d.strRoute env full with
  | .link => true
  | .pointer => d.strPtrOff env == some d.strOff
  | .byName => true
  | .none => false

/-! ### well-formedness, in parts

  `DynDesc.wf` (Spec/Dynamic.lean) asks for everything at once.  The parts, so that theorems can say
  exactly what they rely on.  `wf` implies each of them. -/

/-- the regions of the layout do not overlap (so that the assembler's output is a layout) -/
def DynDesc.regionsOk (d : DynDesc) (full : Bool) : Bool :=
  match d.regions full with
  | some rs => regionsDisjoint (sortRegions rs)
  | none => false

/-- the container side: the first PT_DYNAMIC header designates the (non-empty) table, a second copy
    of the table for the section sits elsewhere, every program header decodes -/
def DynDesc.wfBase (env : Env) (d : DynDesc) : Bool :=
  dynSegOk env d &&
  (match d.secDynOff with | some o => o != d.dynOff | none => true) &&
  decide ((d.phdrs env).length = d.segments.length)

/-- tags and strings: terminator present, strings terminated inside the table, table reachable -/
def DynDesc.wfTags (env : Env) (d : DynDesc) (full : Bool) : Bool :=
  hasTerminator d.tags && stringsOk d && d.strOk env full

/-- DT_SYMTAB designates the symbol table -/
def DynDesc.wfSyms (env : Env) (d : DynDesc) : Bool := ptrOk env d DT_SYMTAB (some d.symOff)

/-- the hash tags designate the described hash tables (absent when none is described) -/
def DynDesc.wfHash (env : Env) (d : DynDesc) : Bool :=
  ptrOk env d DT_HASH (d.sysv.map (·.2)) && ptrOk env d DT_GNU_HASH (d.gnu.map (·.2))

/-- no hash table is described or reachable: the live hash tags (if any) map nowhere -/
def DynDesc.noHash (env : Env) (d : DynDesc) : Bool :=
  ((firstVal d.live DT_GNU_HASH).bind (mapAddr (d.phdrs env))).isNone &&
  ((firstVal d.live DT_HASH).bind (mapAddr (d.phdrs env))).isNone

def DynDesc.symsz (d : DynDesc) : Nat := d.S.Elf_Sym.sizeof.getD 0

/-- the count a reader without a hash table arrives at -/
def DynDesc.fallbackCount (env : Env) (d : DynDesc) : Option Nat :=
  Dynamic.fallbackCount d.symsz (d.phdrs env) d.live

/-- … and it is the true count -/
def DynDesc.fallbackExact (env : Env) (d : DynDesc) : Bool := d.fallbackCount env == some d.syms.length

end PyElf.Spec.Dynamic
