/-
  Location lists and range lists, from the standards:

  * DWARF 2–4 §2.6.2 (location lists in .debug_loc) and §2.17.3 (range lists in
    .debug_ranges): a list is a sequence of entries, each a pair of
    address-sized values; (0, 0) ends the list; a pair whose first value is the
    largest representable address is a base-address selection entry; any other
    pair is a bounded entry, followed — in location lists — by a 2-byte length
    and that many bytes of location expression.
  * DWARF 5 §2.6.2, §2.17.3, §7.7.3 (table 7.10, DW_LLE_*), §7.25 (table 7.30,
    DW_RLE_*), §7.28/§7.29 (unit headers and offset tables of .debug_rnglists /
    .debug_loclists), §7.27 (.debug_addr).
  * GNU location views (DW_AT_GNU_locviews): pairs of ULEB128 numbers placed
    directly in front of the location list they annotate.
  * DWARF 2–5 §7.5.4/§7.5.5: which (attribute, form, version) carry a location
    expression (exprloc / block class) and which a list (loclistptr / loclist class).

  The observation side (`*Entry`, `viewPair`) fixes the library's API names.
  No `Con`, no streams, no `Err`.
-/
import PyElf.Core.Val
import PyElf.Spec.Primitives
namespace PyElf.Spec.Lists
open PyElf PyElf.Spec

/-! ### what a reader reports (the library's named tuples, `_t` = the tuple's class) -/

def exprVal (x : Bytes) : Val := .list (x.map fun b => .int b.toNat)

def locationEntry (off len : Nat) (b e : Int) (x : Bytes) (abs : Bool) : Val :=
  .record [("_t", .str "LocationEntry"), ("entry_offset", .int off), ("entry_length", .int len),
           ("begin_offset", .int b), ("end_offset", .int e), ("loc_expr", exprVal x), ("is_absolute", .bool abs)]

def locBaseEntry (off len : Nat) (a : Int) : Val :=
  .record [("_t", .str "BaseAddressEntry"), ("entry_offset", .int off), ("entry_length", .int len),
           ("base_address", .int a)]

def rangeEntry (off len : Nat) (b e : Int) (abs : Bool) : Val :=
  .record [("_t", .str "RangeEntry"), ("entry_offset", .int off), ("entry_length", .int len),
           ("begin_offset", .int b), ("end_offset", .int e), ("is_absolute", .bool abs)]

def rngBaseEntry (off : Nat) (a : Int) : Val :=
  .record [("_t", .str "BaseAddressEntry"), ("entry_offset", .int off), ("base_address", .int a)]

def viewPair (off b e : Nat) : Val :=
  .record [("_t", .str "LocationViewPair"), ("entry_offset", .int off), ("begin", .int b), ("end", .int e)]

/-! ### DWARF 2–4 lists -/

/-- the largest address: marks a base-address selection entry -/
def maxAddr (asz : Nat) : Nat := 2 ^ (8 * asz) - 1

inductive V4Loc
  | base (addr : Nat)
  | loc (b e : Nat) (expr : Bytes)
  deriving Repr

inductive V4Rng
  | base (addr : Nat)
  | range (b e : Nat)
  deriving Repr

def V4Loc.enc (le : Bool) (asz : Nat) : V4Loc → Bytes
  | .base a => encNat le asz (maxAddr asz) ++ encNat le asz a
  | .loc b e x => encNat le asz b ++ encNat le asz e ++ (encNat le 2 x.length ++ x)

def V4Loc.size (asz : Nat) : V4Loc → Nat
  | .base _ => asz + asz
  | .loc _ _ x => asz + asz + (2 + x.length)

def V4Loc.wf (asz : Nat) : V4Loc → Bool
  | .base a => decide (a < 256 ^ asz)
  | .loc b e x => decide (b < 256 ^ asz) && decide (e < 256 ^ asz) && !(b == 0 && e == 0)
      && !(b == maxAddr asz) && decide (x.length < 65536)

def V4Loc.obs (off asz : Nat) : V4Loc → Val
  | .base a => locBaseEntry off (asz + asz) a
  | .loc b e x => locationEntry off (asz + asz + (2 + x.length)) b e x false

def v4End (le : Bool) (asz : Nat) : Bytes := encNat le asz 0 ++ encNat le asz 0

/-- a whole list: the entries, then the (0, 0) terminator -/
def encV4Loc (le : Bool) (asz : Nat) (es : List V4Loc) : Bytes :=
  (es.flatMap fun e => e.enc le asz) ++ v4End le asz

def obsV4Loc (asz : Nat) : Nat → List V4Loc → List Val
  | _, [] => []
  | off, e :: es => e.obs off asz :: obsV4Loc asz (off + e.size asz) es

def V4Rng.enc (le : Bool) (asz : Nat) : V4Rng → Bytes
  | .base a => encNat le asz (maxAddr asz) ++ encNat le asz a
  | .range b e => encNat le asz b ++ encNat le asz e

def V4Rng.wf (asz : Nat) : V4Rng → Bool
  | .base a => decide (a < 256 ^ asz)
  | .range b e => decide (b < 256 ^ asz) && decide (e < 256 ^ asz) && !(b == 0 && e == 0)
      && !(b == maxAddr asz)

def V4Rng.obs (off asz : Nat) : V4Rng → Val
  | .base a => rngBaseEntry off a
  | .range b e => rangeEntry off (asz + asz) b e false

def encV4Rng (le : Bool) (asz : Nat) (es : List V4Rng) : Bytes :=
  (es.flatMap fun e => e.enc le asz) ++ v4End le asz

def obsV4Rng (asz : Nat) : Nat → List V4Rng → List Val
  | _, [] => []
  | off, e :: es => e.obs off asz :: obsV4Rng asz (off + (asz + asz)) es

/-! ### DWARF 5 entries: a kind code followed by the kind's operands (tables 7.10 and 7.30) -/

/-- operand classes: an address-sized value, a ULEB128 number, a counted location description
    (ULEB128 byte count, then the expression bytes) -/
inductive FK | addr | uleb | cld
  deriving DecidableEq, Repr

/-- operand values; `n` is the number of bytes the ULEB128 number occupies (padding is legal) -/
inductive FV
  | addr (a : Nat)
  | uleb (n v : Nat)
  | cld (n : Nat) (x : Bytes)
  deriving Repr

def FV.kind : FV → FK
  | .addr _ => .addr | .uleb _ _ => .uleb | .cld _ _ => .cld

def FV.wf (asz : Nat) : FV → Bool
  | .addr a => decide (a < 256 ^ asz)
  | .uleb n v => decide (1 ≤ n) && decide (v < 2 ^ (7 * n))
  | .cld n x => decide (1 ≤ n) && decide (x.length < 2 ^ (7 * n))

def FV.enc (le : Bool) (asz : Nat) : FV → Bytes
  | .addr a => encNat le asz a
  | .uleb n v => encUlebN n v
  | .cld n x => encUlebN n x.length ++ x

def FV.size (asz : Nat) : FV → Nat
  | .addr _ => asz
  | .uleb n _ => n
  | .cld n x => n + x.length

def FV.obs : FV → Val
  | .addr a => .int a
  | .uleb _ v => .int v
  | .cld _ x => exprVal x

structure Kind where
  code : Nat
  name : String
  fields : List (String × FK)
  deriving DecidableEq, Repr

/-- DWARF 5 table 7.10 -/
def lleKinds : List Kind := [
  ⟨0, "DW_LLE_end_of_list", []⟩,
  ⟨1, "DW_LLE_base_addressx", [("index", .uleb)]⟩,
  ⟨2, "DW_LLE_startx_endx", [("start_index", .uleb), ("end_index", .uleb), ("loc_expr", .cld)]⟩,
  ⟨3, "DW_LLE_startx_length", [("start_index", .uleb), ("length", .uleb), ("loc_expr", .cld)]⟩,
  ⟨4, "DW_LLE_offset_pair", [("start_offset", .uleb), ("end_offset", .uleb), ("loc_expr", .cld)]⟩,
  ⟨5, "DW_LLE_default_location", [("loc_expr", .cld)]⟩,
  ⟨6, "DW_LLE_base_address", [("address", .addr)]⟩,
  ⟨7, "DW_LLE_start_end", [("start_address", .addr), ("end_address", .addr), ("loc_expr", .cld)]⟩,
  ⟨8, "DW_LLE_start_length", [("start_address", .addr), ("length", .uleb), ("loc_expr", .cld)]⟩]

/-- DWARF 5 table 7.30 -/
def rleKinds : List Kind := [
  ⟨0, "DW_RLE_end_of_list", []⟩,
  ⟨1, "DW_RLE_base_addressx", [("index", .uleb)]⟩,
  ⟨2, "DW_RLE_startx_endx", [("start_index", .uleb), ("end_index", .uleb)]⟩,
  ⟨3, "DW_RLE_startx_length", [("start_index", .uleb), ("length", .uleb)]⟩,
  ⟨4, "DW_RLE_offset_pair", [("start_offset", .uleb), ("end_offset", .uleb)]⟩,
  ⟨5, "DW_RLE_base_address", [("address", .addr)]⟩,
  ⟨6, "DW_RLE_start_end", [("start_address", .addr), ("end_address", .addr)]⟩,
  ⟨7, "DW_RLE_start_length", [("start_address", .addr), ("length", .uleb)]⟩]

/-- one list entry (not the terminator) -/
structure Ent where
  kind : Kind
  vals : List FV
  deriving Repr

def Ent.wf (kinds : List Kind) (asz : Nat) (e : Ent) : Bool :=
  kinds.contains e.kind && e.kind.code != 0
    && (e.vals.map FV.kind == e.kind.fields.map (·.2)) && e.vals.all (FV.wf asz)

def Ent.enc (le : Bool) (asz : Nat) (e : Ent) : Bytes :=
  UInt8.ofNat e.kind.code :: e.vals.flatMap (FV.enc le asz)

def valsSize (asz : Nat) (vs : List FV) : Nat := (vs.map (FV.size asz)).sum

def Ent.size (asz : Nat) (e : Ent) : Nat := 1 + valsSize asz e.vals

/-- a whole list: the entries, then DW_LLE/RLE_end_of_list (code 0) -/
def encList (le : Bool) (asz : Nat) (es : List Ent) : Bytes :=
  (es.flatMap fun e => e.enc le asz) ++ [0]

def listSize (asz : Nat) (es : List Ent) : Nat := (es.map (Ent.size asz)).sum + 1

def namedVals : List (String × FK) → List FV → Fields
  | (nm, _) :: fs, v :: vs => (nm, v.obs) :: namedVals fs vs
  | _, _ => []

/-- the entry as stored: where it starts and ends, its kind, its operands by name -/
def Ent.rawObs (asz off : Nat) (e : Ent) : Val :=
  .record ([("entry_offset", .int off), ("entry_type", .str e.kind.name)] ++ namedVals e.kind.fields e.vals
           ++ [("entry_end_offset", .int (off + e.size asz : Nat)), ("entry_length", .int (e.size asz))])

def rawObsList (asz : Nat) : Nat → List Ent → List Val
  | _, [] => []
  | off, e :: es => e.rawObs asz off :: rawObsList asz (off + e.size asz) es

/-! ### meaning of the entries (DWARF 5 §2.6.2, §2.17.3): bounded entries denote `[begin, end)`;
    `x` kinds take their addresses from the unit's slice of .debug_addr; `length` kinds denote
    `[start, start + length)`; `offset_pair` is relative to the applicable base address -/

def translateLoc (addrOf : Nat → Option Nat) (asz off : Nat) (e : Ent) : Option Val :=
  let len := e.size asz
  match e.kind.name, e.vals with
  | "DW_LLE_base_address", [.addr a] => some (locBaseEntry off len a)
  | "DW_LLE_base_addressx", [.uleb _ i] => (addrOf i).map fun (a : Nat) => locBaseEntry off len a
  | "DW_LLE_offset_pair", [.uleb _ a, .uleb _ b, .cld _ x] => some (locationEntry off len a b x false)
  | "DW_LLE_start_end", [.addr a, .addr b, .cld _ x] => some (locationEntry off len a b x true)
  | "DW_LLE_start_length", [.addr a, .uleb _ l, .cld _ x] => some (locationEntry off len a (a + l : Nat) x true)
  | "DW_LLE_startx_endx", [.uleb _ i, .uleb _ j, .cld _ x] =>
      (addrOf i).bind fun (a : Nat) => (addrOf j).map fun (b : Nat) => locationEntry off len a b x true
  | "DW_LLE_startx_length", [.uleb _ i, .uleb _ l, .cld _ x] =>
      (addrOf i).map fun (a : Nat) => locationEntry off len a (a + l : Nat) x true
  | "DW_LLE_default_location", [.cld _ x] => some (locationEntry off len (-1) (-1) x true)
  | _, _ => none

def translateRng (addrOf : Nat → Option Nat) (asz off : Nat) (e : Ent) : Option Val :=
  let len := e.size asz
  match e.kind.name, e.vals with
  | "DW_RLE_base_address", [.addr a] => some (rngBaseEntry off a)
  | "DW_RLE_base_addressx", [.uleb _ i] => (addrOf i).map fun (a : Nat) => rngBaseEntry off a
  | "DW_RLE_offset_pair", [.uleb _ a, .uleb _ b] => some (rangeEntry off len a b false)
  | "DW_RLE_start_end", [.addr a, .addr b] => some (rangeEntry off len a b true)
  | "DW_RLE_start_length", [.addr a, .uleb _ l] => some (rangeEntry off len a (a + l : Nat) true)
  | "DW_RLE_startx_endx", [.uleb _ i, .uleb _ j] =>
      (addrOf i).bind fun (a : Nat) => (addrOf j).map fun (b : Nat) => rangeEntry off len a b true
  | "DW_RLE_startx_length", [.uleb _ i, .uleb _ l] =>
      (addrOf i).map fun (a : Nat) => rangeEntry off len a (a + l : Nat) true
  | _, _ => none

def translateList (tr : Nat → Ent → Option Val) (asz : Nat) : Nat → List Ent → Option (List Val)
  | _, [] => some []
  | off, e :: es => do
      let v ← tr off e
      let vs ← translateList tr asz (off + e.size asz) es
      pure (v :: vs)

/-- the unit's addresses: entry `i` of the array that starts at `DW_AT_addr_base` in .debug_addr -/
def addrOf (addrs : List Nat) (i : Nat) : Option Nat := addrs[i]?

def encAddrs (le : Bool) (asz : Nat) (addrs : List Nat) : Bytes := addrs.flatMap (encNat le asz)

/-! ### DWARF 5 unit blocks (§7.28, §7.29): unit_length, version 5, address_size,
    segment_selector_size, offset_entry_count, the offset table, then the lists -/

structure UnitHdr where
  fmt64 : Bool
  asz : Nat
  segsz : Nat
  /-- offset table: offsets of lists relative to the first byte of the table -/
  offsets : List Nat
  deriving Repr

def UnitHdr.osz (u : UnitHdr) : Nat := if u.fmt64 then 8 else 4
def UnitHdr.lenSize (u : UnitHdr) : Nat := if u.fmt64 then 12 else 4

def encOffsets (le : Bool) (osz : Nat) (offs : List Nat) : Bytes := offs.flatMap (encNat le osz)

/-- bytes after the initial length and before the offset table -/
def UnitHdr.fixedPart (le : Bool) (u : UnitHdr) : Bytes :=
  encNat le 2 5 ++ (encNat le 1 u.asz ++ (encNat le 1 u.segsz ++ encNat le 4 u.offsets.length))

def UnitHdr.innerLen (u : UnitHdr) (body : Bytes) : Nat := 8 + u.osz * u.offsets.length + body.length

def encUnit (le : Bool) (u : UnitHdr) (body : Bytes) : Bytes :=
  encInitLen le (if u.fmt64 then .dwarf64 (u.innerLen body) else .dwarf32 (u.innerLen body))
    ++ (u.fixedPart le ++ (encOffsets le u.osz u.offsets ++ body))

def UnitHdr.size (u : UnitHdr) (body : Bytes) : Nat := u.lenSize + u.innerLen body

def UnitHdr.wf (u : UnitHdr) (body : Bytes) : Bool :=
  decide (u.asz < 256) && decide (u.segsz < 256) && decide (u.offsets.length < 2 ^ 32)
    && u.offsets.all (fun o => decide (o < 256 ^ u.osz))
    && (if u.fmt64 then decide (u.innerLen body < 2 ^ 64) else decide (u.innerLen body < 0xFFFFFF00))

/-- the header as reported for a unit that starts at `off` (without the offset table) -/
def UnitHdr.obsFields (u : UnitHdr) (off : Nat) (body : Bytes) : Fields :=
  [("cu_offset", .int off), ("unit_length", .int (u.innerLen body)), ("is64", .bool u.fmt64),
   ("offset_after_length", .int (off + u.lenSize : Nat)), ("version", .int 5), ("address_size", .int u.asz),
   ("segment_selector_size", .int u.segsz), ("offset_count", .int u.offsets.length),
   ("offset_table_offset", .int (off + u.lenSize + 8 : Nat))]

/-- … and with it: the table's entries, or `False` for an empty table (the library's API) -/
def UnitHdr.obs (u : UnitHdr) (off : Nat) (body : Bytes) : Val :=
  .record (u.obsFields off body ++
    [("offsets", if u.offsets.isEmpty then .bool false else .list (u.offsets.map fun (o : Nat) => Val.int o))])

def obsUnits : Nat → List (UnitHdr × Bytes) → List Val
  | _, [] => []
  | off, (u, b) :: rest => u.obs off b :: obsUnits (off + u.size b) rest

def encUnits (le : Bool) (us : List (UnitHdr × Bytes)) : Bytes := us.flatMap fun ub => encUnit le ub.1 ub.2

/-- a range-list unit's body without gaps: its lists one after the other -/
def encLists (le : Bool) (asz : Nat) (ls : List (List Ent)) : Bytes := ls.flatMap (encList le asz)

def rawObsLists (asz : Nat) : Nat → List (List Ent) → List (List Val)
  | _, [] => []
  | off, l :: ls => rawObsList asz off l :: rawObsLists asz (off + listSize asz l) ls

/-! ### GNU location views -/

def encViews (vs : List (FV × FV)) (le : Bool) : Bytes := vs.flatMap fun p => p.1.enc le 0 ++ p.2.enc le 0

def obsViews : Nat → List (FV × FV) → List Val
  | _, [] => []
  | off, (.uleb n a, .uleb m b) :: rest => viewPair off a b :: obsViews (off + n + m) rest
  | _, _ :: _ => []

/-! ### attribute classification (DWARF 2–5 §7.5.4, §7.5.5; readelf's rules for the
    attributes that may carry a location) -/

inductive LocClass | expr | list | neither
  deriving DecidableEq, Repr

/-- attributes of class exprloc/loclist (DWARF 5 table 7.5) plus the GNU call-site ones -/
def locAttrs : List String :=
  ["DW_AT_location", "DW_AT_string_length", "DW_AT_const_value", "DW_AT_return_addr",
   "DW_AT_data_member_location", "DW_AT_frame_base", "DW_AT_segment", "DW_AT_static_link",
   "DW_AT_use_location", "DW_AT_vtable_elem_location", "DW_AT_call_value", "DW_AT_GNU_call_site_value",
   "DW_AT_GNU_call_site_target", "DW_AT_GNU_call_site_data_value", "DW_AT_call_target",
   "DW_AT_call_target_clobbered", "DW_AT_call_data_location", "DW_AT_call_data_value",
   "DW_AT_upper_bound", "DW_AT_count"]

def blockForms : List String := ["DW_FORM_block", "DW_FORM_block1", "DW_FORM_block2", "DW_FORM_block4"]
def dataForms : List String := ["DW_FORM_data1", "DW_FORM_data2", "DW_FORM_data4", "DW_FORM_data8"]
def constForms : List String := dataForms ++ ["DW_FORM_sdata", "DW_FORM_udata"]
def listForms : List String := ["DW_FORM_sec_offset", "DW_FORM_loclistx"]

/-- the attribute's value is a plain constant, not a list pointer: `data_member_location` from
    DWARF 3 on, array bounds/counts always, when written in a constant form -/
def constantClass (name form : String) (ver : Nat) : Bool :=
  ((decide (3 ≤ ver) && name == "DW_AT_data_member_location")
    || name == "DW_AT_upper_bound" || name == "DW_AT_count") && constForms.contains form

/-- the decision table, stated outright:
    * not a location attribute                                  → neither
    * form exprloc                                              → expression
    * DWARF 2/3, block form, not DW_AT_const_value              → expression
    * form sec_offset / loclistx, not constant class            → list
    * DWARF 2/3, form data1/2/4/8, not const_value, not constant class → list
    * otherwise                                                 → neither -/
def classify (name form : String) (ver : Nat) : LocClass :=
  if !locAttrs.contains name then .neither
  else if form == "DW_FORM_exprloc" then .expr
  else if decide (ver < 4) && blockForms.contains form && name != "DW_AT_const_value" then .expr
  else if listForms.contains form && !constantClass name form ver then .list
  else if decide (ver < 4) && dataForms.contains form && name != "DW_AT_const_value"
          && !constantClass name form ver then .list
  else .neither

/-! ### which lists an enumeration must visit: the distinct offsets the debugging entries
    refer to, in increasing order -/

def insertSorted (x : Int) : List Int → List Int
  | [] => [x]
  | y :: ys => if x < y then x :: y :: ys else if x = y then y :: ys else y :: insertSorted x ys

def sortedDistinct (xs : List Int) : List Int := xs.foldl (fun acc x => insertSorted x acc) []

/-! ### whole sections of location lists (DWARF 2–4 §2.6.2, §7.7.3; DWARF 5 §7.29; GNU location views):
    what lies where, what the debugging entries refer to, and what an enumeration must report -/

def viewsSize (vs : List (FV × FV)) : Nat := (vs.map fun p => p.1.size 0 + p.2.size 0).sum

/-- view pairs are pairs of (possibly padded) ULEB128 numbers -/
def viewsWf (vs : List (FV × FV)) : Bool :=
  vs.all fun p => p.1.kind == .uleb && p.2.kind == .uleb && p.1.wf 0 && p.2.wf 0

def v4LocSize (asz : Nat) (es : List V4Loc) : Nat := (es.map (V4Loc.size asz)).sum + (asz + asz)

/-- one list of a section as the debugging entries see it: the unreferenced bytes in front of it, its
    view pairs (`some` when the referring entries carry `DW_AT_GNU_locviews`, which then points at
    the first pair), the list itself -/
structure LocObj (α : Type) where
  gap : Bytes
  views : Option (List (FV × FV))
  list : α

def LocObj.viewsLen {α} (o : LocObj α) : Nat :=
  match o.views with
  | none => 0
  | some vs => viewsSize vs

def LocObj.viewsEnc {α} (le : Bool) (o : LocObj α) : Bytes :=
  match o.views with
  | none => []
  | some vs => encViews vs le

def LocObj.viewsObs {α} (off : Nat) (o : LocObj α) : List Val :=
  match o.views with
  | none => []
  | some vs => obsViews off vs

def LocObj.viewsOk {α} (o : LocObj α) : Bool :=
  match o.views with
  | none => true
  | some vs => viewsWf vs

/-- a run of objects: gap, view pairs, list, gap, view pairs, list, … -/
def encObjs {α} (enc : α → Bytes) (le : Bool) (objs : List (LocObj α)) : Bytes :=
  objs.flatMap fun o => o.gap ++ (o.viewsEnc le ++ enc o.list)

/-- where each object of a run that starts at `off` lies: (offset of its view pairs, offset of the list, the object) -/
def layout {α} (sz : α → Nat) : Nat → List (LocObj α) → List (Nat × Nat × LocObj α)
  | _, [] => []
  | off, o :: rest =>
    (off + o.gap.length, off + o.gap.length + o.viewsLen, o)
      :: layout sz (off + o.gap.length + o.viewsLen + sz o.list) rest

/-- a reference from a debugging entry: the offset held by its `DW_AT_GNU_locviews` (if it has one) and the
    offset held by the attribute of class loclist -/
abbrev LocRef := Option Int × Int

/-- the reference an object expects -/
def layoutRef {α} (e : Nat × Nat × LocObj α) : LocRef := (e.2.2.views.map fun _ => (e.1 : Int), (e.2.1 : Int))

/-- every reference designates an object (with its views exactly when the object has views), and every
    object is referred to -/
def refsAgree (rs ks : List LocRef) : Bool := rs.all ks.contains && ks.all rs.contains

/-- a decoded attribute of a debugging entry -/
structure DieAttr where
  name : String
  form : String
  value : Val

def intOf : Val → Option Int
  | .int n => some n
  | _ => none

/-- what one debugging entry of a version-`ver` unit refers to: with `DW_AT_GNU_locviews`, its
    `DW_AT_location` (which must be a list) together with the views; every other attribute the decision
    table classifies as a list.  `none`: views without a location list, or a non-integer offset. -/
def dieLocRefs (ver : Nat) (d : List DieAttr) : Option (List LocRef) := do
  let gv := d.find? (·.name == "DW_AT_GNU_locviews")
  let withViews ← (match gv with
    | none => some []
    | some va =>
      match d.find? (·.name == "DW_AT_location") with
      | none => none
      | some la =>
        if classify la.name la.form ver = .list then do
          let v ← intOf va.value
          let lo ← intOf la.value
          pure [(some v, lo)]
        else none : Option (List LocRef))
  let others ← (d.filter fun a => (a.name != "DW_AT_location" || gv.isNone)
                    && classify a.name a.form ver == .list).mapM
                  fun a => (intOf a.value).map fun lo => ((none, lo) : LocRef)
  pure (withViews ++ others)

/-- what the enumeration reports for laid-out objects: per object, its view pairs then its entries -/
def obsObjs {α} (obsL : Nat → α → Option (List Val)) : List (Nat × Nat × LocObj α) → Option (List (List Val))
  | [] => some []
  | (vo, lo, o) :: rest => do
      let vs ← obsL lo o.list
      let more ← obsObjs obsL rest
      pure ((o.viewsObs vo ++ vs) :: more)

/-- a unit block of .debug_loclists: header (with offset table), objects, unreferenced bytes at its end.
    Each list comes with the address array (.debug_addr) of the unit that owns it. -/
structure LocUnit where
  hdr : UnitHdr
  objs : List (LocObj (List Nat × List Ent))
  tail : Bytes

def LocUnit.body (le : Bool) (asz : Nat) (u : LocUnit) : Bytes :=
  encObjs (fun x => encList le asz x.2) le u.objs ++ u.tail

def encLocUnits (le : Bool) (asz : Nat) (us : List LocUnit) : Bytes :=
  us.flatMap fun u => encUnit le u.hdr (u.body le asz)

def layoutUnits (le : Bool) (asz : Nat) : Nat → List LocUnit → List (Nat × Nat × LocObj (List Nat × List Ent))
  | _, [] => []
  | off, u :: rest =>
    layout (fun x => listSize asz x.2) (off + u.hdr.lenSize + 8 + u.hdr.osz * u.hdr.offsets.length) u.objs
      ++ layoutUnits le asz (off + u.hdr.size (u.body le asz)) rest

end PyElf.Spec.Lists
