/-
  Standards side of C14, edge of the domain: a note whose descriptor is not followed by its
  padding (the extent — or the file — ends right after the descriptor, or earlier), and a bare
  note header.  gABI ch. 5 "Note Section": padding "is present, if necessary, to ensure 4-byte
  alignment for the next note entry" — after the last entry nothing needs aligning.
-/
import PyElf.Spec.Notes
namespace PyElf.Spec.C14
open PyElf PyElf.Spec

/-- a note header: `namesz`, `descsz`, `type` as three words -/
def encNhdr (c : ElfCfg) (namesz descsz type : Nat) : Bytes :=
  encNat c.le 4 namesz ++ encNat c.le 4 descsz ++ encNat c.le 4 type

/-- header, padded name and the descriptor WITHOUT the descriptor's padding -/
def encNoteBare (c : ElfCfg) (n : Note) : Bytes :=
  encNhdr c (nameField n.owner).length (encDesc c n.desc).length n.type
    ++ (nameField n.owner ++ zeros (pad4 (nameField n.owner).length)) ++ encDesc c n.desc

/-- the padded name field of a note whose name bytes are `nm` (the terminator included, if any) -/
def paddedLen (n : Nat) : Nat := n + pad4 n

/-- a note whose descriptor is cut short by the end of the file: header (declaring `descsz`), padded
    name, and the `avail` descriptor bytes the file still holds -/
def encNoteCut (c : ElfCfg) (owner : Option Bytes) (type descsz : Nat) (avail : Bytes) : Bytes :=
  encNhdr c (nameField owner).length descsz type
    ++ (nameField owner ++ zeros (pad4 (nameField owner).length)) ++ avail

/-- what the walk reports for it when the type calls for no structured descriptor: the declared sizes,
    the bytes that were there, and the size the header implies -/
def obsNoteCut (c : ElfCfg) (off : Nat) (owner : Option Bytes) (type descsz : Nat) (avail : Bytes) : Val :=
  .record [("n_namesz", .int (nameField owner).length), ("n_descsz", .int descsz),
           ("n_type", enumVal (typeTable c.core) type), ("n_offset", .int off),
           ("n_name", obsOwner owner), ("n_descdata", .bytes avail), ("n_desc", .bytes avail),
           ("n_size", .int ((12 + paddedLen (nameField owner).length + paddedLen descsz : Nat) : Int))]

end PyElf.Spec.C14
