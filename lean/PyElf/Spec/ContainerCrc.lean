/-
  C11 — the checksum of `.gnu_debuglink` (GDB manual, "Debugging Information in Separate Files":
  "a four-byte CRC checksum ... computed on the debugging information file's full contents by the
  function given below"): the reflected CRC-32 of ISO 3309 / ITU-T V.42 (polynomial 0xEDB88320,
  register preset to all ones, result complemented), with the running value as a second argument
  exactly as the manual's `gnu_debuglink_crc32 (crc, buf, len)` has it.

  The manual's 256-entry table is the bitwise division below applied to each byte value.
  No `Con`, no streams, no `Err`.
-/
import PyElf.Core.Basic
namespace PyElf.Spec.C11
open PyElf

/-- one bit of the reflected polynomial division -/
def crcBit (s : Nat) : Nat := if s % 2 = 1 then (s / 2) ^^^ 0xEDB88320 else s / 2

/-- one byte: `crc = crc32_table[(crc ^ *buf) & 0xff] ^ (crc >> 8)` -/
def crcByte (s : Nat) (b : UInt8) : Nat :=
  crcBit (crcBit (crcBit (crcBit (crcBit (crcBit (crcBit (crcBit (s ^^^ b.toNat))))))))

/-- `gnu_debuglink_crc32 (crc, buf, len)`: `crc = ~crc; while (len--) …; return ~crc` on 32 bits -/
def crc32 (data : Bytes) (init : Nat := 0) : Nat :=
  (data.foldl crcByte (init ^^^ 0xFFFFFFFF)) ^^^ 0xFFFFFFFF

-- the check value of CRC-32/ISO-HDLC ("123456789"), the empty string, and a continued computation
#guard crc32 "123456789".toUTF8.toList = 0xCBF43926
#guard crc32 [] = 0
#guard crc32 "6789".toUTF8.toList (crc32 "12345".toUTF8.toList) = 0xCBF43926

end PyElf.Spec.C11
