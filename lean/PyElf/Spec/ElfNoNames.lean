/-
  Files with sections and NO section-name string table (gABI, `e_shstrndx`: "If the file has no
  section name string table, this member holds the value SHN_UNDEF").  Such an image is well formed;
  its sections have no names.  `Spec.ElfDesc.wf`/`wfZ` do not cover it (`namesOk` asks for the names
  in the body of section `e_shstrndx`), and the library does not report it as encoded: it takes
  section 0 for the name table and reads every "name" from file offset `sh_offset[0] + sh_name`,
  i.e. from the ELF header (`'\x7fELF\x01\x01\x01'` for `sh_name` = 0) — the known finding
  `no-name-table` of C01.  This file defines the class, for the driver to recognise it; no theorem
  covers it.
-/
import PyElf.Spec.ElfImage
namespace PyElf.Spec.C01
open PyElf PyElf.Spec

/-- sections, `e_shstrndx` = SHN_UNDEF stored directly, section 0 carries no bytes, and every
    section is nameless (`sh_name` = 0) -/
def noNameTable (d : ElfDesc) : Bool :=
  decide (0 < d.sections.length) && d.shstrndx == 0 && !d.xShstrndx &&
  (match d.sections[0]? with
   | some s0 => s0.body.isNone
   | none => false) &&
  d.sections.all (fun s => s.name.isEmpty && s.nameOff == 0)

/-- `wfZ` without its two clauses about the name table (`namesOk`, reachable name offsets), for a
    description without one -/
def wfNoNames (env : Env) (d : ElfDesc) : Bool :=
  let n := d.sections.length
  let m := d.segments.length
  noNameTable d &&
  (d.cls == 32 || d.cls == 64) &&
  machineClasses.contains d.mclass && d.cfgOk env &&
  (match d.regions with
   | some rs => regionsDisjoint (sortRegions rs)
   | none => false) &&
  d.escapesOk &&
  decide ((d.S.Elf_Shdr.sizeof.getD 0) ≤ d.shentsize) &&
  (m == 0 || decide ((d.S.Elf_Phdr.sizeof.getD 0) ≤ d.phentsize)) &&
  decide (d.shoff + n * d.shentsize < 2 ^ 63) && decide (d.phoff + m * d.phentsize < 2 ^ 63) &&
  decide (n < 2 ^ 32) && decide (m < 2 ^ 32) &&
  decide (0 < d.shoff) && (m == 0 || decide (0 < d.phoff)) &&
  (List.range n).all (fun i => d.secOkZ env 4 i)

/-- The one shape of such a file that is common in practice: what the Linux kernel writes for a core
    dump with ≥ 0xffff segments (fs/binfmt_elf.c `fill_extnum_info`: `e_shnum` = 1, `e_shstrndx` =
    SHN_UNDEF, one SHT_NULL section header whose `sh_info` holds the real segment count) — and any
    file like it: exactly ONE section header, of type SHT_NULL and not flagged compressed, `e_shstrndx`
    = SHN_UNDEF stored directly; header, segments, entry sizes, placement and escapes as in `wfZ`.
    Nothing is asked of the section's name or body. -/
def extnumOnly (env : Env) (d : ElfDesc) : Bool :=
  let m := d.segments.length
  match d.sections with
  | [s0] =>
    (d.cls == 32 || d.cls == 64) && d.cfgOk env &&
    d.shstrndx == 0 && !d.xShstrndx && d.escapesOk &&
    decide ((d.S.Elf_Shdr.sizeof.getD 0) ≤ d.shentsize) &&
    (m == 0 || decide ((d.S.Elf_Phdr.sizeof.getD 0) ≤ d.phentsize)) &&
    decide (d.shoff + d.shentsize < 2 ^ 63) && decide (d.phoff + m * d.phentsize < 2 ^ 63) &&
    decide (0 < d.shoff) && (m == 0 || decide (0 < d.phoff)) &&
    (match d.S.Elf_Shdr.decodeRaw env [] s0.raw with
     | .ok h0 =>
       typeIn h0 ["SHT_NULL"] && fieldNat h0 "sh_flags" &&& 0x800 == 0 &&
       decide (fieldNat h0 "sh_offset" + s0.nameOff < 2 ^ 63)
     | .error _ => false)
  | _ => false

end PyElf.Spec.C01
