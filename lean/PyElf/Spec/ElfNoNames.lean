/-
  Files with sections and NO section-name string table (gABI, `e_shstrndx`: "If the file has no
  section name string table, this member holds the value SHN_UNDEF").  Such an image is well formed;
  its sections have no names: `Spec.ElfDesc.wf`/`wfZ` cover it (`namesOk`: every name empty, whatever
  `sh_name` says), and since the repair of the finding `no-name-table` (fixes/C01-no-name-table.patch)
  the library reports it as encoded.  This file keeps the description of the ONE shape of such a file
  that is common in practice, for a theorem that asks for nothing but that shape
  (`Props.C01.extnum_only`).
-/
import PyElf.Spec.ElfImage
namespace PyElf.Spec.C01
open PyElf PyElf.Spec

/-- The one shape of such a file that is common in practice: what the Linux kernel writes for a core
    dump with ≥ 0xffff segments (fs/binfmt_elf.c `fill_extnum_info`: `e_shnum` = 1, `e_shstrndx` =
    SHN_UNDEF, one SHT_NULL section header whose `sh_info` holds the real segment count) — and any
    file like it: exactly ONE section header, of type SHT_NULL and not flagged compressed, `e_shstrndx`
    = SHN_UNDEF stored directly; header, segments, entry sizes and escapes as in `wfZ`.
    Nothing is asked of the placement of the regions, nor of the section's `sh_name`, name or body. -/
def extnumOnly (env : Env) (d : ElfDesc) : Bool :=
  let m := d.segments.length
  match d.sections with
  | [s0] =>
    (d.cls == 32 || d.cls == 64) && d.cfgOk env &&
    d.shstrndx == 0 && !d.xShstrndx && d.escapesOk &&
    decide ((d.S.Elf_Shdr.sizeof.getD 0) ≤ d.shentsize) &&
    (m == 0 || decide ((d.S.Elf_Phdr.sizeof.getD 0) ≤ d.phentsize)) &&
    decide (d.shoff + d.shentsize < 2 ^ 63) && decide (d.phoff + m * d.phentsize < 2 ^ 63) &&
    decide (0 < d.shoff) && (m == 0 || decide (0 < d.phoff)) &&
    (match d.S.Elf_Shdr.decodeRaw env [] s0.raw with
     | .ok h0 => typeIn h0 ["SHT_NULL"] && fieldNat h0 "sh_flags" &&& 0x800 == 0
     | .error _ => false)
  | _ => false

end PyElf.Spec.C01
