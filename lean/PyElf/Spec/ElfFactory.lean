/-
  The struct factory and machine classification of the standards side, as the
  arguments `openElf` takes (what `ELFStructs(...)` + `create_advanced_structs`
  compute in the library).
-/
import PyElf.Spec.ElfStructs
namespace PyElf.Spec
open PyElf

def structsFor : ElfCfg → Option ElfStructs := fun c => some (elfStructs c)

def machineClassOfVal : Val → String
  | .str m => ((machineClass.find? (·.1 == m)).map (·.2)).getD "default"
  | _ => "default"

end PyElf.Spec
