/-
  C08 over whole files, standards side: which section of an abstract ELF description
  (Spec/ElfImage.lean) holds the relocations for a given section.

  gABI ch. 4 "Sections", Figure 4-12 (sh_link and sh_info interpretation): for SHT_REL / SHT_RELA
  `sh_link` is the section header index of the associated symbol table and `sh_info` the section
  header index of the section to which the relocation applies.  "Special Sections": `.relname` /
  `.relaname` — "Conventionally, name is supplied by the section to which the relocations apply".
-/
import PyElf.Spec.ElfImage
import PyElf.Spec.Reloc
namespace PyElf.Spec.C08
open PyElf PyElf.Spec

/-- gABI section type numbers -/
def SHT_SYMTAB : Int := 2
def SHT_RELA : Int := 4
def SHT_REL : Int := 9
def SHT_DYNSYM : Int := 11
def SHT_RELR : Int := 19

/-- `'.rel'`, `'.rela'` -/
def dotRel : Bytes := [0x2e, 0x72, 0x65, 0x6c]
def dotRela : Bytes := [0x2e, 0x72, 0x65, 0x6c, 0x61]

/-- the raw `sh_type` of a section description -/
def rawType (s : SecDesc) : Option Int :=
  match Fields.get? s.hdr "sh_type" with
  | some (.int n) => some n
  | _ => none

/-- the flavour of a relocation section: `some true` SHT_RELA, `some false` SHT_REL, `none` anything else -/
def relFlavour (s : SecDesc) : Option Bool :=
  if rawType s = some SHT_RELA then some true
  else if rawType s = some SHT_REL then some false
  else none

/-- does the section bear the conventional name of a relocation section for `target`? -/
def namedFor (s : SecDesc) (target : Bytes) : Bool := s.name == dotRel ++ target || s.name == dotRela ++ target

/-- is `s` a SHT_REL / SHT_RELA section conventionally named for `target`? -/
def relForName (target : Bytes) (s : SecDesc) : Bool := (relFlavour s).isSome && namedFor s target

/-- is `s` a SHT_REL / SHT_RELA section whose `sh_info` designates section `t`? -/
def relForInfo (t : Nat) (s : SecDesc) : Bool := (relFlavour s).isSome && getNatD s.hdr "sh_info" == t

/-- the relocation section FOR THE SECTION NAMED `target`, by name: index of the first SHT_REL / SHT_RELA section
    named `.rel<target>` or `.rela<target>` -/
def relSecByName (d : ElfDesc) (target : Bytes) : Option Nat := d.sections.findIdx? (relForName target)

/-- the relocation section FOR SECTION `t`, by the gABI's `sh_info`: index of the first SHT_REL / SHT_RELA section
    whose `sh_info` is `t` -/
def relSecByInfo (d : ElfDesc) (t : Nat) : Option Nat := d.sections.findIdx? (relForInfo t)

/-- the naming convention, for target section `t` named `target`: among the relocation sections, exactly those
    whose `sh_info` is `t` are named `.rel<target>` / `.rela<target>` -/
def namesFollowInfo (d : ElfDesc) (t : Nat) (target : Bytes) : Bool :=
  d.sections.all fun s => !(relFlavour s).isSome || (namedFor s target == (getNatD s.hdr "sh_info" == t))

/-! ### what a description must hold for a section to be relocated (decidable, so that concrete images can be checked) -/

/-- the relocation-entry configuration of a description (`Proofs.Reloc.relCfgOf d.cfg`) -/
def relCfgOfDesc (d : ElfDesc) : RelCfg := ⟨d.le, d.cls, decide (d.mclass = "EM_MIPS")⟩

/-- section `i` is a SHT_REL / SHT_RELA section of flavour `rela` whose body is the encoding of `es` (followed by
    anything), with `sh_size` the table's length, at an offset a reader can seek to -/
def relTableAt (d : ElfDesc) (i : Nat) (rela : Bool) (es : List RelEntry) : Bool :=
  match d.sections[i]? with
  | none => false
  | some rs =>
    let tab := encRelTable (relCfgOfDesc d) rela es
    decide (relFlavour rs = some rela) &&
    (match rs.body with
     | some b => tab.isPrefixOf b
     | none => false) &&
    decide (getNatD rs.hdr "sh_size" = tab.length) &&
    decide (getNatD rs.hdr "sh_offset" + es.length * relEntSize (relCfgOfDesc d) rela ≤ 2 ^ 63)

/-- section `i` is a SHT_RELR section whose body is the word stream `ws` (followed by anything) -/
def relrAt (d : ElfDesc) (i : Nat) (ws : List Nat) : Bool :=
  match d.sections[i]? with
  | none => false
  | some rs =>
    let tab := encRelr d.le (d.cls / 8) ws
    decide (rawType rs = some SHT_RELR) &&
    (match rs.body with
     | some b => tab.isPrefixOf b
     | none => false) &&
    decide (getNatD rs.hdr "sh_size" = tab.length) &&
    decide (getNatD rs.hdr "sh_offset" + ws.length * (d.cls / 8) ≤ 2 ^ 63)

/-- section `r` holds the relocation table `es` (`relTableAt`) and its `sh_link` designates a SHT_SYMTAB / SHT_DYNSYM
    section whose body is the value-only symbol table of `syms` (followed by anything), with the ElfN_Sym entry size -/
def relocPairAt (d : ElfDesc) (r : Nat) (rela : Bool) (es : List RelEntry) (syms : List Nat) : Bool :=
  relTableAt d r rela es &&
  match d.sections[r]? with
  | none => false
  | some rs =>
    match d.sections[getNatD rs.hdr "sh_link"]? with
    | none => false
    | some ys =>
      (decide (rawType ys = some SHT_SYMTAB) || decide (rawType ys = some SHT_DYNSYM)) &&
      (match ys.body with
       | some b => (syms.flatMap (rel_encSym d.le d.cls)).isPrefixOf b
       | none => false) &&
      decide (getNatD ys.hdr "sh_entsize" = symEntSize d.cls) &&
      decide (getNatD ys.hdr "sh_size" = syms.length * symEntSize d.cls) &&
      decide (getNatD ys.hdr "sh_offset" + syms.length * symEntSize d.cls ≤ 2 ^ 63)

/-- section `t` stores the bytes `sec` plainly (not SHF_COMPRESSED, `sh_size` their length, reachable by a seek) and
    its type is not one the reader's table calls SHT_NOBITS -/
def plainTargetAt (env : Env) (d : ElfDesc) (t : Nat) (sec : Bytes) : Bool :=
  match d.sections[t]? with
  | none => false
  | some ts =>
    decide (ts.body = some sec) && decide (getNatD ts.hdr "sh_size" = sec.length) &&
    decide (getNatD ts.hdr "sh_flags" &&& 0x800 = 0) &&
    decide (getNatD ts.hdr "sh_offset" + sec.length < 2 ^ 63) &&
    (match rawType ts with
     | some n => decide (env.enumDecode (shTypeTable d.mclass) n ≠ some "SHT_NOBITS")
     | none => false)

/-- every header of the image decodes (what enumerating the sections needs beyond `wfZ`, which does not constrain the
    program headers) -/
def observable (env : Env) (d : ElfDesc) : Bool := (d.observe env).toOption.isSome

end PyElf.Spec.C08
