/-
  ARM exception-handling tables, written from "Exception Handling ABI for the Arm Architecture"
  (EHABI32, IHI 0038): §4.4.2 / §5 (prel31, index table entries, EXIDX_CANTUNWIND), §6 (handler table
  entries: generic model, compact model, §6.3 the three ARM-defined personality routines), §10.3
  table 4 ("ARM-defined frame-unwinding instructions").

  The *text* of a mnemonic is not part of the EHABI; it follows llvm-readobj's printer, which the
  library cites, and is kept in one place (`render`).  What the instruction is, how many bytes it
  takes and which registers / amounts it names is table 4.
-/
import PyElf.Core.Val
import PyElf.Spec.Primitives
namespace PyElf.Spec.Ehabi
open PyElf PyElf.Spec

/-! ### prel31 -/

/-- the offset held in bits 0–30 of a word: 31-bit two's complement (sign bit = bit 30) -/
def prel31 (w : Nat) : Int := toSigned 31 (w % 2 ^ 31)

/-- the word (bit 31 clear) holding offset `d`, `-2^30 ≤ d < 2^30` -/
def encPrel31 (d : Int) : Nat := ofSigned 31 d

/-- place-relative expansion, reported modulo 2^64 -/
def expand (w place : Nat) : Nat := ((prel31 w + (place : Int)) % ((2 ^ 64 : Nat) : Int)).toNat

/-! ### unwinding instructions (table 4) -/

inductive Insn
  | vspAdd (n : Nat)                         -- vsp = vsp + n
  | vspSub (n : Nat)                         -- vsp = vsp - n
  | refuse                                   -- refuse to unwind
  | popGpr (regs : List Nat)                 -- pop core registers (by number)
  | vspReg (r : Nat)                         -- vsp = r[nnnn]
  | reservedArm                              -- 10011101
  | reservedWmmx                             -- 10011111
  | finish
  | spare
  | popRegs (pfx : String) (regs : List Nat) -- pop VFP d / WMMX wR / wCGR registers
  deriving Repr, DecidableEq

/-- registers `start … start+count` (register files have at most 32 members) -/
def regsRange (start count : Nat) : List Nat := (List.range' start (count + 1)).filter (· < 32)

/-- registers `base + i` for the bits `i < width` set in `mask` -/
def regsMask (mask base width : Nat) : List Nat :=
  ((List.range width).filter fun i => mask.testBit i).map (· + base)

/-- the complete ULEB128 number at the head of the byte string, and what follows it -/
def splitUleb : Bytes → Option (Bytes × Bytes)
  | [] => none
  | b :: bs => if b.toNat < 128 then some ([b], bs) else (splitUleb bs).map fun (u, r) => (b :: u, r)

/-- one instruction: its bytes, its meaning, the remaining bytes; `none` when the byte string ends
    inside the instruction -/
def step : Bytes → Option (Bytes × Insn × Bytes)
  | [] => none
  | op :: rest =>
    let o := op.toNat
    let one (i : Insn) : Option (Bytes × Insn × Bytes) := some ([op], i, rest)
    let two (f : Nat → Insn) : Option (Bytes × Insn × Bytes) :=
      match rest with
      | b :: r => some ([op, b], f b.toNat, r)
      | [] => none
    if o < 0x40 then one (.vspAdd (o % 64 * 4 + 4))                          -- 00xxxxxx
    else if o < 0x80 then one (.vspSub (o % 64 * 4 + 4))                     -- 01xxxxxx
    else if o < 0x90 then                                                    -- 1000iiii iiiiiiii
      two fun b => if o % 16 * 256 + b = 0 then .refuse else .popGpr (regsMask (o % 16 * 256 + b) 4 12)
    else if o = 0x9d then one .reservedArm
    else if o = 0x9f then one .reservedWmmx
    else if o < 0xa0 then one (.vspReg (o % 16))                             -- 1001nnnn
    else if o < 0xa8 then one (.popGpr (regsRange 4 (o % 8)))                -- 10100nnn
    else if o < 0xb0 then one (.popGpr (regsRange 4 (o % 8) ++ [14]))        -- 10101nnn
    else if o = 0xb0 then one .finish
    else if o = 0xb1 then                                                    -- 10110001 0000iiii
      two fun b => if b = 0 ∨ 16 ≤ b then .spare else .popGpr (regsMask b 0 4)
    else if o = 0xb2 then                                                    -- 10110010 uleb128
      match splitUleb rest with
      | some (u, r) => some (op :: u, .vspAdd (0x204 + ulebVal u * 4), r)
      | none => none
    else if o = 0xb3 then two fun b => .popRegs "d" (regsRange (b / 16) (b % 16))   -- FSTMFDX D[ssss]..
    else if o < 0xb8 then one .spare                                         -- 101101nn
    else if o < 0xc0 then one (.popRegs "d" (regsRange 8 (o % 8)))           -- 10111nnn
    else if o < 0xc6 then one (.popRegs "wR" (regsRange 10 (o % 8)))         -- 11000nnn, nnn ≠ 6, 7
    else if o = 0xc6 then two fun b => .popRegs "wR" (regsRange (b / 16) (b % 16))
    else if o = 0xc7 then                                                    -- 11000111 0000iiii
      two fun b => if b = 0 ∨ 16 ≤ b then .spare else .popRegs "wCGR" (regsMask b 0 4)
    else if o = 0xc8 then two fun b => .popRegs "d" (regsRange (16 + b / 16) (b % 16))
    else if o = 0xc9 then two fun b => .popRegs "d" (regsRange (b / 16) (b % 16))
    else if o < 0xd0 then one .spare                                         -- 11001yyy
    else if o < 0xd8 then one (.popRegs "d" (regsRange 8 (o % 8)))           -- 11010nnn
    else one .spare                                                          -- 11xxxyyy

/-- the whole byte-code array; `fuel` ≥ its length always suffices (every instruction has ≥ 1 byte) -/
def decodeFuel : Nat → Bytes → Option (List (Bytes × Insn))
  | _, [] => some []
  | 0, _ :: _ => none
  | fuel+1, bs =>
    match step bs with
    | none => none
    | some (ib, i, rest) => (decodeFuel fuel rest).map ((ib, i) :: ·)

def decode (bs : Bytes) : Option (List (Bytes × Insn)) := decodeFuel bs.length bs

def gprName : Nat → String
  | 0 => "r0" | 1 => "r1" | 2 => "r2" | 3 => "r3" | 4 => "r4" | 5 => "r5" | 6 => "r6" | 7 => "r7"
  | 8 => "r8" | 9 => "r9" | 10 => "r10" | 11 => "fp" | 12 => "ip" | 13 => "sp" | 14 => "lr" | 15 => "pc"
  | n => "r" ++ toString n

def braces (xs : List String) : String := "{" ++ ", ".intercalate xs ++ "}"

def render : Insn → String
  | .vspAdd n => "vsp = vsp + " ++ toString n
  | .vspSub n => "vsp = vsp - " ++ toString n
  | .refuse => "refuse to unwind"
  | .popGpr regs => "pop " ++ braces (regs.map gprName)
  | .vspReg r => "vsp = r" ++ toString r
  | .reservedArm => "reserved (ARM MOVrr)"
  | .reservedWmmx => "reserved (WiMMX MOVrr)"
  | .finish => "finish"
  | .spare => "spare"
  | .popRegs pfx regs => "pop " ++ braces (regs.map fun i => pfx ++ toString i)

/-- `ehabiStd`: the disassembly the EHABI prescribes, as (instruction bytes, mnemonic) pairs -/
def ehabiStd (bs : Bytes) : Option (List (Bytes × String)) :=
  (decode bs).map fun l => l.map fun (b, i) => (b, render i)

/-! ### index and handler table entries (§5, §6) -/

/-- what an index table entry says -/
inductive Decoded
  | corrupt
  | cantUnwind (fn : Nat)
  | compact (fn : Nat) (idx : Nat) (code : Bytes) (tableAt : Option Nat)
  | generic (fn : Nat) (pers : Nat)
  deriving Repr, DecidableEq

def byteOf (w sh : Nat) : UInt8 := UInt8.ofNat (w / 2 ^ sh % 256)

/-- the four bytes of a word, most significant first -/
def wordBytes (w : Nat) : Bytes := [byteOf w 24, byteOf w 16, byteOf w 8, byteOf w 0]

/-- `n` further words starting at `off` -/
def moreWords (mem : Nat → Option Nat) : Nat → Nat → Option Bytes
  | 0, _ => some []
  | n+1, off =>
    match mem off with
    | none => none
    | some w => (moreWords mem n (off + 4)).map (wordBytes w ++ ·)

/-- decode the index table entry at file offset `place`; `mem off` is the 32-bit word stored at
    `off` (`none`: the file ends before `off + 4`).  `none`: the entry refers outside the file.

    * first word: bit 31 must be 0; prel31 offset of the function;
    * second word: 1 = EXIDX_CANTUNWIND; bit 31 set = inline compact entry (personality index in
      bits 24–27 must be 0, bits 28–30 zero, three unwinding bytes); bit 31 clear = prel31 offset of the
      handler table entry;
    * handler table entry: bit 31 clear = generic model (prel31 offset of the personality routine);
      bit 31 set = compact model: bits 28–30 zero, index in bits 24–27: 0 → Su16 (three bytes),
      1/2 → Lu16/Lu32 (count of additional words in bits 16–23, two bytes, then the words). -/
def decodeEntry (mem : Nat → Option Nat) (place : Nat) : Option Decoded :=
  match mem place, mem (place + 4) with
  | some w0, some w1 =>
    if 2 ^ 31 ≤ w0 then some .corrupt
    else
      let fn := expand w0 place
      if w1 = 1 then some (.cantUnwind fn)
      else if 2 ^ 31 ≤ w1 then
        if w1 / 2 ^ 24 % 128 ≠ 0 then some .corrupt
        else some (.compact fn 0 [byteOf w1 16, byteOf w1 8, byteOf w1 0] none)
      else
        let tab := expand w1 (place + 4)
        match mem tab with
        | none => none
        | some t =>
          if t < 2 ^ 31 then some (.generic fn (expand t tab))
          else if t / 2 ^ 28 % 8 ≠ 0 then some .corrupt
          else
            let idx := t / 2 ^ 24 % 128
            if idx = 0 then some (.compact fn 0 [byteOf t 16, byteOf t 8, byteOf t 0] none)
            else if idx = 1 ∨ idx = 2 then
              match moreWords mem (t / 2 ^ 16 % 256) (tab + 4) with
              | none => none
              | some more => some (.compact fn idx ([byteOf t 8, byteOf t 0] ++ more) (some tab))
            else some .corrupt
  | _, _ => none

/-- the 32-bit word at `off` of a file image -/
def wordAt (le : Bool) (data : Bytes) (off : Nat) : Option Nat :=
  let s := (data.drop off).take 4
  if s.length = 4 then some (decNat le s) else none

/-- the canonical value of the API object for a decoded entry:
    function_offset, personality, bytecode_array, eh_table_offset, unwindable, corrupt.
    (`eh_table_offset` is reported for the long compact forms only — the library's convention.) -/
def entryRecord (fn pers code tab : Val) (unwindable corrupt : Bool) : Val :=
  .record [("function_offset", fn), ("personality", pers), ("bytecode_array", code),
           ("eh_table_offset", tab), ("unwindable", .bool unwindable), ("corrupt", .bool corrupt)]

def codeVal (code : Bytes) : Val := .list (code.map fun b => .int b.toNat)

def obsDecoded : Decoded → Val
  | .corrupt => entryRecord .none .none .none .none true true
  | .cantUnwind fn => entryRecord (.int fn) .none .none .none false false
  | .compact fn idx code tab =>
    entryRecord (.int fn) (.int idx) (codeVal code) (match tab with | some t => .int t | none => .none) true false
  | .generic fn pers => entryRecord (.int fn) (.int pers) .none .none true false

/-! ### abstract entries and their encoding (for the expectation stream) -/

inductive TableEntry
  | generic (persDisp : Int)                       -- personality routine at table entry + persDisp
  | su16 (b0 b1 b2 : UInt8)                        -- compact model, personality 0
  | long (idx : Nat) (b0 b1 : UInt8) (more : List Bytes)   -- Lu16 (1) / Lu32 (2); `more`: 4-byte words
  deriving Repr

inductive Entry
  | cantUnwind (fnDisp : Int)
  | inline (fnDisp : Int) (b0 b1 b2 : UInt8)
  | table (fnDisp : Int) (t : TableEntry)
  deriving Repr

def Entry.fnDisp : Entry → Int
  | .cantUnwind d | .inline d _ _ _ | .table d _ => d

def beWord (b : Bytes) : Nat := beNat b

def encTableEntry : TableEntry → List Nat
  | .generic d => [encPrel31 d]
  | .su16 b0 b1 b2 => [2 ^ 31 + beWord [b0, b1, b2]]
  | .long idx b0 b1 more => (2 ^ 31 + idx * 2 ^ 24 + more.length * 2 ^ 16 + beWord [b0, b1]) :: more.map beWord

def TableEntry.words (t : TableEntry) : Nat := (encTableEntry t).length

def dispOk (d : Int) : Bool := decide (-(2 ^ 30 : Int) ≤ d) && decide (d < (2 ^ 30 : Int))

def tableEntryWf : TableEntry → Bool
  | .generic d => dispOk d
  | .su16 _ _ _ => true
  | .long idx _ _ more => (idx == 1 || idx == 2) && decide (more.length < 256) && more.all (·.length == 4)

def entryWf : Entry → Bool
  | .cantUnwind d => dispOk d
  | .inline d _ _ _ => dispOk d
  | .table d t => dispOk d && tableEntryWf t

/-- the two index words of entry `e` located at `place`, whose table entry (if any) is at `tab` -/
def encIndex (e : Entry) (place tab : Nat) : List Nat :=
  match e with
  | .cantUnwind d => [encPrel31 d, 1]
  | .inline d b0 b1 b2 => [encPrel31 d, 2 ^ 31 + beWord [b0, b1, b2]]
  | .table d _ => [encPrel31 d, encPrel31 ((tab : Int) - ((place : Int) + 4))]

def Entry.tableWords : Entry → List Nat
  | .table _ t => encTableEntry t
  | _ => []

/-- offsets of the table entries when laid out consecutively from `tab0` -/
def tableOffsets (tab0 : Nat) : List Entry → List Nat
  | [] => []
  | e :: es => tab0 :: tableOffsets (tab0 + 4 * e.tableWords.length) es

def encWords (le : Bool) (ws : List Nat) : Bytes := ws.flatMap (encNat le 4)

def encExidxFrom (le : Bool) (place : Nat) : List Entry → List Nat → Bytes
  | e :: es, t :: ts => encWords le (encIndex e place t) ++ encExidxFrom le (place + 8) es ts
  | _, _ => []

/-- file image: `pre`, the index table, `gap`, the handler table entries in order, `rest` -/
def encImage (le : Bool) (pre gap rest : Bytes) (es : List Entry) : Bytes :=
  let exidxOff := pre.length
  let tab0 := exidxOff + 8 * es.length + gap.length
  pre ++ encExidxFrom le exidxOff es (tableOffsets tab0 es) ++ gap
    ++ encWords le (es.flatMap Entry.tableWords) ++ rest

def expectedFn (d : Int) (place : Nat) : Nat := ((d + (place : Int)) % ((2 ^ 64 : Nat) : Int)).toNat

/-- what must be observed for entry `e` at `place` with its table entry at `tab` -/
def obsEntry (e : Entry) (place tab : Nat) : Val :=
  match e with
  | .cantUnwind d => obsDecoded (.cantUnwind (expectedFn d place))
  | .inline d b0 b1 b2 => obsDecoded (.compact (expectedFn d place) 0 [b0, b1, b2] none)
  | .table d (.generic p) => obsDecoded (.generic (expectedFn d place) (expectedFn p tab))
  | .table d (.su16 b0 b1 b2) => obsDecoded (.compact (expectedFn d place) 0 [b0, b1, b2] none)
  | .table d (.long idx b0 b1 more) =>
    obsDecoded (.compact (expectedFn d place) idx ([b0, b1] ++ more.flatten) (some tab))

/-- the unwinding byte-code of an entry (none for cannot-unwind and generic entries) -/
def Entry.code : Entry → Option Bytes
  | .inline _ b0 b1 b2 => some [b0, b1, b2]
  | .table _ (.su16 b0 b1 b2) => some [b0, b1, b2]
  | .table _ (.long _ b0 b1 more) => some ([b0, b1] ++ more.flatten)
  | _ => none

end PyElf.Spec.Ehabi
