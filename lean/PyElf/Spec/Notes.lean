/-
  Standards side of C14: ELF notes (gABI ch. 5 "Note Section"), the GNU note
  descriptors (glibc abi-note, build-id, gold version, linux-abi draft §2.1.7
  "program property"), the Linux core-file notes NT_PRPSINFO / NT_FILE
  (linux/elfcore.h, fs/binfmt_elf.c) and stab records (binutils stabs.c, 12-byte
  `internal_nlist`).  Abstract objects, their encoders and the observation the
  property prescribes.  No `Con`, no streams, no `Err`.
-/
import PyElf.Core.Bundles
import PyElf.Spec.ElfStructs
namespace PyElf.Spec
open PyElf

/-! ### code tables (names are the library's API; numbers are the standards') -/

/-- note types of owner "GNU" (binutils include/elf/common.h) -/
def noteTypes : List (String × Int) :=
  [("NT_GNU_ABI_TAG", 1), ("NT_GNU_HWCAP", 2), ("NT_GNU_BUILD_ID", 3), ("NT_GNU_GOLD_VERSION", 4),
   ("NT_GNU_PROPERTY_TYPE_0", 5)]

/-- note types of core files (linux/elf.h); NT_SIGINFO = "SIGI", NT_FILE = "FILE" -/
def coreNoteTypes : List (String × Int) :=
  [("NT_PRSTATUS", 1), ("NT_FPREGSET", 2), ("NT_PRPSINFO", 3), ("NT_TASKSTRUCT", 4), ("NT_AUXV", 6),
   ("NT_SIGINFO", 0x53494749), ("NT_FILE", 0x46494c45)]

/-- first word of the ABI tag (glibc abi-tags) -/
def abiOsNames : List (String × Int) :=
  [("ELF_NOTE_OS_LINUX", 0), ("ELF_NOTE_OS_GNU", 1), ("ELF_NOTE_OS_SOLARIS2", 2), ("ELF_NOTE_OS_FREEBSD", 3),
   ("ELF_NOTE_OS_NETBSD", 4), ("ELF_NOTE_OS_SYLLABLE", 5)]

/-- program property types (linux-abi draft, x86-64 psABI, AArch64 ELF ABI) -/
def propTypes : List (String × Int) :=
  [("GNU_PROPERTY_STACK_SIZE", 1), ("GNU_PROPERTY_NO_COPY_ON_PROTECTED", 2),
   ("GNU_PROPERTY_X86_FEATURE_1_AND", 0xc0000002), ("GNU_PROPERTY_X86_ISA_1_NEEDED", 0xc0008002),
   ("GNU_PROPERTY_X86_FEATURE_2_USED", 0xc0010001), ("GNU_PROPERTY_X86_ISA_1_USED", 0xc0010002),
   ("GNU_PROPERTY_AARCH64_FEATURE_1_AND", 0xc0000000)]

/-- the name a code table gives a value (a later entry with the same value wins) -/
def nameOf (t : List (String × Int)) (v : Int) : Option String :=
  t.foldl (fun acc (k, x) => if x = v then some k else acc) none

/-- what an enumerated field shows: the name, or the number when the table has none -/
def enumVal (t : List (String × Int)) (v : Nat) : Val :=
  match nameOf t v with
  | some s => .str s
  | none => .int v

/-- the table that names `n_type`: core files use the core-note types -/
def typeTable (core : Bool) : List (String × Int) := if core then coreNoteTypes else noteTypes

/-! ### abstract notes -/

/-- one program property: type and payload -/
structure GnuProp where
  type : Nat
  data : Bytes
  deriving Repr, DecidableEq

/-- `struct elf_prpsinfo` -/
structure Prpsinfo where
  state : Nat
  sname : UInt8
  zomb : Nat
  nice : Nat
  flag : Nat
  uid : Nat
  gid : Nat
  pid : Nat
  ppid : Nat
  pgrp : Nat
  sid : Nat
  fname : Bytes       -- 16 bytes
  psargs : Bytes      -- 80 bytes
  deriving Repr, DecidableEq

/-- one mapping of an NT_FILE note -/
structure FileMap where
  vmStart : Nat
  vmEnd : Nat
  pageOffset : Nat
  name : Bytes        -- without the terminator
  deriving Repr, DecidableEq

inductive Desc
  | raw (d : Bytes)
  | abiTag (os major minor tiny : Nat)
  | buildId (id : Bytes)
  | goldVersion (v : Bytes)
  | props (ps : List GnuProp)
  | prpsinfo (p : Prpsinfo)
  | ntFile (pageSize : Nat) (maps : List FileMap)
  deriving Repr, DecidableEq

/-- a note: `owner = none` is `n_namesz = 0`; `some s` is the name field `s ++ [0]`
    (gABI: "namesz includes the terminating null") -/
structure Note where
  owner : Option Bytes
  type : Nat
  desc : Desc
  deriving Repr, DecidableEq

inductive DescKind | raw | abiTag | buildId | goldVersion | props | prpsinfo | ntFile
  deriving Repr, DecidableEq

def Desc.kind : Desc → DescKind
  | .raw _ => .raw | .abiTag .. => .abiTag | .buildId _ => .buildId | .goldVersion _ => .goldVersion
  | .props _ => .props | .prpsinfo _ => .prpsinfo | .ntFile .. => .ntFile

def gnuOwner : Bytes := [0x47, 0x4E, 0x55]     -- "GNU"

/-- which descriptor grammar a note has.  GNU notes are recognised by owner and type in
    files that are not core dumps; in a core dump the type alone names the process-info and
    file-map notes (binutils does the same for owners it has no own table for). -/
def descKind (core : Bool) (owner : Option Bytes) (type : Nat) : DescKind :=
  if core then
    if type = 3 then .prpsinfo else if type = 0x46494c45 then .ntFile else .raw
  else if owner = some gnuOwner then
    if type = 1 then .abiTag else if type = 3 then .buildId else if type = 4 then .goldVersion
    else if type = 5 then .props else .raw
  else .raw

/-! ### encoders -/

def zeros (n : Nat) : Bytes := List.replicate n 0

/-- bytes needed to reach the next multiple of `a` -/
def padTo (a n : Nat) : Nat := (a - n % a) % a

def pad4 (n : Nat) : Nat := padTo 4 n

/-- native word size in bytes; also the alignment of program properties -/
def wordSize (c : ElfCfg) : Nat := c.cls / 8

/-- 32-bit targets whose kernel uid/gid are 16 bits wide -/
def ugidSize (c : ElfCfg) : Nat :=
  if c.cls = 32 && ugid16 c.mclass then 2 else 4

def encProp (c : ElfCfg) (p : GnuProp) : Bytes :=
  encNat c.le 4 p.type ++ encNat c.le 4 p.data.length ++ p.data ++ zeros (padTo (wordSize c) p.data.length)

def encPrpsinfo (c : ElfCfg) (p : Prpsinfo) : Bytes :=
  encNat c.le 1 p.state ++ [p.sname] ++ encNat c.le 1 p.zomb ++ encNat c.le 1 p.nice
    ++ (if c.cls = 64 then zeros 4 else [])
    ++ encNat c.le (wordSize c) p.flag ++ encNat c.le (ugidSize c) p.uid ++ encNat c.le (ugidSize c) p.gid
    ++ encNat c.le 4 p.pid ++ encNat c.le 4 p.ppid ++ encNat c.le 4 p.pgrp ++ encNat c.le 4 p.sid
    ++ p.fname ++ p.psargs

def encFileMap (c : ElfCfg) (m : FileMap) : Bytes :=
  encNat c.le (wordSize c) m.vmStart ++ encNat c.le (wordSize c) m.vmEnd ++ encNat c.le (wordSize c) m.pageOffset

def encDesc (c : ElfCfg) : Desc → Bytes
  | .raw d => d
  | .abiTag os ma mi ti => encNat c.le 4 os ++ encNat c.le 4 ma ++ encNat c.le 4 mi ++ encNat c.le 4 ti
  | .buildId id => id
  | .goldVersion v => v
  | .props ps => ps.flatMap (encProp c)
  | .prpsinfo p => encPrpsinfo c p
  | .ntFile ps maps =>
      encNat c.le (wordSize c) maps.length ++ encNat c.le (wordSize c) ps
        ++ maps.flatMap (encFileMap c) ++ maps.flatMap (fun m => m.name ++ [0])

def nameField : Option Bytes → Bytes
  | none => []
  | some s => s ++ [0]

/-- header, name and descriptor, both padded to 4 bytes -/
def encNote (c : ElfCfg) (n : Note) : Bytes :=
  let nm := nameField n.owner
  let d := encDesc c n.desc
  encNat c.le 4 nm.length ++ encNat c.le 4 d.length ++ encNat c.le 4 n.type
    ++ (nm ++ zeros (pad4 nm.length)) ++ (d ++ zeros (pad4 d.length))

def encodeNotes (c : ElfCfg) (ns : List Note) : Bytes := ns.flatMap (encNote c)

/-! ### well-formedness -/

/-- properties whose payload is one 4-byte feature word -/
def featureWordTypes : List Nat := [0xc0000002, 0xc0008002, 0xc0010001, 0xc0010002, 0xc0000000]

def GnuProp.wf (p : GnuProp) : Bool :=
  decide (p.type < 2 ^ 32) && decide (p.data.length < 2 ^ 32)
    && (!(featureWordTypes.contains p.type) || decide (p.data.length = 4))

def Prpsinfo.wf (c : ElfCfg) (p : Prpsinfo) : Bool :=
  decide (p.state < 256) && decide (p.zomb < 256) && decide (p.nice < 256)
    && decide (p.flag < 256 ^ wordSize c) && decide (p.uid < 256 ^ ugidSize c) && decide (p.gid < 256 ^ ugidSize c)
    && decide (p.pid < 2 ^ 32) && decide (p.ppid < 2 ^ 32) && decide (p.pgrp < 2 ^ 32) && decide (p.sid < 2 ^ 32)
    && decide (p.fname.length = 16) && decide (p.psargs.length = 80)

def FileMap.wf (c : ElfCfg) (m : FileMap) : Bool :=
  decide (m.vmStart < 256 ^ wordSize c) && decide (m.vmEnd < 256 ^ wordSize c)
    && decide (m.pageOffset < 256 ^ wordSize c) && m.name.all (· != 0)

def Desc.wf (c : ElfCfg) : Desc → Bool
  | .raw _ => true
  | .abiTag os ma mi ti => decide (os < 2 ^ 32) && decide (ma < 2 ^ 32) && decide (mi < 2 ^ 32) && decide (ti < 2 ^ 32)
  | .buildId _ => true
  | .goldVersion _ => true
  | .props ps => ps.all GnuProp.wf
  | .prpsinfo p => p.wf c
  | .ntFile ps maps => decide (ps < 256 ^ wordSize c) && decide (maps.length < 256 ^ wordSize c) && maps.all (FileMap.wf c)

def ownerWf : Option Bytes → Bool
  | none => true
  | some s => s.all (· != 0)

/-- sizes fit their 32-bit fields, the owner is a C string, and the descriptor is of the
    grammar its owner/type call for -/
def Note.wf (c : ElfCfg) (n : Note) : Bool :=
  ownerWf n.owner && decide ((nameField n.owner).length < 2 ^ 32) && decide (n.type < 2 ^ 32)
    && decide ((encDesc c n.desc).length < 2 ^ 32)
    && decide (n.desc.kind = descKind c.core n.owner n.type) && n.desc.wf c

def cfgWf (c : ElfCfg) : Bool := decide (c.cls = 32) || decide (c.cls = 64)

/-! ### observation -/

/-- Latin-1 text of a byte string (the library's `bytes2str`) -/
def latin1 (b : Bytes) : String := String.ofList (b.map fun x => Char.ofNat x.toNat)

def propData (c : ElfCfg) (p : GnuProp) : Val :=
  if featureWordTypes.contains p.type then .int (decNat c.le p.data)
  else if p.type = 1 ∧ p.data.length = wordSize c then .int (decNat c.le p.data)
  else .bytes p.data

def obsProp (c : ElfCfg) (p : GnuProp) : Val :=
  .record [("pr_type", enumVal propTypes p.type), ("pr_datasz", .int p.data.length), ("pr_data", propData c p)]

def obsPrpsinfo (p : Prpsinfo) : Val :=
  .record [("pr_state", .int p.state), ("pr_sname", .bytes [p.sname]), ("pr_zomb", .int p.zomb),
           ("pr_nice", .int p.nice), ("pr_flag", .int p.flag), ("pr_uid", .int p.uid), ("pr_gid", .int p.gid),
           ("pr_pid", .int p.pid), ("pr_ppid", .int p.ppid), ("pr_pgrp", .int p.pgrp), ("pr_sid", .int p.sid),
           ("pr_fname", .bytes p.fname), ("pr_psargs", .bytes p.psargs)]

def obsFileMap (m : FileMap) : Val :=
  .record [("vm_start", .int m.vmStart), ("vm_end", .int m.vmEnd), ("page_offset", .int m.pageOffset)]

def obsDesc (c : ElfCfg) : Desc → Val
  | .raw d => .bytes d
  | .abiTag os ma mi ti =>
      .record [("abi_os", enumVal abiOsNames os), ("abi_major", .int ma), ("abi_minor", .int mi), ("abi_tiny", .int ti)]
  | .buildId id => .str id.toHex
  | .goldVersion v => .str (latin1 v)
  | .props ps => .list (ps.map (obsProp c))
  | .prpsinfo p => obsPrpsinfo p
  | .ntFile ps maps =>
      .record [("num_map_entries", .int maps.length), ("page_size", .int ps),
               ("Elf_Nt_File_Entry", .list (maps.map obsFileMap)),
               ("filename", .list (maps.map fun m => .bytes m.name))]

def obsOwner : Option Bytes → Val
  | none => .none
  | some s => .str (latin1 s)

/-- what iterating must yield for the note found at file offset `off` -/
def obsNote (c : ElfCfg) (off : Nat) (n : Note) : Val :=
  .record [("n_namesz", .int (nameField n.owner).length), ("n_descsz", .int (encDesc c n.desc).length),
           ("n_type", enumVal (typeTable c.core) n.type), ("n_offset", .int off),
           ("n_name", obsOwner n.owner), ("n_descdata", .bytes (encDesc c n.desc)),
           ("n_desc", obsDesc c n.desc), ("n_size", .int (encNote c n).length)]

/-- the notes of an extent starting at file offset `off`, in order, each exactly once -/
def obsNotes (c : ElfCfg) : Nat → List Note → List Val
  | _, [] => []
  | off, n :: ns => obsNote c off n :: obsNotes c (off + (encNote c n).length) ns

/-! ### stabs -/

structure Stab where
  strx : Nat
  type : Nat
  other : Nat
  desc : Nat
  value : Nat
  deriving Repr, DecidableEq

def Stab.wf (s : Stab) : Bool :=
  decide (s.strx < 2 ^ 32) && decide (s.type < 256) && decide (s.other < 256) && decide (s.desc < 2 ^ 16)
    && decide (s.value < 2 ^ 32)

def encStab (le : Bool) (s : Stab) : Bytes :=
  encNat le 4 s.strx ++ encNat le 1 s.type ++ encNat le 1 s.other ++ encNat le 2 s.desc ++ encNat le 4 s.value

def encodeStabs (le : Bool) (ss : List Stab) : Bytes := ss.flatMap (encStab le)

def obsStab (off : Nat) (s : Stab) : Val :=
  .record [("n_strx", .int s.strx), ("n_type", .int s.type), ("n_other", .int s.other), ("n_desc", .int s.desc),
           ("n_value", .int s.value), ("n_offset", .int off)]

def obsStabs : Nat → List Stab → List Val
  | _, [] => []
  | off, s :: ss => obsStab off s :: obsStabs (off + 12) ss

end PyElf.Spec
