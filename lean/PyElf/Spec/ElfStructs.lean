/-
  The ELF on-disk structures, written from the gABI (System V ABI, ch. 4–5), the
  Oracle Linker and Libraries Guide (versioning, syminfo, compression), the
  processor supplements (MIPS64 r_info), the Linux gABI extensions (GNU hash,
  property notes) and binutils (core notes).  Field *names* are the library's
  API; order, width, signedness, byte order and which code table names a field
  are the standards'.
-/
import PyElf.Core.Bundles
namespace PyElf.Spec
open PyElf

abbrev FieldSpec := Option String × Bool × Con

def mkFields : List FieldSpec → ConFields
  | [] => .nil
  | (n, e, c) :: rest => .cons n e c (mkFields rest)

def st (fs : List FieldSpec) : Con := .struct (mkFields fs)
def f (n : String) (c : Con) : FieldSpec := (some n, false, c)
def anon (c : Con) : FieldSpec := (none, false, c)
def emb (c : Con) : FieldSpec := (none, true, c)
def enumOf (c : Con) (t : String) (pass : Bool := true) : Con := .enum c t pass
def ctx (k : String) : Expr := .ctx k
def lit (n : Int) : Expr := .lit n

def mkCases : List (Val × Con) → ConCases
  | [] => .nil
  | (k, c) :: rest => .cons k c (mkCases rest)

/-- which p_type table a machine class uses -/
def pTypeTable : String → String
  | "EM_ARM" => "ENUM_P_TYPE_ARM"
  | "EM_AARCH64" => "ENUM_P_TYPE_AARCH64"
  | "EM_MIPS" => "ENUM_P_TYPE_MIPS"
  | "EM_RISCV" => "ENUM_P_TYPE_RISCV"
  | _ => "ENUM_P_TYPE_BASE"

def shTypeTable : String → String
  | "EM_ARM" => "ENUM_SH_TYPE_ARM"
  | "EM_AARCH64" => "ENUM_SH_TYPE_AARCH64"
  | "EM_X86_64" => "ENUM_SH_TYPE_AMD64"
  | "EM_MIPS" => "ENUM_SH_TYPE_MIPS"
  | "EM_RISCV" => "ENUM_SH_TYPE_RISCV"
  | _ => "ENUM_SH_TYPE_BASE"

/-- dynamic tags: the common set, extended by the machine's own tags, or (for machines
    without their own) by the Solaris tags when the OS ABI says so -/
def dTagTable (mclass : String) (solaris : Bool) : String :=
  match mclass with
  | "EM_MIPS" => "ENUM_D_TAG_COMMON+ENUM_D_TAG_MIPS"
  | "EM_MIPS_RS3_LE" => "ENUM_D_TAG_COMMON+ENUM_D_TAG_MIPS"
  | "EM_AARCH64" => "ENUM_D_TAG_COMMON+ENUM_D_TAG_AARCH64"
  | _ => if solaris then "ENUM_D_TAG_COMMON+ENUM_D_TAG_SOLARIS" else "ENUM_D_TAG_COMMON"

/-- 32-bit targets whose kernel uid/gid type is 16 bits (core-file prpsinfo) -/
def ugid16 : String → Bool
  | "EM_SPARC" => true      -- class of MN10300, ARM*, CRIS, 386, M32R, 68K, S390, SH, SPARC
  | "EM_ARM" => true
  | _ => false

def elfStructs (c : ElfCfg) : ElfStructs :=
  let le := c.le
  let w := c.cls / 8                         -- native word size in bytes
  let byte := Con.uint 1 le
  let half := Con.uint 2 le
  let word := Con.uint 4 le
  let word64 := Con.uint 8 le
  let addr := Con.uint w le                  -- Elf_Addr = Elf_Off = Elf_Xword (32: Word)
  let sword := Con.sint 4 le
  let sxword := Con.sint w le
  let ugid := if c.cls = 32 && ugid16 c.mclass then half else word
  let mips64 := c.cls = 64 && c.mclass = "EM_MIPS"
  -- r_info decomposition (gABI ELF32_R_SYM/TYPE, ELF64_R_SYM/TYPE; MIPS64 psABI packed layout)
  let relInfo : List FieldSpec :=
    if c.cls = 32 then
      [f "r_info" addr,
       f "r_info_sym" (.value (.band (.shr (ctx "r_info") (lit 8)) (lit 0xFFFFFF))),
       f "r_info_type" (.value (.band (ctx "r_info") (lit 0xFF)))]
    else if mips64 then
      [f "r_sym" word, f "r_ssym" byte, f "r_type3" byte, f "r_type2" byte, f "r_type" byte,
       f "r_info_sym" (.value (ctx "r_sym")), f "r_info_ssym" (.value (ctx "r_ssym")),
       f "r_info_type" (.value (ctx "r_type")), f "r_info_type2" (.value (ctx "r_type2")),
       f "r_info_type3" (.value (ctx "r_type3")),
       f "r_info" (.value (.bor (.bor (.bor (.bor (.shl (ctx "r_sym") (lit 32)) (.shl (ctx "r_ssym") (lit 24)))
          (.shl (ctx "r_type3") (lit 16))) (.shl (ctx "r_type2") (lit 8))) (ctx "r_type")))]
    else
      [f "r_info" addr,
       f "r_info_sym" (.value (.band (.shr (ctx "r_info") (lit 32)) (lit 0xFFFFFFFF))),
       f "r_info_type" (.value (.band (ctx "r_info") (lit 0xFFFFFFFF)))]
  let stInfo := Con.bits [⟨some "bind", 4, some ("ENUM_ST_INFO_BIND", true)⟩, ⟨some "type", 4, some ("ENUM_ST_INFO_TYPE", true)⟩]
  let stOther := Con.bits [⟨some "local", 3, some ("ENUM_ST_LOCAL", true)⟩, ⟨none, 2, none⟩,
                           ⟨some "visibility", 3, some ("ENUM_ST_VISIBILITY", true)⟩]
  let shndx := enumOf half "ENUM_ST_SHNDX"
  -- GNU property: data is a word for the processor-feature properties (size 4) and for
  -- GNU_PROPERTY_STACK_SIZE of native word size, raw bytes otherwise; padded to the class alignment
  let propKey : Expr :=
    .ite (.not (.isStr (ctx "pr_type"))) .none
      (.ite (.startsWith (ctx "pr_type") "GNU_PROPERTY_X86_")
        (.tcons (.str "GNU_PROPERTY_X86_*") (.tcons (lit 4) (.tcons (lit 0) .tnil)))
        (.ite (.startsWith (ctx "pr_type") "GNU_PROPERTY_AARCH64_")
          (.tcons (.str "GNU_PROPERTY_AARCH64_*") (.tcons (lit 4) (.tcons (lit 0) .tnil)))
          (.ite (.startsWith (ctx "pr_type") "GNU_PROPERTY_RISCV_")
            (.tcons (.str "GNU_PROPERTY_RISCV_*") (.tcons (lit 4) (.tcons (lit 0) .tnil)))
            (.tcons (ctx "pr_type") (.tcons (ctx "pr_datasz") (.tcons (lit c.cls) .tnil))))))
  let propAlign : Int := if c.cls = 32 then 2 else 3
  let propPad : Expr :=
    .sub (.add (.bor (.sub (ctx "pr_datasz") (lit 1)) (.sub (.shl (lit 1) (lit propAlign)) (lit 1))) (lit 1))
      (ctx "pr_datasz")
  { Elf_byte := byte, Elf_half := half, Elf_word := word, Elf_word64 := word64, Elf_addr := addr,
    Elf_offset := addr, Elf_sword := sword, Elf_xword := addr, Elf_sxword := sxword, Elf_ugid := ugid,
    Elf_uleb128 := .uleb, Elf_ntbs := .cstring,
    Elf_Ehdr := st [
      f "e_ident" (st [f "EI_MAG" (.array (lit 4) byte),
                       f "EI_CLASS" (enumOf byte "ENUM_EI_CLASS" false),
                       f "EI_DATA" (enumOf byte "ENUM_EI_DATA" false),
                       f "EI_VERSION" (enumOf byte "ENUM_E_VERSION"),
                       f "EI_OSABI" (enumOf byte "ENUM_EI_OSABI"),
                       f "EI_ABIVERSION" byte,
                       anon (.padding (lit 7) false)]),
      f "e_type" (enumOf half "ENUM_E_TYPE"), f "e_machine" (enumOf half "ENUM_E_MACHINE"),
      f "e_version" (enumOf word "ENUM_E_VERSION"), f "e_entry" addr, f "e_phoff" addr, f "e_shoff" addr,
      f "e_flags" word, f "e_ehsize" half, f "e_phentsize" half, f "e_phnum" half, f "e_shentsize" half,
      f "e_shnum" half, f "e_shstrndx" half],
    Elf_Phdr :=
      if c.cls = 32 then
        st [f "p_type" (enumOf word (pTypeTable c.mclass)), f "p_offset" addr, f "p_vaddr" addr, f "p_paddr" addr,
            f "p_filesz" word, f "p_memsz" word, f "p_flags" word, f "p_align" word]
      else
        st [f "p_type" (enumOf word (pTypeTable c.mclass)), f "p_flags" word, f "p_offset" addr, f "p_vaddr" addr,
            f "p_paddr" addr, f "p_filesz" addr, f "p_memsz" addr, f "p_align" addr],
    Elf_Shdr := st [f "sh_name" word, f "sh_type" (enumOf word (shTypeTable c.mclass)), f "sh_flags" addr,
                    f "sh_addr" addr, f "sh_offset" addr, f "sh_size" addr, f "sh_link" word, f "sh_info" word,
                    f "sh_addralign" addr, f "sh_entsize" addr],
    Elf_Chdr :=
      if c.cls = 64 then
        st [f "ch_type" (enumOf word "ENUM_ELFCOMPRESS_TYPE"), f "ch_reserved" word, f "ch_size" addr, f "ch_addralign" addr]
      else
        st [f "ch_type" (enumOf word "ENUM_ELFCOMPRESS_TYPE"), f "ch_size" addr, f "ch_addralign" addr],
    Elf_Rel := st (f "r_offset" addr :: relInfo),
    Elf_Rela := st (f "r_offset" addr :: relInfo ++ [f "r_addend" sxword]),
    Elf_Relr := st [f "r_offset" addr],
    Elf_Dyn := st [f "d_tag" (enumOf sxword (dTagTable c.mclass c.solaris)), f "d_val" addr,
                   f "d_ptr" (.value (ctx "d_val"))],
    Elf_Sym :=
      if c.cls = 32 then
        st [f "st_name" word, f "st_value" addr, f "st_size" word, f "st_info" stInfo, f "st_other" stOther,
            f "st_shndx" shndx]
      else
        st [f "st_name" word, f "st_info" stInfo, f "st_other" stOther, f "st_shndx" shndx, f "st_value" addr,
            f "st_size" addr],
    Elf_Sunw_Syminfo := st [f "si_boundto" (enumOf half "ENUM_SUNW_SYMINFO_BOUNDTO"), f "si_flags" half],
    Elf_Verneed := st [f "vn_version" half, f "vn_cnt" half, f "vn_file" word, f "vn_aux" word, f "vn_next" word],
    Elf_Vernaux := st [f "vna_hash" word, f "vna_flags" half, f "vna_other" half, f "vna_name" word, f "vna_next" word],
    Elf_Verdef := st [f "vd_version" half, f "vd_flags" half, f "vd_ndx" half, f "vd_cnt" half, f "vd_hash" word,
                      f "vd_aux" word, f "vd_next" word],
    Elf_Verdaux := st [f "vda_name" word, f "vda_next" word],
    Elf_Versym := st [f "ndx" (enumOf half "ENUM_VERSYM")],
    Elf_abi := st [f "abi_os" (enumOf word "ENUM_NOTE_ABI_TAG_OS"), f "abi_major" word, f "abi_minor" word,
                   f "abi_tiny" word],
    Elf_Prop := st [
      f "pr_type" (enumOf word "ENUM_NOTE_GNU_PROPERTY_TYPE"), f "pr_datasz" word,
      f "pr_data" (.switch propKey (mkCases [
          (.list [.str "GNU_PROPERTY_STACK_SIZE", .int 4, .int 32], word),
          (.list [.str "GNU_PROPERTY_STACK_SIZE", .int 8, .int 64], word64),
          (.list [.str "GNU_PROPERTY_X86_*", .int 4, .int 0], word),
          (.list [.str "GNU_PROPERTY_AARCH64_*", .int 4, .int 0], word),
          (.list [.str "GNU_PROPERTY_RISCV_*", .int 4, .int 0], word)])
        (.bytesN (ctx "pr_datasz"))),
      anon (.padding propPad false)],
    Elf_Nhdr := st [f "n_namesz" word, f "n_descsz" word,
                    f "n_type" (enumOf word (if c.core then "ENUM_CORE_NOTE_N_TYPE" else "ENUM_NOTE_N_TYPE"))],
    Elf_Prpsinfo :=
      st ([f "pr_state" byte, f "pr_sname" (.bytesN (lit 1)), f "pr_zomb" byte, f "pr_nice" byte]
          ++ (if c.cls = 64 then [anon (.padding (lit 4) false)] else [])
          ++ [f "pr_flag" addr, f "pr_uid" ugid, f "pr_gid" ugid, f "pr_pid" word, f "pr_ppid" word,
              f "pr_pgrp" word, f "pr_sid" word, f "pr_fname" (.bytesN (lit 16)), f "pr_psargs" (.bytesN (lit 80))]),
    Elf_Nt_File := st [
      f "num_map_entries" addr, f "page_size" addr,
      f "Elf_Nt_File_Entry" (.array (ctx "num_map_entries")
          (st [f "vm_start" addr, f "vm_end" addr, f "page_offset" addr])),
      f "filename" (.array (ctx "num_map_entries") .cstring)],
    Elf_Stabs := st [f "n_strx" word, f "n_type" byte, f "n_other" byte, f "n_desc" half, f "n_value" word],
    Elf_Attr_Subsection_Header := st [f "length" word, f "vendor_name" .cstring],
    Elf_Arm_Attribute_Tag := st [f "tag" (enumOf .uleb "ENUM_ATTR_TAG_ARM" false)],
    Elf_RiscV_Attribute_Tag := st [f "tag" (enumOf .uleb "ENUM_ATTR_TAG_RISCV" false)],
    Elf_Hash := st [f "nbuckets" word, f "nchains" word, f "buckets" (.array (ctx "nbuckets") word),
                    f "chains" (.array (ctx "nchains") word)],
    Gnu_Hash := st [f "nbuckets" word, f "symoffset" word, f "bloom_size" word, f "bloom_shift" word,
                    f "bloom" (.array (ctx "bloom_size") addr), f "buckets" (.array (ctx "nbuckets") word)],
    Gnu_debuglink := st [f "filename" .cstring,
                         anon (.padding (.sub (lit 3) (.fmod (.len (ctx "filename")) (lit 4))) true),
                         f "checksum" word] }

def machineClasses : List String :=
  ["default", "EM_SPARC", "EM_MIPS", "EM_MIPS_RS3_LE", "EM_ARM", "EM_X86_64", "EM_AARCH64", "EM_RISCV"]

/-- machines whose structures differ from the generic ones, with the class they fall in -/
def machineClass : List (String × String) :=
  [("EM_SPARC", "EM_SPARC"), ("EM_386", "EM_SPARC"), ("EM_68K", "EM_SPARC"), ("EM_MIPS", "EM_MIPS"),
   ("EM_MIPS_RS3_LE", "EM_MIPS_RS3_LE"), ("EM_S390", "EM_SPARC"), ("EM_ARM", "EM_ARM"), ("EM_SH", "EM_SPARC"),
   ("EM_X86_64", "EM_X86_64"), ("EM_CRIS", "EM_SPARC"), ("EM_M32R", "EM_SPARC"), ("EM_MN10300", "EM_SPARC"),
   ("EM_AARCH64", "EM_AARCH64"), ("EM_RISCV", "EM_RISCV")]

def allElfCfgs : List ElfCfg :=
  machineClasses.flatMap fun m =>
    [true, false].flatMap fun le =>
      [32, 64].flatMap fun cls =>
        [false, true].flatMap fun sol =>
          [false, true].map fun core => ⟨le, cls, m, sol, core⟩

end PyElf.Spec
