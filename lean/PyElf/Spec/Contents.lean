/-
  C02, standards side: what the contents of sections and segments, string-table
  entries, address-to-offset mapping and section-in-segment containment ARE
  (gABI ch. 4 "Sections", "String Table", ch. 5 "Program Header"; Oracle Linker
  and Libraries Guide / gABI "Section Compression"; binutils
  include/elf/internal.h ELF_SECTION_IN_SEGMENT_STRICT).

  Everything is stated over numeric on-disk values and the file image; nothing
  here mentions streams, `Con` parsing or errors.  `inflate` (zlib) is a parameter.
-/
import PyElf.Core.Basic
import PyElf.Spec.Primitives
namespace PyElf.Spec.C02
open PyElf PyElf.Spec

/-! ### constants (gABI, Linux gABI extensions, binutils include/elf/common.h) -/

/-- the section flags the property depends on -/
structure ShFlags where
  alloc : Nat
  tls : Nat
  compressed : Nat
  deriving DecidableEq, Repr

/-- gABI: SHF_ALLOC = 0x2, SHF_TLS = 0x400, SHF_COMPRESSED = 0x800 -/
def shFlags : ShFlags := ⟨0x2, 0x400, 0x800⟩

abbrev SHT_NOBITS : Nat := 8
abbrev ELFCOMPRESS_ZLIB : Nat := 1

abbrev PT_LOAD : Nat := 1
abbrev PT_DYNAMIC : Nat := 2
abbrev PT_INTERP : Nat := 3
abbrev PT_NOTE : Nat := 4
abbrev PT_PHDR : Nat := 6
abbrev PT_TLS : Nat := 7
abbrev PT_GNU_EH_FRAME : Nat := 0x6474e550
abbrev PT_GNU_STACK : Nat := 0x6474e551
abbrev PT_GNU_RELRO : Nat := 0x6474e552
abbrev PT_GNU_SFRAME : Nat := 0x6474e554
abbrev PT_GNU_MBIND_LO : Nat := 0x6474e555
abbrev PT_GNU_MBIND_HI : Nat := 0x6474e555 + 4095

/-! ### section contents -/

/-- compression header (gABI "Section Compression"): Elf32_Chdr is three words; Elf64_Chdr has a
    reserved word after `ch_type` and 8-byte size/alignment -/
structure Chdr where
  chType : Nat
  chSize : Nat
  chAlign : Nat
  deriving DecidableEq, Repr

def chdrSize (cls : Nat) : Nat := if cls = 64 then 24 else 12

def encChdr (cls : Nat) (le : Bool) (c : Chdr) : Bytes :=
  if cls = 64 then encNat le 4 c.chType ++ encNat le 4 0 ++ encNat le 8 c.chSize ++ encNat le 8 c.chAlign
  else encNat le 4 c.chType ++ encNat le 4 c.chSize ++ encNat le 4 c.chAlign

def Chdr.fits (cls : Nat) (c : Chdr) : Bool :=
  decide (c.chType < 2 ^ 32) && decide (c.chSize < 2 ^ cls) && decide (c.chAlign < 2 ^ cls)

/-- the part of a section header the property speaks about (numeric, as on disk) -/
structure Sec where
  shType : Nat
  flags : Nat
  addr : Nat
  offset : Nat
  size : Nat
  addralign : Nat
  deriving DecidableEq, Repr

def Sec.nobits (s : Sec) : Bool := s.shType == SHT_NOBITS
def Sec.compressed (s : Sec) : Bool := s.flags &&& shFlags.compressed != 0
def Sec.alloc (s : Sec) : Bool := s.flags &&& shFlags.alloc != 0
def Sec.tls (s : Sec) : Bool := s.flags &&& shFlags.tls != 0

/-- the file bytes of an extent -/
def extent (file : Bytes) (off size : Nat) : Bytes := (file.drop off).take size

/-- logical size / alignment: the compression header's for a compressed section (`ch`), the
    section header's otherwise -/
def logicalSize (s : Sec) (ch : Option Chdr) : Nat :=
  match s.compressed, ch with
  | true, some c => c.chSize
  | _, _ => s.size

def logicalAlign (s : Sec) (ch : Option Chdr) : Nat :=
  match s.compressed, ch with
  | true, some c => c.chAlign
  | _, _ => s.addralign

/-- the compressed payload: what follows the compression header inside the section's extent -/
def payload (cls : Nat) (file : Bytes) (s : Sec) : Bytes :=
  extent file (s.offset + chdrSize cls) (s.size - chdrSize cls)

/-- What a section's data is: `some bytes`, or `none` when the section must be rejected
    (unknown compression type, or a stream whose inflated size is not the declared one).
    `ch` is the compression header found at the start of a compressed section. -/
def dataOf (inflate : Bytes → Option Bytes) (cls : Nat) (file : Bytes) (s : Sec) (ch : Option Chdr) :
    Option Bytes :=
  if s.nobits then some (List.replicate s.size 0)
  else if s.compressed then
    match ch with
    | some c =>
      if c.chType = ELFCOMPRESS_ZLIB then
        match inflate (payload cls file s) with
        | some p => if p.length = c.chSize then some p else none
        | none => none
      else none
    | none => none
  else some (extent file s.offset s.size)

/-! ### segments -/

structure Seg where
  ptype : Nat
  offset : Nat
  vaddr : Nat
  filesz : Nat
  memsz : Nat
  deriving DecidableEq, Repr

def segData (file : Bytes) (g : Seg) : Bytes := extent file g.offset g.filesz

/-- the interpreter path: the NUL-terminated string at the segment start -/
def interpName (file : Bytes) (g : Seg) : Option Bytes := firstNul (file.drop g.offset)

/-! ### string tables -/

/-- the NUL-terminated string at `off` in a table -/
def stringAt (tbl : Bytes) (off : Nat) : Option Bytes := firstNul (tbl.drop off)

/-! ### virtual address → file offset -/

/-- offsets of `[start, start+size)` in exactly those PT_LOAD segments whose file-backed address
    range wholly contains it, in program-header order -/
def addrOffsets (segs : List Seg) (start size : Nat) : List Nat :=
  (segs.filter fun g => g.ptype == PT_LOAD && decide (g.vaddr ≤ start) &&
      decide (start + size ≤ g.vaddr + g.filesz)).map fun g => start - g.vaddr + g.offset

/-! ### section in segment (binutils ELF_SECTION_IN_SEGMENT_STRICT)

The four condition groups, in ideal (unbounded) integer arithmetic.  binutils evaluates
`p_filesz - 1` / `p_memsz - 1` in unsigned arithmetic, so for an empty segment the "strict"
comparison is against the all-ones value and always holds; that wrap is made explicit here.
The `.tbss` size rule (ELF_SECTION_SIZE) and the PT_DYNAMIC/PT_NOTE zero-size clause of the full
macro are not part of this predicate (see `macro64` below for the full macro). -/

/-- group 1: segment type against SHF_TLS -/
def typeOk (g : Seg) (s : Sec) : Bool :=
  (s.tls && (g.ptype == PT_TLS || g.ptype == PT_GNU_RELRO || g.ptype == PT_LOAD)) ||
  (!s.tls && g.ptype != PT_TLS && g.ptype != PT_PHDR)

/-- PT_LOAD "and similar" segments, which hold only SHF_ALLOC sections -/
def loadLike (p : Nat) : Bool :=
  p == PT_LOAD || p == PT_DYNAMIC || p == PT_GNU_EH_FRAME || p == PT_GNU_RELRO || p == PT_GNU_STACK ||
  p == PT_GNU_SFRAME || (decide (PT_GNU_MBIND_LO ≤ p) && decide (p ≤ PT_GNU_MBIND_HI))

/-- group 2: SHF_ALLOC against the segment type -/
def allocOk (g : Seg) (s : Sec) : Bool := !(!s.alloc && loadLike g.ptype)

/-- containment of `[x, x+size)` in a segment extent `[base, base+len)`, strict: an empty
    section does not match at the very end of a non-empty segment -/
def within (x size base len : Nat) : Bool :=
  decide (base ≤ x) && decide (x - base + size ≤ len) && (len == 0 || decide (x - base ≤ len - 1))

/-- group 3: file extent (sections other than SHT_NOBITS) -/
def fileOk (g : Seg) (s : Sec) : Bool := s.nobits || within s.offset s.size g.offset g.filesz

/-- group 4: address extent (SHF_ALLOC sections) -/
def vmaOk (g : Seg) (s : Sec) : Bool := !s.alloc || within s.addr s.size g.vaddr g.memsz

def inSegmentStrict (g : Seg) (s : Sec) : Bool := typeOk g s && allocOk g s && fileOk g s && vmaOk g s

/-! #### the C macro, evaluated as C does (unsigned 64-bit `bfd_vma`) -/

abbrev W : Nat := 18446744073709551616   -- 2^64
/-- unsigned 64-bit subtraction / addition -/
def sub64 (a b : Nat) : Nat := (a + W - b % W) % W
def add64 (a b : Nat) : Nat := (a + b) % W

def tbssSpecial (g : Seg) (s : Sec) : Bool := s.tls && s.nobits && g.ptype != PT_TLS
def sectionSize (g : Seg) (s : Sec) : Nat := if tbssSpecial g s then 0 else s.size

/-- `ELF_SECTION_IN_SEGMENT_1 (sec, seg, check_vma = 1, strict = 1)` (binutils 2.40) -/
def macro64 (g : Seg) (s : Sec) : Bool :=
  typeOk g s && allocOk g s &&
  (s.nobits ||
    (decide (g.offset ≤ s.offset) && decide (sub64 s.offset g.offset ≤ sub64 g.filesz 1) &&
     decide (add64 (sub64 s.offset g.offset) (sectionSize g s) ≤ g.filesz))) &&
  (!s.alloc ||
    (decide (g.vaddr ≤ s.addr) && decide (sub64 s.addr g.vaddr ≤ sub64 g.memsz 1) &&
     decide (add64 (sub64 s.addr g.vaddr) (sectionSize g s) ≤ g.memsz))) &&
  ((g.ptype != PT_DYNAMIC && g.ptype != PT_NOTE) || s.size != 0 || g.memsz == 0 ||
    (!s.alloc || (decide (g.vaddr < s.addr) && decide (sub64 s.addr g.vaddr < g.memsz))))

/-- the part of the macro's domain where the clauses the property does not enumerate are inert:
    not a `.tbss` in a non-TLS segment, and not an empty section in PT_DYNAMIC / PT_NOTE -/
def plainCase (g : Seg) (s : Sec) : Bool :=
  !tbssSpecial g s && ((g.ptype != PT_DYNAMIC && g.ptype != PT_NOTE) || s.size != 0)

def fits64 (g : Seg) (s : Sec) : Bool :=
  decide (g.offset < W) && decide (g.vaddr < W) && decide (g.filesz < W) && decide (g.memsz < W) &&
  decide (s.offset < W) && decide (s.addr < W) && decide (s.size < W)

end PyElf.Spec.C02
