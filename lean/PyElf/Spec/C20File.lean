/-
  C20 over whole files, standards side: when does an abstract ELF description (Spec/ElfImage.lean)
  carry a build-attributes section / an exception-index table with its handler table, and which of
  its sections are exception-index tables.  Decidable (`Bool`) so that the hypotheses of the
  whole-file theorems can be evaluated on every generated description.

  Section type numbers: psABI for the Arm architecture (SHT_ARM_EXIDX = 0x70000001,
  SHT_ARM_ATTRIBUTES = 0x70000003), RISC-V psABI (SHT_RISCV_ATTRIBUTES = 0x70000003); the machine
  decides which processor-specific table applies.  gABI: SHF_COMPRESSED = 0x800.
-/
import PyElf.Spec.ElfImage
import PyElf.Spec.Attributes
import PyElf.Spec.Ehabi
namespace PyElf.Spec.C20
open PyElf PyElf.Spec

def rawIs (fs : Fields) (k : String) (v : Int) : Bool :=
  match Fields.get? fs k with
  | some (.int x) => x == v
  | _ => false

/-- `sh_offset` of section `i` of the description (0 when there is no such section) -/
def secOffset (d : ElfDesc) (i : Nat) : Nat :=
  match d.sections[i]? with
  | some sd => getNatD sd.hdr "sh_offset"
  | none => 0

/-- the machine class that makes a file's 0x70000003 sections attribute sections of `arch` -/
def mclassOf : Attr.Arch → String
  | .arm => "EM_ARM"
  | .riscv => "EM_RISCV"

def attrTypeName : Attr.Arch → String
  | .arm => "SHT_ARM_ATTRIBUTES"
  | .riscv => "SHT_RISCV_ATTRIBUTES"

/-- the class of the section object a reader makes for it -/
def attrKindName : Attr.Arch → String
  | .arm => "ARMAttributesSection"
  | .riscv => "RISCVAttributesSection"

/-- section `i` of `d` is an (uncompressed) attributes section of `arch` whose contents are the
    encoding of `sec` and whose `sh_size` is the encoding's length -/
def attrSecAt (arch : Attr.Arch) (d : ElfDesc) (i : Nat) (sec : Attr.Section) : Bool :=
  match d.sections[i]? with
  | some sd =>
    d.mclass == mclassOf arch && rawIs sd.hdr "sh_type" 0x70000003 &&
    (getNatD sd.hdr "sh_flags" &&& 0x800 == 0) && Attr.sectionWf arch d.le sec &&
    (match sd.body with | some b => b == Attr.encSection d.le sec | none => false) &&
    getNatD sd.hdr "sh_size" == (Attr.encSection d.le sec).length
  | none => false

/-- section `i` of `d` is an (uncompressed) section of `arch`'s attributes type; nothing is asked of its
    contents -/
def attrHdrAt (arch : Attr.Arch) (d : ElfDesc) (i : Nat) : Bool :=
  match d.sections[i]? with
  | some sd =>
    d.mclass == mclassOf arch && rawIs sd.hdr "sh_type" 0x70000003 && (getNatD sd.hdr "sh_flags" &&& 0x800 == 0)
  | none => false

/-! ### exception tables -/

/-- a handler-table reference can be written as a prel31 offset and is not the EXIDX_CANTUNWIND word -/
def refOk (e : Ehabi.Entry) (place tab : Nat) : Bool :=
  match e with
  | .table _ _ => Ehabi.dispOk ((tab : Int) - ((place : Int) + 4)) && tab != place + 5 && decide (tab < 2 ^ 62)
  | _ => true

def refsOk : Nat → List Ehabi.Entry → List Nat → Bool
  | place, e :: es, t :: ts => refOk e place t && refsOk (place + 8) es ts
  | _, _, _ => true

/-- all handler-table words of the entries, in order -/
def tableWordsOf (es : List Ehabi.Entry) : List Nat := es.flatMap Ehabi.Entry.tableWords

/-- section `i` of `d` (an ARM file) is an SHT_ARM_EXIDX section holding the index table of `es`,
    whose handler-table entries lie consecutively in the body of section `x`, `xpre` bytes in
    (`.ARM.extab`; for entries without handler-table words any section with a body will do), every
    reference expressible, everything below 2^62 -/
def exidxAt (d : ElfDesc) (i x xpre : Nat) (es : List Ehabi.Entry) : Bool :=
  match d.sections[i]?, d.sections[x]? with
  | some sd, some sx =>
    let off := getNatD sd.hdr "sh_offset"
    let tab0 := getNatD sx.hdr "sh_offset" + xpre
    let tabs := Ehabi.tableOffsets tab0 es
    let W := Ehabi.encWords d.le (tableWordsOf es)
    d.mclass == "EM_ARM" && rawIs sd.hdr "sh_type" 0x70000001 && es.all Ehabi.entryWf &&
    (match sd.body with | some b => b == Ehabi.encExidxFrom d.le off es tabs | none => false) &&
    getNatD sd.hdr "sh_size" == 8 * es.length &&
    (match sx.body with
     | some b => decide (xpre ≤ b.length) && (b.drop xpre).take W.length == W
     | none => false) &&
    refsOk off es tabs && decide (off + 8 * es.length < 2 ^ 62)
  | _, _ => false

/-- the positions (counted from `b`) of the members of a list that satisfy `p`, in order -/
def idxWhere {α : Type} (p : α → Bool) : Nat → List α → List Nat
  | _, [] => []
  | b, a :: l => if p a then b :: idxWhere p (b + 1) l else idxWhere p (b + 1) l

/-- a reader reports this section with type SHT_ARM_EXIDX -/
def isExidx (s : String × Bytes × Val) : Bool :=
  match s.2.2.getField "sh_type" with
  | .ok (.str t) => t == "SHT_ARM_EXIDX"
  | _ => false

/-- the indices of the sections a reader reports with type SHT_ARM_EXIDX, in file order -/
def exidxIndices (obs : ElfObs) : List Nat := idxWhere isExidx 0 obs.sections

/-- the file is not relocatable (`get_ehabi_infos` supports executables and shared objects only) -/
def notRel (obs : ElfObs) : Bool :=
  match obs.header.getField "e_type" with
  | .ok (.str t) => t != "ET_REL"
  | .ok _ => true
  | .error _ => false

end PyElf.Spec.C20
