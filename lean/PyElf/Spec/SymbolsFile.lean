/-
  C03 over whole files, standards side: when a section of an abstract ELF image
  (Spec/ElfImage.lean) IS a symbol table / hash table / syminfo table / extended
  section index table in the sense of the gABI ("Symbol Table", "Hash Table Section",
  SHT_SYMTAB_SHNDX), the Oracle LLG (syminfo) and the GNU hash description:

  * the symbol table's body holds the entries at stride `sh_entsize`, `sh_size` is
    their number times `sh_entsize`, and `sh_link` designates the section whose body
    holds the names (any string-table layout);
  * a hash / syminfo / index table designates its symbol table by `sh_link` and its
    body begins with the encoded table.

  Sections lie anywhere in the file, in any order (that is `ElfDesc`).  Also: which
  outcome the gABI's linking rules ("sh_link: the section header index of the
  associated string table / symbol table") give for a section whose link does not
  designate a table of the required type (`linkVerdict`).

  No `Con`, no streams, no `Err`.
-/
import PyElf.Spec.Symbols
import PyElf.Spec.ElfImage
namespace PyElf.Spec.C03
open PyElf PyElf.Spec

/-- raw header field `k` of section `i` (0 when there is no such section) -/
def hdrNat (d : ElfDesc) (i : Nat) (k : String) : Nat :=
  match d.sections[i]? with
  | some s => getNatD s.hdr k
  | none => 0

/-- section `sec` is a symbol table (SHT_SYMTAB, SHT_DYNSYM or SHT_SUNW_LDYNSYM) whose body holds the
    entries `es` at stride `sh_entsize` (padding between entries and bytes after the table are free),
    `sh_size = n · sh_entsize`, and the section `sh_link` designates holds, at each `st_name`, the
    NUL-terminated name `names[i]` -/
def symtabAt (env : Env) (d : ElfDesc) (sec : Nat) (es : List SymE) (names : List Bytes) : Bool :=
  match d.sections[sec]?, d.decHdr env sec with
  | some s, some h =>
    let entsize := getNatD s.hdr "sh_entsize"
    typeIn h ["SHT_SYMTAB", "SHT_DYNSYM", "SHT_SUNW_LDYNSYM"] && decide (0 < entsize) &&
    decide (getNatD s.hdr "sh_size" = es.length * entsize) &&
    decide (names.length = es.length) &&
    es.all (SymE.WF d.cls) &&
    ((List.range es.length).all fun i =>
      ((bodyOf s).drop (i * entsize)).take (symSize d.cls) == encSym d.le d.cls (es.getD i default)) &&
    (match d.sections[getNatD s.hdr "sh_link"]? with
     | some st => (List.range es.length).all fun i => strAt (bodyOf st) (es.getD i default).stName == some (names.getD i [])
     | none => false)
  | _, _ => false

/-- section `sec` has type `ty`, designates section `target` by `sh_link`, and its body begins with `content` -/
def linkedAt (env : Env) (d : ElfDesc) (sec target : Nat) (ty : String) (content : Bytes) : Bool :=
  match d.sections[sec]?, d.decHdr env sec with
  | some s, some h =>
    typeIn h [ty] && decide (getNatD s.hdr "sh_link" = target) && content.isPrefixOf (bodyOf s)
  | _, _ => false

/-- a well-formed image whose section `sec` is the symbol table of `es` / `names` -/
def symFileWf (env : Env) (d : ElfDesc) (sec : Nat) (es : List SymE) (names : List Bytes) : Bool :=
  d.wfZ env && symtabAt env d sec es names

/-- … and whose section `hsec` is a System V hash section over it holding the well-formed table `t` -/
def sysvFileWf (env : Env) (d : ElfDesc) (hsec sec : Nat) (es : List SymE) (names : List Bytes) (t : SysVTable) : Bool :=
  symFileWf env d sec es names && linkedAt env d hsec sec "SHT_HASH" (encSysV d.le t) && WFSysV names t

/-- … a GNU hash section -/
def gnuFileWf (env : Env) (d : ElfDesc) (hsec sec : Nat) (es : List SymE) (names : List Bytes) (t : GnuTable) : Bool :=
  symFileWf env d sec es names && linkedAt env d hsec sec "SHT_GNU_HASH" (encGnu d.le d.cls t) && WFGnu d.cls names t

/-- … a Solaris syminfo section: packed `Elfxx_Syminfo` records (`sh_entsize = 4`), one per symbol at most -/
def syminfoFileWf (env : Env) (d : ElfDesc) (isec sec : Nat) (es : List SymE) (names : List Bytes)
    (si : List (Nat × Nat)) : Bool :=
  symFileWf env d sec es names && linkedAt env d isec sec "SHT_SUNW_syminfo" (encSyminfo d.le si) &&
  decide (hdrNat d isec "sh_entsize" = 4) && decide (hdrNat d isec "sh_size" = si.length * 4) &&
  si.all (fun e => decide (e.1 < 65536) && decide (e.2 < 65536)) && decide (si.length ≤ es.length)

/-- a well-formed image whose section `xsec` is an extended section index table of the words `ws`
    (`sh_entsize = 4`) designating the symbol table `target` -/
def shndxFileWf (env : Env) (d : ElfDesc) (xsec target : Nat) (ws : List Nat) : Bool :=
  d.wfZ env && linkedAt env d xsec target "SHT_SYMTAB_SHNDX" (encShndx d.le ws) &&
  decide (hdrNat d xsec "sh_entsize" = 4) && ws.all (fun w => decide (w < 2 ^ 32))

/-- the extended section index tables designating symbol table `target`, in file order -/
def shndxTablesFor (env : Env) (d : ElfDesc) (target : Nat) : List Nat :=
  (List.range d.sections.length).filter fun i =>
    (match d.decHdr env i with
     | some h => typeIn h ["SHT_SYMTAB_SHNDX"]
     | none => false) && hdrNat d i "sh_link" == target

/-! ### sections whose link does not designate a table of the required type -/

/-- what a reader must do with section `sec` as far as `sh_link` is concerned -/
inductive LinkVerdict where
  /-- the link designates an existing section of a required type -/
  | linked (target : Nat)
  /-- the link designates an existing section of another type (SHT_NOBITS, SHT_PROGBITS, …) -/
  | wrongType (target : Nat)
  /-- the link designates no section of the table: `target ≥ e_shnum` -/
  | outOfRange (target : Nat)
  /-- the section's class does not interpret `sh_link` when the object is made -/
  | unchecked
  deriving Repr, DecidableEq

/-- the types `sh_link` must designate, by the type of the linking section: a symbol table names its
    string table; hash and syminfo tables name their symbol table (SHT_SYMTAB or SHT_DYNSYM) -/
def requiredLinkTypes (shType : Val) : Option (List String) :=
  match shType with
  | .str "SHT_SYMTAB" | .str "SHT_DYNSYM" | .str "SHT_SUNW_LDYNSYM" => some ["SHT_STRTAB"]
  | .str "SHT_SUNW_syminfo" | .str "SHT_HASH" | .str "SHT_GNU_HASH" => some ["SHT_SYMTAB", "SHT_DYNSYM"]
  | _ => none

def linkVerdict (env : Env) (d : ElfDesc) (sec : Nat) : Option LinkVerdict :=
  match d.sections[sec]?, d.decHdr env sec with
  | some s, some h =>
    match h.getField "sh_type" with
    | .ok ty =>
      match requiredLinkTypes ty with
      | none => some .unchecked
      | some types =>
        let l := getNatD s.hdr "sh_link"
        match d.decHdr env l with
        | some lh => some (if typeIn lh types then .linked l else .wrongType l)
        | none => if l < d.sections.length then none else some (.outOfRange l)
    | .error _ => none
  | _, _ => none


/-- `ElfDesc.wfZ` WITHOUT its per-section clause ("every section is interpretable": links designate tables of
    the right type, entry sizes fit, …): the container is sound — headers decode, tables are addressable, the
    section-name string table exists and can be read — but a section's `sh_link` / `sh_entsize` / contents may be
    anything.  The domain of the theorems about sections whose link is NOT what the gABI requires.
    Every `wfZ` description satisfies it. -/
def wfZCore (env : Env) (d : ElfDesc) : Bool :=
  let n := d.sections.length
  let m := d.segments.length
  (d.cls == 32 || d.cls == 64) &&
  machineClasses.contains d.mclass && d.cfgOk env &&
  (match d.regions with
   | some rs => regionsDisjoint (sortRegions rs)
   | none => false) &&
  d.escapesOk && d.namesOk &&
  (n == 0 || decide ((d.S.Elf_Shdr.sizeof.getD 0) ≤ d.shentsize)) &&
  (m == 0 || decide ((d.S.Elf_Phdr.sizeof.getD 0) ≤ d.phentsize)) &&
  decide (d.shoff + n * d.shentsize < 2 ^ 63) && decide (d.phoff + m * d.phentsize < 2 ^ 63) &&
  decide (n < 2 ^ 32) && decide (m < 2 ^ 32) &&
  (n == 0 || (decide (0 < d.shoff) && decide (d.shstrndx < n))) && (m == 0 || decide (0 < d.phoff)) &&
  -- (as in `wfZ`: a file without a name table, e_shstrndx = SHN_UNDEF, has no name offsets to reach)
  (d.shstrndx == 0 ||
   match d.sections[d.shstrndx]? with
   | some st => d.sections.all fun s => decide (getNatD st.hdr "sh_offset" + s.nameOff < 2 ^ 63)
   | none => true) &&
  -- every header decodes; the section-name string table itself is interpretable
  (List.range n).all (fun i => (d.decHdr env i).isSome) &&
  (n == 0 || d.secOkZ env 4 d.shstrndx) &&
  (n != 0 || d.shstrndx == 0)

end PyElf.Spec.C03
