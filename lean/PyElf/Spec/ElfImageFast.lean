/-
  A linear-time implementation of `Spec.layOut` (which appends to its accumulator
  and is quadratic in the number of regions) for the driver's large images
  (≥ 0xff00 sections), proved equal to it.
-/
import PyElf.Spec.ElfImage
namespace PyElf.Spec
open PyElf

/-- chunks in reverse order; `len` is the total length laid out so far -/
def layOutRev : List (Nat × Bytes) → Nat → List Bytes → List Bytes
  | [], _, acc => acc
  | (off, b) :: rest, len, acc =>
    layOutRev rest (len + (off - len) + b.length) (b :: List.replicate (off - len) 0 :: acc)

def layOutFast (rs : List (Nat × Bytes)) : Bytes := (layOutRev rs 0 []).reverse.flatten

theorem layOutRev_eq (rs : List (Nat × Bytes)) (chunks : List Bytes) :
    (layOutRev rs chunks.reverse.flatten.length chunks).reverse.flatten
      = layOut rs chunks.reverse.flatten := by
  induction rs generalizing chunks with
  | nil => simp [layOutRev, layOut]
  | cons r rest ih =>
    obtain ⟨off, b⟩ := r
    simp only [layOutRev, layOut]
    have h := ih (b :: List.replicate (off - chunks.reverse.flatten.length) 0 :: chunks)
    simp only [List.reverse_cons, List.flatten_append, List.flatten_cons, List.flatten_nil,
      List.append_nil, List.length_append, List.length_replicate, List.append_assoc] at h
    simp only [List.append_assoc]
    rw [← h]
    have e : chunks.reverse.flatten.length + (off - chunks.reverse.flatten.length) + b.length
        = chunks.reverse.flatten.length + ((off - chunks.reverse.flatten.length) + b.length) := by omega
    rw [e]

theorem layOutFast_eq (rs : List (Nat × Bytes)) : layOutFast rs = layOut rs [] := by
  have := layOutRev_eq rs []
  simpa [layOutFast] using this

/-- `ElfDesc.assemble` computed in linear time -/
def ElfDesc.assembleFast (d : ElfDesc) (tail : Nat := 0) : Option Bytes := do
  let rs ← d.regions
  pure (layOutFast (sortRegions rs) ++ List.replicate tail 0)

theorem ElfDesc.assembleFast_eq (d : ElfDesc) (tail : Nat) : d.assembleFast tail = d.assemble tail := by
  simp [ElfDesc.assembleFast, ElfDesc.assemble, layOutFast_eq]

end PyElf.Spec
