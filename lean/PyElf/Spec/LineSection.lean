/-
  C05, standards side, whole sections: a description of `.debug_line` — line-number programs
  (Spec/LineProgram `Header` + instruction list, with the extension bytes `header_length` may cover),
  each placed anywhere: arbitrary bytes may lie between programs and behind the last one — and what the
  top entry of a unit of `.debug_info` (Spec/DieSection `UnitDesc`, Spec/DieTree `Node`) says about it:
  DW_AT_stmt_list (DWARF 2–5 §3.1.1: class lineptr — DW_FORM_sec_offset from version 4 on,
  DW_FORM_data4 / DW_FORM_data8 before, §7.5.4) holds the offset, in `.debug_line`, of the unit's
  line-number program.  Several units may name the same program; programs may be named in any order.

  Nothing here mentions streams, `Con` or errors.
-/
import PyElf.Spec.LineProgramExt
import PyElf.Spec.DieSection
namespace PyElf.Spec.LineSec
open PyElf PyElf.Spec PyElf.Spec.Line
open PyElf.Spec.C04 (AttrSpec AttrV Node Operand Forest UnitDesc FORM_implicit_const)

/-- a line-number program as it lies in `.debug_line`: `gap` = the bytes between the end of the previous
    program (or the start of the section) and the program's `unit_length`; `ext` = bytes between the
    last header table and the first instruction, covered by `header_length` -/
structure LineUnitDesc where
  gap : Bytes := []
  h : Header
  ext : Bytes := []
  is : List Instr
  deriving Repr

def LineUnitDesc.body (d : LineUnitDesc) : Bytes := encodeProgram d.h.p d.is

/-- the program alone -/
def LineUnitDesc.enc (d : LineUnitDesc) : Bytes := encodeUnitX d.h d.ext d.body

def encLineUnit (d : LineUnitDesc) : Bytes := d.gap ++ d.enc

/-- `.debug_line`: the programs, then `tail` (any bytes) -/
def encLineSec (L : List LineUnitDesc) (tail : Bytes) : Bytes := L.flatMap encLineUnit ++ tail

/-- section offset of program `i` (of its `unit_length` field) -/
def lineOff : List LineUnitDesc → Nat → Nat
  | [], _ => 0
  | d :: _, 0 => d.gap.length
  | d :: ds, i+1 => (encLineUnit d).length + lineOff ds i

/-- DW_AT_stmt_list -/
def AT_stmt_list : Nat := 0x10

/-- the forms of class lineptr: DW_FORM_sec_offset, DW_FORM_data4, DW_FORM_data8 -/
def lineptrForms : List Nat := [0x17, 0x06, 0x07]

/-- what an entry says about its line-number program -/
inductive StmtRef
  | absent               -- no DW_AT_stmt_list
  | at (v : Nat)         -- DW_AT_stmt_list of class lineptr holding `v`
  | other                -- DW_AT_stmt_list in a form that is not of class lineptr
  deriving Repr, DecidableEq

/-- one attribute named DW_AT_stmt_list (`a.form` is the final form of an indirection chain) -/
def stmtClass (s : AttrSpec) (a : AttrV) : StmtRef :=
  match a.op with
  | .nat v => if s.form ≠ FORM_implicit_const ∧ a.form ∈ lineptrForms then .at v else .other
  | _ => .other

/-- the attributes of an entry in order; a repeated name (never in a well-formed entry) counts once, the last -/
def stmtRefGo : List AttrSpec → List AttrV → StmtRef → StmtRef
  | s :: ss, a :: as, acc => stmtRefGo ss as (if s.name = AT_stmt_list then stmtClass s a else acc)
  | _, _, acc => acc

def stmtRef (n : Node) : StmtRef := stmtRefGo n.decl.specs n.attrs .absent

/-- the string sections a version 5 program refers to, from the forest's sections and the supplementary
    object's `.debug_str` (absent sections: no string is designated, `entryWF` then rejects every reference) -/
def strSecsOf (F : Forest) (sup : Option Bytes) : StrSecs :=
  { lineStr := F.secs.lineStr.getD [], str := F.secs.str.getD [], sup := sup }

/-! ### well-formedness, decidable -/

/-- a program of the section: encodable unit, the standard's operand counts, well-formed instructions none of
    which divides by a zero field (with the standard's `maximum_operations_per_instruction ≥ 1`,
    `line_range ≥ 1` that is every well-formed program: Props/C05 `line_progOK_of_WF`); a version 5 program
    needs `.debug_line_str` and `.debug_str` present -/
def lineUnitOKB (F : Forest) (sup : Option Bytes) (d : LineUnitDesc) : Bool :=
  unitWFX d.h (strSecsOf F sup) d.ext d.body && d.h.p.stdLensOK && progOK d.h.p d.h.version d.is
    && decide (d.h.p.le = F.le)
    && (decide (d.h.version < 5) || (F.secs.lineStr.isSome && F.secs.str.isSome))

/-- the top entry of unit `u` names no program, or program `i` of `L` by its offset, and that program's DWARF
    format and address size are the unit's (DWARF 5 §7.4: one format per unit and its contributions;
    §6.2.4 `address_size`) -/
def unitLineOKB (L : List LineUnitDesc) (u : UnitDesc) : Bool :=
  match stmtRef u.tree.root with
  | .absent => true
  | .at v => (List.range L.length).any fun i =>
      match L[i]? with
      | some d => decide (v = lineOff L i) && decide (d.h.fmt64 = u.fmt64) && decide (d.h.p.asz = u.asz)
      | none => false
  | .other => false

/-- a forest and a `.debug_line` description fit together -/
def linesOKB (F : Forest) (L : List LineUnitDesc) (tail : Bytes) (sup : Option Bytes) : Bool :=
  L.all (lineUnitOKB F sup) && F.units.all (unitLineOKB L)
    && decide ((encLineSec L tail).length < 2 ^ 63)
    && (match sup with | some b => decide (b.length < 2 ^ 63) | none => true)

end PyElf.Spec.LineSec
