/-
  C11 — the container encodings of debug data, from the documents that define them:

    * gABI ch. 4 "Section compression": a section flagged SHF_COMPRESSED begins with an
      `Elf32_Chdr` / `Elf64_Chdr` (ch_type = ELFCOMPRESS_ZLIB = 1, ch_size = the uncompressed
      size, ch_addralign) followed by the zlib (RFC 1950) stream;
    * the legacy GNU format (binutils `--compress-debug-sections=zlib-gnu`): the section is
      renamed `.zdebug_*` and holds the four bytes "ZLIB", the uncompressed size as an 8-byte
      big-endian number, and the zlib stream;
    * GDB manual, "Debugging Information in Separate Files": `.gnu_debuglink` holds the file name,
      NUL terminated, zero padding up to the next 4-byte boundary, and the CRC-32 of the debug
      file as a 4-byte word in the file's byte order;
    * DWARF 5 §7.3.6: `.debug_sup` holds version (2 bytes), is_supplementary (1 byte), the
      NUL-terminated file name, a ULEB128 checksum length and the checksum;
    * DWZ / GDB: `.gnu_debugaltlink` holds the NUL-terminated file name and the 20-byte build ID.

  zlib itself is not specified here: `deflated` arguments are whatever a deflate implementation
  produced for the payload.  No `Con`, no streams, no `Err`.
-/
import PyElf.Core.Basic
import PyElf.Spec.Primitives
namespace PyElf.Spec.C11
open PyElf PyElf.Spec

/-- ELFCOMPRESS_ZLIB -/
def compressZlib : Nat := 1
/-- SHF_COMPRESSED -/
def shfCompressed : Nat := 0x800
/-- EM_DSPIC30F (its DWARF sections carry a phantom byte after every byte) -/
def emDspic30f : Nat := 118

/-- `ElfN_Chdr` -/
def encChdr (cls : Nat) (le : Bool) (chType size align : Nat) : Bytes :=
  if cls = 32 then encNat le 4 chType ++ encNat le 4 size ++ encNat le 4 align
  else encNat le 4 chType ++ encNat le 4 0 ++ encNat le 8 size ++ encNat le 8 align

def chdrSize (cls : Nat) : Nat := if cls = 32 then 12 else 24

/-- body of a SHF_COMPRESSED section declaring `size` bytes of payload -/
def gabiBody (cls : Nat) (le : Bool) (size align : Nat) (deflated : Bytes) : Bytes :=
  encChdr cls le compressZlib size align ++ deflated

/-- `"ZLIB"` -/
def zlibMagic : Bytes := [0x5a, 0x4c, 0x49, 0x42]

/-- body of a `.zdebug_*` section declaring `size` bytes of payload -/
def zdebugBody (size : Nat) (deflated : Bytes) : Bytes :=
  zlibMagic ++ natBE 8 size ++ deflated

/-- `.debug_x` ↦ `.zdebug_x` -/
def zdebugName (name : Bytes) : Bytes := [0x2e, 0x7a] ++ name.drop 1

/-- `.gnu_debuglink` contents -/
def encDebuglink (le : Bool) (filename : Bytes) (crc : Nat) : Bytes :=
  filename ++ [0] ++ List.replicate (3 - filename.length % 4) 0 ++ encNat le 4 crc

/-- `.debug_sup` contents (DWARF 5 §7.3.6) -/
def encDebugSup (le : Bool) (version : Nat) (isSupplementary : Nat) (filename checksum : Bytes) : Bytes :=
  encNat le 2 version ++ [UInt8.ofNat isSupplementary] ++ filename ++ [0] ++
    encUlebN (max 1 ((Nat.log2 checksum.length) / 7 + 1)) checksum.length ++ checksum

/-- `.gnu_debugaltlink` contents -/
def encAltlink (filename buildId : Bytes) : Bytes := filename ++ [0] ++ buildId

/-- the section names a DWARF consumer looks for, under the keyword the reader's DWARF layer knows
    them by; the flag says whether the legacy GNU format renames the section: it renames `.debug_*`
    only (`.eh_frame` is loaded at run time and is never compressed; `.gnu_debugaltlink` has no
    `.z` form) -/
def sectionNames : List (String × Bytes × Bool) := [
  ("debug_info_sec", [0x2e, 0x64, 0x65, 0x62, 0x75, 0x67, 0x5f, 0x69, 0x6e, 0x66, 0x6f], true),
  ("debug_aranges_sec", [0x2e, 0x64, 0x65, 0x62, 0x75, 0x67, 0x5f, 0x61, 0x72, 0x61, 0x6e, 0x67, 0x65, 0x73], true),
  ("debug_abbrev_sec", [0x2e, 0x64, 0x65, 0x62, 0x75, 0x67, 0x5f, 0x61, 0x62, 0x62, 0x72, 0x65, 0x76], true),
  ("debug_str_sec", [0x2e, 0x64, 0x65, 0x62, 0x75, 0x67, 0x5f, 0x73, 0x74, 0x72], true),
  ("debug_line_sec", [0x2e, 0x64, 0x65, 0x62, 0x75, 0x67, 0x5f, 0x6c, 0x69, 0x6e, 0x65], true),
  ("debug_frame_sec", [0x2e, 0x64, 0x65, 0x62, 0x75, 0x67, 0x5f, 0x66, 0x72, 0x61, 0x6d, 0x65], true),
  ("debug_loc_sec", [0x2e, 0x64, 0x65, 0x62, 0x75, 0x67, 0x5f, 0x6c, 0x6f, 0x63], true),
  ("debug_ranges_sec", [0x2e, 0x64, 0x65, 0x62, 0x75, 0x67, 0x5f, 0x72, 0x61, 0x6e, 0x67, 0x65, 0x73], true),
  ("debug_pubtypes_sec", [0x2e, 0x64, 0x65, 0x62, 0x75, 0x67, 0x5f, 0x70, 0x75, 0x62, 0x74, 0x79, 0x70, 0x65, 0x73], true),
  ("debug_pubnames_sec", [0x2e, 0x64, 0x65, 0x62, 0x75, 0x67, 0x5f, 0x70, 0x75, 0x62, 0x6e, 0x61, 0x6d, 0x65, 0x73], true),
  ("debug_addr_sec", [0x2e, 0x64, 0x65, 0x62, 0x75, 0x67, 0x5f, 0x61, 0x64, 0x64, 0x72], true),
  ("debug_str_offsets_sec", [0x2e, 0x64, 0x65, 0x62, 0x75, 0x67, 0x5f, 0x73, 0x74, 0x72, 0x5f, 0x6f, 0x66, 0x66, 0x73, 0x65, 0x74, 0x73], true),
  ("debug_line_str_sec", [0x2e, 0x64, 0x65, 0x62, 0x75, 0x67, 0x5f, 0x6c, 0x69, 0x6e, 0x65, 0x5f, 0x73, 0x74, 0x72], true),
  ("debug_loclists_sec", [0x2e, 0x64, 0x65, 0x62, 0x75, 0x67, 0x5f, 0x6c, 0x6f, 0x63, 0x6c, 0x69, 0x73, 0x74, 0x73], true),
  ("debug_rnglists_sec", [0x2e, 0x64, 0x65, 0x62, 0x75, 0x67, 0x5f, 0x72, 0x6e, 0x67, 0x6c, 0x69, 0x73, 0x74, 0x73], true),
  ("debug_sup_sec", [0x2e, 0x64, 0x65, 0x62, 0x75, 0x67, 0x5f, 0x73, 0x75, 0x70], true),
  ("gnu_debugaltlink_sec", [0x2e, 0x67, 0x6e, 0x75, 0x5f, 0x64, 0x65, 0x62, 0x75, 0x67, 0x61, 0x6c, 0x74, 0x6c, 0x69, 0x6e, 0x6b], false),
  ("debug_types_sec", [0x2e, 0x64, 0x65, 0x62, 0x75, 0x67, 0x5f, 0x74, 0x79, 0x70, 0x65, 0x73], true),
  ("eh_frame_sec", [0x2e, 0x65, 0x68, 0x5f, 0x66, 0x72, 0x61, 0x6d, 0x65], false)
]

end PyElf.Spec.C11
