/-
  Well-formedness of symbol-versioning descriptions (C15), written from the
  Oracle "Linker and Libraries Guide" (Versioning Sections) and the gABI:

  * which record lists the assembler of `Spec/GnuVersions.lean` turns into a
    section that carries them (`needWf`, `defWf`, `versymWf`, `symsWf`) —
    structural conditions on the description, never the layout predicate
    evaluated on the assembler's output;
  * when an abstract ELF image (`Spec/ElfImage.lean`) holds such a section,
    linked to its string / symbol table (`needFileWf`, `defFileWf`,
    `versymFileWf`).

  No `Con`, no streams, no errors.
-/
import PyElf.Spec.GnuVersions
import PyElf.Spec.ElfImage
namespace PyElf.Spec.C15
open PyElf PyElf.Spec

/-! ### the writes of the assembler -/

/-- one write of the assembler: these bytes at this offset of the section -/
abbrev Write := Nat × Bytes

/-- the writes `placeChain` performs, in order: a record, whatever hangs off it, the rest of the chain -/
def chainWrites {α : Type} (enc : α → Bytes) (next : α → Nat) (subW : Nat → α → List Write) :
    Nat → List α → List Write
  | _, [] => []
  | pos, x :: rest => (pos, enc x) :: (subW pos x ++ chainWrites enc next subW (pos + next x) rest)

def needAuxWrites (le : Bool) (pos : Nat) (e : NeedEntry) : List Write :=
  chainWrites (fun a : NeedAux => a.r.enc le) (·.r.next) (fun _ _ => []) (pos + e.r.aux) e.auxs

def needWrites (le : Bool) (es : List NeedEntry) : List Write :=
  chainWrites (fun e : NeedEntry => e.r.enc le) (·.r.next) (needAuxWrites le) 0 es

def defAuxWrites (le : Bool) (pos : Nat) (e : DefEntry) : List Write :=
  chainWrites (fun a : DefAux => a.r.enc le) (·.r.next) (fun _ _ => []) (pos + e.r.aux) e.auxs

def defWrites (le : Bool) (es : List DefEntry) : List Write :=
  chainWrites (fun e : DefEntry => e.r.enc le) (·.r.next) (defAuxWrites le) 0 es

/-- two writes do not contradict each other: apart, or equal byte for byte where they overlap
    (a record reached twice — displacement 0, two chains meeting — is written twice) -/
def agree (r s : Write) : Bool :=
  decide (r.1 + r.2.length ≤ s.1) || decide (s.1 + s.2.length ≤ r.1) ||
    (List.range r.2.length).all fun k =>
      decide (r.1 + k < s.1) || decide (s.1 + s.2.length ≤ r.1 + k) || r.2[k]? == s.2[r.1 + k - s.1]?

/-- no write is contradicted by a later one -/
def consistent : List Write → Bool
  | [] => true
  | w :: rest => rest.all (agree w) && consistent rest

/-! ### well-formed contents -/

/-- the fields fit their widths, every entry counts its auxiliaries (at least one: "vn_cnt / vd_cnt:
    the number of associated auxiliary entries", which a reader walks), and the names are the strings
    the table holds at the name offsets -/
def needOk (strtab : Bytes) (es : List NeedEntry) : Bool :=
  es.all fun e =>
    e.r.fits && gv_strAt strtab e.r.file e.file && decide (e.r.cnt = e.auxs.length) && decide (1 ≤ e.r.cnt)
      && e.auxs.all fun a => a.r.fits && gv_strAt strtab a.r.name a.name

def defOk (strtab : Bytes) (es : List DefEntry) : Bool :=
  es.all fun e =>
    e.r.fits && decide (e.r.cnt = e.auxs.length) && decide (1 ≤ e.r.cnt)
      && e.auxs.all fun a => a.r.fits && gv_strAt strtab a.r.name a.name

/-- a version-requirement description the assembler can lay out: displacements arbitrary (gaps, padding,
    interleaving, zero), as long as no two records claim the same byte differently -/
def needWf (le : Bool) (strtab : Bytes) (es : List NeedEntry) : Bool :=
  consistent (needWrites le es) && needOk strtab es

def defWf (le : Bool) (strtab : Bytes) (es : List DefEntry) : Bool :=
  consistent (defWrites le es) && defOk strtab es

/-- `Elfxx_Versym` rows of `entsize ≥ 2` bytes each (a Half, then padding) -/
def versymWf (entsize : Nat) (rows : List VersymRow) : Bool :=
  decide (2 ≤ entsize) && rows.all fun x => half x.ndx

/-- size of `Elfxx_Sym` -/
def symSize (cls : Nat) : Nat := if cls = 32 then 16 else 24

/-- a symbol table of `entsize`-byte entries whose names the string table holds -/
def symsWf (cls entsize : Nat) (strtab : Bytes) (rows : List (Sym × VersymRow)) : Bool :=
  decide (symSize cls ≤ entsize) && rows.all fun r => r.1.fits cls && gv_strAt strtab r.1.name r.2.symName

/-! ### walks that are sent out of the file -/

/-- where the walk stands after the records `xs` -/
def chainEnd {α : Type} (next : α → Nat) : Nat → List α → Nat
  | pos, [] => pos
  | pos, x :: rest => chainEnd next (pos + next x) rest

/-- the records `es` are chained from `pos` on, the section declares more than that, and the record the
    walk is sent to next does not fit before the end of the file -/
def needTruncated (le : Bool) (data : Bytes) (strOff pos : Nat) (es : List NeedEntry) (declared : Nat) : Bool :=
  needLayout le data strOff pos es && decide (es.length < declared) &&
    decide (data.length < chainEnd (fun e : NeedEntry => e.r.next) pos es + 16)

def defTruncated (le : Bool) (data : Bytes) (strOff pos : Nat) (es : List DefEntry) (declared : Nat) : Bool :=
  defLayout le data strOff pos es && decide (es.length < declared) &&
    decide (data.length < chainEnd (fun e : DefEntry => e.r.next) pos es + 20)

/-- the record of `e` sits at `pos` and counts `e.r.cnt` auxiliaries, of which only `e.auxs` are chained
    before the auxiliary walk is sent out of the file -/
def NeedEntry.atPartial (le : Bool) (data : Bytes) (strOff pos : Nat) (e : NeedEntry) : Bool :=
  e.r.fits && bytesAt data pos (e.r.enc le) && gv_strAt data (strOff + e.r.file) e.file &&
    decide (e.auxs.length < e.r.cnt) &&
    chainAt (NeedAux.at le data strOff) (·.r.next) (pos + e.r.aux) e.auxs &&
    decide (data.length < chainEnd (fun a : NeedAux => a.r.next) (pos + e.r.aux) e.auxs + 16)

def DefEntry.atPartial (le : Bool) (data : Bytes) (strOff pos : Nat) (e : DefEntry) : Bool :=
  e.r.fits && bytesAt data pos (e.r.enc le) && decide (e.auxs.length < e.r.cnt) &&
    chainAt (DefAux.at le data strOff) (·.r.next) (pos + e.r.aux) e.auxs &&
    decide (data.length < chainEnd (fun a : DefAux => a.r.next) (pos + e.r.aux) e.auxs + 8)

/-! ### whole files -/

/-- the image, padded with `tail` bytes, stays inside what a stream offset can address -/
def imageFits (d : ElfDesc) (tail : Nat) : Bool :=
  match d.regions with
  | some rs => rs.all fun r => decide (r.1 + r.2.length + tail < 2 ^ 63)
  | none => false

/-- every header of the image decodes (what `iter_sections` / `get_section_by_name`, which build every
    section, need beyond `wfZ`: the program headers are not constrained by it) -/
def observable (env : Env) (d : ElfDesc) : Bool := (d.observe env).toOption.isSome

/-- section `sec` of the image has type `ty`, body `body`, declares (`sh_info`) `declared` records and is
    linked (`sh_link`) to a section whose body satisfies `linkOk` -/
def verSecAt (env : Env) (d : ElfDesc) (sec : Nat) (ty : String) (body : Bytes) (declared : Nat)
    (linkOk : Bytes → Bool) : Bool :=
  match d.sections[sec]?, d.decHdr env sec with
  | some s, some h =>
    typeIn h [ty] && decide (s.body = some body) && decide (getNatD s.hdr "sh_info" = declared) &&
    (match d.sections[getNatD s.hdr "sh_link"]? with
     | some st => linkOk (bodyOf st)
     | none => false)
  | _, _ => false

/-- section `sec` of the image is a version-requirement section holding the assembled chain `es`,
    declaring (`sh_info`) the first `declared` of them, and linked (`sh_link`) to the string table
    that resolves the names -/
def needFileWf (env : Env) (d : ElfDesc) (sec : Nat) (fill : UInt8) (size : Nat) (es : List NeedEntry)
    (declared : Nat) : Bool :=
  d.wfZ env && decide (declared ≤ es.length) &&
  verSecAt env d sec "SHT_GNU_verneed" (assembleNeed d.le fill size es) declared (fun st => needWf d.le st es)

def defFileWf (env : Env) (d : ElfDesc) (sec : Nat) (fill : UInt8) (size : Nat) (es : List DefEntry)
    (declared : Nat) : Bool :=
  d.wfZ env && decide (declared ≤ es.length) &&
  verSecAt env d sec "SHT_GNU_verdef" (assembleDef d.le fill size es) declared (fun st => defWf d.le st es)

/-- section `sec` is a version-symbol table of `rows` (entry size `sh_entsize`; `sh_size` may leave a
    remainder: `slack`), linked to a symbol table that begins with the symbols of `rows`, itself linked
    to the string table that holds their names -/
def versymFileWf (env : Env) (d : ElfDesc) (sec : Nat) (fill : UInt8) (rows : List (Sym × VersymRow))
    (slack moreSyms : Bytes) : Bool :=
  d.wfZ env &&
  match d.sections[sec]?, d.decHdr env sec with
  | some s, some h =>
    let es := getNatD s.hdr "sh_entsize"
    typeIn h ["SHT_GNU_versym"] &&
    decide (s.body = some (assembleVersym d.le fill es (rows.map (·.2)) ++ slack)) &&
    versymWf es (rows.map (·.2)) && decide (getNatD s.hdr "sh_size" / es = rows.length) &&
    (match d.sections[getNatD s.hdr "sh_link"]? with
     | some y =>
       let ys := getNatD y.hdr "sh_entsize"
       decide (y.body = some (assembleSyms d.cls d.le fill ys (rows.map (·.1)) ++ moreSyms)) &&
       (match d.sections[getNatD y.hdr "sh_link"]? with
        | some st => symsWf d.cls ys (bodyOf st) rows
        | none => false)
     | none => false)
  | _, _ => false

end PyElf.Spec.C15
