/-
  C17 — registry decisions that are not data of a vendored source (see also registry/extract_registry.py:
  count pseudo-constants excluded; registry/extra_specs.tsv: aaelf64 as a third source for two names).
-/
namespace PyElf.Spec

/-- Names the library reports that no registry defines, accepted as the reported name of a code that also has a
    registry name (decoding direction only).  (name key, code); the names are in `legacyAliasNames`. -/
def legacyAliases : List (Nat × Int) := [
  (99880919446002175698065350957545862360435836415347, 44)  /- DW_TAG_namelist_items: DWARF 2 spelling of DW_TAG_namelist_item (GNU dwarf2.def DW_TAG_DUP) -/,
  (23255338379499994545940915438682894858853, 46)  /- DW_AT_stride_size: DWARF 2 name of DW_AT_bit_stride -/,
  (21150607044091879784847074405, 81)  /- DW_AT_stride: DWARF 3 draft name of DW_AT_byte_stride -/,
  (23251351060669945631401592750037474038361, 1610612749)  /- DT_SUNW_AUXILIARY: Solaris tag (= DT_LOOS); Solaris ABI is not among the registries -/,
  (1385888520519134141891775036671314, 1610612751)  /- DT_SUNW_FILTER: Solaris tag; LLVM lists the Android tag DT_ANDROID_REL at this OS-specific code -/,
  (82605392963834651821162832, 1610612752)  /- DT_SUNW_CAP: Solaris tag; LLVM: DT_ANDROID_RELSZ -/,
  (1385888520519134141906137424085314, 1610612753)  /- DT_SUNW_SYMTAB: Solaris tag; LLVM: DT_ANDROID_RELA -/,
  (5413627033277867741820849312602, 1610612754)  /- DT_SUNW_SYMSZ: Solaris tag; LLVM: DT_ANDROID_RELASZ -/
]

def legacyAliasNames : List (String × Int) := [
  ("DW_TAG_namelist_items", 44),
  ("DW_AT_stride_size", 46),
  ("DW_AT_stride", 81),
  ("DT_SUNW_AUXILIARY", 1610612749),
  ("DT_SUNW_FILTER", 1610612751),
  ("DT_SUNW_CAP", 1610612752),
  ("DT_SUNW_SYMTAB", 1610612753),
  ("DT_SUNW_SYMSZ", 1610612754)
]

end PyElf.Spec
