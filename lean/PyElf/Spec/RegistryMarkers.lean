/-
  C17 — range markers.

  The gABI and DWARF reserve RANGES of codes and name their bounds (`SHT_LOOS` … `SHT_HIOS`, `DT_LOPROC` … `DT_HIPROC`,
  `DW_AT_lo_user` … `DW_AT_hi_user`, `SHN_LORESERVE`, `R_*_NUM` …).  Such a name is not "the standard name of a code":
  a real constant may sit exactly on the bound (`DT_FILTER` = `DT_HIPROC` = 0x7fffffff).  `Enum` decoding reports the
  LAST name a table gives a code, so the order of a table decides which of the two is reported.  The rule:

      a code for which the table knows a real (non-marker) name is never reported under a range marker.

  Standards side only: no construct, no streams.  Tables are (name key, value, name is a range marker) triples;
  the marker flags are regenerated (tools/gen/extra_c17.py) and re-derived from the String names by
  `isRangeMarker` in the driver's `selfcheck`.
-/
import PyElf.Spec.RegistryTree
namespace PyElf.Spec

/-! ### which names are range markers (String level; evaluated by the compiled driver, never by the kernel) -/

def markerSuffixes : List String :=
  ["_LO", "_LOOS", "_LOPROC", "_LOUSER", "_LORESERVE", "_LOSUNW",
   "_HI", "_HIOS", "_HIPROC", "_HIUSER", "_HIRESERVE", "_HISUNW",
   "_lo_user", "_hi_user", "NUM"]

def markerInfixes : List String := ["_LO_", "_HI_"]

/-- the name denotes a range bound, a mask or a count: it ends in `_LO`/`_HI` (optionally followed by
    `OS`/`PROC`/`USER`/`RESERVE`/`SUNW`), in `_lo_user`/`_hi_user` or in `NUM`, or contains `_LO_`/`_HI_` -/
def isRangeMarker (s : String) : Bool :=
  markerSuffixes.any (fun x => s.endsWith x) || markerInfixes.any (fun x => decide ((s.splitOn x).length > 1))

/-! ### tables with marker flags -/

/-- attach the regenerated flag list to a key table; `none` when the lengths differ (a refusing generator) -/
def attachMarkers : List (Nat × Int) → List Bool → Option (List (Nat × Int × Bool))
  | [], [] => some []
  | (k, v) :: T, m :: ms =>
    match attachMarkers T ms with
    | some M => some ((k, v, m) :: M)
    | none => none
  | _, _ => none

def findMarkers (key : Nat) : List (Nat × List Bool) → Option (List Bool)
  | [] => none
  | (k, ms) :: more => match Nat.beq k key with | true => some ms | false => findMarkers key more

/-- the entry `Enum` decoding reports for code `v`: the LAST entry carrying `v` (cf. `decodeKey`), with its flag -/
def decodeEntry (M : List (Nat × Int × Bool)) (v : Int) : Option (Nat × Bool) :=
  M.foldl (fun acc e => if e.2.1 = v then some (e.1, e.2.2) else acc) none

/-- the rule: whenever the reported name of a code is a range marker, EVERY name the table gives that code is one -/
def NoMarkerShadow (M : List (Nat × Int × Bool)) : Prop :=
  ∀ v k', decodeEntry M v = some (k', true) → ∀ k b, (k, v, b) ∈ M → b = true

/-- a String-keyed table (as `Gen.tables` / `Model.decodeIn` see it) with keys and marker flags derived from the names -/
def markTable (t : List (String × Int)) : List (Nat × Int × Bool) :=
  t.map fun e => (nameKey e.1, e.2, isRangeMarker e.1)

/-! ### Bool mirror evaluated by the kernel -/

def hasValue3 (v : Int) : List (Nat × Int × Bool) → Bool
  | [] => false
  | (_, x, _) :: rest => match decide (x = v) with | true => true | false => hasValue3 v rest

def allMarkers (v : Int) : List (Nat × Int × Bool) → Bool
  | [] => true
  | (_, x, m) :: rest =>
    match decide (x = v) with
    | true => (match m with | true => allMarkers v rest | false => false)
    | false => allMarkers v rest

/-- walk the suffixes of `M`: a marker entry is either shadowed by a later entry with the same value (never
    reported) or every entry of `M` with its value must be a marker.  Non-marker entries need no check. -/
def noMarkerShadowFrom (M : List (Nat × Int × Bool)) : List (Nat × Int × Bool) → Bool
  | [] => true
  | (_, v, m) :: rest =>
    match m with
    | false => noMarkerShadowFrom M rest
    | true =>
      match hasValue3 v rest || allMarkers v M with
      | true => noMarkerShadowFrom M rest
      | false => false

/-- for every value, if the LAST entry with that value is a marker then every entry with that value is a marker -/
def noMarkerShadow (M : List (Nat × Int × Bool)) : Bool := noMarkerShadowFrom M M

/-- the check on a key table and its regenerated flag list -/
def noMarkerShadowB (T : List (Nat × Int)) (ms : List Bool) : Bool :=
  match attachMarkers T ms with
  | some M => noMarkerShadow M
  | none => false

end PyElf.Spec
