/-
  Abstract ELF images (gABI ch. 4): file header, section header table, program
  header table, section bodies — each placed anywhere — and what an ELF reader
  must report for them.  `assemble` lays a description out into bytes; `Layout`
  says when an arbitrary byte string carries a description.
-/
import PyElf.Core.Fixed
import PyElf.Spec.ElfStructs
import PyElf.Spec.Primitives
namespace PyElf.Spec
open PyElf

structure SecDesc where
  name : Bytes
  /-- raw header fields except `sh_name`: sh_type, sh_flags, sh_addr, sh_offset, sh_size, sh_link,
      sh_info, sh_addralign, sh_entsize -/
  hdr : Fields
  /-- bytes stored at `sh_offset` (absent for SHT_NOBITS / SHT_NULL) -/
  body : Option Bytes
  /-- `sh_name`: where the name sits in the section-name string table -/
  nameOff : Nat
  deriving Repr

structure ElfDesc where
  cls : Nat
  le : Bool
  mclass : String                 -- behaviour class of e_machine (decides the code tables)
  solaris : Bool
  core : Bool
  /-- raw Ehdr fields the description chooses freely: EI_VERSION, EI_OSABI, EI_ABIVERSION, e_type,
      e_machine, e_version, e_entry, e_flags, e_ehsize -/
  ehdr : Fields
  shoff : Nat
  phoff : Nat
  shentsize : Nat
  phentsize : Nat
  sections : List SecDesc
  segments : List Fields          -- raw Phdr fields
  shstrndx : Nat
  /-- carry the section count / name-table index / segment count by the extended-numbering escape
      even when they would fit (mandatory from 0xff00 / 0xff00 / 0xffff up) -/
  xShnum : Bool := false
  xShstrndx : Bool := false
  xPhnum : Bool := false
  deriving Repr

def ElfDesc.cfg (d : ElfDesc) : ElfCfg := ⟨d.le, d.cls, d.mclass, d.solaris, d.core⟩
def ElfDesc.S (d : ElfDesc) : ElfStructs := elfStructs d.cfg

def getNatD (fs : Fields) (k : String) : Nat :=
  match Fields.get? fs k with
  | some (.int n) => n.toNat
  | _ => 0

/-- the raw Ehdr record, with the counts carried by the extended-numbering escapes (gABI:
    e_shnum = 0 / sh_size[0]; e_shstrndx = SHN_XINDEX / sh_link[0]; e_phnum = PN_XNUM / sh_info[0]) -/
def ElfDesc.ehdrRaw (d : ElfDesc) : Val :=
  let n := d.sections.length
  let m := d.segments.length
  let g (k : String) : Val := (Fields.get? d.ehdr k).getD (.int 0)
  .record [
    ("e_ident", .record [
      ("EI_MAG", .list [.int 0x7f, .int 0x45, .int 0x4c, .int 0x46]),
      ("EI_CLASS", .int (if d.cls = 32 then 1 else 2)),
      ("EI_DATA", .int (if d.le then 1 else 2)),
      ("EI_VERSION", g "EI_VERSION"), ("EI_OSABI", g "EI_OSABI"), ("EI_ABIVERSION", g "EI_ABIVERSION")]),
    ("e_type", g "e_type"), ("e_machine", g "e_machine"), ("e_version", g "e_version"),
    ("e_entry", g "e_entry"),
    ("e_phoff", .int (if m = 0 then 0 else d.phoff)),
    ("e_shoff", .int (if n = 0 then 0 else d.shoff)),
    ("e_flags", g "e_flags"), ("e_ehsize", g "e_ehsize"),
    ("e_phentsize", .int d.phentsize),
    ("e_phnum", .int (if d.xPhnum || m ≥ 0xffff then 0xffff else m)),
    ("e_shentsize", .int d.shentsize),
    ("e_shnum", .int (if d.xShnum || n ≥ 0xff00 then 0 else n)),
    ("e_shstrndx", .int (if d.xShstrndx || d.shstrndx ≥ 0xff00 then 0xffff else d.shstrndx))]

def SecDesc.raw (s : SecDesc) : Val := .record (("sh_name", .int s.nameOff) :: s.hdr)

/-- the regions of the file a description occupies: (offset, bytes) -/
def ElfDesc.regions (d : ElfDesc) : Option (List (Nat × Bytes)) := do
  let S := d.S
  let eh ← S.Elf_Ehdr.encodeRaw d.ehdrRaw
  let shs ← d.sections.mapM fun s => S.Elf_Shdr.encodeRaw s.raw
  let phs ← d.segments.mapM fun p => S.Elf_Phdr.encodeRaw (.record p)
  let shRegs := (List.range shs.length).zip shs |>.map fun (i, b) => (d.shoff + i * d.shentsize, b)
  let phRegs := (List.range phs.length).zip phs |>.map fun (i, b) => (d.phoff + i * d.phentsize, b)
  let bodies := d.sections.filterMap fun s => s.body.map fun b => (getNatD s.hdr "sh_offset", b)
  pure ((0, eh) :: shRegs ++ phRegs ++ bodies.filter (fun r => !r.2.isEmpty))

/-- lay sorted, pairwise disjoint regions out, zero-filling the gaps -/
def layOut : List (Nat × Bytes) → Bytes → Bytes
  | [], acc => acc
  | (off, b) :: rest, acc => layOut rest (acc ++ List.replicate (off - acc.length) 0 ++ b)

def regionsDisjoint : List (Nat × Bytes) → Bool
  | [] => true
  | [_] => true
  | (o1, b1) :: (o2, b2) :: rest => decide (o1 + b1.length ≤ o2) && regionsDisjoint ((o2, b2) :: rest)

def sortRegions (rs : List (Nat × Bytes)) : List (Nat × Bytes) :=
  rs.mergeSort (fun a b => a.1 ≤ b.1)

/-- the byte image of a description, padded with `tail` zero bytes -/
def ElfDesc.assemble (d : ElfDesc) (tail : Nat := 0) : Option Bytes := do
  let rs ← d.regions
  let img := layOut (sortRegions rs) []
  pure (img ++ List.replicate tail 0)

/-- a byte string carries the description: every region's bytes sit at its offset; nothing else
    about the string is constrained -/
def Layout (d : ElfDesc) (bytes : Bytes) : Prop :=
  ∃ rs, d.regions = some rs ∧ ∀ r ∈ rs, readN bytes r.1 r.2.length = r.2

/-- the specialised object kind a section's type (and for stabs, name) calls for -/
def kindOf (shType : Val) (name : Bytes) : String :=
  match shType with
  | .str "SHT_STRTAB" => "StringTableSection"
  | .str "SHT_NULL" => "NullSection"
  | .str "SHT_SYMTAB" | .str "SHT_DYNSYM" | .str "SHT_SUNW_LDYNSYM" => "SymbolTableSection"
  | .str "SHT_SYMTAB_SHNDX" => "SymbolTableIndexSection"
  | .str "SHT_SUNW_syminfo" => "SUNWSyminfoTableSection"
  | .str "SHT_GNU_verneed" => "GNUVerNeedSection"
  | .str "SHT_GNU_verdef" => "GNUVerDefSection"
  | .str "SHT_GNU_versym" => "GNUVerSymSection"
  | .str "SHT_REL" | .str "SHT_RELA" => "RelocationSection"
  | .str "SHT_DYNAMIC" => "DynamicSection"
  | .str "SHT_NOTE" => "NoteSection"
  | .str "SHT_PROGBITS" => if name = ".stab".toUTF8.toList then "StabSection" else "Section"
  | .str "SHT_ARM_ATTRIBUTES" => "ARMAttributesSection"
  | .str "SHT_RISCV_ATTRIBUTES" => "RISCVAttributesSection"
  | .str "SHT_HASH" => "ELFHashSection"
  | .str "SHT_GNU_HASH" => "GNUHashSection"
  | .str "SHT_RELR" => "RelrRelocationSection"
  | _ => "Section"

def segKindOf (pType : Val) : String :=
  match pType with
  | .str "PT_INTERP" => "InterpSegment"
  | .str "PT_DYNAMIC" => "DynamicSegment"
  | .str "PT_NOTE" => "NoteSegment"
  | _ => "Segment"

/-- what must be reported: decoded file header, every section (kind, name, decoded header) in file
    order, every segment (kind, decoded header) in file order -/
structure ElfObs where
  header : Val
  sections : List (String × Bytes × Val)
  segments : List (String × Val)

/- A description without a name table (`shstrndx` = 0, SHN_UNDEF) is well formed only with every
   `name` empty (`namesOk`): the names reported below are then the empty ones, whatever `nameOff` says. -/
def ElfDesc.observe (env : Env) (d : ElfDesc) : R ElfObs := do
  let S := d.S
  let header ← S.Elf_Ehdr.decodeRaw env [] d.ehdrRaw
  let sections ← d.sections.mapM fun s => do
    let h ← S.Elf_Shdr.decodeRaw env [] s.raw
    return (kindOf (← h.getField "sh_type") s.name, s.name, h)
  let segments ← d.segments.mapM fun p => do
    let h ← S.Elf_Phdr.decodeRaw env [] (.record p)
    return (segKindOf (← h.getField "p_type"), h)
  return ⟨header, sections, segments⟩

/-- the escapes are carried by section 0 exactly when the header uses them -/
def ElfDesc.escapesOk (d : ElfDesc) : Bool :=
  let n := d.sections.length
  let m := d.segments.length
  let s0 := match d.sections with | s :: _ => s.hdr | [] => []
  (!(d.xShnum || n ≥ 0xff00) || (n > 0 && getNatD s0 "sh_size" == n)) &&
  (!(d.xShstrndx || d.shstrndx ≥ 0xff00) || (n > 0 && getNatD s0 "sh_link" == d.shstrndx)) &&
  (!(d.xPhnum || m ≥ 0xffff) || (n > 0 && getNatD s0 "sh_info" == m)) &&
  -- a zero e_shnum with sections present must be the escape
  (n == 0 || d.xShnum || n ≥ 0xff00 || n > 0)

/-- every section's name sits NUL-terminated at its `sh_name` in the body of the section
    `e_shstrndx` designates.  `e_shstrndx` = SHN_UNDEF (0): "the file has no section name string
    table" (gABI; index 0 is the reserved null section, never a table) — there is nothing to
    resolve: every section bears the empty name, whatever its `sh_name` -/
def ElfDesc.namesOk (d : ElfDesc) : Bool :=
  if d.shstrndx == 0 then d.sections.all fun s => s.name.isEmpty
  else
  match d.sections[d.shstrndx]? with
  | some st =>
    match st.body with
    | some body => d.sections.all fun s => firstNul (body.drop s.nameOff) == some s.name
    | none => false
  | none => d.sections.isEmpty

/-- name lookups agree with the enumeration: the index reported for a name is the last section
    bearing it; absent names give nothing -/
def ElfDesc.indexOfName (d : ElfDesc) (name : Bytes) : Option Nat :=
  let idxs := (List.range d.sections.length).zip d.sections |>.filter (fun p => p.2.name == name) |>.map (·.1)
  idxs.getLast?

end PyElf.Spec

namespace PyElf.Spec
open PyElf

/-! ### Well-formedness of a description (Appendix D of DESIGN.md, C01) -/

def typeIn (h : Val) (names : List String) : Bool :=
  match h.getField "sh_type" with
  | .ok (.str t) => names.contains t
  | _ => false

def fieldNat (h : Val) (k : String) : Nat :=
  match h.getField k with
  | .ok (.int n) => n.toNat
  | _ => 0

/-- the decoded header of section `i`, if it exists and decodes -/
def ElfDesc.decHdr (env : Env) (d : ElfDesc) (i : Nat) : Option Val :=
  match d.sections[i]? with
  | some s => (d.S.Elf_Shdr.decodeRaw env [] s.raw).toOption
  | none => none

def bodyOf (s : SecDesc) : Bytes := s.body.getD []

/-- what the gABI (and the vendor documents for the GNU/Sun sections) require of a section so that a
    reader can interpret it: links designate tables of the right type, entry sizes fit, the tables
    a reader must parse on sight lie inside the body.  `fuel` bounds the link depth
    (versym → symtab → strtab). -/
def ElfDesc.secOk (env : Env) (d : ElfDesc) : Nat → Nat → Bool
  | 0, _ => false
  | fuel+1, i =>
    match d.sections[i]?, d.decHdr env i with
    | some s, some h =>
      let w := d.cls / 8
      let link := fieldNat h "sh_link"
      let linkIs (types : List String) : Bool :=
        match d.decHdr env link with
        | some lh => typeIn lh types && d.secOk env fuel link
        | none => false
      let entsize := fieldNat h "sh_entsize"
      let size := fieldNat h "sh_size"
      let off := fieldNat h "sh_offset"
      let body := bodyOf s
      let word (k : Nat) : Nat := decNat d.le ((body.drop (4 * k)).take 4)
      -- SHF_COMPRESSED sections are C02's subject
      (fieldNat h "sh_flags" &&& 0x800 == 0) &&
      (if typeIn h ["SHT_SYMTAB", "SHT_DYNSYM", "SHT_SUNW_LDYNSYM"] then
         linkIs ["SHT_STRTAB"] && decide (0 < entsize) && size % entsize == 0
       else if typeIn h ["SHT_SUNW_syminfo", "SHT_GNU_versym"] then linkIs ["SHT_SYMTAB", "SHT_DYNSYM"]
       else if typeIn h ["SHT_GNU_verneed", "SHT_GNU_verdef"] then linkIs ["SHT_STRTAB"]
       else if typeIn h ["SHT_REL"] then entsize == 2 * w
       else if typeIn h ["SHT_RELA"] then entsize == 3 * w
       else if typeIn h ["SHT_RELR"] then entsize == w
       else if typeIn h ["SHT_DYNAMIC"] then linkIs ["SHT_STRTAB", "SHT_NOBITS"]
       else if typeIn h ["SHT_ARM_ATTRIBUTES", "SHT_RISCV_ATTRIBUTES"] then
         decide (off < 2 ^ 63) && body.head? == some 0x41
       else if typeIn h ["SHT_HASH"] then
         linkIs ["SHT_SYMTAB", "SHT_DYNSYM"] && decide (off < 2 ^ 63) &&
         decide (8 ≤ body.length) && decide (8 + 4 * (word 0 + word 1) ≤ body.length)
       else if typeIn h ["SHT_GNU_HASH"] then
         linkIs ["SHT_SYMTAB", "SHT_DYNSYM"] && decide (off < 2 ^ 63) &&
         decide (16 ≤ body.length) && decide (16 + w * word 2 + 4 * word 0 ≤ body.length)
       else true)
    | _, _ => false

/-- the machine class, OS ABI and core flags of the description are the ones its header encodes -/
def ElfDesc.cfgOk (env : Env) (d : ElfDesc) : Bool :=
  match d.S.Elf_Ehdr.decodeRaw env [] d.ehdrRaw with
  | .ok h =>
    let em := (h.getField "e_machine").toOption.getD .none
    let et := (h.getField "e_type").toOption.getD .none
    let osabi := ((h.getField "e_ident").toOption.getD .none |>.getField "EI_OSABI").toOption.getD .none
    let mc := match em with
      | .str m => ((machineClass.find? (·.1 == m)).map (·.2)).getD "default"
      | _ => "default"
    mc == d.mclass && (d.solaris == (match osabi with | .str "ELFOSABI_SOLARIS" => true | _ => false)) &&
      (d.core == (match et with | .str "ET_CORE" => true | _ => false))
  | .error _ => false

def ElfDesc.wf (env : Env) (d : ElfDesc) : Bool :=
  let n := d.sections.length
  let m := d.segments.length
  (d.cls == 32 || d.cls == 64) &&
  machineClasses.contains d.mclass && d.cfgOk env &&
  (match d.regions with
   | some rs => regionsDisjoint (sortRegions rs)
   | none => false) &&
  d.escapesOk && d.namesOk &&
  (n == 0 || decide ((d.S.Elf_Shdr.sizeof.getD 0) ≤ d.shentsize)) &&
  (m == 0 || decide ((d.S.Elf_Phdr.sizeof.getD 0) ≤ d.phentsize)) &&
  decide (d.shoff + n * d.shentsize < 2 ^ 63) && decide (d.phoff + m * d.phentsize < 2 ^ 63) &&
  decide (n < 2 ^ 32) && decide (m < 2 ^ 32) &&
  (n == 0 || (decide (0 < d.shoff) && decide (d.shstrndx < n))) && (m == 0 || decide (0 < d.phoff)) &&
  -- name offsets are reachable by a seek (a file without a name table, e_shstrndx = SHN_UNDEF, has none)
  (d.shstrndx == 0 ||
   match d.sections[d.shstrndx]? with
   | some st => d.sections.all fun s => decide (getNatD st.hdr "sh_offset" + s.nameOff < 2 ^ 63)
   | none => true) &&
  -- the string table section itself is not flagged compressed, and every section is interpretable
  (List.range n).all (fun i => d.secOk env 4 i) &&
  -- a file without a section header table has no section-name string table: e_shstrndx = SHN_UNDEF
  -- (gABI: "If the file has no section name string table, this member holds the value SHN_UNDEF");
  -- a file WITH sections may have none as well (`namesOk`: its sections are nameless)
  (n != 0 || d.shstrndx == 0)

/-! ### Well-formedness admitting compressed sections (gABI ch. 4, "Section compression")

  `wf` above excludes SHF_COMPRESSED sections altogether.  `wfZ` is `wf` with that one clause
  relaxed: a section may carry SHF_COMPRESSED when its data begins with a complete compression
  header for the file's class (`Elf32_Chdr`: 12 bytes, `Elf64_Chdr`: 24 bytes) — gABI: "the section
  data begins with the compression header" — at an offset a reader can seek to.  Nothing is asked of
  the header's contents or of the compressed stream here (their decoding is C02's / C11's subject);
  a reader must merely be able to read the header when it constructs the section object.
  Every `wf` description is `wfZ`. -/

/-- `secOk` with the SHF_COMPRESSED clause relaxed -/
def ElfDesc.secOkZ (env : Env) (d : ElfDesc) : Nat → Nat → Bool
  | 0, _ => false
  | fuel+1, i =>
    match d.sections[i]?, d.decHdr env i with
    | some s, some h =>
      let w := d.cls / 8
      let link := fieldNat h "sh_link"
      let linkIs (types : List String) : Bool :=
        match d.decHdr env link with
        | some lh => typeIn lh types && d.secOkZ env fuel link
        | none => false
      let entsize := fieldNat h "sh_entsize"
      let size := fieldNat h "sh_size"
      let off := fieldNat h "sh_offset"
      let body := bodyOf s
      let word (k : Nat) : Nat := decNat d.le ((body.drop (4 * k)).take 4)
      -- not flagged SHF_COMPRESSED, or the body begins with a full compression header
      (fieldNat h "sh_flags" &&& 0x800 == 0 ||
        (decide (off < 2 ^ 63) && decide ((if d.cls = 32 then 12 else 24) ≤ body.length))) &&
      (if typeIn h ["SHT_SYMTAB", "SHT_DYNSYM", "SHT_SUNW_LDYNSYM"] then
         linkIs ["SHT_STRTAB"] && decide (0 < entsize) && size % entsize == 0
       else if typeIn h ["SHT_SUNW_syminfo", "SHT_GNU_versym"] then linkIs ["SHT_SYMTAB", "SHT_DYNSYM"]
       else if typeIn h ["SHT_GNU_verneed", "SHT_GNU_verdef"] then linkIs ["SHT_STRTAB"]
       else if typeIn h ["SHT_REL"] then entsize == 2 * w
       else if typeIn h ["SHT_RELA"] then entsize == 3 * w
       else if typeIn h ["SHT_RELR"] then entsize == w
       else if typeIn h ["SHT_DYNAMIC"] then linkIs ["SHT_STRTAB", "SHT_NOBITS"]
       else if typeIn h ["SHT_ARM_ATTRIBUTES", "SHT_RISCV_ATTRIBUTES"] then
         decide (off < 2 ^ 63) && body.head? == some 0x41
       else if typeIn h ["SHT_HASH"] then
         linkIs ["SHT_SYMTAB", "SHT_DYNSYM"] && decide (off < 2 ^ 63) &&
         decide (8 ≤ body.length) && decide (8 + 4 * (word 0 + word 1) ≤ body.length)
       else if typeIn h ["SHT_GNU_HASH"] then
         linkIs ["SHT_SYMTAB", "SHT_DYNSYM"] && decide (off < 2 ^ 63) &&
         decide (16 ≤ body.length) && decide (16 + w * word 2 + 4 * word 0 ≤ body.length)
       else true)
    | _, _ => false

/-- `wf` with `secOkZ` in place of `secOk`: compressed sections admitted -/
def ElfDesc.wfZ (env : Env) (d : ElfDesc) : Bool :=
  let n := d.sections.length
  let m := d.segments.length
  (d.cls == 32 || d.cls == 64) &&
  machineClasses.contains d.mclass && d.cfgOk env &&
  (match d.regions with
   | some rs => regionsDisjoint (sortRegions rs)
   | none => false) &&
  d.escapesOk && d.namesOk &&
  (n == 0 || decide ((d.S.Elf_Shdr.sizeof.getD 0) ≤ d.shentsize)) &&
  (m == 0 || decide ((d.S.Elf_Phdr.sizeof.getD 0) ≤ d.phentsize)) &&
  decide (d.shoff + n * d.shentsize < 2 ^ 63) && decide (d.phoff + m * d.phentsize < 2 ^ 63) &&
  decide (n < 2 ^ 32) && decide (m < 2 ^ 32) &&
  (n == 0 || (decide (0 < d.shoff) && decide (d.shstrndx < n))) && (m == 0 || decide (0 < d.phoff)) &&
  (d.shstrndx == 0 ||
   match d.sections[d.shstrndx]? with
   | some st => d.sections.all fun s => decide (getNatD st.hdr "sh_offset" + s.nameOff < 2 ^ 63)
   | none => true) &&
  (List.range n).all (fun i => d.secOkZ env 4 i) &&
  (n != 0 || d.shstrndx == 0)

end PyElf.Spec
