/-
  DWARF expressions, standards side (DWARF 2–5 §2.5 "DWARF Expressions", §2.6
  "Location Descriptions", §7.7.1 Table 7.9 "DWARF operation encodings"; the GNU
  extensions of GCC/binutils `dwarf2.def`; "DWARF for WebAssembly").

  * `opRows`   – the operation table: opcode, name, operand encodings.
  * `Op`       – abstract operations; `entry` nests a whole expression
                 (DW_OP_entry_value / DW_OP_GNU_entry_value).
  * `encodeOps`– the assembler (structural recursion).
  * `annotate` – what a parser has to report: opcode, name, operand values, byte offset.

  Nothing here is taken from the library's code.  `Val` is only the neutral
  carrier of the prescribed observation.
-/
import PyElf.Core.Bundles
import PyElf.Spec.Primitives
import PyElf.Spec.DwarfExprKinds
import PyElf.Spec.DwarfStructs
namespace PyElf.Spec
open PyElf

/-- operand encodings as the standard words them, before address size / format / byte order are fixed -/
inductive AKind
  | u1 | u2 | u4 | u8          -- 1/2/4/8-byte unsigned constant
  | s1 | s2 | s4 | s8          -- 1/2/4/8-byte signed constant
  | addr                       -- target address: address_size bytes
  | off                        -- reference to an entry of .debug_info, sized like DW_FORM_ref_addr (`refSize`)
  | uleb | sleb
  | block | block1 | expr | wasm
  deriving DecidableEq, Repr

/-- DWARF 5 Table 7.9, 0x03–0x2f (DWARF 2 operations) -/
def opRowsStack : List (Nat × String × List AKind) :=
  [(0x03, "DW_OP_addr", [.addr]), (0x06, "DW_OP_deref", []), (0x08, "DW_OP_const1u", [.u1]), (0x09, "DW_OP_const1s", [.s1]),
   (0x0a, "DW_OP_const2u", [.u2]), (0x0b, "DW_OP_const2s", [.s2]), (0x0c, "DW_OP_const4u", [.u4]), (0x0d, "DW_OP_const4s", [.s4]),
   (0x0e, "DW_OP_const8u", [.u8]), (0x0f, "DW_OP_const8s", [.s8]), (0x10, "DW_OP_constu", [.uleb]), (0x11, "DW_OP_consts", [.sleb]),
   (0x12, "DW_OP_dup", []), (0x13, "DW_OP_drop", []), (0x14, "DW_OP_over", []), (0x15, "DW_OP_pick", [.u1]),
   (0x16, "DW_OP_swap", []), (0x17, "DW_OP_rot", []), (0x18, "DW_OP_xderef", []), (0x19, "DW_OP_abs", []),
   (0x1a, "DW_OP_and", []), (0x1b, "DW_OP_div", []), (0x1c, "DW_OP_minus", []), (0x1d, "DW_OP_mod", []),
   (0x1e, "DW_OP_mul", []), (0x1f, "DW_OP_neg", []), (0x20, "DW_OP_not", []), (0x21, "DW_OP_or", []),
   (0x22, "DW_OP_plus", []), (0x23, "DW_OP_plus_uconst", [.uleb]), (0x24, "DW_OP_shl", []), (0x25, "DW_OP_shr", []),
   (0x26, "DW_OP_shra", []), (0x27, "DW_OP_xor", []), (0x28, "DW_OP_bra", [.s2]), (0x29, "DW_OP_eq", []),
   (0x2a, "DW_OP_ge", []), (0x2b, "DW_OP_gt", []), (0x2c, "DW_OP_le", []), (0x2d, "DW_OP_lt", []),
   (0x2e, "DW_OP_ne", []), (0x2f, "DW_OP_skip", [.s2])]
/-- DW_OP_lit0 … DW_OP_lit31 -/
def opRowsLit : List (Nat × String × List AKind) :=
  [(0x30, "DW_OP_lit0", []), (0x31, "DW_OP_lit1", []), (0x32, "DW_OP_lit2", []), (0x33, "DW_OP_lit3", []),
   (0x34, "DW_OP_lit4", []), (0x35, "DW_OP_lit5", []), (0x36, "DW_OP_lit6", []), (0x37, "DW_OP_lit7", []),
   (0x38, "DW_OP_lit8", []), (0x39, "DW_OP_lit9", []), (0x3a, "DW_OP_lit10", []), (0x3b, "DW_OP_lit11", []),
   (0x3c, "DW_OP_lit12", []), (0x3d, "DW_OP_lit13", []), (0x3e, "DW_OP_lit14", []), (0x3f, "DW_OP_lit15", []),
   (0x40, "DW_OP_lit16", []), (0x41, "DW_OP_lit17", []), (0x42, "DW_OP_lit18", []), (0x43, "DW_OP_lit19", []),
   (0x44, "DW_OP_lit20", []), (0x45, "DW_OP_lit21", []), (0x46, "DW_OP_lit22", []), (0x47, "DW_OP_lit23", []),
   (0x48, "DW_OP_lit24", []), (0x49, "DW_OP_lit25", []), (0x4a, "DW_OP_lit26", []), (0x4b, "DW_OP_lit27", []),
   (0x4c, "DW_OP_lit28", []), (0x4d, "DW_OP_lit29", []), (0x4e, "DW_OP_lit30", []), (0x4f, "DW_OP_lit31", [])]
/-- DW_OP_reg0 … DW_OP_reg31 -/
def opRowsReg : List (Nat × String × List AKind) :=
  [(0x50, "DW_OP_reg0", []), (0x51, "DW_OP_reg1", []), (0x52, "DW_OP_reg2", []), (0x53, "DW_OP_reg3", []),
   (0x54, "DW_OP_reg4", []), (0x55, "DW_OP_reg5", []), (0x56, "DW_OP_reg6", []), (0x57, "DW_OP_reg7", []),
   (0x58, "DW_OP_reg8", []), (0x59, "DW_OP_reg9", []), (0x5a, "DW_OP_reg10", []), (0x5b, "DW_OP_reg11", []),
   (0x5c, "DW_OP_reg12", []), (0x5d, "DW_OP_reg13", []), (0x5e, "DW_OP_reg14", []), (0x5f, "DW_OP_reg15", []),
   (0x60, "DW_OP_reg16", []), (0x61, "DW_OP_reg17", []), (0x62, "DW_OP_reg18", []), (0x63, "DW_OP_reg19", []),
   (0x64, "DW_OP_reg20", []), (0x65, "DW_OP_reg21", []), (0x66, "DW_OP_reg22", []), (0x67, "DW_OP_reg23", []),
   (0x68, "DW_OP_reg24", []), (0x69, "DW_OP_reg25", []), (0x6a, "DW_OP_reg26", []), (0x6b, "DW_OP_reg27", []),
   (0x6c, "DW_OP_reg28", []), (0x6d, "DW_OP_reg29", []), (0x6e, "DW_OP_reg30", []), (0x6f, "DW_OP_reg31", [])]
/-- DW_OP_breg0 … DW_OP_breg31: SLEB128 offset -/
def opRowsBreg : List (Nat × String × List AKind) :=
  [(0x70, "DW_OP_breg0", [.sleb]), (0x71, "DW_OP_breg1", [.sleb]), (0x72, "DW_OP_breg2", [.sleb]), (0x73, "DW_OP_breg3", [.sleb]),
   (0x74, "DW_OP_breg4", [.sleb]), (0x75, "DW_OP_breg5", [.sleb]), (0x76, "DW_OP_breg6", [.sleb]), (0x77, "DW_OP_breg7", [.sleb]),
   (0x78, "DW_OP_breg8", [.sleb]), (0x79, "DW_OP_breg9", [.sleb]), (0x7a, "DW_OP_breg10", [.sleb]), (0x7b, "DW_OP_breg11", [.sleb]),
   (0x7c, "DW_OP_breg12", [.sleb]), (0x7d, "DW_OP_breg13", [.sleb]), (0x7e, "DW_OP_breg14", [.sleb]), (0x7f, "DW_OP_breg15", [.sleb]),
   (0x80, "DW_OP_breg16", [.sleb]), (0x81, "DW_OP_breg17", [.sleb]), (0x82, "DW_OP_breg18", [.sleb]), (0x83, "DW_OP_breg19", [.sleb]),
   (0x84, "DW_OP_breg20", [.sleb]), (0x85, "DW_OP_breg21", [.sleb]), (0x86, "DW_OP_breg22", [.sleb]), (0x87, "DW_OP_breg23", [.sleb]),
   (0x88, "DW_OP_breg24", [.sleb]), (0x89, "DW_OP_breg25", [.sleb]), (0x8a, "DW_OP_breg26", [.sleb]), (0x8b, "DW_OP_breg27", [.sleb]),
   (0x8c, "DW_OP_breg28", [.sleb]), (0x8d, "DW_OP_breg29", [.sleb]), (0x8e, "DW_OP_breg30", [.sleb]), (0x8f, "DW_OP_breg31", [.sleb])]
/-- DWARF 5 Table 7.9, 0x90–0xa9 (DWARF 2 location operations, DWARF 3/4/5 additions) -/
def opRowsLoc : List (Nat × String × List AKind) :=
  [(0x90, "DW_OP_regx", [.uleb]), (0x91, "DW_OP_fbreg", [.sleb]), (0x92, "DW_OP_bregx", [.uleb, .sleb]), (0x93, "DW_OP_piece", [.uleb]),
   (0x94, "DW_OP_deref_size", [.u1]), (0x95, "DW_OP_xderef_size", [.u1]), (0x96, "DW_OP_nop", []), (0x97, "DW_OP_push_object_address", []),
   (0x98, "DW_OP_call2", [.u2]), (0x99, "DW_OP_call4", [.u4]), (0x9a, "DW_OP_call_ref", [.off]), (0x9b, "DW_OP_form_tls_address", []),
   (0x9c, "DW_OP_call_frame_cfa", []), (0x9d, "DW_OP_bit_piece", [.uleb, .uleb]), (0x9e, "DW_OP_implicit_value", [.block]), (0x9f, "DW_OP_stack_value", []),
   (0xa0, "DW_OP_implicit_pointer", [.off, .sleb]), (0xa1, "DW_OP_addrx", [.uleb]), (0xa2, "DW_OP_constx", [.uleb]), (0xa3, "DW_OP_entry_value", [.expr]),
   (0xa4, "DW_OP_const_type", [.uleb, .block1]), (0xa5, "DW_OP_regval_type", [.uleb, .uleb]), (0xa6, "DW_OP_deref_type", [.u1, .uleb]), (0xa7, "DW_OP_xderef_type", [.u1, .uleb]),
   (0xa8, "DW_OP_convert", [.uleb]), (0xa9, "DW_OP_reinterpret", [.uleb])]
/-- vendor extensions the library names: GNU (GCC/binutils dwarf2.def) and WebAssembly (DWARF for WebAssembly §"Location descriptions") -/
def opRowsExt : List (Nat × String × List AKind) :=
  [(0xe0, "DW_OP_GNU_push_tls_address", []), (0xed, "DW_OP_WASM_location", [.wasm]), (0xf0, "DW_OP_GNU_uninit", []), (0xf2, "DW_OP_GNU_implicit_pointer", [.off, .sleb]),
   (0xf3, "DW_OP_GNU_entry_value", [.expr]), (0xf4, "DW_OP_GNU_const_type", [.uleb, .block1]), (0xf5, "DW_OP_GNU_regval_type", [.uleb, .uleb]), (0xf6, "DW_OP_GNU_deref_type", [.u1, .uleb]),
   (0xf7, "DW_OP_GNU_convert", [.uleb]), (0xfa, "DW_OP_GNU_parameter_ref", [.u4])]

/-- every operation (174 of them), sorted by opcode.  `DW_OP_lo_user` (0xe0) and `DW_OP_hi_user`
    (0xff) delimit the vendor range (§7.1); they are not operations and have no row. -/
def opRows : List (Nat × String × List AKind) :=
  opRowsStack ++ opRowsLit ++ opRowsReg ++ opRowsBreg ++ opRowsLoc ++ opRowsExt

/-- the names of the two range markers -/
def opRangeMarkers : List (String × Nat) := [("DW_OP_lo_user", 0xe0), ("DW_OP_hi_user", 0xff)]

def opRow? (op : Nat) : Option (String × List AKind) := opRows.lookup op

def opName? (op : Nat) : Option String := (opRow? op).map (·.1)
def opSigAbs (op : Nat) : Option (List AKind) := (opRow? op).map (·.2)

/-- width of the reference operand of DW_OP_call_ref / DW_OP_implicit_pointer / DW_OP_GNU_implicit_pointer: "a 4-byte
    unsigned value in the 32-bit DWARF format, or an 8-byte unsigned value in the 64-bit DWARF format" (DWARF 3–5
    §2.5.1.5, DWARF 5 §2.6.1.1.4) — the encoding of DW_FORM_ref_addr, which in DWARF 2 (§7.5.4) is the size of an
    ADDRESS.  The GNU extension is defined that way ("DW_OP_GNU_implicit_pointer … the first operand … in DWARF
    version 2 has the size of an address, in later versions the size of an offset"; GCC `DWARF_REF_SIZE`), and so do
    binutils (`dwarf_version == 2 ? pointer_size : offset_size`) and LLVM (`SizeRefAddr`) read all three operations.
    `gcc -O2 -gdwarf-2` on a 64-bit target emits DW_OP_GNU_implicit_pointer with an 8-byte reference in 32-bit DWARF. -/
def refSize (c : DwarfCfg) : Nat := if c.ver = 2 then c.asz else c.fmt / 8

/-- fix the unit-dependent widths and the byte order -/
def resolve (c : DwarfCfg) : AKind → ArgKind
  | .u1 => .u 1 c.le | .u2 => .u 2 c.le | .u4 => .u 4 c.le | .u8 => .u 8 c.le
  | .s1 => .s 1 c.le | .s2 => .s 2 c.le | .s4 => .s 4 c.le | .s8 => .s 8 c.le
  | .addr => .u c.asz c.le
  | .off => .u (refSize c) c.le
  | .uleb => .uleb | .sleb => .sleb | .block => .block | .block1 => .block1 | .expr => .expr
  | .wasm => .wasm c.le

/-- operand signature of an opcode in a unit with the given address size, format and byte order -/
def opSig (c : DwarfCfg) (op : Nat) : Option (List ArgKind) := (opSigAbs op).map (·.map (resolve c))

/-- the whole signature table, sorted by opcode -/
def opTable (c : DwarfCfg) : List (Nat × List ArgKind) := opRows.map fun r => (r.1, r.2.2.map (resolve c))

/-- opcode → name, sorted by opcode -/
def opNames : List (Nat × String) := opRows.map fun r => (r.1, r.2.1)

/-! ### abstract syntax -/

/-- one operand.  LEB128 operands carry the number of bytes used to encode them (the standard allows
    padded encodings); `n` is not observable. -/
inductive Arg
  | u (v : Nat)                          -- fixed-width unsigned; width from the signature
  | s (v : Int)                          -- fixed-width signed
  | uleb (n : Nat) (v : Nat)
  | sleb (n : Nat) (v : Int)
  | block (n : Nat) (b : Bytes)          -- ULEB128 length (in `n` bytes), then the bytes
  | block1 (b : Bytes)                   -- 1-byte length, then the bytes
  | wasm (kind : Nat) (n : Nat) (v : Nat) -- kind 0..2: ULEB128 index in `n` bytes; kind 3: 4-byte unsigned
  deriving Repr, DecidableEq

inductive Op
  | plain (opcode : Nat) (args : List Arg)
  | entry (opcode : Nat) (n : Nat) (body : List Op)   -- ULEB128 length in `n` bytes, then the nested expression
  deriving Repr

/-! ### assembler -/

def encArg : ArgKind → Arg → Bytes
  | .u n le, .u v => encNat le n v
  | .s n le, .s v => encNat le n (ofSigned (8 * n) v)
  | .uleb, .uleb n v => encUlebN n v
  | .sleb, .sleb n v => encSlebN n v
  | .block, .block n b => encUlebN n b.length ++ b
  | .block1, .block1 b => UInt8.ofNat b.length :: b
  | .wasm le, .wasm k n v => UInt8.ofNat k :: (if k ≤ 2 then encUlebN n v else encNat le 4 v)
  | _, _ => []

def encArgs : List ArgKind → List Arg → Bytes
  | k :: ks, a :: as => encArg k a ++ encArgs ks as
  | _, _ => []

mutual
def encodeOp (c : DwarfCfg) : Op → Bytes
  | .plain opc args => UInt8.ofNat opc :: encArgs ((opSig c opc).getD []) args
  | .entry opc n body => UInt8.ofNat opc :: (encUlebN n (encodeOps c body).length ++ encodeOps c body)
def encodeOps (c : DwarfCfg) : List Op → Bytes
  | [] => []
  | o :: os => encodeOp c o ++ encodeOps c os
end

/-! ### well-formedness: operands fit their kinds, nested blocks are themselves well-formed -/

def argFit : ArgKind → Arg → Bool
  | .u n _, .u v => decide (v < 256 ^ n)
  | .s n _, .s v => decide (1 ≤ n) && decide (-((2 ^ (8 * n - 1) : Nat) : Int) ≤ v) && decide (v < ((2 ^ (8 * n - 1) : Nat) : Int))
  | .uleb, .uleb n v => decide (1 ≤ n) && decide (v < 2 ^ (7 * n))
  | .sleb, .sleb n v => decide (1 ≤ n) && decide (-((2 ^ (7 * n - 1) : Nat) : Int) ≤ v) && decide (v < ((2 ^ (7 * n - 1) : Nat) : Int))
  | .block, .block n b => decide (1 ≤ n) && decide (b.length < 2 ^ (7 * n))
  | .block1, .block1 b => decide (b.length < 256)
  | .wasm _, .wasm k n v => (decide (k ≤ 2) && decide (1 ≤ n) && decide (v < 2 ^ (7 * n))) || (decide (k = 3) && decide (v < 2 ^ 32))
  | _, _ => false

def argsFit : List ArgKind → List Arg → Bool
  | [], [] => true
  | k :: ks, a :: as => argFit k a && argsFit ks as
  | _, _ => false

mutual
def WFop (c : DwarfCfg) : Op → Bool
  | .plain opc args =>
    match opSig c opc with
    | some ks => argsFit ks args
    | none => false
  | .entry opc n body =>
    decide (opSig c opc = some [.expr]) && decide (1 ≤ n) && decide ((encodeOps c body).length < 2 ^ (7 * n))
      && WFops c body
def WFops (c : DwarfCfg) : List Op → Bool
  | [] => true
  | o :: os => WFop c o && WFops c os
end

/-! ### the prescribed observation -/

def obsBytes (b : Bytes) : Val := .list (b.map fun x => .int x.toNat)

def obsArg : Arg → List Val
  | .u v => [.int v]
  | .s v => [.int v]
  | .uleb _ v => [.int v]
  | .sleb _ v => [.int v]
  | .block _ b => [obsBytes b]
  | .block1 b => [obsBytes b]
  | .wasm k _ v => [.int k, .int v]

def obsRecord (op : Nat) (args : List Val) (offset : Nat) : Val :=
  .record [("op", .int op), ("op_name", .str ((opName? op).getD "")), ("args", .list args), ("offset", .int offset)]

mutual
/-- one operation at byte offset `off` of its expression -/
def obsOp (c : DwarfCfg) (off : Nat) : Op → Val
  | .plain opc args => obsRecord opc (args.flatMap obsArg) off
  | .entry opc _ body => obsRecord opc [.list (annotate c 0 body)] off
/-- offsets are the prefix sums of the encoded lengths; a nested expression starts again at 0 -/
def annotate (c : DwarfCfg) (off : Nat) : List Op → List Val
  | [] => []
  | o :: os => obsOp c off o :: annotate c (off + (encodeOp c o).length) os
end

/-! ### re-encoding the parsed result

  `reencode` assembles bytes from an observation alone (opcode and operand values; names and offsets are
  ignored), choosing the minimal LEB128 encoding everywhere.  It is the assembler a consumer of the parsed
  result would write. -/

/-- minimal SLEB128 length -/
def slebLen (v : Int) : Nat := if -64 ≤ v ∧ v < 64 then 1 else 1 + slebLen (v / 128)
termination_by v.natAbs
decreasing_by omega

def valNat? : Val → Option Nat
  | .int (.ofNat n) => some n
  | _ => none

def valInt? : Val → Option Int
  | .int v => some v
  | _ => none

def valBytes? : List Val → Option Bytes
  | [] => some []
  | v :: vs =>
    match valNat? v, valBytes? vs with
    | some n, some r => if n < 256 then some (UInt8.ofNat n :: r) else none
    | _, _ => none

def reencArgs : List ArgKind → List Val → Option Bytes
  | [], [] => some []
  | .u n le :: ks, v :: vs =>
    match valNat? v, reencArgs ks vs with
    | some x, some r => some (encNat le n x ++ r)
    | _, _ => none
  | .s n le :: ks, v :: vs =>
    match valInt? v, reencArgs ks vs with
    | some x, some r => some (encNat le n (ofSigned (8 * n) x) ++ r)
    | _, _ => none
  | .uleb :: ks, v :: vs =>
    match valNat? v, reencArgs ks vs with
    | some x, some r => some (encUlebN (ulebLen x) x ++ r)
    | _, _ => none
  | .sleb :: ks, v :: vs =>
    match valInt? v, reencArgs ks vs with
    | some x, some r => some (encSlebN (slebLen x) x ++ r)
    | _, _ => none
  | .block :: ks, .list bs :: vs =>
    match valBytes? bs, reencArgs ks vs with
    | some b, some r => some (encUlebN (ulebLen b.length) b.length ++ b ++ r)
    | _, _ => none
  | .block1 :: ks, .list bs :: vs =>
    match valBytes? bs, reencArgs ks vs with
    | some b, some r => some (UInt8.ofNat b.length :: b ++ r)
    | _, _ => none
  | .wasm le :: ks, k :: v :: vs =>
    match valNat? k, valNat? v, reencArgs ks vs with
    | some k, some x, some r => some (UInt8.ofNat k :: (if k ≤ 2 then encUlebN (ulebLen x) x else encNat le 4 x) ++ r)
    | _, _, _ => none
  | _, _ => none

/-- the operand list of an entry-value operation: one nested expression -/
def nestedBody? : List Val → Option (List Val)
  | [.list body] => some body
  | _ => none

/-- `fuel` bounds list length plus nesting depth of the observation -/
def reencOps (c : DwarfCfg) : Nat → List Val → Option Bytes
  | 0, _ => none
  | _+1, [] => some []
  | fuel+1, .record [(_, .int (.ofNat op)), (_, _), (_, .list args), (_, _)] :: rest =>
    match opSig c op with
    | none => none
    | some ks =>
      let this : Option Bytes :=
        if ks = [.expr] then
          match nestedBody? args with
          | some body =>
            match reencOps c fuel body with
            | some b => some (UInt8.ofNat op :: (encUlebN (ulebLen b.length) b.length ++ b))
            | none => none
          | none => none
        else
          match reencArgs ks args with
          | some b => some (UInt8.ofNat op :: b)
          | none => none
      match this, reencOps c fuel rest with
      | some b, some r => some (b ++ r)
      | _, _ => none
  | _+1, _ => none

/-! ### minimal (canonical) encodings: the ones `reencode` produces -/

def argMinimal : Arg → Bool
  | .uleb n v => n == ulebLen v
  | .sleb n v => n == slebLen v
  | .block n b => n == ulebLen b.length
  | .wasm k n v => decide (3 ≤ k) || n == ulebLen v
  | _ => true

mutual
def opMinimal (c : DwarfCfg) : Op → Bool
  | .plain _ args => args.all argMinimal
  | .entry _ n body => n == ulebLen (encodeOps c body).length && opsMinimal c body
def opsMinimal (c : DwarfCfg) : List Op → Bool
  | [] => true
  | o :: os => opMinimal c o && opsMinimal c os
end

end PyElf.Spec
