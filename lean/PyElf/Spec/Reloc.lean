/-
  Standards side of C08: relocation entries (gABI ch. 4 "Relocation", MIPS64 ELF
  object file specification §2.9 for the packed r_info), the RELR compressed
  relative-relocation encoding (gABI proposal, "SHT_RELR"), the symbol table entry
  (only as far as `st_value` is concerned) and the relocation formulas of the
  processor supplements for the pairs C08 lists.

  Nothing here mentions `Con`, streams or errors.  Type numbers are the psABIs'.
-/
import PyElf.Core.Val
namespace PyElf.Spec
open PyElf

/-! ### REL / RELA entries -/

/-- what fixes the on-disk shape of a relocation entry -/
structure RelCfg where
  le : Bool
  cls : Nat            -- 32 | 64
  mips : Bool          -- e_machine = EM_MIPS: an ELF64 file then uses the packed r_info
  deriving Repr, DecidableEq

def RelCfg.packed (c : RelCfg) : Bool := c.cls = 64 && c.mips
def RelCfg.w (c : RelCfg) : Nat := c.cls / 8

/-- one relocation entry, abstractly.  `addend` is meaningful for RELA only; the three
    sub-fields for the MIPS64 packed layout only. -/
structure RelEntry where
  offset : Nat
  sym : Nat
  type : Nat
  addend : Int := 0
  ssym : Nat := 0
  type2 : Nat := 0
  type3 : Nat := 0
  deriving Repr, DecidableEq

/-- field ranges of the gABI / MIPS64 layouts -/
def WFRel (c : RelCfg) (rela : Bool) (e : RelEntry) : Bool :=
  decide (e.offset < 2 ^ c.cls) &&
  (if c.cls = 32 then decide (e.sym < 2 ^ 24) && decide (e.type < 2 ^ 8)
   else if c.packed then
     decide (e.sym < 2 ^ 32) && decide (e.type < 2 ^ 8) && decide (e.type2 < 2 ^ 8) && decide (e.type3 < 2 ^ 8)
       && decide (e.ssym < 2 ^ 8)
   else decide (e.sym < 2 ^ 32) && decide (e.type < 2 ^ 32)) &&
  (!rela || (decide (-((2 ^ (c.cls - 1) : Nat) : Int) ≤ e.addend) && decide (e.addend < ((2 ^ (c.cls - 1) : Nat) : Int))))

/-- `r_info`: ELF32_R_INFO(s,t) = (s << 8) + (unsigned char) t; ELF64_R_INFO(s,t) = (s << 32) + t;
    MIPS64: the 64-bit word whose bytes are r_sym, r_ssym, r_type3, r_type2, r_type from the most significant end -/
def rInfo (c : RelCfg) (e : RelEntry) : Nat :=
  if c.cls = 32 then e.sym * 2 ^ 8 + e.type
  else if c.packed then e.sym * 2 ^ 32 + e.ssym * 2 ^ 24 + e.type3 * 2 ^ 16 + e.type2 * 2 ^ 8 + e.type
  else e.sym * 2 ^ 32 + e.type

/-- the bytes of one entry.  MIPS64: `Elf64_Word r_sym; Elf64_Byte r_ssym, r_type3, r_type2, r_type`
    in this order in the file's byte order (so for a little-endian file this is not the LE r_info word). -/
def encRel (c : RelCfg) (rela : Bool) (e : RelEntry) : Bytes :=
  encNat c.le c.w e.offset ++
  (if c.packed then
     encNat c.le 4 e.sym ++ encNat c.le 1 e.ssym ++ encNat c.le 1 e.type3 ++ encNat c.le 1 e.type2 ++ encNat c.le 1 e.type
   else encNat c.le c.w (rInfo c e)) ++
  (if rela then encNat c.le c.w (ofSigned c.cls e.addend) else [])

def relEntSize (c : RelCfg) (rela : Bool) : Nat := if rela then 3 * c.w else 2 * c.w

def encRelTable (c : RelCfg) (rela : Bool) (es : List RelEntry) : Bytes := es.flatMap (encRel c rela)

/-- what the library's API shows for an entry (field names are the API; values are the entry's) -/
def observeRel (c : RelCfg) (rela : Bool) (e : RelEntry) : Val :=
  .record (
    [("r_offset", .int e.offset)] ++
    (if c.packed then
       [("r_sym", .int e.sym), ("r_ssym", .int e.ssym), ("r_type3", .int e.type3), ("r_type2", .int e.type2),
        ("r_type", .int e.type), ("r_info_sym", .int e.sym), ("r_info_ssym", .int e.ssym),
        ("r_info_type", .int e.type), ("r_info_type2", .int e.type2), ("r_info_type3", .int e.type3),
        ("r_info", .int (rInfo c e))]
     else
       [("r_info", .int (rInfo c e)), ("r_info_sym", .int e.sym), ("r_info_type", .int e.type)]) ++
    (if rela then [("r_addend", .int e.addend)] else []))

/-! ### RELR -/

/-- the addresses one bitmap word denotes: bit `i+1` (i = 0 … 8w−2) set ⇒ `base + i·w` -/
def relrBitmap (w base word : Nat) : List Nat :=
  (List.range (8 * w - 1)).filterMap fun i => if word.testBit (i + 1) then some (base + i * w) else none

/-- the address sequence of a RELR stream of `w`-byte words; `none` when a bitmap precedes every anchor.
    An even word is an address: it denotes itself and sets `base := a + w`.  An odd word is a bitmap over
    the 8w−1 words at `base`; afterwards `base += (8w−1)·w`. -/
def relrStd (w : Nat) : Option Nat → List Nat → Option (List Nat)
  | _, [] => some []
  | base, e :: rest =>
    if e % 2 = 0 then (relrStd w (some (e + w)) rest).map (e :: ·)
    else
      match base with
      | none => none
      | some b => (relrStd w (some (b + (8 * w - 1) * w)) rest).map (relrBitmap w b e ++ ·)

def encRelr (le : Bool) (w : Nat) (ws : List Nat) : Bytes := ws.flatMap (encNat le w)

/-! ### symbol table entries (gABI ch. 4 "Symbol Table"): only `st_value` is set -/

def rel_encSym (le : Bool) (cls : Nat) (value : Nat) : Bytes :=
  if cls = 32 then
    encNat le 4 0 ++ encNat le 4 value ++ encNat le 4 0 ++ [0, 0] ++ encNat le 2 0
  else
    encNat le 4 0 ++ [0, 0] ++ encNat le 2 0 ++ encNat le 8 value ++ encNat le 8 0

def symEntSize (cls : Nat) : Nat := if cls = 32 then 16 else 24

/-! ### processor supplements -/

inductive Arch
  | x86 | x64 | arm | aarch64 | mips | ppc64 | s390 | loongarch
  deriving Repr, DecidableEq

/-- `e_machine` numbers of the gABI registry -/
def archOfMachine : Nat → Option Arch
  | 3 => some .x86 | 62 => some .x64 | 40 => some .arm | 183 => some .aarch64 | 8 => some .mips
  | 21 => some .ppc64 | 22 => some .s390 | 258 => some .loongarch
  | _ => none

/-- S = symbol value, A = addend, P = place (section offset of the field in a relocatable object whose
    section address is 0), V = the field's previous contents -/
inductive Formula
  | keep          -- R_*_NONE: nothing is relocated
  | sa            -- S + A
  | sap           -- S + A − P
  | add           -- V + S + A   (LoongArch R_LARCH_ADD*: `*P += S + A`)
  | sub           -- V − S − A   (LoongArch R_LARCH_SUB*: `*P −= S + A`)
  deriving Repr, DecidableEq

def Formula.eval : Formula → (S A P V : Int) → Int
  | .keep, _, _, _, V => V
  | .sa, S, A, _, _ => S + A
  | .sap, S, A, P, _ => S + A - P
  | .add, S, A, _, V => V + (S + A)
  | .sub, S, A, _, V => V - (S + A)

/-- does the machine's supplement use this flavour?  (AArch64: aaelf64 allows REL in principle, but every
    platform ABI and the relocations C08 lists are RELA; REL is treated as the wrong flavour.) -/
def flavourOk : Arch → (rela : Bool) → Bool
  | .x86, rela => !rela           -- i386 psABI: Elf32_Rel only
  | .arm, rela => !rela           -- aaelf32: REL for the types listed
  | .mips, _ => true              -- o32: REL; n32/n64: RELA
  | _, rela => rela               -- x86-64, AArch64, PPC64 ELFv1/v2, s390x, LoongArch: RELA only

/-- (field width in bytes, formula) for exactly the (machine, flavour, type) triples C08 lists.
    R_*_NONE has no field; the width given for it is 0. -/
def psabi : Arch → (rela : Bool) → (type : Nat) → Option (Nat × Formula)
  -- i386 psABI table 4.9
  | .x86, false, 0 => some (0, .keep)         -- R_386_NONE
  | .x86, false, 1 => some (4, .sa)           -- R_386_32    word32 S + A
  | .x86, false, 2 => some (4, .sap)          -- R_386_PC32  word32 S + A − P
  -- x86-64 psABI table 4.9
  | .x64, true, 0 => some (0, .keep)          -- R_X86_64_NONE
  | .x64, true, 1 => some (8, .sa)            -- R_X86_64_64   word64 S + A
  | .x64, true, 2 => some (4, .sap)           -- R_X86_64_PC32 word32 S + A − P
  | .x64, true, 10 => some (4, .sa)           -- R_X86_64_32   word32 S + A
  | .x64, true, 11 => some (4, .sa)           -- R_X86_64_32S  word32 S + A
  -- aaelf32 table 4-9
  | .arm, false, 2 => some (4, .sa)           -- R_ARM_ABS32 (S + A) | T, with T carried in bit 0 of st_value
  -- aaelf64 table 4-6
  | .aarch64, true, 257 => some (8, .sa)      -- R_AARCH64_ABS64
  | .aarch64, true, 258 => some (4, .sa)      -- R_AARCH64_ABS32
  | .aarch64, true, 261 => some (4, .sap)     -- R_AARCH64_PREL32
  -- MIPS psABI table 4-?: R_MIPS_32 T-word32 S + A; MIPS64: R_MIPS_64 T-word64 S + A
  | .mips, _, 0 => some (0, .keep)            -- R_MIPS_NONE
  | .mips, _, 2 => some (4, .sa)              -- R_MIPS_32
  | .mips, true, 18 => some (8, .sa)          -- R_MIPS_64
  -- 64-bit PowerPC ELF ABI §4.5.1
  | .ppc64, true, 1 => some (4, .sa)          -- R_PPC64_ADDR32 word32 S + A
  | .ppc64, true, 26 => some (4, .sap)        -- R_PPC64_REL32  word32 S + A − P
  | .ppc64, true, 38 => some (8, .sa)         -- R_PPC64_ADDR64 doubleword64 S + A
  -- s390x ELF ABI
  | .s390, true, 4 => some (4, .sa)           -- R_390_32
  | .s390, true, 5 => some (4, .sap)          -- R_390_PC32
  | .s390, true, 22 => some (8, .sa)          -- R_390_64
  -- LoongArch ELF psABI (laelf) table "Relocation types"
  | .loongarch, true, 0 => some (0, .keep)    -- R_LARCH_NONE
  | .loongarch, true, 1 => some (4, .sa)      -- R_LARCH_32
  | .loongarch, true, 2 => some (8, .sa)      -- R_LARCH_64
  | .loongarch, true, 47 => some (1, .add)    -- R_LARCH_ADD8
  | .loongarch, true, 48 => some (2, .add)    -- R_LARCH_ADD16
  | .loongarch, true, 50 => some (4, .add)    -- R_LARCH_ADD32
  | .loongarch, true, 51 => some (8, .add)    -- R_LARCH_ADD64
  | .loongarch, true, 52 => some (1, .sub)    -- R_LARCH_SUB8
  | .loongarch, true, 53 => some (2, .sub)    -- R_LARCH_SUB16
  | .loongarch, true, 55 => some (4, .sub)    -- R_LARCH_SUB32
  | .loongarch, true, 56 => some (8, .sub)    -- R_LARCH_SUB64
  | .loongarch, true, 99 => some (4, .sap)    -- R_LARCH_32_PCREL
  | .loongarch, true, 109 => some (8, .sap)   -- R_LARCH_64_PCREL
  | _, _, _ => none

/-- relocations the library also applies but C08 makes no claim about (neither a formula nor a rejection):
    R_ARM_CALL (28), an instruction relocation that does not occur against debug sections -/
def unclaimed : Arch → (rela : Bool) → (type : Nat) → Bool
  | .arm, false, 28 => true
  | _, _, _ => false

/-- every type `psabi` lists, per (arch, flavour) — for walking the table -/
def psabiTypes : List (Arch × Bool × Nat) :=
  [(.x86, false, 0), (.x86, false, 1), (.x86, false, 2),
   (.x64, true, 0), (.x64, true, 1), (.x64, true, 2), (.x64, true, 10), (.x64, true, 11),
   (.arm, false, 2),
   (.aarch64, true, 257), (.aarch64, true, 258), (.aarch64, true, 261),
   (.mips, false, 0), (.mips, false, 2), (.mips, true, 0), (.mips, true, 2), (.mips, true, 18),
   (.ppc64, true, 1), (.ppc64, true, 26), (.ppc64, true, 38),
   (.s390, true, 4), (.s390, true, 5), (.s390, true, 22),
   (.loongarch, true, 0), (.loongarch, true, 1), (.loongarch, true, 2), (.loongarch, true, 47),
   (.loongarch, true, 48), (.loongarch, true, 50), (.loongarch, true, 51), (.loongarch, true, 52),
   (.loongarch, true, 53), (.loongarch, true, 55), (.loongarch, true, 56), (.loongarch, true, 99),
   (.loongarch, true, 109)]

/-- store `v mod 2^(8w)` as a `w`-byte field at `off` in the given byte order -/
def writeField (le : Bool) (w : Nat) (sec : Bytes) (off : Nat) (v : Int) : Bytes :=
  sec.take off ++ encNat le w (v % ((2 ^ (8 * w) : Nat) : Int)).toNat ++ sec.drop (off + w)

/-- the field's previous contents as an unsigned number -/
def readField (le : Bool) (w : Nat) (sec : Bytes) (off : Nat) : Nat := decNat le ((sec.drop off).take w)

/-- one relocation applied to a section: `none` = the entry must be rejected (symbol index out of range,
    wrong flavour, type not listed, or — MIPS64 — a composite entry: the packed `r_info` of the MIPS64 ELF
    specification §2.9.1 names up to three relocation types applied in sequence and a second symbol; an entry
    that uses any of `r_type2`, `r_type3`, `r_ssym` is a composite relocation, which is outside the supported
    set whatever its first type is).
    For REL the addend is the field's previous contents.  R_*_NONE (`keep`) has no field: nothing is read or
    written and `r_offset` is immaterial. -/
def applyAfterSym (a : Arch) (c : RelCfg) (rela : Bool) (s : Nat) (sec : Bytes) (e : RelEntry) : Option Bytes :=
  if !flavourOk a rela then none
  else if c.packed && (e.type2 ≠ 0 || e.type3 ≠ 0 || e.ssym ≠ 0) then none
  else
    match psabi a rela e.type with
    | none => none
    | some (w, fm) =>
      if fm = .keep then some sec
      else
        let v := (readField c.le w sec e.offset : Int)
        let addend : Int := if rela then e.addend else v
        some (writeField c.le w sec e.offset (fm.eval s addend e.offset v))

def applyOneStd (a : Arch) (c : RelCfg) (rela : Bool) (syms : List Nat) (sec : Bytes) (e : RelEntry) : Option Bytes :=
  match syms[e.sym]? with
  | none => none
  | some s => applyAfterSym a c rela s sec e

def applyStd (a : Arch) (c : RelCfg) (rela : Bool) (syms : List Nat) : Bytes → List RelEntry → Option Bytes
  | sec, [] => some sec
  | sec, e :: es =>
    match applyOneStd a c rela syms sec e with
    | none => none
    | some sec' => applyStd a c rela syms sec' es

/-- the domain of the application theorems: entries are layout-valid, the type is not the unclaimed R_ARM_CALL, and
    every entry that relocates a field (a listed type other than R_*_NONE) has that field inside the section.
    R_*_NONE entries carry any `r_offset`; MIPS64 entries carry any sub-fields (composites are rejected). -/
def WFApplyOne (a : Arch) (c : RelCfg) (rela : Bool) (secLen : Nat) (e : RelEntry) : Bool :=
  WFRel c rela e && !unclaimed a rela e.type &&
  (match psabi a rela e.type with
   | some (w, fm) => fm == .keep || decide (e.offset + w ≤ secLen)
   | none => true)

def WFApply (a : Arch) (c : RelCfg) (rela : Bool) (syms : List Nat) (secLen : Nat) (es : List RelEntry) : Bool :=
  es.all (WFApplyOne a c rela secLen) && syms.all (fun s => decide (s < 2 ^ c.cls)) && decide (secLen < 2 ^ 63)

/-- the narrower domain of the first three waves (kept so that the earlier statements remain visible: every theorem
    stated with `WFApplyOne` / `WFApply` holds a fortiori with these, see `Props.C08.wfApply_of_room`): R_*_NONE needed
    8 bytes of room at `r_offset` (the library used to read and rewrite a word there), and MIPS64 entries other than
    R_MIPS_64 had to have zero `r_type2` / `r_type3` / `r_ssym` (the library used to ignore them). -/
def WFApplyOneRoom (a : Arch) (c : RelCfg) (rela : Bool) (secLen : Nat) (e : RelEntry) : Bool :=
  WFRel c rela e && !unclaimed a rela e.type &&
  (if c.packed && e.type ≠ 18 then decide (e.type2 = 0) && decide (e.type3 = 0) && decide (e.ssym = 0) else true) &&
  (match psabi a rela e.type with
   | some (w, _) => decide (e.offset + (if w = 0 then 8 else w) ≤ secLen)
   | none => true)

def WFApplyRoom (a : Arch) (c : RelCfg) (rela : Bool) (syms : List Nat) (secLen : Nat) (es : List RelEntry) : Bool :=
  es.all (WFApplyOneRoom a c rela secLen) && syms.all (fun s => decide (s < 2 ^ c.cls)) && decide (secLen < 2 ^ 63)

/-! ### where the relocation tables of a loaded object are (gABI ch. 5 "Dynamic Section", "Program Header") -/

namespace RelocDyn

/-- `d_tag` numbers of the gABI (DT_RELR*: gABI 4.3 draft, as allocated) -/
def DT_NULL : Int := 0
def DT_PLTRELSZ : Int := 2
def DT_RELA : Int := 7
def DT_RELASZ : Int := 8
def DT_RELAENT : Int := 9
def DT_REL : Int := 17
def DT_RELSZ : Int := 18
def DT_RELENT : Int := 19
def DT_PLTREL : Int := 20
def DT_JMPREL : Int := 23
def DT_RELRSZ : Int := 35
def DT_RELR : Int := 36
def DT_RELRENT : Int := 37

/-- the relocation-related tags, with their names -/
def relDynTags : List (String × Int) :=
  [("DT_NULL", DT_NULL), ("DT_PLTRELSZ", DT_PLTRELSZ), ("DT_RELA", DT_RELA), ("DT_RELASZ", DT_RELASZ),
   ("DT_RELAENT", DT_RELAENT), ("DT_REL", DT_REL), ("DT_RELSZ", DT_RELSZ), ("DT_RELENT", DT_RELENT),
   ("DT_PLTREL", DT_PLTREL), ("DT_JMPREL", DT_JMPREL), ("DT_RELRSZ", DT_RELRSZ), ("DT_RELR", DT_RELR),
   ("DT_RELRENT", DT_RELRENT)]

/-- one table: virtual address and size in bytes -/
structure DynTab where
  addr : Nat
  size : Nat
  deriving Repr, DecidableEq

/-- the relocation tables a dynamic array describes: DT_REL/DT_RELSZ, DT_RELA/DT_RELASZ, DT_RELR/DT_RELRSZ and
    DT_JMPREL/DT_PLTRELSZ with the flavour DT_PLTREL names (`true` = DT_RELA) -/
structure DynRelocs where
  rel : Option DynTab := none
  rela : Option DynTab := none
  relr : Option DynTab := none
  jmprel : Option (DynTab × Bool) := none
  deriving Repr, DecidableEq

/-- an `ElfN_Dyn` entry: (d_tag, d_un) -/
abbrev DynEntry := Int × Nat

/-- the entries that describe `d` (the entry sizes are the ones of the file's class/machine) -/
def dynRelEntries (c : RelCfg) (d : DynRelocs) : List DynEntry :=
  (match d.rel with
   | some t => [(DT_REL, t.addr), (DT_RELSZ, t.size), (DT_RELENT, relEntSize c false)]
   | none => []) ++
  (match d.rela with
   | some t => [(DT_RELA, t.addr), (DT_RELASZ, t.size), (DT_RELAENT, relEntSize c true)]
   | none => []) ++
  (match d.relr with
   | some t => [(DT_RELR, t.addr), (DT_RELRSZ, t.size), (DT_RELRENT, c.w)]
   | none => []) ++
  (match d.jmprel with
   | some (t, rela) => [(DT_JMPREL, t.addr), (DT_PLTRELSZ, t.size), (DT_PLTREL, if rela then DT_RELA.toNat else DT_REL.toNat)]
   | none => [])

/-- `tags` (the array up to, not including, the terminating DT_NULL) describes exactly `d`: the entries carrying a
    relocation-related tag are those of `dynRelEntries` — in any order, amid any other entries -/
def DynDescribes (c : RelCfg) (d : DynRelocs) (tags : List DynEntry) : Bool :=
  relDynTags.all fun p => tags.filter (fun e => e.1 == p.2) == (dynRelEntries c d).filter (fun e => e.1 == p.2)

/-- field ranges of an entry: Elf32_Sword/Elf64_Sxword tag, ElfN_Addr value -/
def WFDyn (cls : Nat) (e : DynEntry) : Bool :=
  decide (-((2 ^ (cls - 1) : Nat) : Int) ≤ e.1) && decide (e.1 < ((2 ^ (cls - 1) : Nat) : Int)) && decide (e.2 < 2 ^ cls)

def encDyn (le : Bool) (cls : Nat) (e : DynEntry) : Bytes :=
  encNat le (cls / 8) (ofSigned cls e.1) ++ encNat le (cls / 8) e.2

def encDynArray (le : Bool) (cls : Nat) (es : List DynEntry) : Bytes := es.flatMap (encDyn le cls)

/-- a PT_LOAD segment as far as address translation goes -/
structure LoadSeg where
  vaddr : Nat
  filesz : Nat
  offset : Nat
  deriving Repr, DecidableEq

/-- is the byte at virtual address `a` in the segment's file image? -/
def LoadSeg.holds (s : LoadSeg) (a : Nat) : Bool := decide (s.vaddr ≤ a) && decide (a < s.vaddr + s.filesz)

/-- file offset of a virtual address: `a − p_vaddr + p_offset` in the PT_LOAD segment holding it (segments in
    program-header order; the file images of PT_LOAD segments do not overlap in a conforming file) -/
def fileOffset (loads : List LoadSeg) (a : Nat) : Option Nat :=
  (loads.find? (·.holds a)).map fun s => a - s.vaddr + s.offset

/-- what the API must present for the dynamic relocation tables -/
inductive DynTableObs
  | rel (offset : Option Nat) (size entsize : Nat) (rela : Bool)
  | relr (offset : Option Nat) (size entsize : Nat)
  deriving Repr, DecidableEq

def dynTablesStd (c : RelCfg) (loads : List LoadSeg) (d : DynRelocs) : List (String × DynTableObs) :=
  (match d.rel with
   | some t => [("REL", .rel (fileOffset loads t.addr) t.size (relEntSize c false) false)]
   | none => []) ++
  (match d.rela with
   | some t => [("RELA", .rel (fileOffset loads t.addr) t.size (relEntSize c true) true)]
   | none => []) ++
  (match d.relr with
   | some t => [("RELR", .relr (fileOffset loads t.addr) t.size c.w)]
   | none => []) ++
  (match d.jmprel with
   | some (t, rela) => [("JMPREL", .rel (fileOffset loads t.addr) t.size (relEntSize c rela) rela)]
   | none => [])

/-- no table at virtual address 0 — the extra hypothesis of `dyn_reloc_tables_exact_partial` only (the library used
    to treat a null table pointer as "absent"; since fix C09-table-pointer-zero it maps address 0 like any other) -/
def WFDynRelocs (d : DynRelocs) : Bool :=
  (d.rel.all (·.addr ≠ 0)) && (d.rela.all (·.addr ≠ 0)) && (d.relr.all (·.addr ≠ 0)) && (d.jmprel.all (·.1.addr ≠ 0))

/-! ### which relocation section belongs to a section (gABI ch. 4 "Special Sections": `.relname` / `.relaname`) -/

/-- a section header as far as relocation lookup goes; `rela = none`: not SHT_REL / SHT_RELA -/
structure RelSecDesc where
  name : String
  rela : Option Bool
  offset : Nat
  size : Nat
  link : Nat
  deriving Repr, DecidableEq

/-- the relocation section for the section named `target`: the first SHT_REL/SHT_RELA section named
    `.rel<target>` or `.rela<target>` -/
def relocSectionFor (target : String) (secs : List RelSecDesc) : Option RelSecDesc :=
  secs.find? fun s => s.rela.isSome && (s.name == ".rel" ++ target || s.name == ".rela" ++ target)

end RelocDyn

end PyElf.Spec
