/-
  C03, names that are not valid UTF-8.  A string table is a sequence of bytes; the library reports a
  name as a Python `str` obtained by `bytes.decode('utf-8', errors='replace')`.  What that conversion
  yields is fixed by the Unicode Standard (15.0, §3.9 "U+FFFD Substitution of Maximal Subparts", with
  the well-formed byte sequences of Table 3-7), which CPython's decoder follows: every well-formed
  sequence is kept, and every MAXIMAL SUBPART of an ill-formed subsequence — the longest initial part
  of a well-formed sequence found at that position, or else a single byte — becomes one U+FFFD.

  A `str` is represented by its UTF-8 encoding (as everywhere in the C03 model: on strings without
  lone surrogates — and a decoder never produces one — `str.encode('utf-8')` is injective, so `==`
  on strings is `==` on these bytes); U+FFFD is `EF BF BD`.
-/
import PyElf.Spec.Symbols
namespace PyElf.Spec.C03
open PyElf PyElf.Spec

/-- U+FFFD REPLACEMENT CHARACTER, in UTF-8 -/
def replChar : Bytes := [0xEF, 0xBF, 0xBD]

def inRange (b : UInt8) (lo hi : Nat) : Bool := decide (lo ≤ b.toNat) && decide (b.toNat ≤ hi)

/-- a continuation byte 80..BF -/
def isCont (b : UInt8) : Bool := inRange b 0x80 0xBF

/-- Table 3-7: the range of the second byte after the lead byte `b0` (E0: A0..BF, ED: 80..9F, F0: 90..BF,
    F4: 80..8F, otherwise 80..BF) -/
def secondOk (b0 b1 : UInt8) : Bool :=
  if b0.toNat = 0xE0 then inRange b1 0xA0 0xBF
  else if b0.toNat = 0xED then inRange b1 0x80 0x9F
  else if b0.toNat = 0xF0 then inRange b1 0x90 0xBF
  else if b0.toNat = 0xF4 then inRange b1 0x80 0x8F
  else isCont b1

/-- `bs.decode('utf-8', errors='replace').encode('utf-8')` -/
def utf8Replace : Bytes → Bytes
  | [] => []
  | b0 :: rest =>
    if b0.toNat < 0x80 then b0 :: utf8Replace rest
    else if inRange b0 0xC2 0xDF then
      match rest with
      | [] => replChar                                            -- truncated at the end of the data
      | b1 :: r =>
        if isCont b1 then b0 :: b1 :: utf8Replace r
        else replChar ++ utf8Replace (b1 :: r)                    -- the lead byte alone is the maximal subpart
    else if inRange b0 0xE0 0xEF then
      match rest with
      | [] => replChar
      | b1 :: r1 =>
        if secondOk b0 b1 then
          match r1 with
          | [] => replChar                                        -- two bytes of three, then the end: ONE U+FFFD
          | b2 :: r2 =>
            if isCont b2 then b0 :: b1 :: b2 :: utf8Replace r2
            else replChar ++ utf8Replace (b2 :: r2)               -- `b0 b1` is the maximal subpart
        else replChar ++ utf8Replace (b1 :: r1)
    else if inRange b0 0xF0 0xF4 then
      match rest with
      | [] => replChar
      | b1 :: r1 =>
        if secondOk b0 b1 then
          match r1 with
          | [] => replChar
          | b2 :: r2 =>
            if isCont b2 then
              match r2 with
              | [] => replChar
              | b3 :: r3 =>
                if isCont b3 then b0 :: b1 :: b2 :: b3 :: utf8Replace r3
                else replChar ++ utf8Replace (b3 :: r3)           -- `b0 b1 b2` is the maximal subpart
            else replChar ++ utf8Replace (b2 :: r2)
        else replChar ++ utf8Replace (b1 :: r1)
    else replChar ++ utf8Replace rest                             -- 80..C1, F5..FF can start nothing
termination_by bs => bs.length

end PyElf.Spec.C03
