/-
  C06 Spec, the `.eh_frame` form of DW_CFA_set_loc.

  LSB Core (generic) 10.6.1 / the GNU unwinder (`execute_cfa_program`, unwind-dw2.c:
  `case DW_CFA_set_loc: insn_ptr = read_encoded_value (context, fs->fde_encoding, insn_ptr, &pc)`) and the GNU
  assembler: in `.eh_frame` the operand of DW_CFA_set_loc is a POINTER ENCODED WITH THE FDE POINTER ENCODING of the
  CIE (the 'R' augmentation) — not the plain target address of DWARF §6.4.2.1 that `.debug_frame` carries.  Under an
  absolute-address encoding (`DW_EH_PE_absptr`, no modifier) the two coincide; `Section.wf` (Spec/CFI.lean,
  `setLocOk`) admits DW_CFA_set_loc in `.eh_frame` only there.  This file writes the general rule down so that the
  boundary can be stated (Props/C06.lean, `set_loc_*`).
-/
import PyElf.Spec.CFI
namespace PyElf.Spec.C06
open PyElf PyElf.Spec

/-- one instruction of an `.eh_frame` entry under FDE pointer encoding `enc`; the argument of `set_loc` is the value
    as STORED (the consumer adds the pc-relative base when `enc` has the pcrel modifier) -/
def encInstrEh (le : Bool) (asz enc : Nat) : Cfa → Bytes
  | .set_loc stored => byte 1 ++ encPtr le asz (enc % 16) (stored : Int)
  | i => i.enc le asz

def encInstrsEh (le : Bool) (asz enc : Nat) (is : List Cfa) : Bytes := is.flatMap (encInstrEh le asz enc)

/-- the location DW_CFA_set_loc designates: the stored value, plus — under the pcrel modifier — the address of the
    operand field (`address` of the section + offset of the field in it) -/
def setLocTarget (enc : Nat) (address fieldOff : Nat) (stored : Int) : Int :=
  if enc / 16 % 8 = 1 then stored + (address + fieldOff : Nat) else stored

/-- the class `Section.wf` leaves out: an `.eh_frame` entry with DW_CFA_set_loc under a CIE whose FDE encoding is not
    plain absptr -/
def ehSetLocClass (eh : Bool) (fdeEnc : Nat) (is : List Cfa) : Prop :=
  eh = true ∧ fdeEnc ≠ 0 ∧ ∃ a, Cfa.set_loc a ∈ is

end PyElf.Spec.C06
