/-
  Build attributes sections, written from
    * "Addenda to, and Errata in, the ABI for the Arm Architecture" (ABI-addenda, 2023Q3), §3 "Build
      attributes": the section grammar (§3.2 "formal syntax"), the public tag numbers and their
      parameter types (ULEB128 / NTBS), Tag_compatibility (ULEB128 flag + NTBS vendor) and
      Tag_also_compatible_with (an NTBS holding tag + value);
    * the RISC-V ELF psABI, "Attributes": same container, its own tag table.

      section        ::= 'A' subsection*
      subsection     ::= <uint32 length> <NTBS vendor> subsubsection*        length counts itself
      subsubsection  ::= Tag_File    <uint32 size> attribute*
                       | Tag_Section <uint32 size> <section number>* 0 attribute*
                       | Tag_Symbol  <uint32 size> <symbol number>*  0 attribute*   size counts the tag
      attribute      ::= <ULEB128 tag> (<ULEB128 value> | <NTBS value>)

  Tag names are spelled as the library's API spells them (TAG_ + upper-cased ABI name); numbers,
  value kinds and the grammar are the documents'.  No streams, no `Con`, no `Err` here.
-/
import PyElf.Core.Val
import PyElf.Spec.Primitives
namespace PyElf.Spec.Attr
open PyElf PyElf.Spec

/-- a ULEB128-coded number together with the length of its (possibly padded) encoding -/
structure U where
  v : Nat
  n : Nat
  deriving Repr, DecidableEq

def U.wf (u : U) : Bool := decide (1 ≤ u.n) && decide (u.v < 2 ^ (7 * u.n))
def U.enc (u : U) : Bytes := encUlebN u.n u.v

inductive Arch | arm | riscv
  deriving Repr, DecidableEq

/-- ABI-addenda table "Arm public attribute tags" -/
def armTags : List (String × Int) :=
  [("TAG_FILE", 1), ("TAG_SECTION", 2), ("TAG_SYMBOL", 3), ("TAG_CPU_RAW_NAME", 4), ("TAG_CPU_NAME", 5),
   ("TAG_CPU_ARCH", 6), ("TAG_CPU_ARCH_PROFILE", 7), ("TAG_ARM_ISA_USE", 8), ("TAG_THUMB_ISA_USE", 9),
   ("TAG_FP_ARCH", 10), ("TAG_WMMX_ARCH", 11), ("TAG_ADVANCED_SIMD_ARCH", 12), ("TAG_PCS_CONFIG", 13),
   ("TAG_ABI_PCS_R9_USE", 14), ("TAG_ABI_PCS_RW_DATA", 15), ("TAG_ABI_PCS_RO_DATA", 16),
   ("TAG_ABI_PCS_GOT_USE", 17), ("TAG_ABI_PCS_WCHAR_T", 18), ("TAG_ABI_FP_ROUNDING", 19),
   ("TAG_ABI_FP_DENORMAL", 20), ("TAG_ABI_FP_EXCEPTIONS", 21), ("TAG_ABI_FP_USER_EXCEPTIONS", 22),
   ("TAG_ABI_FP_NUMBER_MODEL", 23), ("TAG_ABI_ALIGN_NEEDED", 24), ("TAG_ABI_ALIGN_PRESERVED", 25),
   ("TAG_ABI_ENUM_SIZE", 26), ("TAG_ABI_HARDFP_USE", 27), ("TAG_ABI_VFP_ARGS", 28), ("TAG_ABI_WMMX_ARGS", 29),
   ("TAG_ABI_OPTIMIZATION_GOALS", 30), ("TAG_ABI_FP_OPTIMIZATION_GOALS", 31), ("TAG_COMPATIBILITY", 32),
   ("TAG_CPU_UNALIGNED_ACCESS", 34), ("TAG_FP_HP_EXTENSION", 36), ("TAG_ABI_FP_16BIT_FORMAT", 38),
   ("TAG_MPEXTENSION_USE", 42), ("TAG_DIV_USE", 44), ("TAG_DSP_EXTENSION", 46), ("TAG_MVE_ARCH", 48),
   ("TAG_PAC_EXTENSION", 50), ("TAG_BTI_EXTENSION", 52), ("TAG_NODEFAULTS", 64),
   ("TAG_ALSO_COMPATIBLE_WITH", 65), ("TAG_T2EE_USE", 66), ("TAG_CONFORMANCE", 67),
   ("TAG_VIRTUALIZATION_USE", 68), ("TAG_MPEXTENSION_USE_OLD", 70), ("TAG_FRAMEPOINTER_USE", 72),
   ("TAG_BTI_USE", 74), ("TAG_PACRET_USE", 76)]

/-- RISC-V psABI "List of attributes" (plus the three scope tags of the shared container) -/
def riscvTags : List (String × Int) :=
  [("TAG_FILE", 1), ("TAG_SECTION", 2), ("TAG_SYMBOL", 3), ("TAG_STACK_ALIGN", 4), ("TAG_ARCH", 5),
   ("TAG_UNALIGNED_ACCESS", 6), ("TAG_PRIV_SPEC", 8), ("TAG_PRIV_SPEC_MINOR", 10),
   ("TAG_PRIV_SPEC_REVISION", 12), ("TAG_ATOMIC_ABI", 14), ("TAG_X3_REG_USAGE", 16)]

def tagTable : Arch → List (String × Int)
  | .arm => armTags
  | .riscv => riscvTags

/-- the name of a tag number (numbers are unique in both tables; were one listed twice, the later
    spelling is taken) -/
def nameIn : List (String × Int) → Nat → Option String
  | [], _ => none
  | (k, x) :: rest, t =>
    match nameIn rest t with
    | some k' => some k'
    | none => if x = (t : Int) then some k else none

def tagName (a : Arch) (t : Nat) : Option String := nameIn (tagTable a) t

/-- how a tag's parameter is written -/
inductive Kind
  | scope      -- Tag_File / Tag_Section / Tag_Symbol: opens a sub-subsection
  | uleb       -- ULEB128
  | ntbs       -- NUL-terminated byte string
  | compat     -- Tag_compatibility: ULEB128 flag, NTBS vendor name
  | also       -- Tag_also_compatible_with: NTBS containing tag + value
  deriving Repr, DecidableEq

/-- value kinds by tag number, for the tags of the public tables (`none`: not a public tag) -/
def kind (a : Arch) (t : Nat) : Option Kind :=
  if (tagName a t).isNone then none
  else if t = 1 ∨ t = 2 ∨ t = 3 then some .scope
  else match a with
    | .arm =>
      if t = 4 ∨ t = 5 ∨ t = 67 then some .ntbs          -- CPU_raw_name, CPU_name, conformance
      else if t = 32 then some .compat
      else if t = 65 then some .also
      else some .uleb
    | .riscv => if t = 5 then some .ntbs else some .uleb  -- Tag_RISCV_arch

/-- a ULEB128 or NTBS parameter -/
inductive Simple
  | int (u : U)
  | str (s : Bytes)
  deriving Repr, DecidableEq

inductive Value
  | simple (x : Simple)
  | compat (flag : U) (vendor : Bytes)
  | also (tag : U) (x : Simple)        -- nested tag with its ULEB128 (then NUL) or NTBS value
  deriving Repr, DecidableEq

structure Attribute where
  tag : U
  val : Value
  deriving Repr, DecidableEq

structure SubSub where
  tag : U                   -- 1 file, 2 section, 3 symbol
  nums : List U             -- section / symbol numbers (absent for file scope)
  attrs : List Attribute
  deriving Repr

structure SubSection where
  vendor : Bytes
  subs : List SubSub
  deriving Repr

abbrev Section := List SubSection

/-! ### encoder -/

def encSimple : Simple → Bytes
  | .int u => u.enc
  | .str s => s ++ [0]

def encValue : Value → Bytes
  | .simple x => encSimple x
  | .compat f v => f.enc ++ (v ++ [0])
  | .also t (.int u) => t.enc ++ (u.enc ++ [0])
  | .also t (.str s) => t.enc ++ (s ++ [0])

def encAttr (a : Attribute) : Bytes := a.tag.enc ++ encValue a.val

def encAttrs (as : List Attribute) : Bytes := as.flatMap encAttr

def encNums (ns : List U) : Bytes := ns.flatMap U.enc ++ [0]

def SubSub.body (s : SubSub) : Bytes :=
  (if s.tag.v = 1 then [] else encNums s.nums) ++ encAttrs s.attrs

/-- the byte-size field: counts the tag, itself and everything up to the end of the sub-subsection -/
def SubSub.size (s : SubSub) : Nat := s.tag.n + 4 + s.body.length

def encSubSub (le : Bool) (s : SubSub) : Bytes := s.tag.enc ++ (encNat le 4 s.size ++ s.body)

def encSubSubs (le : Bool) (ss : List SubSub) : Bytes := ss.flatMap (encSubSub le)

/-- the length field: counts itself, the vendor name and all sub-subsections -/
def SubSection.length (le : Bool) (s : SubSection) : Nat := 4 + (s.vendor.length + 1) + (encSubSubs le s.subs).length

def encSubSection (le : Bool) (s : SubSection) : Bytes :=
  encNat le 4 (s.length le) ++ (s.vendor ++ [0] ++ encSubSubs le s.subs)

def encSubSections (le : Bool) (sec : Section) : Bytes := sec.flatMap (encSubSection le)

def encSection (le : Bool) (sec : Section) : Bytes := 0x41 :: encSubSections le sec

/-! ### well-formedness -/

/-- strict UTF-8 (RFC 3629: shortest form, no surrogates, ≤ U+10FFFF) -/
def validUtf8 : Bytes → Bool
  | [] => true
  | b0 :: rest =>
    let cont (b : UInt8) : Bool := 0x80 ≤ b && b ≤ 0xBF
    if b0 < 0x80 then validUtf8 rest
    else if 0xC2 ≤ b0 && b0 ≤ 0xDF then
      match rest with
      | b1 :: r => cont b1 && validUtf8 r
      | _ => false
    else if 0xE0 ≤ b0 && b0 ≤ 0xEF then
      match rest with
      | b1 :: b2 :: r =>
        (if b0 = 0xE0 then 0xA0 ≤ b1 && b1 ≤ 0xBF else if b0 = 0xED then 0x80 ≤ b1 && b1 ≤ 0x9F else cont b1)
          && cont b2 && validUtf8 r
      | _ => false
    else if 0xF0 ≤ b0 && b0 ≤ 0xF4 then
      match rest with
      | b1 :: b2 :: b3 :: r =>
        (if b0 = 0xF0 then 0x90 ≤ b1 && b1 ≤ 0xBF else if b0 = 0xF4 then 0x80 ≤ b1 && b1 ≤ 0x8F else cont b1)
          && cont b2 && cont b3 && validUtf8 r
      | _ => false
    else false

/-- an NTBS body: no NUL inside, valid UTF-8 -/
def strWf (s : Bytes) : Bool := s.all (· != 0) && validUtf8 s

def simpleWf : Simple → Bool
  | .int u => u.wf
  | .str s => strWf s

def simpleMatches : Kind → Simple → Bool
  | .uleb, .int _ => true
  | .ntbs, .str _ => true
  | _, _ => false

def valueWf (a : Arch) (t : Nat) : Value → Bool
  | .simple x =>
    simpleWf x && (match kind a t with
      | some .uleb => simpleMatches .uleb x
      | some .ntbs => simpleMatches .ntbs x
      | _ => false)
  | .compat f v => f.wf && strWf v && (kind a t == some .compat)
  | .also t' x =>
    (kind a t == some .also) && t'.wf && simpleWf x && (match kind a t'.v with
      | some .uleb => simpleMatches .uleb x
      | some .ntbs => simpleMatches .ntbs x
      | _ => false)

def attrWf (a : Arch) (x : Attribute) : Bool := x.tag.wf && valueWf a x.tag.v x.val

def subSubWf (a : Arch) (s : SubSub) : Bool :=
  s.tag.wf && (s.tag.v == 1 || s.tag.v == 2 || s.tag.v == 3) && (tagName a s.tag.v).isSome
    && (if s.tag.v = 1 then s.nums.isEmpty else s.nums.all fun u => u.wf && u.v != 0)
    && s.attrs.all (attrWf a) && decide (s.size < 2 ^ 32)

def subSectionWf (a : Arch) (le : Bool) (s : SubSection) : Bool :=
  strWf s.vendor && s.subs.all (subSubWf a) && decide (s.length le < 2 ^ 32)

def sectionWf (a : Arch) (le : Bool) (sec : Section) : Bool := sec.all (subSectionWf a le)

/-! ### what must be observed (as the canonical value of the API objects) -/

def nameVal (a : Arch) (t : Nat) : Val :=
  match tagName a t with
  | some s => .str s
  | none => .none

def obsSimple : Simple → Val
  | .int u => .int u.v
  | .str s => .bytes s

def attrRecord (tag value extra : Val) : Val := .record [("tag", tag), ("value", value), ("extra", extra)]

def obsAttr (a : Arch) (x : Attribute) : Val :=
  match x.val with
  | .simple s => attrRecord (nameVal a x.tag.v) (obsSimple s) .none
  | .compat f v => attrRecord (nameVal a x.tag.v) (.int f.v) (.bytes v)
  | .also t s => attrRecord (nameVal a x.tag.v) (attrRecord (nameVal a t.v) (obsSimple s) .none) .none

def obsSubSub (a : Arch) (s : SubSub) : Val :=
  .record [("tag", nameVal a s.tag.v), ("value", .int s.size),
           ("extra", if s.tag.v = 1 then .none else .list (s.nums.map fun u => .int u.v)),
           ("attributes", .list (s.attrs.map (obsAttr a)))]

def obsSubSection (a : Arch) (le : Bool) (s : SubSection) : Val :=
  .record [("length", .int (s.length le)), ("vendor_name", .bytes s.vendor),
           ("subsubsections", .list (s.subs.map (obsSubSub a)))]

def obsSection (a : Arch) (le : Bool) (sec : Section) : Val := .list (sec.map (obsSubSection a le))

end PyElf.Spec.Attr
