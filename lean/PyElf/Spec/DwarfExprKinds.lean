/-
  The vocabulary of DWARF-operation operand encodings (DWARF 5 §2.5, §7.7.1), with
  widths and byte order resolved for one unit (address size, DWARF format, byte order).
  Shared by the Spec signature table and by the dispatch table regenerated from the code.
-/
import PyElf.Core.Basic
namespace PyElf.Spec

inductive ArgKind
  | u (n : Nat) (le : Bool)     -- n-byte unsigned constant / address / section offset
  | s (n : Nat) (le : Bool)     -- n-byte signed (two's complement) constant
  | uleb                        -- unsigned LEB128
  | sleb                        -- signed LEB128
  | block                       -- ULEB128 length, then that many bytes (DW_OP_implicit_value)
  | block1                      -- 1-byte length, then that many bytes (value of a typed constant)
  | expr                        -- ULEB128 length, then a DWARF expression of that many bytes
  | wasm (le : Bool)            -- WebAssembly location: kind byte; 0..2 → ULEB128 index, 3 → 4-byte unsigned
  | refused (why : String)      -- translator: a parser shape it does not recognise
  deriving DecidableEq, Repr, Inhabited

end PyElf.Spec
