/-
  Standards side of C03: symbol table entries (gABI ch. 4 "Symbol Table"), string
  table references ("String Table"), the extended section index table
  (SHT_SYMTAB_SHNDX), the Solaris syminfo table (Oracle Linker and Libraries Guide),
  the System V hash table ("Hash Table Section": layout, hash function, lookup rule)
  and the GNU hash table (binutils/glibc `DT_GNU_HASH`: header, Bloom filter, buckets,
  chain of hash values with the low bit marking the end of a bucket's chain).
  Nothing here mentions streams, `Con` or errors.
-/
import PyElf.Core.Val
import PyElf.Spec.Primitives
namespace PyElf.Spec
open PyElf

/-! ### symbol table entries -/

/-- one `ElfN_Sym` as the numbers it stores -/
structure SymE where
  stName : Nat      -- index into the linked string table
  value : Nat
  size : Nat
  info : Nat        -- st_info byte: `ELF_ST_BIND(i) = i >> 4`, `ELF_ST_TYPE(i) = i & 0xf`
  other : Nat       -- st_other byte: `ELF64_ST_VISIBILITY(o) = o & 0x7` (Oracle LLG; gABI uses the low 2 of these
                    -- bits), top three bits: PPC64 ELFv2 `STO_PPC64_LOCAL` field
  shndx : Nat
  deriving Repr, DecidableEq, Inhabited

/-- native word size in bytes -/
def wsz (cls : Nat) : Nat := cls / 8

/-- size of an `ElfN_Sym`: 16 (ELF32) or 24 (ELF64) bytes -/
def symSize (cls : Nat) : Nat := if cls = 32 then 16 else 24

/-- Elf32_Sym: name, value, size, info, other, shndx.
    Elf64_Sym: name, info, other, shndx, value, size. -/
def encSym (le : Bool) (cls : Nat) (e : SymE) : Bytes :=
  if cls = 32 then
    encNat le 4 e.stName ++ encNat le 4 e.value ++ encNat le 4 e.size ++ encNat le 1 e.info
      ++ encNat le 1 e.other ++ encNat le 2 e.shndx
  else
    encNat le 4 e.stName ++ encNat le 1 e.info ++ encNat le 1 e.other ++ encNat le 2 e.shndx
      ++ encNat le 8 e.value ++ encNat le 8 e.size

def SymE.WF (cls : Nat) (e : SymE) : Bool :=
  decide (e.stName < 2 ^ 32) && decide (e.value < 2 ^ cls) && decide (e.size < 2 ^ cls)
    && decide (e.info < 256) && decide (e.other < 256) && decide (e.shndx < 65536)

/-- how a code table presents a number: its name, or the number itself -/
def nameOr (dec : String → Int → Option String) (tbl : String) (x : Nat) : Val :=
  match dec tbl x with
  | some s => .str s
  | none => .int x

/-- what must be observed of an entry (field names are the library's API; the order is
    the on-disk order of the class). `dec` names the code points (C17 is about `dec`). -/
def obsEntry (dec : String → Int → Option String) (cls : Nat) (e : SymE) : Val :=
  let info : Val := .record [("bind", nameOr dec "ENUM_ST_INFO_BIND" (e.info / 16 % 16)),
                             ("type", nameOr dec "ENUM_ST_INFO_TYPE" (e.info % 16))]
  let other : Val := .record [("local", nameOr dec "ENUM_ST_LOCAL" (e.other / 32 % 8)),
                              ("visibility", nameOr dec "ENUM_ST_VISIBILITY" (e.other % 8))]
  let shndx := nameOr dec "ENUM_ST_SHNDX" e.shndx
  if cls = 32 then
    .record [("st_name", .int e.stName), ("st_value", .int e.value), ("st_size", .int e.size),
             ("st_info", info), ("st_other", other), ("st_shndx", shndx)]
  else
    .record [("st_name", .int e.stName), ("st_info", info), ("st_other", other), ("st_shndx", shndx),
             ("st_value", .int e.value), ("st_size", .int e.size)]

/-- the string a string-table index denotes: the bytes from that index up to the next NUL -/
def strAt (strtab : Bytes) (off : Nat) : Option Bytes := firstNul (strtab.drop off)

/-- a symbol table with room for `pad` extra bytes after every entry (`sh_entsize = symSize + pad`) -/
def encSymtab (le : Bool) (cls : Nat) (pad : Nat) (es : List SymE) : Bytes :=
  es.flatMap fun e => encSym le cls e ++ List.replicate pad 0

/-- positions (in table order) of the symbols named `n` -/
def byName (names : List Bytes) (n : Bytes) : List Nat :=
  (names.zipIdx.filter fun p => p.1 == n).map (·.2)

/-! ### UTF-8 (Unicode 15 table 3-7): the names the property quantifies over are strings -/

def validUtf8 : Bytes → Bool
  | [] => true
  | b0 :: rest =>
    let c (b : UInt8) (lo hi : Nat) : Bool := decide (lo ≤ b.toNat) && decide (b.toNat ≤ hi)
    if b0.toNat < 0x80 then validUtf8 rest
    else if c b0 0xC2 0xDF then
      match rest with
      | b1 :: r => c b1 0x80 0xBF && validUtf8 r
      | _ => false
    else if c b0 0xE0 0xEF then
      match rest with
      | b1 :: b2 :: r =>
        (if b0.toNat = 0xE0 then c b1 0xA0 0xBF else if b0.toNat = 0xED then c b1 0x80 0x9F else c b1 0x80 0xBF)
          && c b2 0x80 0xBF && validUtf8 r
      | _ => false
    else if c b0 0xF0 0xF4 then
      match rest with
      | b1 :: b2 :: b3 :: r =>
        (if b0.toNat = 0xF0 then c b1 0x90 0xBF else if b0.toNat = 0xF4 then c b1 0x80 0x8F else c b1 0x80 0xBF)
          && c b2 0x80 0xBF && c b3 0x80 0xBF && validUtf8 r
      | _ => false
    else false

/-! ### hash functions -/

/-- gABI `elf_hash`, computed (as every 32-bit C `unsigned long` and every current libc does)
    in unsigned 32-bit arithmetic -/
def elfHashStep (h : UInt32) (c : UInt8) : UInt32 :=
  let h := (h <<< 4) + c.toUInt32
  let g := h &&& 0xf0000000
  let h := if g ≠ 0 then h ^^^ (g >>> 24) else h
  h &&& ~~~g

def elfHash32 (name : Bytes) : UInt32 := name.foldl elfHashStep 0

/-- `dl_new_hash`: h = 5381; h = h * 33 + c, in `uint32_t` -/
def gnuHash32 (name : Bytes) : UInt32 := name.foldl (fun h c => h * 33 + c.toUInt32) 5381

/-! ### System V hash table -/

structure SysVTable where
  nbucket : Nat
  nchain : Nat
  buckets : List Nat
  chains : List Nat
  deriving Repr, DecidableEq, Inhabited

def encWords (le : Bool) (n : Nat) (ws : List Nat) : Bytes := ws.flatMap (encNat le n)

def encSysV (le : Bool) (t : SysVTable) : Bytes :=
  encNat le 4 t.nbucket ++ encNat le 4 t.nchain ++ encWords le 4 t.buckets ++ encWords le 4 t.chains

/-- the chain starting at symbol index `i`: `i, chain[i], chain[chain[i]], …` up to (excluding)
    `STN_UNDEF`; `none` if it leaves the table or does not end within `fuel` links -/
def chainFrom (chains : List Nat) : Nat → Nat → Option (List Nat)
  | 0, _ => none
  | fuel+1, i =>
    if i = 0 then some []
    else match chains[i]? with
      | none => none
      | some nx => (chainFrom chains fuel nx).map (i :: ·)

/-- the symbols on the chain of the bucket a name hashes to -/
def sysvBucketChain (t : SysVTable) (name : Bytes) : Option (List Nat) :=
  match t.buckets[(elfHash32 name).toNat % t.nbucket]? with
  | none => none
  | some b => chainFrom t.chains (t.nchain + 1) b

/-- "Hash Table Section": `nchain` equals the number of symbol table entries; both arrays hold
    symbol table indexes; every chain ends in `STN_UNDEF`; every symbol `1 ≤ i < n` is on the chain
    of bucket `hash(name) % nbucket`. (`names[i]` is the name of symbol `i`.) -/
def WFSysV (names : List Bytes) (t : SysVTable) : Bool :=
  decide (1 ≤ t.nbucket) && decide (t.buckets.length = t.nbucket) && decide (t.chains.length = t.nchain)
    && decide (t.nchain = names.length) && decide (t.nchain < 2 ^ 32) && decide (t.nbucket < 2 ^ 32)
    && t.buckets.all (fun b => decide (b < t.nchain))
    && t.chains.all (fun c => decide (c < t.nchain))
    && t.buckets.all (fun b => (chainFrom t.chains (t.nchain + 1) b).isSome)
    && (List.range names.length).all fun i =>
        i == 0 || match names[i]? with
                  | none => false
                  | some nm => match sysvBucketChain t nm with
                               | none => false
                               | some l => l.contains i

/-- the linker's construction: symbols are pushed on the front of their bucket's chain in index order -/
def buildSysV (names : List Bytes) (nbucket : Nat) : SysVTable :=
  let n := names.length
  let step (st : List Nat × List Nat) (i : Nat) : List Nat × List Nat :=
    let (buckets, chains) := st
    match names[i]? with
    | none => st
    | some nm =>
      let b := (elfHash32 nm).toNat % nbucket
      (buckets.set b i, chains.set i (buckets.getD b 0))
  let (buckets, chains) := ((List.range n).drop 1).foldl step (List.replicate nbucket 0, List.replicate n 0)
  { nbucket := nbucket, nchain := n, buckets := buckets, chains := chains }

/-! ### GNU hash table -/

structure GnuTable where
  nbuckets : Nat
  symoffset : Nat
  bloomSize : Nat
  bloomShift : Nat
  bloom : List Nat
  buckets : List Nat
  /-- one word per symbol `symoffset ≤ i < n`: its hash with bit 0 replaced by "last of its bucket" -/
  chain : List Nat
  deriving Repr, DecidableEq, Inhabited

def encGnu (le : Bool) (cls : Nat) (t : GnuTable) : Bytes :=
  encNat le 4 t.nbuckets ++ encNat le 4 t.symoffset ++ encNat le 4 t.bloomSize ++ encNat le 4 t.bloomShift
    ++ encWords le (wsz cls) t.bloom ++ encWords le 4 t.buckets ++ encWords le 4 t.chain

/-- the hash values of the hashed symbols `symoffset ≤ i < n`, in table order -/
def gnuHashes (names : List Bytes) (symoffset : Nat) : List Nat :=
  (names.drop symoffset).map fun nm => (gnuHash32 nm).toNat

/-- the Bloom filter accepts hash `h`: in word `(h / C) % size` both bits `h % C` and `(h >> shift) % C` are set -/
def bloomHas (cls : Nat) (t : GnuTable) (h : Nat) : Bool :=
  let mask := (1 <<< (h % cls)) ||| (1 <<< ((h >>> t.bloomShift) % cls))
  match t.bloom[(h / cls) % t.bloomSize]? with
  | none => false
  | some w => w &&& mask == mask

/-- the first hashed symbol falling in bucket `b` (as a symbol index), or 0 -/
def gnuFirst (nb symoffset : Nat) (hs : List Nat) (b : Nat) : Nat :=
  match hs.findIdx? (fun h => h % nb == b) with
  | some k => symoffset + k
  | none => 0

/-- the bucket of the `j`-th hashed symbol -/
def gnuBk (nb : Nat) (hs : List Nat) (j : Nat) : Nat := hs.getD j 0 % nb

/-- the first index `i` with `s ≤ i < s + c` satisfying `P` -/
def firstFrom (P : Nat → Bool) : Nat → Nat → Option Nat
  | _, 0 => none
  | s, c+1 => if P s then some s else firstFrom P (s + 1) c

/-- the first hashed symbol (`symoffset ≤ i < n`) named `name` -/
def gnuFirstNamed (names : List Bytes) (symoffset : Nat) (name : Bytes) : Option Nat :=
  firstFrom (fun i => names.getD i [] == name) symoffset (names.length - symoffset)

/-- the conditions on the `k`-th hashed symbol (hash `h`, chain word `c`) -/
def gnuEntryOK (cls : Nat) (t : GnuTable) (hs : List Nat) (k : Nat) : Bool :=
  match hs[k]?, t.chain[k]? with
  | some h, some c =>
    let bk (j : Nat) : Nat := gnuBk t.nbuckets hs j
    decide (c < 2 ^ 32) && (c ||| 1 == h ||| 1)
      && ((c &&& 1 != 0) == (k + 1 == hs.length || bk (k + 1) != bk k))
      && bloomHas cls t h
      && (k == 0 || bk k == bk (k - 1) || gnuFirst t.nbuckets t.symoffset hs (bk k) == t.symoffset + k)
  | _, _ => false

/-- GNU hash section over `n` symbols of which those at `symoffset ≤ i < n` are hashed, `hs` their
    hashes: symbols of one bucket are contiguous (each either continues its predecessor's bucket or
    is the first of its bucket); `buckets[b]` is the first symbol of bucket `b` (0 if none);
    `chain[i - symoffset]` is `hash(i)` with bit 0 set exactly on the last symbol of a bucket (so the
    last chain ends at the end of the table); the Bloom filter holds every hashed symbol. -/
def WFGnuH (cls : Nat) (n : Nat) (hs : List Nat) (t : GnuTable) : Bool :=
  decide (1 ≤ t.nbuckets) && decide (t.buckets.length = t.nbuckets) && decide (t.nbuckets < 2 ^ 32)
    && decide (1 ≤ t.bloomSize) && decide (t.bloom.length = t.bloomSize) && decide (t.bloomSize < 2 ^ 32)
    && decide (t.bloomShift < 2 ^ 32) && decide (n < 2 ^ 32)
    && decide (1 ≤ t.symoffset) && decide (t.symoffset ≤ n) && decide (hs.length = n - t.symoffset)
    && decide (t.chain.length = hs.length)
    && t.bloom.all (fun w => decide (w < 2 ^ cls))
    && (List.range t.nbuckets).all (fun b => t.buckets[b]? == some (gnuFirst t.nbuckets t.symoffset hs b))
    && (List.range hs.length).all (gnuEntryOK cls t hs)

def WFGnu (cls : Nat) (names : List Bytes) (t : GnuTable) : Bool :=
  WFGnuH cls names.length (gnuHashes names t.symoffset) t

/-- stable insertion of `x` into a list sorted by `key` -/
def insertByKey (key : α → Nat) (x : α) : List α → List α
  | [] => [x]
  | y :: ys => if key x < key y then x :: y :: ys else y :: insertByKey key x ys

/-- stable sort by `key` -/
def sortByKey (key : α → Nat) (xs : List α) : List α := xs.foldl (fun acc x => insertByKey key x acc) []

/-- the order a linker gives the hashed part: by bucket -/
def gnuOrder (nb symoffset : Nat) (syms : List (Bytes × β)) : List (Bytes × β) :=
  syms.take symoffset ++ sortByKey (fun s => (gnuHash32 s.1).toNat % nb) (syms.drop symoffset)

/-- the linker's construction over symbols already in bucket order -/
def buildGnu (cls : Nat) (names : List Bytes) (nb symoffset bloomSize bloomShift : Nat) : GnuTable :=
  let hs := gnuHashes names symoffset
  let bloom := hs.foldl (fun bl h =>
      let k := (h / cls) % bloomSize
      bl.set k (bl.getD k 0 ||| (1 <<< (h % cls)) ||| (1 <<< ((h >>> bloomShift) % cls)))) (List.replicate bloomSize 0)
  let buckets := (List.range nb).map (gnuFirst nb symoffset hs)
  let rec chain : List Nat → List Nat
    | [] => []
    | [h] => [h / 2 * 2 + 1]
    | h :: h' :: rest => (h / 2 * 2 + (if h' % nb != h % nb then 1 else 0)) :: chain (h' :: rest)
  { nbuckets := nb, symoffset := symoffset, bloomSize := bloomSize, bloomShift := bloomShift,
    bloom := bloom, buckets := buckets, chain := chain hs }

end PyElf.Spec

namespace PyElf.Spec
open PyElf

/-- SHT_SYMTAB_SHNDX: an array of `Elf32_Word`, one per symbol of the linked table -/
def encShndx (le : Bool) (ws : List Nat) : Bytes := encWords le 4 ws

/-- `ElfN_Syminfo` (Oracle LLG): `si_boundto`, `si_flags`, two half-words; entry 0 holds the version -/
def encSyminfo (le : Bool) (es : List (Nat × Nat)) : Bytes :=
  es.flatMap fun (b, f) => encNat le 2 b ++ encNat le 2 f

def obsSyminfo (dec : String → Int → Option String) (e : Nat × Nat) : Val :=
  .record [("si_boundto", nameOr dec "ENUM_SUNW_SYMINFO_BOUNDTO" e.1), ("si_flags", .int e.2)]

/-- a string table for `names`: leading NUL, then each (new, non-empty) name with its terminator;
    with `share`, a name already present reuses its index -/
def buildStrtab (share : Bool) (names : List Bytes) : Bytes × List Nat :=
  let step (st : Bytes × List (Bytes × Nat) × List Nat) (nm : Bytes) : Bytes × List (Bytes × Nat) × List Nat :=
    let (tab, seen, offs) := st
    if nm.isEmpty then (tab, seen, offs ++ [0])
    else match (if share then seen.find? (·.1 == nm) else none) with
      | some (_, o) => (tab, seen, offs ++ [o])
      | none => (tab ++ nm ++ [0], if share then (nm, tab.length) :: seen else seen, offs ++ [tab.length])
  let (tab, _, offs) := names.foldl step ([0], [], [])
  (tab, offs)

end PyElf.Spec
