/-
  C04, standards side: debugging information entries (DWARF 2–5 §2, §7.5).

  * `Cls` / `formClass`  : the operand encoding of every attribute form (DWARF 5 table 7.5/7.6,
                           DWARF 2 §7.5.4 for `DW_FORM_ref_addr`, the GNU alt forms), per
                           (format, address size, version)
  * `AbbrevDecl`         : abbreviation declarations (§7.5.3) and their encoder
  * `Tree`               : an entry = abbreviation code + one operand per declared attribute
                           (+ the DW_FORM_indirect chain) + children + the null entry closing them
  * `encTree`, `encUnitBody`, `encTU` : the encoders
  * `flatten`            : what iterating the unit must yield: pre-order list of entries, each
                           with offset, size, code, tag, child flag, attributes (name, final form,
                           raw value, resolved value, offset), null entries where sibling lists end
  * `resolve`            : the resolved value of a raw operand (strings via .debug_str /
                           .debug_line_str / .debug_str_offsets, addresses via .debug_addr, list
                           offsets via .debug_loclists/.debug_rnglists offset tables)

  Nothing here mentions streams, `Con` or errors.  LEB128 numbers carry their encoded length
  (DWARF allows padded encodings).
-/
import PyElf.Core.Val
import PyElf.Core.Bundles
import PyElf.Spec.Primitives
import PyElf.Spec.DwarfLookup
namespace PyElf.Spec.C04
open PyElf PyElf.Spec

/-! ### forms -/

/-- operand encodings (DWARF 5 §7.5.6) -/
inductive Cls
  | fixed (n : Nat)      -- `n`-byte unsigned integer in the file's byte order
  | u24                  -- 3-byte unsigned integer
  | uleb | sleb | cstr
  | blockN (n : Nat)     -- `n`-byte length, then that many bytes
  | blockU               -- ULEB128 length, then that many bytes
  | data16
  | present              -- DW_FORM_flag_present: no operand bytes
  | implicit             -- DW_FORM_implicit_const: value lives in the abbreviation
  | indirect             -- DW_FORM_indirect: ULEB128 form code, then an operand of that form
  deriving DecidableEq, Repr

/-- form code → operand encoding.  `off` = 4/8 by DWARF format, `asz` = address size. -/
def formClass (c : DwarfCfg) (code : Nat) : Option Cls :=
  let off := c.fmt / 8
  match code with
  | 0x01 => some (.fixed c.asz)                                   -- addr
  | 0x02 => some (.fixed 4)                                       -- ref (legacy, see `formCodes`)
  | 0x03 => some (.blockN 2) | 0x04 => some (.blockN 4)           -- block2, block4
  | 0x05 => some (.fixed 2) | 0x06 => some (.fixed 4) | 0x07 => some (.fixed 8)   -- data2/4/8
  | 0x08 => some .cstr                                             -- string
  | 0x09 => some .blockU | 0x0a => some (.blockN 1)               -- block, block1
  | 0x0b => some (.fixed 1) | 0x0c => some (.fixed 1)             -- data1, flag
  | 0x0d => some .sleb                                             -- sdata
  | 0x0e => some (.fixed off)                                      -- strp
  | 0x0f => some .uleb                                             -- udata
  | 0x10 => some (.fixed (if c.ver = 2 then c.asz else off))       -- ref_addr
  | 0x11 => some (.fixed 1) | 0x12 => some (.fixed 2) | 0x13 => some (.fixed 4) | 0x14 => some (.fixed 8)
  | 0x15 => some .uleb                                             -- ref_udata
  | 0x16 => some .indirect
  | 0x17 => some (.fixed off)                                      -- sec_offset
  | 0x18 => some .blockU                                           -- exprloc
  | 0x19 => some .present                                          -- flag_present
  | 0x1a => some .uleb | 0x1b => some .uleb                        -- strx, addrx
  | 0x1c => some (.fixed 4)                                        -- ref_sup4
  | 0x1d => some (.fixed off)                                      -- strp_sup
  | 0x1e => some .data16
  | 0x1f => some (.fixed off)                                      -- line_strp
  | 0x20 => some (.fixed 8)                                        -- ref_sig8
  | 0x21 => some .implicit
  | 0x22 => some .uleb | 0x23 => some .uleb                        -- loclistx, rnglistx
  | 0x24 => some (.fixed 8)                                        -- ref_sup8
  | 0x25 => some (.fixed 1) | 0x26 => some (.fixed 2) | 0x27 => some .u24 | 0x28 => some (.fixed 4)  -- strx1-4
  | 0x29 => some (.fixed 1) | 0x2a => some (.fixed 2) | 0x2b => some .u24 | 0x2c => some (.fixed 4)  -- addrx1-4
  | 0x1f20 => some (.fixed off) | 0x1f21 => some (.fixed off)      -- GNU_ref_alt, GNU_strp_alt
  | _ => none

/-- form code → name (DWARF 5 table 7.6 and the GNU alt forms) -/
def formName : Nat → Option String
  | 0x01 => some "DW_FORM_addr" | 0x02 => some "DW_FORM_ref" | 0x03 => some "DW_FORM_block2" | 0x04 => some "DW_FORM_block4"
  | 0x05 => some "DW_FORM_data2" | 0x06 => some "DW_FORM_data4" | 0x07 => some "DW_FORM_data8"
  | 0x08 => some "DW_FORM_string" | 0x09 => some "DW_FORM_block" | 0x0a => some "DW_FORM_block1"
  | 0x0b => some "DW_FORM_data1" | 0x0c => some "DW_FORM_flag" | 0x0d => some "DW_FORM_sdata"
  | 0x0e => some "DW_FORM_strp" | 0x0f => some "DW_FORM_udata" | 0x10 => some "DW_FORM_ref_addr"
  | 0x11 => some "DW_FORM_ref1" | 0x12 => some "DW_FORM_ref2" | 0x13 => some "DW_FORM_ref4"
  | 0x14 => some "DW_FORM_ref8" | 0x15 => some "DW_FORM_ref_udata" | 0x16 => some "DW_FORM_indirect"
  | 0x17 => some "DW_FORM_sec_offset" | 0x18 => some "DW_FORM_exprloc" | 0x19 => some "DW_FORM_flag_present"
  | 0x1a => some "DW_FORM_strx" | 0x1b => some "DW_FORM_addrx" | 0x1c => some "DW_FORM_ref_sup4"
  | 0x1d => some "DW_FORM_strp_sup" | 0x1e => some "DW_FORM_data16" | 0x1f => some "DW_FORM_line_strp"
  | 0x20 => some "DW_FORM_ref_sig8" | 0x21 => some "DW_FORM_implicit_const" | 0x22 => some "DW_FORM_loclistx"
  | 0x23 => some "DW_FORM_rnglistx" | 0x24 => some "DW_FORM_ref_sup8" | 0x25 => some "DW_FORM_strx1"
  | 0x26 => some "DW_FORM_strx2" | 0x27 => some "DW_FORM_strx3" | 0x28 => some "DW_FORM_strx4"
  | 0x29 => some "DW_FORM_addrx1" | 0x2a => some "DW_FORM_addrx2" | 0x2b => some "DW_FORM_addrx3"
  | 0x2c => some "DW_FORM_addrx4" | 0x1f20 => some "DW_FORM_GNU_ref_alt" | 0x1f21 => some "DW_FORM_GNU_strp_alt"
  | _ => none

/-- every form code the standard defines an operand for -/
def stdFormCodes : List Nat :=
  [0x01, 0x03, 0x04, 0x05, 0x06, 0x07, 0x08, 0x09, 0x0a, 0x0b, 0x0c, 0x0d, 0x0e, 0x0f, 0x10, 0x11, 0x12, 0x13, 0x14,
   0x15, 0x16, 0x17, 0x18, 0x19, 0x1a, 0x1b, 0x1c, 0x1d, 0x1e, 0x1f, 0x20, 0x21, 0x22, 0x23, 0x24, 0x25, 0x26, 0x27,
   0x28, 0x29, 0x2a, 0x2b, 0x2c, 0x1f20, 0x1f21]

/-- … and code 0x02, which DWARF 2–5 leave unassigned: the pre-standard FORM_REF of DWARF 1.1 (a 4-byte
    reference), which producers of that era emitted and the library still reads as `DW_FORM_ref`: four bytes,
    a unit-relative reference (`unitRefNames`) -/
def formCodes : List Nat := 0x02 :: stdFormCodes

def FORM_indirect : Nat := 0x16
def FORM_implicit_const : Nat := 0x21

/-- an operand as it is encoded -/
inductive Operand
  | nat (v : Nat)                          -- fixed-width
  | uleb (len : Nat) (v : Nat)             -- `len` = encoded length (≥ minimal)
  | sleb (len : Nat) (v : Int)
  | str (s : Bytes)                        -- without the terminating NUL
  | block (payload : Bytes)
  | blockU (len : Nat) (payload : Bytes)   -- `len` = encoded length of the ULEB128 byte count
  | bytes16 (b : Bytes)
  | present
  | implicit
  deriving Repr, Inhabited

def encOperand (le : Bool) : Cls → Operand → Bytes
  | .fixed n, .nat v => encNat le n v
  | .u24, .nat v => encNat le 3 v
  | .uleb, .uleb l v => encUlebN l v
  | .sleb, .sleb l v => encSlebN l v
  | .cstr, .str s => s ++ [0]
  | .blockN n, .block p => encNat le n p.length ++ p
  | .blockU, .blockU l p => encUlebN l p.length ++ p
  | .data16, .bytes16 b => b
  | _, _ => []

/-- the operand is in the range of its encoding -/
def wfOperand : Cls → Operand → Bool
  | .fixed n, .nat v => decide (v < 256 ^ n)
  | .u24, .nat v => decide (v < 2 ^ 24)
  | .uleb, .uleb l v => decide (1 ≤ l) && decide (v < 2 ^ (7 * l))
  | .sleb, .sleb l v => decide (1 ≤ l) && decide (-((2 ^ (7 * l - 1) : Nat) : Int) ≤ v)
                          && decide (v < ((2 ^ (7 * l - 1) : Nat) : Int))
  | .cstr, .str s => s.all (· ≠ 0)
  | .blockN n, .block p => decide (p.length < 256 ^ n)
  | .blockU, .blockU l p => decide (1 ≤ l) && decide (p.length < 2 ^ (7 * l))
  | .data16, .bytes16 b => decide (b.length = 16)
  | .present, .present => true
  | _, _ => false

def byteList (p : Bytes) : Val := .list (p.map fun b => .int b.toNat)

/-- the raw value an operand denotes -/
def rawVal : Operand → Val
  | .nat v => .int v
  | .uleb _ v => .int v
  | .sleb _ v => .int v
  | .str s => .bytes s
  | .block p => byteList p
  | .blockU _ p => byteList p
  | .bytes16 b => byteList b
  | .present => .bytes []
  | .implicit => .none

/-! ### abbreviations (§7.5.3) -/

structure AttrSpec where
  name : Nat
  form : Nat
  const : Int := 0        -- DW_FORM_implicit_const only
  nameLen : Nat := 1      -- encoded lengths of the three LEB128 numbers
  formLen : Nat := 1
  constLen : Nat := 1
  deriving Repr, Inhabited

structure AbbrevDecl where
  code : Nat
  tag : Nat
  children : Bool
  specs : List AttrSpec
  codeLen : Nat := 1
  tagLen : Nat := 1
  deriving Repr, Inhabited

def encSpec (s : AttrSpec) : Bytes :=
  encUlebN s.nameLen s.name ++ (encUlebN s.formLen s.form ++
    (if s.form = FORM_implicit_const then encSlebN s.constLen s.const else []))

def encDecl (d : AbbrevDecl) : Bytes :=
  encUlebN d.codeLen d.code ++ (encUlebN d.tagLen d.tag ++ ([if d.children then 1 else 0] ++
    (d.specs.flatMap encSpec ++ [0, 0])))

/-- a table: its declarations, then a zero code (`endLen` = its encoded length) -/
def encAbbrevs (ds : List AbbrevDecl) (endLen : Nat := 1) : Bytes := ds.flatMap encDecl ++ encUlebN endLen 0

def ulebFits (len v : Nat) : Bool := decide (1 ≤ len) && decide (v < 2 ^ (7 * len))

def wfSpec (s : AttrSpec) : Bool :=
  ulebFits s.nameLen s.name && ulebFits s.formLen s.form
    && !(s.name == 0 && s.form == 0)            -- (0, 0) ends the list
    && (s.form != FORM_implicit_const ||
        (decide (1 ≤ s.constLen) && decide (-((2 ^ (7 * s.constLen - 1) : Nat) : Int) ≤ s.const)
          && decide (s.const < ((2 ^ (7 * s.constLen - 1) : Nat) : Int))))

def wfDecl (d : AbbrevDecl) : Bool :=
  decide (1 ≤ d.code) && ulebFits d.codeLen d.code && ulebFits d.tagLen d.tag && d.specs.all wfSpec

def wfAbbrevs (ds : List AbbrevDecl) (endLen : Nat) : Bool :=
  ds.all wfDecl && decide ((ds.map (·.code)).Nodup) && decide (1 ≤ endLen)

/-- how numbers are presented: the registry names (C17's subject) -/
structure Names where
  tag : Nat → Val
  at_ : Nat → Val
  form : Nat → Val

def specVal (nm : Names) (s : AttrSpec) : Val :=
  .record [("name", nm.at_ s.name), ("form", nm.form s.form),
           ("value", if s.form = FORM_implicit_const then .int s.const else .none)]

/-- the declaration as the library's container -/
def declVal (nm : Names) (d : AbbrevDecl) : Val :=
  .record [("tag", nm.tag d.tag),
           ("children_flag", .str (if d.children then "DW_CHILDREN_yes" else "DW_CHILDREN_no")),
           ("attr_spec", .list (d.specs.map (specVal nm)))]

/-! ### entries -/

/-- one attribute value of an entry -/
structure AttrV where
  /-- when the declared form is DW_FORM_indirect: the encoded lengths of the ULEB128 form codes
      in front of the operand; all but the last code are DW_FORM_indirect again -/
  ind : List Nat := []
  form : Nat                 -- the final form
  op : Operand
  deriving Repr, Inhabited

structure Node where
  decl : AbbrevDecl          -- the declaration the entry instantiates
  codeLen : Nat := 1         -- encoded length of the abbreviation code
  attrs : List AttrV         -- one per `decl.specs`
  deriving Repr, Inhabited

inductive Tree
  | mk (n : Node) (kids : List Tree) (nullLen : Nat)   -- `nullLen`: encoded length of the closing null entry
  deriving Repr, Inhabited

def encChain (form : Nat) : List Nat → Bytes
  | [] => []
  | [l] => encUlebN l form
  | l :: ls => encUlebN l FORM_indirect ++ encChain form ls

def clsOf (c : DwarfCfg) (form : Nat) : Cls := (formClass c form).getD .present

def encAttr (c : DwarfCfg) (a : AttrV) : Bytes :=
  encChain a.form a.ind ++ encOperand c.le (clsOf c a.form) a.op

def encEntry (c : DwarfCfg) (n : Node) : Bytes :=
  encUlebN n.codeLen n.decl.code ++ n.attrs.flatMap (encAttr c)

mutual
def encTree (c : DwarfCfg) : Tree → Bytes
  | .mk n kids nullLen =>
    encEntry c n ++ (if n.decl.children then encForest c kids ++ encUlebN nullLen 0 else [])
def encForest (c : DwarfCfg) : List Tree → Bytes
  | [] => []
  | t :: ts => encTree c t ++ encForest c ts
end

/-- the encoded lengths of an indirection chain fit the form codes they carry -/
def wfChain (form : Nat) : List Nat → Bool
  | [] => false
  | [l] => ulebFits l form
  | l :: ls => ulebFits l FORM_indirect && wfChain form ls

/-- a well-formed attribute against its declaration -/
def wfAttr (c : DwarfCfg) (s : AttrSpec) (a : AttrV) : Bool :=
  if s.form = FORM_indirect then
    wfChain a.form a.ind
      && a.form != FORM_indirect && a.form != FORM_implicit_const
      && (match formClass c a.form with | some cl => wfOperand cl a.op | none => false)
  else if s.form = FORM_implicit_const then
    a.ind == [] && a.form == s.form && (match a.op with | .implicit => true | _ => false)
  else
    a.ind == [] && a.form == s.form
      && (match formClass c a.form with | some cl => wfOperand cl a.op | none => false)

def wfAttrs (c : DwarfCfg) : List AttrSpec → List AttrV → Bool
  | [], [] => true
  | s :: ss, a :: as => wfAttr c s a && wfAttrs c ss as
  | _, _ => false

def wfNode (c : DwarfCfg) (n : Node) : Bool :=
  wfDecl n.decl && ulebFits n.codeLen n.decl.code && wfAttrs c n.decl.specs n.attrs

mutual
def wfTree (c : DwarfCfg) : Tree → Bool
  | .mk n kids nullLen =>
    wfNode c n && (if n.decl.children then wfForest c kids && decide (1 ≤ nullLen) else kids.isEmpty)
def wfForest (c : DwarfCfg) : List Tree → Bool
  | [] => true
  | t :: ts => wfTree c t && wfForest c ts
end

/-! ### what must be observed -/

structure AttrObs where
  name : Val
  form : Val
  value : Val
  raw : Val
  offset : Nat
  deriving Repr, Inhabited

/-- an entry as observed: a null entry has `tag = none`, `hasChildren = none`, no attributes -/
structure DieObs where
  offset : Nat
  size : Nat
  code : Nat
  tag : Val
  hasChildren : Val
  attrs : List AttrObs
  deriving Repr, Inhabited

def nullObs (off len : Nat) : DieObs := ⟨off, len, 0, .none, .none, []⟩
def DieObs.isNull (d : DieObs) : Bool := match d.tag with | .none => true | _ => false
def DieObs.kids (d : DieObs) : Bool := match d.hasChildren with | .bool true => true | _ => false

def attrLen (c : DwarfCfg) (a : AttrV) : Nat := (encAttr c a).length

/-- attributes of one entry; `ρ form raw` is the resolved value.  A repeated attribute name
    cannot occur in a well-formed entry (DWARF 5 §2.2). -/
def attrObs (nm : Names) (c : DwarfCfg) (ρ : Val → Val → Val) : Nat → List AttrSpec → List AttrV → List AttrObs
  | off, s :: ss, a :: as =>
    let raw := if s.form = FORM_implicit_const then Val.int s.const else rawVal a.op
    let form := nm.form a.form
    ⟨nm.at_ s.name, form, if s.form = FORM_implicit_const then raw else ρ form raw, raw, off⟩
      :: attrObs nm c ρ (off + attrLen c a) ss as
  | _, _, _ => []

def entryObs (nm : Names) (c : DwarfCfg) (ρ : Val → Val → Val) (off : Nat) (n : Node) : DieObs :=
  ⟨off, (encEntry c n).length, n.decl.code, nm.tag n.decl.tag, .bool n.decl.children,
   attrObs nm c ρ (off + n.codeLen) n.decl.specs n.attrs⟩

mutual
/-- pre-order list of the entries of a tree that starts at `off`, closing null entries included -/
def flatten (nm : Names) (c : DwarfCfg) (ρ : Val → Val → Val) : Nat → Tree → List DieObs
  | off, .mk n kids nullLen =>
    entryObs nm c ρ off n ::
      (if n.decl.children then
        flattenForest nm c ρ (off + (encEntry c n).length) kids ++
          [nullObs (off + (encEntry c n).length + (encForest c kids).length) nullLen]
       else [])
def flattenForest (nm : Names) (c : DwarfCfg) (ρ : Val → Val → Val) : Nat → List Tree → List DieObs
  | _, [] => []
  | off, t :: ts => flatten nm c ρ off t ++ flattenForest nm c ρ (off + (encTree c t).length) ts
end


mutual
/-- `flatten` with the parent each entry belongs to (`parent` for the root of the tree) -/
def flattenP (nm : Names) (c : DwarfCfg) (ρ : Val → Val → Val) :
    Option Nat → Nat → Tree → List (DieObs × Option Nat)
  | parent, off, .mk n kids nullLen =>
    (entryObs nm c ρ off n, parent) ::
      (if n.decl.children then
        flattenForestP nm c ρ off (off + (encEntry c n).length) kids ++
          [(nullObs (off + (encEntry c n).length + (encForest c kids).length) nullLen, some off)]
       else [])
def flattenForestP (nm : Names) (c : DwarfCfg) (ρ : Val → Val → Val) :
    Nat → Nat → List Tree → List (DieObs × Option Nat)
  | _, _, [] => []
  | parent, off, t :: ts =>
    flattenP nm c ρ (some parent) off t ++ flattenForestP nm c ρ parent (off + (encTree c t).length) ts
end

mutual
/-- number of entries of a tree, null entries included -/
def Tree.count : Tree → Nat
  | .mk n kids _ => 1 + (if n.decl.children then countForest kids + 1 else 0)
def countForest : List Tree → Nat
  | [] => 0
  | t :: ts => t.count + countForest ts
end

/-- the unit's top entry is resolved with `ρtop` (the index forms of the top entry are resolved
    after the whole entry has been read), all others with `ρ` -/
def flattenUnit (nm : Names) (c : DwarfCfg) (ρtop ρ : Val → Val → Val) (off : Nat) : Tree → List DieObs
  | .mk n kids nullLen =>
    entryObs nm c ρtop off n ::
      (if n.decl.children then
        flattenForest nm c ρ (off + (encEntry c n).length) kids ++
          [nullObs (off + (encEntry c n).length + (encForest c kids).length) nullLen]
       else [])

/-! ### nesting, as relations on the flat list -/

mutual
/-- (parent offset, child offset) for every entry below the root of a tree at `off`, null entries included -/
def parentPairs (c : DwarfCfg) : Nat → Tree → List (Nat × Nat)
  | off, .mk n kids _ =>
    if n.decl.children then
      parentPairsForest c off (off + (encEntry c n).length) kids ++
        [(off, off + (encEntry c n).length + (encForest c kids).length)]
    else []
def parentPairsForest (c : DwarfCfg) (parent : Nat) : Nat → List Tree → List (Nat × Nat)
  | _, [] => []
  | off, t :: ts => (parent, off) :: parentPairs c off t ++ parentPairsForest c parent (off + (encTree c t).length) ts
end

/-- offsets of the children (null entry excluded) of the root of a tree at `off` -/
def childOffsets (c : DwarfCfg) : Nat → List Tree → List Nat
  | _, [] => []
  | off, t :: ts => off :: childOffsets c (off + (encTree c t).length) ts


/-! ### DW_AT_sibling (§2.3) -/

def attrFind (as : List AttrObs) (k : Val) : Option AttrObs := as.find? (·.name == k)

def unitRefNames : List String :=
  ["DW_FORM_ref1", "DW_FORM_ref2", "DW_FORM_ref4", "DW_FORM_ref8", "DW_FORM_ref", "DW_FORM_ref_udata"]

/-- the section offset a DW_AT_sibling attribute designates: `none` = the entry has no such
    attribute, `some none` = it is not in a unit-relative reference form or DW_FORM_ref_addr -/
def sibTarget (cuOff : Nat) (d : DieObs) : Option (Option Nat) :=
  match attrFind d.attrs (.str "DW_AT_sibling") with
  | none => none
  | some a =>
    match a.form, a.value with
    | .str f, .int v =>
      if unitRefNames.contains f then some (some (v + cuOff).toNat)
      else if f = "DW_FORM_ref_addr" then some (some v.toNat)
      else some none
    | _, _ => some none

/-- a sibling attribute, where present on an entry that owns children, designates the entry that
    follows the owner's subtree (`next`) -/
def sibOk (cuOff : Nat) (d : DieObs) (next : Nat) : Bool :=
  !d.kids || (match sibTarget cuOff d with
              | none => true
              | some (some x) => x == next
              | some none => false)

mutual
def sibsOk (nm : Names) (c : DwarfCfg) (ρ : Val → Val → Val) (cuOff : Nat) : Nat → Tree → Bool
  | off, .mk n kids _ =>
    if n.decl.children then sibsOkForest nm c ρ cuOff (off + (encEntry c n).length) kids else true
def sibsOkForest (nm : Names) (c : DwarfCfg) (ρ : Val → Val → Val) (cuOff : Nat) : Nat → List Tree → Bool
  | _, [] => true
  | off, t :: ts =>
    (match t with
     | .mk n _ _ => sibOk cuOff (entryObs nm c ρ off n) (off + (encTree c t).length))
      && sibsOk nm c ρ cuOff off t && sibsOkForest nm c ρ cuOff (off + (encTree c t).length) ts
end

mutual
/-- for every entry of `flatten` (same order): the offsets of its children -/
def childLists (c : DwarfCfg) : Nat → Tree → List (List Nat)
  | off, .mk n kids _ =>
    if n.decl.children then
      childOffsets c (off + (encEntry c n).length) kids ::
        (childListsForest c (off + (encEntry c n).length) kids ++ [[]])
    else [[]]
def childListsForest (c : DwarfCfg) : Nat → List Tree → List (List Nat)
  | _, [] => []
  | off, t :: ts => childLists c off t ++ childListsForest c (off + (encTree c t).length) ts
end

def Tree.root : Tree → Node
  | .mk n _ _ => n

/-! ### type units of `.debug_types` (DWARF 4 §7.5.1.2) -/

structure TUHeader where
  fmt64 : Bool
  version : Nat
  abbrevOff : Nat
  asz : Nat
  signature : Nat
  typeOff : Nat
  deriving Repr, Inhabited

def TUHeader.offSize (h : TUHeader) : Nat := if h.fmt64 then 8 else 4
def TUHeader.ilSize (h : TUHeader) : Nat := if h.fmt64 then 12 else 4

def tuHdrRest (le : Bool) (h : TUHeader) : Bytes :=
  encNat le 2 h.version ++ (encNat le h.offSize h.abbrevOff ++ (encNat le 1 h.asz ++
    (encNat le 8 h.signature ++ encNat le h.offSize h.typeOff)))

def encTU (le : Bool) (h : TUHeader) (body : Bytes) : Bytes :=
  Lookup.encInitialLength le h.fmt64 ((tuHdrRest le h).length + body.length) ++ (tuHdrRest le h ++ body)

def tuHdrVal (le : Bool) (h : TUHeader) (body : Bytes) : Val :=
  .record [("unit_length", .int ((tuHdrRest le h).length + body.length)), ("version", .int h.version),
           ("debug_abbrev_offset", .int h.abbrevOff), ("address_size", .int h.asz),
           ("signature", .int h.signature), ("type_offset", .int h.typeOff)]

def wfTU (le : Bool) (h : TUHeader) (body : Bytes) : Bool :=
  decide (2 ≤ h.version) && decide (h.version ≤ 5) && (h.asz == 4 || h.asz == 8)
    && decide (h.abbrevOff < 256 ^ h.offSize) && decide (h.signature < 256 ^ 8) && decide (h.typeOff < 256 ^ h.offSize)
    && (if h.fmt64 then decide ((tuHdrRest le h).length + body.length < 256 ^ 8)
        else decide ((tuHdrRest le h).length + body.length < 0xFFFFFF00))

/-! ### resolved values -/

/-- the other sections an attribute value can point into (`none` = section absent) -/
structure Sections where
  str : Option Bytes := none
  lineStr : Option Bytes := none
  addr : Option Bytes := none
  strOffsets : Option Bytes := none
  loclists : Option Bytes := none
  rnglists : Option Bytes := none
  deriving Repr, Inhabited

/-- the base attributes of the unit's top entry -/
structure Bases where
  strOffsets : Option Nat := none      -- DW_AT_str_offsets_base
  addr : Option Nat := none            -- DW_AT_addr_base
  loclists : Option Nat := none        -- DW_AT_loclists_base
  rnglists : Option Nat := none        -- DW_AT_rnglists_base
  deriving Repr, Inhabited

/-- NUL-terminated string at `off` of a string section (the library documents `None` for a
    string that runs into the end of the section) -/
def stringAt (sec : Bytes) (off : Nat) : Val :=
  match firstNul (sec.drop off) with
  | some s => .bytes s
  | none => .none

/-- … for an offset that lies in the section; an offset outside it designates nothing -/
def stringAt? (sec : Bytes) (off : Nat) : Option Val :=
  if off < sec.length then some (stringAt sec off) else none

/-- fixed-width unsigned integer at `off`, if the section is long enough -/
def uintAt (le : Bool) (sec : Bytes) (off n : Nat) : Option Nat :=
  let bs := (sec.drop off).take n
  if bs.length = n then some (decNat le bs) else none

def strxForms : List String := ["DW_FORM_strx", "DW_FORM_strx1", "DW_FORM_strx2", "DW_FORM_strx3", "DW_FORM_strx4"]
def addrxForms : List String := ["DW_FORM_addrx", "DW_FORM_addrx1", "DW_FORM_addrx2", "DW_FORM_addrx3", "DW_FORM_addrx4"]

/-- resolved value of (form, raw value); `none` where the reference dangles (not well formed) -/
def resolve (c : DwarfCfg) (secs : Sections) (b : Bases) (form raw : Val) : Option Val :=
  match form, raw with
  | .str "DW_FORM_strp", .int v => secs.str.bind fun s => stringAt? s v.toNat
  | .str "DW_FORM_line_strp", .int v => secs.lineStr.bind fun s => stringAt? s v.toNat
  | .str "DW_FORM_flag", .int v => some (.bool (v ≠ 0))
  | .str "DW_FORM_flag_present", _ => some (.bool true)
  | .str f, .int v =>
    if strxForms.contains f then do
      let so ← secs.strOffsets
      let base ← b.strOffsets
      let o ← uintAt c.le so (base + v.toNat * (c.fmt / 8)) (c.fmt / 8)
      let s ← secs.str
      stringAt? s o
    else if addrxForms.contains f then do
      let sec ← secs.addr
      let base ← b.addr
      let a ← uintAt c.le sec (base + v.toNat * c.asz) c.asz
      pure (.int a)
    else if f = "DW_FORM_loclistx" then do
      let sec ← secs.loclists
      let base ← b.loclists
      let o ← uintAt c.le sec (base + v.toNat * (c.fmt / 8)) (c.fmt / 8)
      pure (.int (base + o))
    else if f = "DW_FORM_rnglistx" then do
      let sec ← secs.rnglists
      let base ← b.rnglists
      let o ← uintAt c.le sec (base + v.toNat * (c.fmt / 8)) (c.fmt / 8)
      pure (.int (base + o))
    else some raw
  | _, _ => some raw

/-- the base attributes of a unit's top entry: DW_AT_str_offsets_base (0x72), DW_AT_addr_base (0x73),
    DW_AT_rnglists_base (0x74), DW_AT_loclists_base (0x8c), each in DW_FORM_sec_offset (§7.5.5:
    classes stroffsetsptr, addrptr, rnglistsptr, loclistsptr) -/
def baseOf (name : Nat) : List AttrSpec → List AttrV → Option Nat
  | s :: ss, a :: as =>
    if s.name = name then
      (match a.form, a.op with
       | 0x17, .nat v => some v
       | _, _ => none)
    else baseOf name ss as
  | _, _ => none

def basesOf (n : Node) : Bases :=
  { strOffsets := baseOf 0x72 n.decl.specs n.attrs, addr := baseOf 0x73 n.decl.specs n.attrs,
    rnglists := baseOf 0x74 n.decl.specs n.attrs, loclists := baseOf 0x8c n.decl.specs n.attrs }

end PyElf.Spec.C04
