/-
  Standards side of C13: the accelerated-access tables of DWARF and the unit
  sequence of `.debug_info`.

  * `.debug_aranges` — DWARF 2–5 §6.1.2 / §7.21: per set a header
    (unit_length, version, debug_info_offset, address_size, segment_size), padding so
    that the first tuple starts at a multiple of the tuple size (2·address_size) from
    the beginning of the section, the (address, length) tuples, and a (0, 0) terminator.
  * `.debug_pubnames` / `.debug_pubtypes` — §6.1.1 / §7.19: per set a header
    (unit_length, version, debug_info_offset, debug_info_length), then
    (offset, NUL-terminated name) pairs, terminated by a zero offset.
  * `.debug_info` — §7.5.1: a sequence of units, each an initial length followed by
    that many bytes.

  Abstract objects, their encoders and what the property says must be observed.
  No `Con`, no streams, no `Err`.
-/
import PyElf.Core.Val
namespace PyElf.Spec.Lookup
open PyElf

/-! ## address ranges -/

structure ARTuple where
  addr : Nat
  len : Nat
  deriving Repr, DecidableEq

/-- one set of `.debug_aranges`, 32-bit DWARF format, no segment selectors -/
structure ARSet where
  version : Nat
  infoOff : Nat
  asz : Nat                 -- 4 | 8
  tuples : List ARTuple
  fill : UInt8 := 0         -- value of the alignment padding bytes (unspecified by the standard)
  trail : Bytes := []       -- bytes after the terminator still covered by unit_length
  deriving Repr

/-- what the library reports per range tuple: the tuple and its set's header -/
structure AREntry where
  begin : Nat
  len : Nat
  infoOff : Nat
  unitLength : Nat
  version : Nat
  asz : Nat
  seg : Nat
  deriving Repr, DecidableEq

/-- bytes needed after stream offset `pos` to reach a multiple of `ts` -/
def padTo (pos ts : Nat) : Nat := (ts - pos % ts) % ts

def encTuple (le : Bool) (asz : Nat) (t : ARTuple) : Bytes := encNat le asz t.addr ++ encNat le asz t.len

/-- the padding + tuples + terminator + trailing bytes of a set whose header starts at section offset `off` -/
def setTail (le : Bool) (off : Nat) (s : ARSet) : Bytes :=
  List.replicate (padTo (off + 12) (2 * s.asz)) s.fill
    ++ (s.tuples.flatMap (encTuple le s.asz) ++ (encTuple le s.asz ⟨0, 0⟩ ++ s.trail))

/-- the 8 header bytes after the initial length -/
def setHdrRest (le : Bool) (s : ARSet) : Bytes :=
  encNat le 2 s.version ++ (encNat le 4 s.infoOff ++ (encNat le 1 s.asz ++ encNat le 1 0))

def setUnitLength (le : Bool) (off : Nat) (s : ARSet) : Nat := 8 + (setTail le off s).length

def encSet (le : Bool) (off : Nat) (s : ARSet) : Bytes :=
  encNat le 4 (setUnitLength le off s) ++ (setHdrRest le s ++ setTail le off s)

/-- the sets laid out back to back from section offset `off` -/
def encSets (le : Bool) : Nat → List ARSet → Bytes
  | _, [] => []
  | off, s :: ss => encSet le off s ++ encSets le (off + (4 + setUnitLength le off s)) ss

def entriesOfSet (le : Bool) (off : Nat) (s : ARSet) : List AREntry :=
  s.tuples.map fun t => ⟨t.addr, t.len, s.infoOff, setUnitLength le off s, s.version, s.asz, 0⟩

/-- every encoded tuple with its set header, in encoded order -/
def entriesOf (le : Bool) : Nat → List ARSet → List AREntry
  | _, [] => []
  | off, s :: ss => entriesOfSet le off s ++ entriesOf le (off + (4 + setUnitLength le off s)) ss

def wfTuple (asz : Nat) (t : ARTuple) : Bool :=
  decide (t.addr < 256 ^ asz) && decide (t.len < 256 ^ asz) && !(t.addr == 0 && t.len == 0)

def wfSet (le : Bool) (off : Nat) (s : ARSet) : Bool :=
  decide (s.version < 256 ^ 2) && decide (s.infoOff < 256 ^ 4) && (s.asz == 4 || s.asz == 8)
    && s.tuples.all (wfTuple s.asz) && decide (setUnitLength le off s < 0xFFFFFF00)

def wfSets (le : Bool) : Nat → List ARSet → Bool
  | _, [] => true
  | off, s :: ss => wfSet le off s && wfSets le (off + (4 + setUnitLength le off s)) ss

/-- `a` lies in the half-open range of `e` -/
def covers (e : AREntry) (a : Nat) : Prop := e.begin ≤ a ∧ a < e.begin + e.len

instance (e : AREntry) (a : Nat) : Decidable (covers e a) := by unfold covers; exact inferInstance

/-- the unit whose range contains `a`, if any -/
def cuOffsetAt (es : List AREntry) (a : Nat) : Option Nat :=
  (es.find? fun e => decide (covers e a)).map (·.infoOff)

/-- the begin address of neither range lies inside the other -/
def noShadow (e₁ e₂ : AREntry) : Prop := ¬ covers e₁ e₂.begin ∧ ¬ covers e₂ e₁.begin

instance (e₁ e₂ : AREntry) : Decidable (noShadow e₁ e₂) := by unfold noShadow; exact inferInstance

/-- ranges as half-open intervals are pairwise disjoint -/
def disjoint (e₁ e₂ : AREntry) : Prop := e₁.begin + e₁.len ≤ e₂.begin ∨ e₂.begin + e₂.len ≤ e₁.begin

instance (e₁ e₂ : AREntry) : Decidable (disjoint e₁ e₂) := by unfold disjoint; exact inferInstance

/-- insertion of an entry that was encoded before all of `xs`: in front of the first entry
    whose begin is ≥ its own -/
def insertByBegin (e : AREntry) : List AREntry → List AREntry
  | [] => [e]
  | x :: xs => if e.begin ≤ x.begin then e :: x :: xs else x :: insertByBegin e xs

/-- the entries ordered by begin address, ties in encoded order -/
def sortByBegin (es : List AREntry) : List AREntry := es.foldr insertByBegin []

/-! ## name tables -/

structure NameEntry where
  dieOfs : Nat               -- offset of the entry from the start of its unit; non-zero
  name : Bytes               -- no NUL
  deriving Repr, DecidableEq

structure NameSet where
  version : Nat
  infoOff : Nat
  infoLen : Nat
  entries : List NameEntry
  deriving Repr

def encNameEntry (le : Bool) (e : NameEntry) : Bytes := encNat le 4 e.dieOfs ++ (e.name ++ [0])

def nameSetTail (le : Bool) (s : NameSet) : Bytes := s.entries.flatMap (encNameEntry le) ++ encNat le 4 0

def nameHdrRest (le : Bool) (s : NameSet) : Bytes :=
  encNat le 2 s.version ++ (encNat le 4 s.infoOff ++ encNat le 4 s.infoLen)

def nameUnitLength (le : Bool) (s : NameSet) : Nat := 10 + (nameSetTail le s).length

def encNameSet (le : Bool) (s : NameSet) : Bytes :=
  encNat le 4 (nameUnitLength le s) ++ (nameHdrRest le s ++ nameSetTail le s)

def encNameSets (le : Bool) (ss : List NameSet) : Bytes := ss.flatMap (encNameSet le)

/-- the set header as the library's container (field names are the API) -/
def nameHdrVal (le : Bool) (s : NameSet) : Val :=
  .record [("unit_length", .int (nameUnitLength le s)), ("version", .int s.version),
           ("debug_info_offset", .int s.infoOff), ("debug_info_length", .int s.infoLen)]

/-- (name, unit offset, absolute entry offset) in encoded order -/
def namePairs (ss : List NameSet) : List (Bytes × Nat × Nat) :=
  ss.flatMap fun s => s.entries.map fun e => (e.name, s.infoOff, s.infoOff + e.dieOfs)

/-- mapping update: an existing key keeps its position and takes the new value -/
def assocSet {V} (d : List (Bytes × V)) (k : Bytes) (v : V) : List (Bytes × V) :=
  match d with
  | [] => [(k, v)]
  | (k', v') :: rest => if k' = k then (k', v) :: rest else (k', v') :: assocSet rest k v

/-- the mapping presented for a pair list: keys in order of first occurrence, each
    with the value of its last occurrence (for distinct names: the list itself) -/
def mappingOf {V} (ps : List (Bytes × V)) : List (Bytes × V) :=
  ps.foldl (fun d p => assocSet d p.1 p.2) []

def assocGet? {V} (d : List (Bytes × V)) (k : Bytes) : Option V := (d.find? (·.1 == k)).map (·.2)

/-- well-formed UTF-8 (Unicode 15 table 3-7: no overlongs, no surrogates, ≤ U+10FFFF) -/
def utf8Valid : Bytes → Bool
  | [] => true
  | b0 :: rest =>
    let cont (b : UInt8) : Bool := 0x80 ≤ b && b ≤ 0xBF
    if b0 < 0x80 then utf8Valid rest
    else if 0xC2 ≤ b0 && b0 ≤ 0xDF then
      match rest with
      | b1 :: r => cont b1 && utf8Valid r
      | _ => false
    else if 0xE0 ≤ b0 && b0 ≤ 0xEF then
      match rest with
      | b1 :: b2 :: r =>
        (if b0 = 0xE0 then 0xA0 ≤ b1 && b1 ≤ 0xBF else if b0 = 0xED then 0x80 ≤ b1 && b1 ≤ 0x9F else cont b1)
          && cont b2 && utf8Valid r
      | _ => false
    else if 0xF0 ≤ b0 && b0 ≤ 0xF4 then
      match rest with
      | b1 :: b2 :: b3 :: r =>
        (if b0 = 0xF0 then 0x90 ≤ b1 && b1 ≤ 0xBF else if b0 = 0xF4 then 0x80 ≤ b1 && b1 ≤ 0x8F else cont b1)
          && cont b2 && cont b3 && utf8Valid r
      | _ => false
    else false

def wfNameEntry (e : NameEntry) : Bool :=
  decide (0 < e.dieOfs) && decide (e.dieOfs < 256 ^ 4) && e.name.all (· != 0) && utf8Valid e.name

def wfNameSet (le : Bool) (s : NameSet) : Bool :=
  decide (s.version < 256 ^ 2) && decide (s.infoOff < 256 ^ 4) && decide (s.infoLen < 256 ^ 4)
    && s.entries.all wfNameEntry && decide (nameUnitLength le s < 0xFFFFFF00)

/-! ## the unit sequence of `.debug_info` -/

/-- a unit: DWARF format, header fields, and the bytes after the header.
    `utype` matters for version 5 only (DW_UT_compile = 1, DW_UT_type = 2, DW_UT_partial = 3,
    DW_UT_skeleton = 4, DW_UT_split_compile = 5, DW_UT_split_type = 6). -/
structure InfoUnit where
  fmt64 : Bool
  version : Nat
  utype : Nat := 1
  abbrevOff : Nat
  asz : Nat
  id8 : Nat := 0             -- dwo_id / type_signature
  typeOff : Nat := 0
  body : Bytes
  deriving Repr

def InfoUnit.fmt (u : InfoUnit) : Nat := if u.fmt64 then 64 else 32
def InfoUnit.offSize (u : InfoUnit) : Nat := if u.fmt64 then 8 else 4
def InfoUnit.ilSize (u : InfoUnit) : Nat := if u.fmt64 then 12 else 4

/-- header bytes after the initial length -/
def unitHdrRest (le : Bool) (u : InfoUnit) : Bytes :=
  if u.version < 5 then
    encNat le 2 u.version ++ (encNat le u.offSize u.abbrevOff ++ encNat le 1 u.asz)
  else
    encNat le 2 u.version ++ (encNat le 1 u.utype ++ (encNat le 1 u.asz ++ (encNat le u.offSize u.abbrevOff ++
      (if u.utype = 4 ∨ u.utype = 5 then encNat le 8 u.id8
       else if u.utype = 2 ∨ u.utype = 6 then encNat le 8 u.id8 ++ encNat le u.offSize u.typeOff
       else []))))

def unitLength (le : Bool) (u : InfoUnit) : Nat := (unitHdrRest le u).length + u.body.length

def encInitialLength (le : Bool) (fmt64 : Bool) (n : Nat) : Bytes :=
  if fmt64 then encNat le 4 0xFFFFFFFF ++ encNat le 8 n else encNat le 4 n

def encUnit (le : Bool) (u : InfoUnit) : Bytes :=
  encInitialLength le u.fmt64 (unitLength le u) ++ (unitHdrRest le u ++ u.body)

def encUnits (le : Bool) (us : List InfoUnit) : Bytes := us.flatMap (encUnit le)

/-- total size of a unit in the section -/
def unitSize (le : Bool) (u : InfoUnit) : Nat := u.ilSize + unitLength le u

def utName : Nat → Option String
  | 1 => some "DW_UT_compile" | 2 => some "DW_UT_type" | 3 => some "DW_UT_partial"
  | 4 => some "DW_UT_skeleton" | 5 => some "DW_UT_split_compile" | 6 => some "DW_UT_split_type"
  | _ => none

/-- the unit header as the library's container -/
def unitHdrVal (le : Bool) (u : InfoUnit) : Val :=
  if u.version < 5 then
    .record [("unit_length", .int (unitLength le u)), ("version", .int u.version),
             ("debug_abbrev_offset", .int u.abbrevOff), ("address_size", .int u.asz)]
  else
    .record ([("unit_length", .int (unitLength le u)), ("version", .int u.version),
              ("unit_type", match utName u.utype with | some s => .str s | none => .int u.utype),
              ("address_size", .int u.asz), ("debug_abbrev_offset", .int u.abbrevOff)] ++
      (if u.utype = 4 ∨ u.utype = 5 then [("dwo_id", .int u.id8)]
       else if u.utype = 2 ∨ u.utype = 6 then [("type_signature", .int u.id8), ("type_offset", .int u.typeOff)]
       else []))

/-- what a unit lookup must report: where the unit starts, where its first DIE starts,
    its extent, its format and its header -/
structure UnitObs where
  off : Nat
  dieOff : Nat
  size : Nat
  fmt : Nat
  hdr : Val

def unitObs (le : Bool) (off : Nat) (u : InfoUnit) : UnitObs :=
  ⟨off, off + u.ilSize + (unitHdrRest le u).length, unitSize le u, u.fmt, unitHdrVal le u⟩

def wfUnit (le : Bool) (u : InfoUnit) : Bool :=
  decide (2 ≤ u.version) && decide (u.version ≤ 5) && (u.asz == 4 || u.asz == 8)
    && decide (u.abbrevOff < 256 ^ u.offSize) && decide (u.id8 < 256 ^ 8) && decide (u.typeOff < 256 ^ u.offSize)
    && (decide (u.version < 5) || (decide (1 ≤ u.utype) && decide (u.utype ≤ 6)))
    && (if u.fmt64 then decide (unitLength le u < 256 ^ 8) else decide (unitLength le u < 0xFFFFFF00))

/-- (start offset, unit) for every unit of the section -/
def unitStarts (le : Bool) : Nat → List InfoUnit → List (Nat × InfoUnit)
  | _, [] => []
  | off, u :: us => (off, u) :: unitStarts le (off + unitSize le u) us

/-- the unit whose extent contains section offset `x` -/
def unitContaining (le : Bool) (us : List InfoUnit) (x : Nat) : Option (Nat × InfoUnit) :=
  (unitStarts le 0 us).find? fun p => decide (p.1 ≤ x ∧ x < p.1 + unitSize le p.2)

/-- the unit starting exactly at `x` -/
def unitAt (le : Bool) (us : List InfoUnit) (x : Nat) : Option (Nat × InfoUnit) :=
  (unitStarts le 0 us).find? fun p => p.1 == x

end PyElf.Spec.Lookup
