/-
  The DWARF on-disk structures, written from DWARF 2–5 (§7.4 initial length,
  §7.5.1 unit headers, §7.5.3 abbreviations, §7.5.6 forms, §6.2.4 line header,
  §6.4.1 CIE/FDE, §7.21 aranges, §7.19 name tables, §7.26–7.29 v5 tables) and the
  GNU extensions the library names.  Field names are the library's API.
-/
import PyElf.Spec.ElfStructs
namespace PyElf.Spec
open PyElf

def ifc (c : Expr) (t : Con) (e : Con := .value .none) : Con := .ifThenElse c t e

def dwarfStructs (c : DwarfCfg) : DwarfStructs :=
  let le := c.le
  let u8 := Con.uint 1 le
  let u16 := Con.uint 2 le
  let u24 := Con.u24 le
  let u32 := Con.uint 4 le
  let u64 := Con.uint 8 le
  let off := Con.uint (c.fmt / 8) le               -- section offsets / lengths: 4 or 8 bytes by DWARF format
  let addr := Con.uint c.asz le                    -- target address
  let ilen := Con.initialLength le
  let block (lenf : Con) : Con := .prefixed lenf u8
  let v5 : Expr := .ge (ctx "version") (lit 5)
  let cuBody4 := st [f "debug_abbrev_offset" off, f "address_size" u8]
  let cuCP := st [f "address_size" u8, f "debug_abbrev_offset" off]
  let cuSS := st [f "address_size" u8, f "debug_abbrev_offset" off, f "dwo_id" u64]
  let cuTS := st [f "address_size" u8, f "debug_abbrev_offset" off, f "type_signature" u64, f "type_offset" off]
  let cuBody5 := st [
    f "unit_type" (enumOf u8 "ENUM_DW_UT" false),
    emb (.switch (ctx "unit_type") (mkCases [
      (.str "DW_UT_compile", cuCP), (.str "DW_UT_partial", cuCP),
      (.str "DW_UT_skeleton", cuSS), (.str "DW_UT_split_compile", cuSS),
      (.str "DW_UT_type", cuTS), (.str "DW_UT_split_type", cuTS)]) .noDefault)]
  let fileEntry := st [
    f "name" .cstring,
    emb (ifc (.truthy (ctx "name")) (st [f "dir_index" .uleb, f "mtime" .uleb, f "length" .uleb]))]
  let entryFormat := st [f "content_type" (enumOf .uleb "ENUM_DW_LNCT" false), f "form" (enumOf .uleb "ENUM_DW_FORM")]
  let cie := st [
    f "length" ilen, f "CIE_id" off, f "version" u8, f "augmentation" .cstring,
    f "address_size" (ifc (.ge (ctx "version") (lit 4)) u8),
    f "segment_size" (ifc (.ge (ctx "version") (lit 4)) u8),
    f "code_alignment_factor" .uleb, f "data_alignment_factor" .sleb,
    f "return_address_register" (.ifThenElse (.gt (ctx "version") (lit 1)) .uleb u8)]
  let cld := block .uleb                            -- counted location description
  let listHeader := st [
    f "cu_offset" .streamOffset, f "unit_length" ilen, f "is64" (.value (ctx "is64")),
    f "offset_after_length" .streamOffset, f "version" u16, f "address_size" u8,
    f "segment_selector_size" u8, f "offset_count" u32, f "offset_table_offset" .streamOffset]
  let listEntry (table : String) (cases : List (Val × Con)) : Con :=
    .repeatUntilExcl (.eq (.objFld "entry_type") (.str (if table = "ENUM_DW_LLE" then "DW_LLE_end_of_list" else "DW_RLE_end_of_list")))
      (st [f "entry_offset" .streamOffset, f "entry_type" (enumOf u8 table false),
           emb (.switch (ctx "entry_type") (mkCases cases) .noDefault),
           f "entry_end_offset" .streamOffset,
           f "entry_length" (.value (.sub (ctx "entry_end_offset") (ctx "entry_offset")))])
  { Dwarf_uint8 := u8, Dwarf_uint16 := u16, Dwarf_uint24 := u24, Dwarf_uint32 := u32, Dwarf_uint64 := u64,
    Dwarf_int8 := .sint 1 le, Dwarf_int16 := .sint 2 le, Dwarf_int32 := .sint 4 le, Dwarf_int64 := .sint 8 le,
    Dwarf_offset := off, Dwarf_length := off, Dwarf_target_addr := addr,
    Dwarf_uleb128 := .uleb, Dwarf_sleb128 := .sleb, Dwarf_initial_length := ilen,
    the_Dwarf_offset := off, the_Dwarf_target_addr := addr, the_Dwarf_uint32 := u32, the_Dwarf_uint16 := u16,
    the_Dwarf_uint8 := u8, the_Dwarf_uleb128 := .uleb, the_Dwarf_sleb128 := .sleb,
    Dwarf_CU_header := st [f "unit_length" ilen, f "version" u16, emb (.ifThenElse v5 cuBody5 cuBody4)],
    Dwarf_TU_header := st [f "unit_length" ilen, f "version" u16, f "debug_abbrev_offset" off,
                           f "address_size" u8, f "signature" u64, f "type_offset" off],
    Dwarf_abbrev_declaration := st [
      f "tag" (enumOf .uleb "ENUM_DW_TAG"), f "children_flag" (enumOf u8 "ENUM_DW_CHILDREN" false),
      f "attr_spec" (.repeatUntilExcl
        (.and (.eq (.objFld "name") (.str "DW_AT_null")) (.eq (.objFld "form") (.str "DW_FORM_null")))
        (st [f "name" (enumOf .uleb "ENUM_DW_AT"), f "form" (enumOf .uleb "ENUM_DW_FORM"),
             f "value" (ifc (.eq (ctx "form") (.str "DW_FORM_implicit_const")) .sleb)]))],
    Dwarf_debugsup := st [f "version" (.sint 2 le), f "is_supplementary" u8, f "sup_filename" .cstring],
    Dwarf_debugaltlink := st [f "sup_filename" .cstring, f "sup_checksum" (.bytesN (lit 20))],
    Dwarf_aranges_header := st [f "unit_length" ilen, f "version" u16, f "debug_info_offset" off,
                                f "address_size" u8, f "segment_size" u8],
    Dwarf_nameLUT_header := st [f "unit_length" ilen, f "version" u16, f "debug_info_offset" off,
                                f "debug_info_length" off],
    Dwarf_string_offsets_table_header := st [f "unit_length" ilen, f "version" u16, f "padding" u16],
    Dwarf_address_table_header := st [f "unit_length" ilen, f "version" u16, f "address_size" u8,
                                      f "segment_selector_size" u8],
    Dwarf_lineprog_file_entry := fileEntry,
    Dwarf_lineprog_header := st [
      f "unit_length" ilen, f "version" u16,
      f "address_size" (ifc v5 u8), f "segment_selector_size" (ifc v5 u8),
      f "header_length" off, f "minimum_instruction_length" u8,
      f "maximum_operations_per_instruction" (.ifThenElse (.ge (ctx "version") (lit 4)) u8 (.value (lit 1))),
      f "default_is_stmt" u8, f "line_base" (.sint 1 le), f "line_range" u8, f "opcode_base" u8,
      f "standard_opcode_lengths" (.array (.sub (ctx "opcode_base") (lit 1)) u8),
      f "directory_entry_format" (ifc v5 (.prefixed u8 entryFormat)),
      f "directories" (ifc v5 (.prefixed .uleb (.formatted "directory_entry_format"))),
      f "file_name_entry_format" (ifc v5 (.prefixed u8 entryFormat)),
      f "file_names" (ifc v5 (.prefixed .uleb (.formatted "file_name_entry_format"))),
      f "include_directory" (ifc (.lt (ctx "version") (lit 5)) (.repeatUntilExcl (.eq .obj (.bytesLit [])) .cstring)),
      f "file_entry" (ifc (.lt (ctx "version") (lit 5)) (.repeatUntilExcl (.not (.objFld "name")) fileEntry))],
    Dwarf_CIE_header := cie, EH_CIE_header := cie,
    Dwarf_FDE_header := st [f "length" ilen, f "CIE_pointer" off, f "initial_location" addr, f "address_range" addr],
    Dwarf_loclists_CU_header := listHeader, Dwarf_rnglists_CU_header := listHeader,
    Dwarf_loclists_counted_location_description := cld,
    Dwarf_locview_pair := st [f "entry_offset" .streamOffset, f "begin" .uleb, f "end" .uleb],
    Dwarf_loclists_entries := listEntry "ENUM_DW_LLE" [
      (.str "DW_LLE_end_of_list", st []),
      (.str "DW_LLE_base_addressx", st [f "index" .uleb]),
      (.str "DW_LLE_startx_endx", st [f "start_index" .uleb, f "end_index" .uleb, f "loc_expr" cld]),
      (.str "DW_LLE_startx_length", st [f "start_index" .uleb, f "length" .uleb, f "loc_expr" cld]),
      (.str "DW_LLE_offset_pair", st [f "start_offset" .uleb, f "end_offset" .uleb, f "loc_expr" cld]),
      (.str "DW_LLE_default_location", st [f "loc_expr" cld]),
      (.str "DW_LLE_base_address", st [f "address" addr]),
      (.str "DW_LLE_start_end", st [f "start_address" addr, f "end_address" addr, f "loc_expr" cld]),
      (.str "DW_LLE_start_length", st [f "start_address" addr, f "length" .uleb, f "loc_expr" cld])],
    Dwarf_rnglists_entries := listEntry "ENUM_DW_RLE" [
      (.str "DW_RLE_end_of_list", st []),
      (.str "DW_RLE_base_addressx", st [f "index" .uleb]),
      (.str "DW_RLE_startx_endx", st [f "start_index" .uleb, f "end_index" .uleb]),
      (.str "DW_RLE_startx_length", st [f "start_index" .uleb, f "length" .uleb]),
      (.str "DW_RLE_offset_pair", st [f "start_offset" .uleb, f "end_offset" .uleb]),
      (.str "DW_RLE_base_address", st [f "address" addr]),
      (.str "DW_RLE_start_end", st [f "start_address" addr, f "end_address" addr]),
      (.str "DW_RLE_start_length", st [f "start_address" addr, f "length" .uleb])],
    -- DWARF 5 §7.5.6 (table 7.6) and the GNU alt forms; sorted by name
    forms := [
      ("DW_FORM_GNU_ref_alt", off), ("DW_FORM_GNU_strp_alt", off),
      ("DW_FORM_addr", addr), ("DW_FORM_addrx", .uleb), ("DW_FORM_addrx1", u8), ("DW_FORM_addrx2", u16),
      ("DW_FORM_addrx3", u24), ("DW_FORM_addrx4", u32),
      ("DW_FORM_block", block .uleb), ("DW_FORM_block1", block u8), ("DW_FORM_block2", block u16),
      ("DW_FORM_block4", block u32),
      ("DW_FORM_data1", u8), ("DW_FORM_data16", .array (lit 16) u8), ("DW_FORM_data2", u16), ("DW_FORM_data4", u32),
      ("DW_FORM_data8", u64),
      ("DW_FORM_exprloc", block .uleb), ("DW_FORM_flag", u8), ("DW_FORM_flag_present", .bytesN (lit 0)),
      ("DW_FORM_implicit_const", Con.absent), ("DW_FORM_indirect", .uleb),
      ("DW_FORM_line_strp", off), ("DW_FORM_loclistx", .uleb),
      ("DW_FORM_ref1", u8), ("DW_FORM_ref2", u16), ("DW_FORM_ref4", u32), ("DW_FORM_ref8", u64),
      -- DWARF 2: an address; DWARF 3+: an offset in the DWARF format's width
      ("DW_FORM_ref_addr", if c.ver = 2 then addr else off),
      ("DW_FORM_ref_sig8", u64), ("DW_FORM_ref_sup4", u32), ("DW_FORM_ref_sup8", u64), ("DW_FORM_ref_udata", .uleb),
      ("DW_FORM_rnglistx", .uleb), ("DW_FORM_sdata", .sleb), ("DW_FORM_sec_offset", off),
      ("DW_FORM_string", .cstring), ("DW_FORM_strp", off), ("DW_FORM_strp_sup", off),
      ("DW_FORM_strx", .uleb), ("DW_FORM_strx1", u8), ("DW_FORM_strx2", u16), ("DW_FORM_strx3", u24),
      ("DW_FORM_strx4", u32), ("DW_FORM_udata", .uleb)] }

def allDwarfCfgs : List DwarfCfg :=
  [true, false].flatMap fun le =>
    [32, 64].flatMap fun fmt =>
      [4, 8].flatMap fun asz =>
        [2, 3, 4, 5].map fun ver => ⟨le, fmt, asz, ver⟩

def ehabiStructs (le : Bool) : EhabiStructs :=
  { EHABI_uint32 := .uint 4 le,
    EH_index_struct := st [f "word0" (.uint 4 le), f "word1" (.uint 4 le)],
    EH_table_struct := st [f "word0" (.uint 4 le)] }

end PyElf.Spec
