/-
  C17 — vocabulary of the registry side (standards side; no construct, no streams).

  A registry is an association list  name key ↦ accepted values.  Names are compared
  through their Nat key  int.from_bytes(name, 'big')  (kernel String equality is three
  orders of magnitude slower than Nat equality).  The vendored data (Spec/Registry.lean)
  is stored as a binary search tree whose in-order listing IS the association list; the
  properties are stated on the list (`alookup`), evaluated on the tree (`RTree.lookup`).
-/
namespace PyElf.Spec

/-- `int.from_bytes(name.encode(), 'big')` -/
def nameKey (s : String) : Nat := s.toUTF8.toList.foldl (fun a b => a * 256 + b.toNat) 0

inductive RTree where
  | leaf : RTree
  | node (l : RTree) (key : Nat) (name : String) (values : List Int) (r : RTree) : RTree

namespace RTree

def lookup : RTree → Nat → Option (List Int)
  | .leaf, _ => none
  | .node l k _ vs r, q =>
    match Nat.blt q k with
    | true => l.lookup q
    | false =>
      match Nat.blt k q with
      | true => r.lookup q
      | false => some vs

/-- in-order listing: the association list the tree stands for -/
def toList : RTree → List (Nat × List Int)
  | .leaf => []
  | .node l k _ vs r => l.toList ++ (k, vs) :: r.toList

/-- with names, for the driver / registry tie -/
def toNamed : RTree → List (String × Nat × List Int)
  | .leaf => []
  | .node l k n vs r => l.toNamed ++ (n, k, vs) :: r.toNamed

/-- search-tree invariant: every key in [lo, hi), left keys below, right keys above -/
def bounded (lo hi : Nat) : RTree → Bool
  | .leaf => true
  | .node l k _ _ r => Nat.ble lo k && (Nat.blt k hi && (bounded lo k l && bounded (k + 1) hi r))

end RTree

/-- association-list lookup (first entry with the key) -/
def alookup : List (Nat × List Int) → Nat → Option (List Int)
  | [], _ => none
  | (k, vs) :: rest, q => if q = k then some vs else alookup rest q

/-! ### what C17 says about one library table `T` (name key, value) and a registry `R` -/

/-- every (name, value) of `T` whose name the registry defines carries one of the registry's values
    (a name the registries do not know is not judged) -/
def Conforms (R : List (Nat × List Int)) (T : List (Nat × Int)) : Prop :=
  ∀ k v, (k, v) ∈ T → ∀ vs, alookup R k = some vs → v ∈ vs

/-- the name key `Enum` decoding reports for code `v`: the reverse dict
    `dict((v, k) for k, v in T.items())`, i.e. the LAST name carrying `v` -/
def decodeKey (T : List (Nat × Int)) (v : Int) : Option Nat :=
  T.foldl (fun acc kv => if kv.2 = v then some kv.1 else acc) none

/-- `k` is a registry name for the code `v` -/
def IsStdName (R : List (Nat × List Int)) (k : Nat) (v : Int) : Prop :=
  ∃ vs, alookup R k = some vs ∧ v ∈ vs

/-- decoding direction: whenever the library reports the name `k'` for a code `v` that carries at least one
    registry-defined name in `T`, then `k'` is a registry name for `v` (aliases allowed) — or one of the listed
    legacy aliases `exc`, names the registries do not define at all -/
def DecodesStd (R : List (Nat × List Int)) (exc T : List (Nat × Int)) : Prop :=
  ∀ k' v, decodeKey T v = some k' → (∃ k vs, (k, v) ∈ T ∧ alookup R k = some vs) →
    IsStdName R k' v ∨ ((k', v) ∈ exc ∧ alookup R k' = none)

/-! ### Bool mirrors evaluated by the kernel on the tree -/

def memInt (v : Int) : List Int → Bool
  | [] => false
  | x :: xs => match decide (x = v) with | true => true | false => memInt v xs

def memPair (k : Nat) (v : Int) : List (Nat × Int) → Bool
  | [] => false
  | (k', v') :: xs => match Nat.beq k k', decide (v' = v) with
    | true, true => true
    | _, _ => memPair k v xs

def conformsB (t : RTree) : List (Nat × Int) → Bool
  | [] => true
  | (k, v) :: rest =>
    match t.lookup k with
    | none => conformsB t rest
    | some vs => match memInt v vs with | true => conformsB t rest | false => false

/-- some entry of `T` with value `v` carries a name the registry defines -/
def anyKnown (t : RTree) (v : Int) : List (Nat × Int) → Bool
  | [] => false
  | (k, x) :: rest =>
    match decide (x = v) with
    | true => (match t.lookup k with | some _ => true | none => anyKnown t v rest)
    | false => anyKnown t v rest

def hasValue (v : Int) : List (Nat × Int) → Bool
  | [] => false
  | (_, x) :: rest => match decide (x = v) with | true => true | false => hasValue v rest

/-- what must hold of an entry `(k', v)` that is the LAST one carrying `v` (the reported name) -/
def okLast (t : RTree) (exc T : List (Nat × Int)) (k' : Nat) (v : Int) : Bool :=
  match t.lookup k' with
  | some vs => memInt v vs
  | none => memPair k' v exc || !(anyKnown t v T)

/-- walk the suffixes of `T`: an entry is either shadowed by a later one with the same value (never
    reported) or must satisfy `okLast`.  Registry-known names are judged first (13 comparisons), so the
    two linear walks are only paid for names the registries do not know. -/
def decodesStdB (t : RTree) (exc T : List (Nat × Int)) : List (Nat × Int) → Bool
  | [] => true
  | (k', v) :: rest =>
    match (match t.lookup k' with
           | some vs => memInt v vs || hasValue v rest
           | none => memPair k' v exc || (hasValue v rest || !(anyKnown t v T))) with
    | true => decodesStdB t exc T rest
    | false => false

def listEqB : List (Nat × Int) → List (Nat × Int) → Bool
  | [], [] => true
  | (k, v) :: a, (k', v') :: b => Nat.beq k k' && (decide (v = v') && listEqB a b)
  | _, _ => false

def subsetB (M T : List (Nat × Int)) : Bool := M.all fun kv => memPair kv.1 kv.2 T
def coversB (T M : List (Nat × Int)) : Bool := T.all fun kv => hasValue kv.2 M

/-- `M` (a code ↦ name map stored as (name key, code)) only reports pairs of `T`, and has an entry for every code of `T` -/
def ReverseConsistent (M T : List (Nat × Int)) : Prop :=
  (∀ k v, (k, v) ∈ M → (k, v) ∈ T) ∧ (∀ k v, (k, v) ∈ T → ∃ k', (k', v) ∈ M)

/-- evaluated form: identical lists (the usual case: no two names share a code) or the quadratic check -/
def reverseConsistentB (M T : List (Nat × Int)) : Bool :=
  listEqB M T || (subsetB M T && coversB T M)

end PyElf.Spec
