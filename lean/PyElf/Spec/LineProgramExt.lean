/-
  DWARF line-number information, additions to Spec/LineProgram.lean (written from the standard,
  DWARF 2–5 §6.2.4 / §6.2.5.1):

  * `header_length` is "the number of bytes following the header_length field to the beginning of
    the first byte of the line number program itself" (§6.2.4 item 6 in DWARF 5): a unit may carry
    bytes the standard does not define (a vendor extension, padding) between the last table of
    the header and the program, covered by `header_length`.  `encodeUnitX h ext body` is such a
    unit; the program is `body`, it starts `header_length` bytes past the field.
  * encodability of a header (`Params.WFenc`, `Header.WFenc`): the field ranges only, without the
    standard's requirements on the values (`maximum_operations_per_instruction ≥ 1`,
    `line_range ≥ 1`, the operand counts of the twelve standard opcodes).
  * the two divisions of the state machine (§6.2.5.1): by `line_range` (special opcodes,
    DW_LNS_const_add_pc) and by `maximum_operations_per_instruction` (every operation advance):
    `Instr.divZero p i` says instruction `i` divides by a header field that is 0.
-/
import PyElf.Spec.LineProgram
namespace PyElf.Spec.Line
open PyElf PyElf.Spec

/-! ### units whose `header_length` covers more than the fields the standard defines -/

/-- from `version` up to and including `header_length`, when `ext` follows the tables -/
def Header.midX (h : Header) (ext : Bytes) : Bytes :=
  encNat h.p.le 2 h.version
  ++ (if h.version ≥ 5 then [byte h.p.asz, byte h.segSel] else [])
  ++ encNat h.p.le (offSize h.fmt64) (h.tail.length + ext.length)

/-- a unit: initial length, the header fields, `ext` (covered by `header_length`), then the
    program bytes `body`; `unit_length` and `header_length` are what the layout makes them -/
def encodeUnitX (h : Header) (ext body : Bytes) : Bytes :=
  let b := h.midX ext ++ h.tail ++ ext ++ body
  encInitLen h.p.le (initLenOf h.fmt64 b.length) ++ b

/-- where the program starts inside the unit: `header_length` bytes past the `header_length` field -/
def headerSizeX (h : Header) (ext : Bytes) : Nat :=
  initLenSize h.fmt64 + (h.midX ext).length + (h.tail.length + ext.length)

/-! ### encodability -/

/-- every parameter fits its field; nothing is said about the values being meaningful -/
def Params.WFenc (p : Params) (ver : Nat) : Bool :=
  decide (p.minInst < 256) && decide (p.maxOps < 256)
  -- the field exists from DWARF 4 on; before, the value is 1 by definition
  && (decide (4 ≤ ver) || decide (p.maxOps = 1))
  && decide (p.defaultIsStmt < 256) && decide (-128 ≤ p.lineBase) && decide (p.lineBase < 128)
  && decide (p.lineRange < 256)
  && decide (1 ≤ p.opcodeBase) && decide (p.opcodeBase < 256)
  && decide (p.stdLens.length = p.opcodeBase - 1) && p.stdLens.all (· < 256)

def Header.WFenc (h : Header) (secs : StrSecs) : Bool :=
  decide (2 ≤ h.version) && decide (h.version ≤ 5) && h.p.WFenc h.version
  && (decide (h.p.asz = 4) || decide (h.p.asz = 8)) && decide (h.segSel < 256)
  && (if h.version ≥ 5 then
        fmtWF h.dirFmt && fmtWF h.fileFmt
        && decide (h.dirs ≠ []) && decide (h.fileNames ≠ [])
        && h.dirs.all (entryWF h.fmt64 secs (kindsOf h.dirFmt))
        && h.fileNames.all (entryWF h.fmt64 secs (kindsOf h.fileFmt))
      else
        h.includeDirs.all (fun s => decide (s ≠ []) && cstrOk s) && h.files.all FileEntry.WF)

/-- the unit `encodeUnitX h ext body` is encodable: fields in range, tables well-formed,
    `header_length` and `unit_length` fit their fields -/
def unitWFX (h : Header) (secs : StrSecs) (ext body : Bytes) : Bool :=
  h.WFenc secs && decide (h.tail.length + ext.length < 2 ^ 32)
  && decide ((h.midX ext ++ h.tail ++ ext ++ body).length < (if h.fmt64 then 2 ^ 64 else 0xFFFFFF00))

/-! ### the divisions of the state machine -/

/-- executing `i` divides by `line_range` (§6.2.5.1: special opcodes; §6.2.5.2 item 8: const_add_pc) -/
def Instr.usesLineRange : Instr → Bool
  | .special _ | .constAddPc => true
  | _ => false

/-- executing `i` performs an operation advance, which divides by
    `maximum_operations_per_instruction` (§6.2.5.1) -/
def Instr.advances : Instr → Bool
  | .special _ | .advancePc _ | .constAddPc => true
  | _ => false

/-- `i` divides by a header field that is zero: the standard's formulas give it no meaning -/
def Instr.divZero (p : Params) (i : Instr) : Bool :=
  (i.usesLineRange && decide (p.lineRange = 0)) || (i.advances && decide (p.maxOps = 0))

/-- a program's instructions are well-formed and none of them divides by zero -/
def progOK (p : Params) (ver : Nat) (is : List Instr) : Bool :=
  is.all fun i => i.WF p ver && !i.divZero p

/-- the operand counts of the opcodes the standard defines are the standard's -/
def Params.stdLensOK (p : Params) : Bool :=
  decide (p.stdLens.take 12 = knownStdLens.take (p.opcodeBase - 1))

/-! ### what must be observed -/

/-- the decoded header (as `Header.observe`), for a unit whose `unit_length` / `header_length`
    fields hold `unitLen` / `hdrLen` -/
def Header.observeG (h : Header) (secs : StrSecs) (unitLen hdrLen : Nat) : Val :=
  let v5 := decide (h.version ≥ 5)
  let opt (v : Val) : Val := if v5 then v else .none
  let dirs := h.dirs.map (entryObs secs h.dirFmt)
  let fns := h.fileNames.map (entryObs secs h.fileFmt)
  .record [
    ("unit_length", .int unitLen),
    ("version", .int h.version),
    ("address_size", opt (.int h.p.asz)),
    ("segment_selector_size", opt (.int h.segSel)),
    ("header_length", .int hdrLen),
    ("minimum_instruction_length", .int h.p.minInst),
    ("maximum_operations_per_instruction", .int h.p.maxOps),
    ("default_is_stmt", .int h.p.defaultIsStmt),
    ("line_base", .int h.p.lineBase),
    ("line_range", .int h.p.lineRange),
    ("opcode_base", .int h.p.opcodeBase),
    ("standard_opcode_lengths", .list (h.p.stdLens.map fun n => .int (Int.ofNat n))),
    ("directory_entry_format", opt (fmtObs h.dirFmt)),
    ("directories", opt (.list (dirs.map .record))),
    ("file_name_entry_format", opt (fmtObs h.fileFmt)),
    ("file_names", opt (.list (fns.map .record))),
    ("include_directory",
      if v5 then .list (dirs.map fun d => getOrNone d "DW_LNCT_path") else .list (h.includeDirs.map .bytes)),
    ("file_entry", if v5 then .list (fns.map legacyFile) else .list (h.files.map FileEntry.obs))]

/-- the decoded header of `encodeUnitX h ext body` -/
def Header.observeX (h : Header) (secs : StrSecs) (ext body : Bytes) : Val :=
  h.observeG secs (h.midX ext ++ h.tail ++ ext ++ body).length (h.tail.length + ext.length)

end PyElf.Spec.Line
