/-
  DWARF line-number information, written from the standard (DWARF 2 §6.2, DWARF 3 §6.2,
  DWARF 4 §6.2, DWARF 5 §6.2): the header (§6.2.4, v5 entry formats §6.2.4.1), the
  instruction set and its encoding (§6.2.5.1 special, §6.2.5.2 standard, §6.2.5.3
  extended opcodes) and the state machine (§6.2.2, §6.2.5) as a reference interpreter.

  Nothing here mentions streams, `Con`, or errors.
-/
import PyElf.Spec.Primitives
import PyElf.Core.Val
namespace PyElf.Spec.Line
open PyElf PyElf.Spec

/-! ### opcode numbers (DWARF 5 §7.22, tables 7.25 and 7.26) -/

def DW_LNS_copy : Nat := 0x01
def DW_LNS_advance_pc : Nat := 0x02
def DW_LNS_advance_line : Nat := 0x03
def DW_LNS_set_file : Nat := 0x04
def DW_LNS_set_column : Nat := 0x05
def DW_LNS_negate_stmt : Nat := 0x06
def DW_LNS_set_basic_block : Nat := 0x07
def DW_LNS_const_add_pc : Nat := 0x08
def DW_LNS_fixed_advance_pc : Nat := 0x09
def DW_LNS_set_prologue_end : Nat := 0x0a
def DW_LNS_set_epilogue_begin : Nat := 0x0b
def DW_LNS_set_isa : Nat := 0x0c
def DW_LNE_end_sequence : Nat := 0x01
def DW_LNE_set_address : Nat := 0x02
def DW_LNE_define_file : Nat := 0x03
def DW_LNE_set_discriminator : Nat := 0x04

/-- number of ULEB128 operands of the twelve standard opcodes (§6.2.5.2); `fixed_advance_pc`
    takes one uhalf operand and is listed with 1 -/
def knownStdLens : List Nat := [0, 1, 1, 1, 1, 0, 0, 0, 1, 0, 0, 1]

/-! ### operands -/

/-- an unsigned LEB128 operand: its value and the number of bytes it is written in
    (producers may pad, §7.6) -/
structure Leb where
  v : Nat
  n : Nat
  deriving Repr, DecidableEq

structure SLeb where
  v : Int
  n : Nat
  deriving Repr, DecidableEq

def Leb.enc (l : Leb) : Bytes := encUlebN l.n l.v
def SLeb.enc (l : SLeb) : Bytes := encSlebN l.n l.v
def Leb.WF (l : Leb) : Bool := decide (1 ≤ l.n) && decide (l.v < 2 ^ (7 * l.n))
def SLeb.WF (l : SLeb) : Bool :=
  decide (1 ≤ l.n) && decide (-((2 ^ (7 * l.n - 1) : Nat) : Int) ≤ l.v) && decide (l.v < ((2 ^ (7 * l.n - 1) : Nat) : Int))

/-! ### header parameters the state machine depends on (§6.2.4 items 5–12) -/

structure Params where
  le : Bool                   -- byte order of the object file
  asz : Nat                   -- size of a target address (operand of DW_LNE_set_address)
  minInst : Nat               -- minimum_instruction_length
  maxOps : Nat                -- maximum_operations_per_instruction (1 before DWARF 4)
  defaultIsStmt : Nat         -- default_is_stmt (ubyte; non-zero = true)
  lineBase : Int
  lineRange : Nat
  opcodeBase : Nat
  stdLens : List Nat          -- standard_opcode_lengths, opcode_base − 1 entries
  deriving Repr, DecidableEq

/-! ### state machine registers = one row of the matrix (§6.2.2) -/

structure Row where
  address : Nat
  opIndex : Nat
  file : Nat
  /-- the standard's `line` is unsigned; `advance_line` adds a signed operand, so the register
      is kept as an integer (a well-formed program never drives it below zero) -/
  line : Int
  column : Nat
  isStmt : Bool
  basicBlock : Bool
  endSequence : Bool
  prologueEnd : Bool
  epilogueBegin : Bool
  isa : Nat
  discriminator : Nat
  deriving Repr, DecidableEq

/-- initial register values (§6.2.2, table 6.4) -/
def Row.init (p : Params) : Row :=
  { address := 0, opIndex := 0, file := 1, line := 1, column := 0, isStmt := decide (p.defaultIsStmt ≠ 0),
    basicBlock := false, endSequence := false, prologueEnd := false, epilogueBegin := false,
    isa := 0, discriminator := 0 }

/-! ### instructions -/

inductive Instr
  /-- special opcode: the opcode byte itself (`opcode_base ≤ op ≤ 255`) -/
  | special (op : Nat)
  | copy
  | advancePc (n : Leb)
  | advanceLine (d : SLeb)
  | setFile (n : Leb)
  | setColumn (n : Leb)
  | negateStmt
  | setBasicBlock
  | constAddPc
  | fixedAdvancePc (n : Nat)
  | setPrologueEnd
  | setEpilogueBegin
  | setIsa (n : Leb)
  /-- a standard opcode this version of the standard does not define (`13 ≤ op < opcode_base`):
      `standard_opcode_lengths[op-1]` ULEB128 operands, to be skipped -/
  | unknownStd (op : Nat) (args : List Leb)
  /-- extended opcodes; `lk` is the number of bytes the instruction length is written in -/
  | endSequence (lk : Nat)
  | setAddress (lk : Nat) (addr : Nat)
  | defineFile (lk : Nat) (name : Bytes) (dir mtime len : Leb)
  | setDiscriminator (lk : Nat) (d : Leb)
  | unknownExt (lk : Nat) (op : Nat) (payload : Bytes)
  deriving Repr

def byte (n : Nat) : UInt8 := UInt8.ofNat n

/-- an extended instruction: 0, ULEB128 length of what follows, the extended opcode, operands -/
def encExt (lk : Nat) (op : Nat) (payload : Bytes) : Bytes :=
  [0] ++ encUlebN lk (1 + payload.length) ++ [byte op] ++ payload

def fileEntryBytes (name : Bytes) (dir mtime len : Leb) : Bytes :=
  name ++ [0] ++ dir.enc ++ mtime.enc ++ len.enc

def lebsEnc : List Leb → Bytes
  | [] => []
  | l :: ls => l.enc ++ lebsEnc ls

def Instr.enc (p : Params) : Instr → Bytes
  | .special op => [byte op]
  | .copy => [byte DW_LNS_copy]
  | .advancePc n => [byte DW_LNS_advance_pc] ++ n.enc
  | .advanceLine d => [byte DW_LNS_advance_line] ++ d.enc
  | .setFile n => [byte DW_LNS_set_file] ++ n.enc
  | .setColumn n => [byte DW_LNS_set_column] ++ n.enc
  | .negateStmt => [byte DW_LNS_negate_stmt]
  | .setBasicBlock => [byte DW_LNS_set_basic_block]
  | .constAddPc => [byte DW_LNS_const_add_pc]
  | .fixedAdvancePc n => [byte DW_LNS_fixed_advance_pc] ++ encNat p.le 2 n
  | .setPrologueEnd => [byte DW_LNS_set_prologue_end]
  | .setEpilogueBegin => [byte DW_LNS_set_epilogue_begin]
  | .setIsa n => [byte DW_LNS_set_isa] ++ n.enc
  | .unknownStd op args => [byte op] ++ lebsEnc args
  | .endSequence lk => encExt lk DW_LNE_end_sequence []
  | .setAddress lk a => encExt lk DW_LNE_set_address (encNat p.le p.asz a)
  | .defineFile lk name dir mtime len => encExt lk DW_LNE_define_file (fileEntryBytes name dir mtime len)
  | .setDiscriminator lk d => encExt lk DW_LNE_set_discriminator d.enc
  | .unknownExt lk op payload => encExt lk op payload

def encodeProgram (p : Params) : List Instr → Bytes
  | [] => []
  | i :: is => i.enc p ++ encodeProgram p is

/-- is standard opcode `op` available under this header (`op < opcode_base`)?  With a small
    `opcode_base` the byte values of the missing standard opcodes are special opcodes. -/
def stdOk (p : Params) (op : Nat) : Bool := decide (op < p.opcodeBase)

def extLenOk (lk : Nat) (payloadLen : Nat) : Bool :=
  decide (1 ≤ lk) && decide (1 + payloadLen < 2 ^ (7 * lk))

/-- well-formed instruction under header parameters `p` in a line table of version `ver` -/
def Instr.WF (p : Params) (ver : Nat) : Instr → Bool
  | .special op => decide (p.opcodeBase ≤ op) && decide (op ≤ 255)
  | .copy => stdOk p DW_LNS_copy
  | .advancePc n => stdOk p DW_LNS_advance_pc && n.WF
  | .advanceLine d => stdOk p DW_LNS_advance_line && d.WF
  | .setFile n => stdOk p DW_LNS_set_file && n.WF
  | .setColumn n => stdOk p DW_LNS_set_column && n.WF
  | .negateStmt => stdOk p DW_LNS_negate_stmt
  | .setBasicBlock => stdOk p DW_LNS_set_basic_block
  | .constAddPc => stdOk p DW_LNS_const_add_pc
  | .fixedAdvancePc n => stdOk p DW_LNS_fixed_advance_pc && decide (n < 65536)
  | .setPrologueEnd => stdOk p DW_LNS_set_prologue_end
  | .setEpilogueBegin => stdOk p DW_LNS_set_epilogue_begin
  | .setIsa n => stdOk p DW_LNS_set_isa && n.WF
  | .unknownStd op args =>
      decide (13 ≤ op) && stdOk p op && decide (p.stdLens[op - 1]? = some args.length) && args.all Leb.WF
  | .endSequence lk => extLenOk lk 0
  | .setAddress lk a => extLenOk lk p.asz && decide (a < 256 ^ p.asz)
  | .defineFile lk name dir mtime len =>
      -- DW_LNE_define_file exists in DWARF 2–4 only (reserved in DWARF 5, §6.2.5.3)
      decide (ver ≤ 4) && decide (name ≠ []) && name.all (· != 0) && dir.WF && mtime.WF && len.WF
        && extLenOk lk (fileEntryBytes name dir mtime len).length
  | .setDiscriminator lk d => d.WF && extLenOk lk d.n
  | .unknownExt lk op payload =>
      decide (op < 256) && decide (op ≠ DW_LNE_end_sequence) && decide (op ≠ DW_LNE_set_address)
        && decide (op ≠ DW_LNE_define_file) && decide (op ≠ DW_LNE_set_discriminator)
        && extLenOk lk payload.length

/-! ### the state machine (§6.2.5) -/

/-- advance `address` and `op_index` by an operation advance (§6.2.5.1) -/
def Row.advance (p : Params) (r : Row) (opAdv : Nat) : Row :=
  { r with address := r.address + p.minInst * ((r.opIndex + opAdv) / p.maxOps),
           opIndex := (r.opIndex + opAdv) % p.maxOps }

/-- after a row is appended: `discriminator = 0`, `basic_block = prologue_end = epilogue_begin = false` -/
def Row.afterAppend (r : Row) : Row :=
  { r with discriminator := 0, basicBlock := false, prologueEnd := false, epilogueBegin := false }

/-- one instruction: the new registers and the row it appends to the matrix, if any -/
def stdStep (p : Params) (r : Row) : Instr → Row × Option Row
  | .special op =>
      let adj := op - p.opcodeBase
      let r1 := r.advance p (adj / p.lineRange)
      let r2 := { r1 with line := r1.line + (p.lineBase + ((adj % p.lineRange : Nat) : Int)) }
      (r2.afterAppend, some r2)
  | .copy => (r.afterAppend, some r)
  | .advancePc n => (r.advance p n.v, none)
  | .advanceLine d => ({ r with line := r.line + d.v }, none)
  | .setFile n => ({ r with file := n.v }, none)
  | .setColumn n => ({ r with column := n.v }, none)
  | .negateStmt => ({ r with isStmt := !r.isStmt }, none)
  | .setBasicBlock => ({ r with basicBlock := true }, none)
  | .constAddPc => (r.advance p ((255 - p.opcodeBase) / p.lineRange), none)
  | .fixedAdvancePc n => ({ r with address := r.address + n, opIndex := 0 }, none)
  | .setPrologueEnd => ({ r with prologueEnd := true }, none)
  | .setEpilogueBegin => ({ r with epilogueBegin := true }, none)
  | .setIsa n => ({ r with isa := n.v }, none)
  | .unknownStd _ _ => (r, none)
  | .endSequence _ => (Row.init p, some { r with endSequence := true })
  | .setAddress _ a => ({ r with address := a, opIndex := 0 }, none)
  | .defineFile _ _ _ _ _ => (r, none)
  | .setDiscriminator _ d => ({ r with discriminator := d.v }, none)
  | .unknownExt _ _ _ => (r, none)

def stdRunFrom (p : Params) : Row → List Instr → List Row
  | _, [] => []
  | r, i :: is =>
    match stdStep p r i with
    | (r', some row) => row :: stdRunFrom p r' is
    | (r', none) => stdRunFrom p r' is

/-- the matrix a line-number program denotes -/
def stdRun (p : Params) (is : List Instr) : List Row := stdRunFrom p (Row.init p) is

/-- entries DW_LNE_define_file adds to the file table, in program order -/
structure FileEntry where
  name : Bytes
  dir : Leb
  mtime : Leb
  len : Leb
  deriving Repr, DecidableEq

def definedFiles : List Instr → List FileEntry
  | [] => []
  | .defineFile _ name dir mtime len :: is => ⟨name, dir, mtime, len⟩ :: definedFiles is
  | _ :: is => definedFiles is

/-! ### the header (§6.2.4) -/

/-- content type codes (§6.2.4.1, table 7.27) -/
def lnctName : Nat → Option String
  | 1 => some "DW_LNCT_path"
  | 2 => some "DW_LNCT_directory_index"
  | 3 => some "DW_LNCT_timestamp"
  | 4 => some "DW_LNCT_size"
  | 5 => some "DW_LNCT_MD5"
  | _ => none

/-- how a v5 entry field is written, by form (§7.5.6); only the forms §6.2.4.1 allows for
    some content type, outside split DWARF -/
inductive FormKind
  | string            -- DW_FORM_string: inline NUL-terminated
  | lineStrp          -- offset into .debug_line_str
  | strp              -- offset into .debug_str
  | strpSup           -- offset into the supplementary file's .debug_str
  | data (n : Nat)    -- DW_FORM_data1/2/4/8
  | udata
  | data16
  | block             -- ULEB128 length + bytes
  deriving Repr, DecidableEq

/-- form codes (table 7.6) -/
def formOf : Nat → Option (String × FormKind)
  | 0x08 => some ("DW_FORM_string", .string)
  | 0x1f => some ("DW_FORM_line_strp", .lineStrp)
  | 0x0e => some ("DW_FORM_strp", .strp)
  | 0x1d => some ("DW_FORM_strp_sup", .strpSup)
  | 0x0b => some ("DW_FORM_data1", .data 1)
  | 0x05 => some ("DW_FORM_data2", .data 2)
  | 0x06 => some ("DW_FORM_data4", .data 4)
  | 0x07 => some ("DW_FORM_data8", .data 8)
  | 0x0f => some ("DW_FORM_udata", .udata)
  | 0x1e => some ("DW_FORM_data16", .data16)
  | 0x09 => some ("DW_FORM_block", .block)
  | _ => none

/-- which forms each content type may use (§6.2.4.1 items 1–5) -/
def formAllowed : Nat → FormKind → Bool
  | 1, .string | 1, .lineStrp | 1, .strp | 1, .strpSup => true
  | 2, .data 1 | 2, .data 2 | 2, .udata => true
  | 3, .udata | 3, .data 4 | 3, .data 8 | 3, .block => true
  | 4, .udata | 4, .data 1 | 4, .data 2 | 4, .data 4 | 4, .data 8 => true
  | 5, .data16 => true
  | _, _ => false

/-- one field of a v5 directory / file-name entry -/
inductive FieldVal
  | str (s : Bytes)                    -- DW_FORM_string
  | ref (off : Nat)                    -- DW_FORM_line_strp / strp / strp_sup
  | fixed (v : Nat)                    -- DW_FORM_dataN
  | udata (l : Leb)
  | data16 (bs : Bytes)
  | block (lk : Nat) (bs : Bytes)
  deriving Repr, DecidableEq

/-- the string sections a v5 header may refer to -/
structure StrSecs where
  lineStr : Bytes
  str : Bytes
  sup : Option Bytes        -- .debug_str of the supplementary object file, if one is attached
  deriving Repr

structure Header where
  version : Nat
  fmt64 : Bool                        -- 64-bit DWARF format
  segSel : Nat                        -- segment_selector_size (v5)
  p : Params
  includeDirs : List Bytes            -- v2–4
  files : List FileEntry              -- v2–4
  dirFmt : List (Nat × Nat)           -- v5: (content type code, form code)
  dirs : List (List FieldVal)
  fileFmt : List (Nat × Nat)
  fileNames : List (List FieldVal)
  deriving Repr

/-- length of the minimal ULEB128 encoding (structural: `fuel = v` always suffices) -/
def ulebLenF : Nat → Nat → Nat
  | 0, _ => 1
  | fuel+1, v => if v < 128 then 1 else 1 + ulebLenF fuel (v / 128)

/-- minimal ULEB128 -/
def encUleb (v : Nat) : Bytes := encUlebN (ulebLenF v v) v

def offSize (fmt64 : Bool) : Nat := if fmt64 then 8 else 4

def FieldVal.enc (le fmt64 : Bool) : FormKind → FieldVal → Bytes
  | .string, .str s => s ++ [0]
  | .lineStrp, .ref o | .strp, .ref o | .strpSup, .ref o => encNat le (offSize fmt64) o
  | .data n, .fixed v => encNat le n v
  | .udata, .udata l => l.enc
  | .data16, .data16 bs => bs
  | .block, .block lk bs => encUlebN lk bs.length ++ bs
  | _, _ => []

def kindsOf (fmt : List (Nat × Nat)) : List (Option FormKind) :=
  fmt.map fun (_, fc) => (formOf fc).map (·.2)

def entryEnc (le fmt64 : Bool) : List (Option FormKind) → List FieldVal → Bytes
  | some k :: ks, v :: vs => v.enc le fmt64 k ++ entryEnc le fmt64 ks vs
  | _, _ => []

def fmtEnc (fmt : List (Nat × Nat)) : Bytes :=
  [byte fmt.length] ++ fmt.flatMap fun (ct, fc) => encUleb ct ++ encUleb fc

def entriesEnc (le fmt64 : Bool) (fmt : List (Nat × Nat)) (es : List (List FieldVal)) : Bytes :=
  encUleb es.length ++ es.flatMap (entryEnc le fmt64 (kindsOf fmt))

def FileEntry.enc (e : FileEntry) : Bytes := fileEntryBytes e.name e.dir e.mtime e.len

/-- everything after `header_length`: parameters and tables -/
def Header.tail (h : Header) : Bytes :=
  [byte h.p.minInst] ++ (if h.version ≥ 4 then [byte h.p.maxOps] else [])
  ++ [byte h.p.defaultIsStmt, byte (ofSigned 8 h.p.lineBase), byte h.p.lineRange, byte h.p.opcodeBase]
  ++ h.p.stdLens.map byte
  ++ (if h.version ≥ 5 then
        fmtEnc h.dirFmt ++ entriesEnc h.p.le h.fmt64 h.dirFmt h.dirs
        ++ fmtEnc h.fileFmt ++ entriesEnc h.p.le h.fmt64 h.fileFmt h.fileNames
      else
        (h.includeDirs.flatMap fun s => s ++ [0]) ++ [0]
        ++ (h.files.flatMap FileEntry.enc) ++ [0])

/-- from `version` up to and including `header_length` -/
def Header.mid (h : Header) : Bytes :=
  encNat h.p.le 2 h.version
  ++ (if h.version ≥ 5 then [byte h.p.asz, byte h.segSel] else [])
  ++ encNat h.p.le (offSize h.fmt64) h.tail.length

def initLenOf (fmt64 : Bool) (n : Nat) : InitLen := if fmt64 then .dwarf64 n else .dwarf32 n
def initLenSize (fmt64 : Bool) : Nat := if fmt64 then 12 else 4

/-- one line-number program as it sits in .debug_line: header followed by the instructions;
    `unit_length` and `header_length` are what the layout makes them -/
def encodeUnit (h : Header) (is : List Instr) : Bytes :=
  let body := h.mid ++ h.tail ++ encodeProgram h.p is
  encInitLen h.p.le (initLenOf h.fmt64 body.length) ++ body

def headerSize (h : Header) : Nat := initLenSize h.fmt64 + h.mid.length + h.tail.length

/-! ### well-formedness -/

def cstrOk (s : Bytes) : Bool := s.all (· != 0)

def FileEntry.WF (e : FileEntry) : Bool :=
  decide (e.name ≠ []) && cstrOk e.name && e.dir.WF && e.mtime.WF && e.len.WF

def Params.WF (p : Params) (ver : Nat) : Bool :=
  decide (p.minInst < 256) && decide (1 ≤ p.maxOps) && decide (p.maxOps < 256)
  && (decide (4 ≤ ver) || decide (p.maxOps = 1))
  && decide (p.defaultIsStmt < 256) && decide (-128 ≤ p.lineBase) && decide (p.lineBase < 128)
  && decide (1 ≤ p.lineRange) && decide (p.lineRange < 256)
  && decide (1 ≤ p.opcodeBase) && decide (p.opcodeBase < 256)
  && decide (p.stdLens.length = p.opcodeBase - 1) && p.stdLens.all (· < 256)
  -- the operand counts of the opcodes the standard defines are the standard's
  && decide (p.stdLens.take 12 = knownStdLens.take (p.opcodeBase - 1))

def resolve (secs : StrSecs) : FormKind → Nat → Option Bytes
  | .lineStrp, o => firstNul (secs.lineStr.drop o)
  | .strp, o => firstNul (secs.str.drop o)
  | .strpSup, o => secs.sup.bind fun s => firstNul (s.drop o)
  | _, _ => none

def FieldVal.WF (fmt64 : Bool) (secs : StrSecs) : FormKind → FieldVal → Bool
  | .string, .str s => cstrOk s
  | .lineStrp, .ref o => decide (o < 256 ^ offSize fmt64) && (resolve secs .lineStrp o).isSome
  | .strp, .ref o => decide (o < 256 ^ offSize fmt64) && (resolve secs .strp o).isSome
  | .strpSup, .ref o => decide (o < 256 ^ offSize fmt64) && (resolve secs .strpSup o).isSome
  | .data n, .fixed v => decide (v < 256 ^ n)
  | .udata, .udata l => l.WF
  | .data16, .data16 bs => decide (bs.length = 16)
  | .block, .block lk bs => decide (1 ≤ lk) && decide (bs.length < 2 ^ (7 * lk))
  | _, _ => false

def entryWF (fmt64 : Bool) (secs : StrSecs) : List (Option FormKind) → List FieldVal → Bool
  | [], [] => true
  | some k :: ks, v :: vs => v.WF fmt64 secs k && entryWF fmt64 secs ks vs
  | _, _ => false

/-- an entry format: known content types, each once, with a form the standard allows for it,
    and `DW_LNCT_path` present (every directory and file has a path) -/
def fmtWF (fmt : List (Nat × Nat)) : Bool :=
  decide (fmt.length < 256)
  && fmt.all (fun (ct, fc) => (lnctName ct).isSome &&
      match formOf fc with
      | some (_, k) => formAllowed ct k
      | none => false)
  && (fmt.map (·.1)).Nodup
  && (fmt.map (·.1)).contains 1

def Header.WF (h : Header) (secs : StrSecs) : Bool :=
  decide (2 ≤ h.version) && decide (h.version ≤ 5) && h.p.WF h.version
  && (decide (h.p.asz = 4) || decide (h.p.asz = 8)) && decide (h.segSel < 256)
  && decide (h.tail.length < 2 ^ 32)
  && (if h.version ≥ 5 then
        fmtWF h.dirFmt && fmtWF h.fileFmt
        -- "the first entry is the current directory / the primary source file" (§6.2.4 items 18, 20)
        && decide (h.dirs ≠ []) && decide (h.fileNames ≠ [])
        && h.dirs.all (entryWF h.fmt64 secs (kindsOf h.dirFmt))
        && h.fileNames.all (entryWF h.fmt64 secs (kindsOf h.fileFmt))
      else
        h.includeDirs.all (fun s => decide (s ≠ []) && cstrOk s) && h.files.all FileEntry.WF)

def unitWF (h : Header) (secs : StrSecs) (is : List Instr) : Bool :=
  h.WF secs && is.all (Instr.WF h.p h.version)
  && decide ((h.mid ++ h.tail ++ encodeProgram h.p is).length < (if h.fmt64 then 2 ^ 64 else 0xFFFFFF00))

/-! ### what the property says must be observed (as the library's canonical values) -/

def bytesList (bs : Bytes) : Val := .list (bs.map fun b => .int b.toNat)

def FileEntry.obs (e : FileEntry) : Val :=
  .record [("name", .bytes e.name), ("dir_index", .int e.dir.v), ("mtime", .int e.mtime.v), ("length", .int e.len.v)]

def FieldVal.obs (secs : StrSecs) : FormKind → FieldVal → Val
  | .string, .str s => .bytes s
  | k, .ref o => match resolve secs k o with
                 | some s => .bytes s
                 | none => .none
  | _, .fixed v => .int v
  | _, .udata l => .int l.v
  | _, .data16 bs => bytesList bs
  | _, .block _ bs => bytesList bs
  | _, _ => .none

def entryObs (secs : StrSecs) : List (Nat × Nat) → List FieldVal → List (String × Val)
  | (ct, fc) :: fs, v :: vs =>
    match lnctName ct, formOf fc with
    | some nm, some (_, k) => (nm, v.obs secs k) :: entryObs secs fs vs
    | _, _ => []
  | _, _ => []

def fmtObs (fmt : List (Nat × Nat)) : Val :=
  .list (fmt.map fun (ct, fc) =>
    .record [("content_type", match lnctName ct with | some n => .str n | none => .int ct),
             ("form", match formOf fc with | some (n, _) => .str n | none => .int fc)])

def getOrNone (fs : List (String × Val)) (k : String) : Val :=
  match Fields.get? fs k with
  | some v => v
  | none => .none

/-- the v2–4 shaped file entry the library derives from a v5 file-name entry -/
def legacyFile (fs : List (String × Val)) : Val :=
  .record [("name", getOrNone fs "DW_LNCT_path"), ("dir_index", getOrNone fs "DW_LNCT_directory_index"),
           ("mtime", getOrNone fs "DW_LNCT_timestamp"), ("length", getOrNone fs "DW_LNCT_size")]

/-- the decoded header: every field of §6.2.4 in order, then the v2–4 shaped tables -/
def Header.observe (h : Header) (secs : StrSecs) (is : List Instr) : Val :=
  let v5 := decide (h.version ≥ 5)
  let opt (v : Val) : Val := if v5 then v else .none
  let dirs := h.dirs.map (entryObs secs h.dirFmt)
  let fns := h.fileNames.map (entryObs secs h.fileFmt)
  .record [
    ("unit_length", .int (h.mid ++ h.tail ++ encodeProgram h.p is).length),
    ("version", .int h.version),
    ("address_size", opt (.int h.p.asz)),
    ("segment_selector_size", opt (.int h.segSel)),
    ("header_length", .int h.tail.length),
    ("minimum_instruction_length", .int h.p.minInst),
    ("maximum_operations_per_instruction", .int h.p.maxOps),
    ("default_is_stmt", .int h.p.defaultIsStmt),
    ("line_base", .int h.p.lineBase),
    ("line_range", .int h.p.lineRange),
    ("opcode_base", .int h.p.opcodeBase),
    ("standard_opcode_lengths", .list (h.p.stdLens.map fun n => .int (Int.ofNat n))),
    ("directory_entry_format", opt (fmtObs h.dirFmt)),
    ("directories", opt (.list (dirs.map .record))),
    ("file_name_entry_format", opt (fmtObs h.fileFmt)),
    ("file_names", opt (.list (fns.map .record))),
    ("include_directory",
      if v5 then .list (dirs.map fun d => getOrNone d "DW_LNCT_path") else .list (h.includeDirs.map .bytes)),
    ("file_entry", if v5 then .list (fns.map legacyFile) else .list (h.files.map FileEntry.obs))]

end PyElf.Spec.Line
