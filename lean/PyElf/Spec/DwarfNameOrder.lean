/-
  Standards side of C13, name tables with REPEATED names.

  DWARF (§6.1.1) does not forbid a name from occurring in several entries of
  `.debug_pubnames` / `.debug_pubtypes` (overloads, the same name in several units).  The
  library presents the table as an insertion-ordered mapping name → entry, filled by
  `entries[name] = …` in encoded order, i.e. Python `dict` semantics:

    * the keys are the distinct names, in the order of their FIRST occurrence;
    * each key carries the value of its LAST occurrence.

  This file says that declaratively (no fold, no update function).
-/
import PyElf.Spec.DwarfLookup
namespace PyElf.Spec.Lookup
open PyElf

/-- the distinct keys in order of first occurrence: a key is kept where it first appears and
    removed from everything behind -/
def firstKeys : List Bytes → List Bytes
  | [] => []
  | k :: ks => k :: (firstKeys ks).filter (fun k' => k' != k)

/-- the value paired with the LAST occurrence of `k` -/
def lastValue? {V} (ps : List (Bytes × V)) (k : Bytes) : Option V := assocGet? ps.reverse k

/-- the content of an insertion-ordered mapping filled with the pairs in order (computable form) -/
def orderedLastWins {V} (ps : List (Bytes × V)) : List (Bytes × V) :=
  (firstKeys (ps.map (·.1))).filterMap fun k => (lastValue? ps k).map fun v => (k, v)

/-- the same as a predicate on an item list `m`, without reference to any algorithm:
    the keys of `m` are distinct, are exactly the encoded names, appear in the order in which the
    names FIRST occur in `ps`, and `(k, v)` is an item iff the LAST pair of `ps` with key `k` is `(k, v)` -/
structure OrderedLastWins {V} (ps m : List (Bytes × V)) : Prop where
  nodup : (m.map (·.1)).Nodup
  keys : ∀ k, k ∈ m.map (·.1) ↔ k ∈ ps.map (·.1)
  order : (m.map (·.1)).Pairwise fun a b => (ps.map (·.1)).idxOf a < (ps.map (·.1)).idxOf b
  value : ∀ k v, (k, v) ∈ m ↔ ∃ pre post, ps = pre ++ (k, v) :: post ∧ ∀ p ∈ post, p.1 ≠ k

end PyElf.Spec.Lookup
