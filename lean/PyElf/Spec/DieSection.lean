/-
  C04, standards side, whole sections: a FOREST description — the abbreviation tables of
  `.debug_abbrev` (each placed anywhere: arbitrary bytes may lie between tables; several units may
  name the same table), the units of `.debug_info` (DWARF 2–5 §7.5.1.1: any version, format, unit
  type) and the type units of `.debug_types` (DWARF 4 §7.5.1.2), each with the tree of its entries —
  and the encoders of the three sections.  The unit header's `debug_abbrev_offset` is the offset the
  unit's table has in the encoded `.debug_abbrev`.

  Nothing here mentions streams, `Con` or errors.
-/
import PyElf.Spec.DieTree
namespace PyElf.Spec.C04
open PyElf PyElf.Spec

/-- an abbreviation table as it lies in `.debug_abbrev`: `gap` = the bytes between the end of the
    previous table (or the start of the section) and the table's first declaration -/
structure TableDesc where
  gap : Bytes := []
  decls : List AbbrevDecl
  endLen : Nat := 1
  deriving Repr, Inhabited

def encTable (t : TableDesc) : Bytes := t.gap ++ encAbbrevs t.decls t.endLen

/-- `.debug_abbrev` -/
def encTables (ts : List TableDesc) : Bytes := ts.flatMap encTable

/-- section offset of the first declaration of table `i` -/
def tableOff : List TableDesc → Nat → Nat
  | [], _ => 0
  | t :: _, 0 => t.gap.length
  | t :: ts, i+1 => (encTable t).length + tableOff ts i

/-- a unit: header parameters, the index of its abbreviation table, the tree of its entries.
    `utype` matters for version 5 only, `id8` = dwo_id / type signature, `typeOff` = type_offset. -/
structure UnitDesc where
  fmt64 : Bool
  version : Nat
  utype : Nat := 1
  asz : Nat
  id8 : Nat := 0
  typeOff : Nat := 0
  table : Nat
  tree : Tree
  deriving Repr, Inhabited

structure Forest where
  le : Bool
  tables : List TableDesc
  units : List UnitDesc := []      -- `.debug_info`
  tus : List UnitDesc := []        -- `.debug_types`
  secs : Sections := {}
  deriving Repr, Inhabited

/-- a DWARF 5 type unit placed in `.debug_info` (DW_UT_type = 2, DW_UT_split_type = 6): the units a
    DW_FORM_ref_sig8 value may designate besides those of `.debug_types` -/
def UnitDesc.isTypeV5 (u : UnitDesc) : Bool := decide (5 ≤ u.version) && (u.utype == 2 || u.utype == 6)

def UnitDesc.cfg (le : Bool) (u : UnitDesc) : DwarfCfg := ⟨le, if u.fmt64 then 64 else 32, u.asz, u.version⟩

/-- the unit of `.debug_info` as C13's `InfoUnit` (header fields + the bytes behind the header) -/
def infoUnitOf (F : Forest) (u : UnitDesc) : Lookup.InfoUnit :=
  { fmt64 := u.fmt64, version := u.version, utype := u.utype, abbrevOff := tableOff F.tables u.table, asz := u.asz,
    id8 := u.id8, typeOff := u.typeOff, body := encTree (u.cfg F.le) u.tree }

def tuHeaderOf (F : Forest) (u : UnitDesc) : TUHeader :=
  { fmt64 := u.fmt64, version := u.version, abbrevOff := tableOff F.tables u.table, asz := u.asz,
    signature := u.id8, typeOff := u.typeOff }

/-- `.debug_info` -/
def infoSec (F : Forest) : Bytes := Lookup.encUnits F.le (F.units.map (infoUnitOf F))

def encTUOf (F : Forest) (u : UnitDesc) : Bytes := encTU F.le (tuHeaderOf F u) (encTree (u.cfg F.le) u.tree)

/-- `.debug_types` -/
def typesSec (F : Forest) : Bytes := F.tus.flatMap (encTUOf F)

/-- (section offset, unit) for the units of `.debug_info` laid out from `off` -/
def placeInfo (F : Forest) : Nat → List UnitDesc → List (Nat × UnitDesc)
  | _, [] => []
  | off, u :: us => (off, u) :: placeInfo F (off + Lookup.unitSize F.le (infoUnitOf F u)) us

/-- … of `.debug_types` -/
def placeTypes (F : Forest) : Nat → List UnitDesc → List (Nat × UnitDesc)
  | _, [] => []
  | off, u :: us => (off, u) :: placeTypes F (off + (encTUOf F u).length) us

/-- offset of the first entry of a unit of `.debug_info` placed at `off` -/
def infoDieOff (F : Forest) (off : Nat) (u : UnitDesc) : Nat :=
  off + (infoUnitOf F u).ilSize + (Lookup.unitHdrRest F.le (infoUnitOf F u)).length

/-- … of a type unit of `.debug_types` -/
def typesDieOff (F : Forest) (off : Nat) (u : UnitDesc) : Nat :=
  off + (tuHeaderOf F u).ilSize + (tuHdrRest F.le (tuHeaderOf F u)).length

/-! ### well-formedness, decidable -/

deriving instance DecidableEq for AttrSpec
deriving instance DecidableEq for AbbrevDecl

/-- resolved value of (form, raw value) with `None` where the reference dangles (well-formed units have none) -/
def resolveD (c : DwarfCfg) (secs : Sections) (b : Bases) : Val → Val → Val :=
  fun f r => (resolve c secs b f r).getD .none

/-- the attribute names a declaration lists are presented differently from one another -/
def distinctAtB (nm : Names) : List AttrSpec → Bool
  | [] => true
  | s :: ss => ss.all (fun s' => !(nm.at_ s.name == nm.at_ s'.name)) && distinctAtB nm ss

/-- every value that has an operand resolves -/
def resolvesAllB (c : DwarfCfg) (secs : Sections) (b : Bases) (nm : Names) : List AttrSpec → List AttrV → Bool
  | s :: ss, a :: as =>
    (s.form == FORM_implicit_const || (resolve c secs b (nm.form a.form) (rawVal a.op)).isSome)
      && resolvesAllB c secs b nm ss as
  | _, _ => true

/-- a node against the table `t` of its unit: it instantiates a declaration of the table, names are
    distinct, values resolve with the bases `b` of the unit's top entry -/
def nodeInB (nm : Names) (c : DwarfCfg) (secs : Sections) (b : Bases) (t : TableDesc) (x : Node) : Bool :=
  t.decls.contains x.decl && distinctAtB nm x.decl.specs && resolvesAllB c secs b nm x.decl.specs x.attrs

mutual
def treeAllB (q : Node → Bool) : Tree → Bool
  | .mk n kids _ => q n && forestAllB q kids
def forestAllB (q : Node → Bool) : List Tree → Bool
  | [] => true
  | t :: ts => treeAllB q t && forestAllB q ts
end

/-- a unit placed at `cuOff` with its first entry at `dieOff` -/
def wfUnitDescB (nm : Names) (F : Forest) (u : UnitDesc) (cuOff dieOff : Nat) : Bool :=
  (match F.tables[u.table]? with
   | some t => treeAllB (nodeInB nm (u.cfg F.le) F.secs (basesOf u.tree.root) t) u.tree
   | none => false)
    && wfTree (u.cfg F.le) u.tree
    && sibsOk nm (u.cfg F.le) (resolveD (u.cfg F.le) F.secs (basesOf u.tree.root)) cuOff dieOff u.tree

def secList (s : Sections) : List Bytes :=
  [s.str, s.lineStr, s.addr, s.strOffsets, s.loclists, s.rnglists].filterMap id

/--
  Well-formedness of a forest description, relative to how the registry presents numbers (`nm`):
  every abbreviation table is well formed (§7.5.3: distinct non-zero codes, LEB128 numbers in range);
  every unit header is (version 2–5, address size 4 | 8, unit type 1–6 for version 5, fields in range of
  their encoding); every unit names a table of the forest and every node of its tree instantiates a
  declaration of that table with operands in range (`wfTree`), distinct attribute names, values that
  resolve; DW_AT_sibling designates the next sibling; every section is shorter than 2^63 bytes.
-/
def wfForestB (nm : Names) (F : Forest) : Bool :=
  F.tables.all (fun t => wfAbbrevs t.decls t.endLen)
    && decide ((encTables F.tables).length ≤ 2 ^ 63) && decide ((infoSec F).length ≤ 2 ^ 63)
    && decide ((typesSec F).length ≤ 2 ^ 63) && (secList F.secs).all (fun s => decide (s.length < 2 ^ 63))
    && F.units.all (fun u => Lookup.wfUnit F.le (infoUnitOf F u))
    && F.tus.all (fun u => wfTU F.le (tuHeaderOf F u) (encTree (u.cfg F.le) u.tree))
    && (placeInfo F 0 F.units).all (fun p => wfUnitDescB nm F p.2 p.1 (infoDieOff F p.1 p.2))
    && (placeTypes F 0 F.tus).all (fun p => wfUnitDescB nm F p.2 p.1 (typesDieOff F p.1 p.2))

end PyElf.Spec.C04
